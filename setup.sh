#!/bin/sh
# Run once after a fresh restore, offline: builds the extractor, the harness (against /repo's working
# tree, -tags verif), regenerates the facts and kernel-checks the whole Lean project, builds the driver.
set -e
cd "$(dirname "$0")"
export GOFLAGS=-mod=mod GOPROXY=off GOSUMDB=off GOTOOLCHAIN=local
mkdir -p .build evidence replays
python3 - <<'PY'
import sys
sys.path.insert(0, '.')
from vlib import common
ok, msg = common.regen_facts()
print("facts:", ok, msg)
ok2, msg2 = common.build_harness()
print("harness:", ok2, msg2)
sys.exit(0 if ok and ok2 else 1)
PY
cd lean
lake build Crng driver $(ls Crng/Props/*.lean Crng/Tie/*.lean | sed 's/\.lean$//; s#/#.#g') 2>&1 | grep -v "^warning\|^Hint\|^  \[apply\]\|^Note\|^$\|linter\|^  " | tail -20
test -x .lake/build/bin/driver
