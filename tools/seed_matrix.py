#!/usr/bin/env python3
"""run every kept seeded change through its property's check (quick tier) and record the outcome in seeded/<id>/meta.json
and seeded/RESULTS.md. Applies each patch to /repo, runs the check, and restores /repo straight afterwards."""
import json, os, re, subprocess, sys, time
V = os.path.dirname(os.path.dirname(os.path.abspath(__file__)))
rows = []
only = sys.argv[1:]
for d in sorted(os.listdir(os.path.join(V, "seeded"))):
    p = os.path.join(V, "seeded", d)
    if not os.path.isdir(p) or (only and d not in only):
        continue
    meta = json.load(open(os.path.join(p, "meta.json")))
    patch = os.path.join(p, "patch_rebased.diff" if os.path.exists(os.path.join(p, "patch_rebased.diff")) else "patch.diff")
    pid = meta["property"]
    t0 = time.time()
    try:
        out = subprocess.run(["timeout", "2400", os.path.join(V, "tools", "try_seed.sh"), patch, pid], capture_output=True, timeout=2500).stdout.decode("utf-8", "replace")
    except subprocess.TimeoutExpired:
        out = "TIMEOUT"
        subprocess.run(["git", "-C", "/repo", "checkout", "--", "."])
    viol = "VIOLATION" in out
    nowit = "no-failing-input-found" in out
    kinds = sorted(set(re.findall(r"PROBLEM \[([^\]]+)\]", out)))
    ties = sorted(set(re.findall(r"OBLIGATION FAILED \[([^\]]+)\]", out)))
    first = next((l.strip()[:300] for l in out.split("\n") if "PROBLEM" in l), "")
    meta["check_result"] = {"detected": viol, "failing_input_found": viol and not nowit, "problem_kinds": kinds, "failed_obligation_kinds": ties,
                            "first_problem": first, "wall_s": round(time.time() - t0)}
    json.dump(meta, open(os.path.join(p, "meta.json"), "w"), indent=1)
    rows.append((d, pid, viol, viol and not nowit, ",".join(ties), first))
    print(d, "DETECTED" if viol else "MISSED", "witness" if viol and not nowit else "", flush=True)
with open(os.path.join(V, "seeded", "RESULTS.md"), "a" if only else "w") as f:
    if not only:
        f.write("| seeded change | check | detected | failing input found | failed obligation kinds | first problem |\n|---|---|---|---|---|---|\n")
    for r in rows:
        f.write("| %s | %s | %s | %s | %s | %s |\n" % (r[0], r[1], "yes" if r[2] else "NO", "yes" if r[3] else "no", r[4], r[5].replace("|", "/")[:200]))
