#!/usr/bin/env python3
"""validate a seeded change delivered by a sub-agent: tools/validate_seed.py <Cxx> <variant>
(1) patch applies to /repo HEAD in a scratch worktree, (2) go build + the existing suite pass with it,
(3) the demonstration fails with it and (4) passes without it. Writes /verif/seeded/<Cxx>-<variant>/."""
import json, os, re, shutil, subprocess, sys
V = os.path.dirname(os.path.dirname(os.path.abspath(__file__)))
pid, var = sys.argv[1], sys.argv[2]
src = "%s/%s/%s" % (os.environ.get("SEED_SRC", "/tmp/seed/out"), pid, var)
wt = "/tmp/sv/%s-%s" % (pid, var)
env = dict(os.environ, GOFLAGS="-mod=mod", GOPROXY="off", GOSUMDB="off", GOTOOLCHAIN="local")

def sh(cmd, cwd=None, timeout=1500):
    p = subprocess.run(cmd, shell=True, cwd=cwd, env=env, capture_output=True, timeout=timeout)
    return p.returncode, (p.stdout + p.stderr).decode("utf-8", "replace")

os.makedirs("/tmp/sv", exist_ok=True)
sh("git -C /repo worktree remove --force %s" % wt)
rc, o = sh("git -C /repo worktree add -q --detach %s HEAD" % wt)
assert rc == 0, o
meta = {"property": pid, "variant": var, "source": "independent sub-agent given only the property text" + (" and one line each about the two earlier changes (round 2)" if var in ("c", "d", "e", "f") else "")}
patchname = "patch_rebased.diff" if os.path.exists(src + "/patch_rebased.diff") else "patch.diff"
meta["patch"] = patchname + (" (the sub-agent's patch.diff, re-based by hand onto a later fix: commit of /repo that touched the same lines)" if patchname != "patch.diff" else "")
try:
    readme = open(src + "/README.md").read()
    # locate the demo and its command
    m = re.search(r"go test[^\n`]*-run\s+(\S+)[^\n`]*?\s(\./\S+)", readme)
    demo = src + "/demo_test.go"
    isprog = not os.path.exists(demo)
    if m:
        runpat, pkg = m.group(1).strip("'\""), m.group(2).rstrip("/`.,)")
    else:
        runpat, pkg = None, None
    meta["demo_cmd"] = "go test -vet=off -count=1 %s -run '%s' %s/" % ("-tags verif" if "-tags verif" in readme else "", runpat, pkg)
    rc, o = sh("git apply --check %s/%s && git apply %s/%s" % (src, patchname, src, patchname), cwd=wt)
    meta["applies"] = rc == 0
    if rc != 0:
        meta["error"] = o[-500:]
        raise SystemExit
    rc, o = sh("git diff --stat", cwd=wt); meta["files"] = o.strip().splitlines()
    rc, o = sh("go build ./... ", cwd=wt); meta["builds"] = rc == 0
    rc, o = sh("go test -vet=off -count=1 ./... 2>&1 | grep -v 'no test files'", cwd=wt)
    meta["suite_passes_with_patch"] = ("FAIL" not in o) and ("ok" in o)
    if not meta["suite_passes_with_patch"]:
        meta["suite_output"] = o[-1500:]
    if pkg and not isprog:
        dst = os.path.join(wt, pkg, "zz_demo_test.go")
        shutil.copyfile(demo, dst)
        rc, o = sh(meta["demo_cmd"], cwd=wt, timeout=900)
        meta["demo_fails_with_patch"] = rc != 0
        meta["demo_output_with_patch"] = o[-800:]
        sh("git apply -R %s/%s" % (src, patchname), cwd=wt)
        rc, o = sh(meta["demo_cmd"], cwd=wt, timeout=900)
        meta["demo_passes_without_patch"] = rc == 0
        if rc != 0:
            meta["demo_output_without_patch"] = o[-800:]
    else:
        meta["note"] = "demo placement not recognised automatically; see README"
finally:
    sh("git -C /repo worktree remove --force %s" % wt)
    out = os.path.join(V, "seeded", "%s-%s" % (pid, var))
    os.makedirs(out, exist_ok=True)
    for fn in os.listdir(src):
        if os.path.isfile(os.path.join(src, fn)):
            shutil.copyfile(os.path.join(src, fn), os.path.join(out, fn))
    meta["valid"] = bool(meta.get("applies") and meta.get("builds") and meta.get("suite_passes_with_patch") and meta.get("demo_fails_with_patch") and meta.get("demo_passes_without_patch"))
    json.dump(meta, open(os.path.join(out, "meta.json"), "w"), indent=1)
    print(pid, var, "VALID" if meta["valid"] else "NOT-VALID", {k: v for k, v in meta.items() if isinstance(v, bool)})
