#!/bin/sh
# tools/try_seed.sh <patch.diff> <Cxx> [tier]: apply a seeded change to /repo, run the check, undo the change
P="$1"; ID="$2"; TIER="${3:-quick}"
cd /verif
git -C /repo apply "$P" || { echo "patch does not apply"; exit 2; }
./check "$ID" --tier "$TIER" > /tmp/try_seed.$$.out 2>&1; RC=$?
git -C /repo checkout -- . 
grep -E "^(OK|VIOLATION|KNOWN)|PROBLEM|OBLIGATION FAILED" /tmp/try_seed.$$.out | cut -c1-400
rm -f /tmp/try_seed.$$.out
echo "rc=$RC"
