#!/bin/sh
# kernel-check every property, tie and driver module (run before committing Lean or extractor changes)
cd /verif/lean
MODS=$(ls Crng/Props/*.lean Crng/Tie/*.lean | sed 's/\.lean$//; s#/#.#g')
lake build Crng driver $MODS 2>&1 | grep "error\|Build completed\|failures" | head -20
