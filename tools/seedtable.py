#!/usr/bin/env python3
"""rewrite the seeded-changes table in DESIGN.md (between the SEED-TABLE markers) from seeded/*/meta.json"""
import json, os, re
V = os.path.dirname(os.path.dirname(os.path.abspath(__file__)))
rows = []
for d in sorted(os.listdir(os.path.join(V, "seeded"))):
    p = os.path.join(V, "seeded", d, "meta.json")
    if not os.path.exists(p):
        continue
    m = json.load(open(p))
    c = m.get("check_result", {})
    title = open(os.path.join(V, "seeded", d, "README.md")).readline().strip().lstrip("# ").strip()
    title = re.sub(r"^C\d\d\s*/?\s*variant [a-e]\s*[-—–:]\s*", "", title)
    how = "failing input" if c.get("failing_input_found") else ("obligation only (" + ", ".join(c.get("failed_obligation_kinds", [])) + ")" if c.get("detected") else "—")
    rows.append("| %s | %s | %s | %s |" % (d, title[:120].replace("|", "/"), "yes" if c.get("detected") else "**no**", how))
tab = "<!-- SEED-TABLE-BEGIN -->\n| change | what it does | detected | how |\n|---|---|---|---|\n" + "\n".join(rows) + "\n<!-- SEED-TABLE-END -->"
p = os.path.join(V, "DESIGN.md")
s = open(p).read()
if "SEED_TABLE_PLACEHOLDER" in s:
    s = s.replace("SEED_TABLE_PLACEHOLDER", tab)
else:
    s = re.sub(r"<!-- SEED-TABLE-BEGIN -->.*?<!-- SEED-TABLE-END -->", lambda _: tab, s, flags=re.S)
open(p, "w").write(s)
print(len(rows), "rows")
