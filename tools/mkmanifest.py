#!/usr/bin/env python3
"""writes /verif/MANIFEST.json from the table below (single source of truth for what is claimed)"""
import json, os
V = os.path.dirname(os.path.dirname(os.path.abspath(__file__)))

CLAIMED = {
    # id: (technique, level text, level note, design_ref)
    "C01": ("Lean 4 theorems about a model of Table.Dispatch and the route Dispatch loops (arbitrary filters) + exact differential validation against real tables",
            "proof: Crng.Props.C01.routes_exact, unroutable_iff, sendAll_exact, sendFirst_exact, blacklisted_nowhere, outcome_partition for every table and line. Correspondence (spec-exact stream): generated tables (blacklist, rewriters incl. regex rules, aggregators, capture / sendAllMatch / sendFirstMatch routes whose down destinations are identified by their drop counters) x generated lines: routes, destinations, delivered line and the in/invalid/blacklist/unroutable counters identical on the real table and the model; a disagreement is reported with the shrunk line as failing input.",
            "trusted: Lean kernel; harness+driver plumbing; model-side regex engine Crng/Rx.lean (validated against Go regexp in C03's rx stream); kafka/pubsub/cloudwatch/grafanaNet/consistent-hashing routes only through their Match; delivery inside a destination is C05-C07.", "§5 C01"),
    "C02": ("Lean 4 theorems about the validation gate of Table.Dispatch over a byte-level transcription of go-metrics20 ValidatePacket and a model of the bad-metrics map + regenerated facts + differential validation",
            "proof: Crng.Props.C02.gate_iff, invalid_effects, valid_proceeds, forwarded_only_if_valid, bad_report. Regenerated obligations (Crng.Tie.C02): level-name maps and defaults as UnmarshalText/NewConfig have them, the validate -> bad.Add -> numInvalid -> return block with the two configured levels in order, numIn exactly once, nothing forwarded before the gate, the bad-metrics goroutine serialises add/clean/get. Correspondence (spec-exact): ValidatePacket vs the transcription on grammar-directed byte strings (UTF-8 spaces, tag appendix, = / _is_, NUL / 8-bit, every float spelling) x 3x2 levels; real tables at every level combination given as config text, counters and bad-metrics report.",
            "trusted: Lean kernel; harness+driver plumbing; strconv.ParseFloat is transcribed (acceptance only) and validated differentially; BadMetrics timing is a logical clock; uint32(float64) of out-of-range timestamps is implementation-defined in Go and only compared on accept/reject.", "§5 C02"),
    "C03": ("Lean 4 theorems: prefix soundness over all regex ASTs, Match = six-condition conjunction, cache transparency over all histories; regenerated call-site facts; differential validation of matcher, prefix derivation and table-level filters",
            "proof: Crng.Props.C03.soundPrefix_sound, prefixOK_of_le, match_eq_conj6, agg_filter_complete, cache_transparent. Regenerated obligations (Crng.Tie.C03): all five Match call sites of the dispatch path pass the name; the aggregator consults PreMatch and MatchRegexAndExpand; the match cache is keyed by the name. Correspondence: real Matcher.Match vs model on generated option sets; derived prefix (read by reflection) <+: soundPrefix of the tree Go's parser produced, on names generated from that tree; table-level filters that could hit value/timestamp text; cache on/off. Monitors: conj6 with Go regexp directly; every matched name starts with the derived prefix.",
            "trusted: Lean kernel; harness+driver plumbing; Go's regexp/syntax parser (string -> tree) and matcher are external: the AST theorem is tied per sampled source; cache expiry timing is modelled as arbitrary deletions.", "§5 C03, App. C"),
    "C04": ("Lean 4 theorems about the delivered line and bytes.Replace-style literal rewriting + regenerated data-flow facts + differential validation with buffer overwriting while points are queued",
            "proof: Crng.Props.C04.final_shape, literal_first, literal_absent, literal_max_zero, not_clause_skips. Regenerated obligations (Crng.Tie.C04): Table.Dispatch uses its parameter only in len() and copy(); flow copy -> Fields -> rewriters -> AddMaybe / Join(\" \") -> route.Dispatch; RW.Do skeleton. Correspondence (spec-exact): whitespace layouts x numeric spellings x rewriter lists (literal with every max incl. adversarial rescans, /regex/ with ${n}, not-clauses); the caller's buffer is overwritten right after Dispatch returns, also while points sit in the input queue of parked aggregators; captured slices and aggregate output are re-read afterwards. Monitor: three single-space fields, value/timestamp byte-identical, nothing mutated after hand-off.",
            "trusted: Lean kernel; harness+driver plumbing; regex rules run on Go regexp (real) vs Crng/Rx.lean (model, validated in C03); the reader-side buffer reuse of input.Plain is covered in C12's harness.", "§5 C04"),
    "C05": ("Lean 4 theorems over all op sequences / buffer sizes / socket behaviours of a statement-level model of destination/bufwriter.go and Conn.Write + exact differential validation against the real Writer, Pickle and a real Destination on loopback",
            "proof: Crng.Props.C05.stream_invariant, socket_prefix, healthy_stream, healthy_lines, pickle_frame (+ Crng.Pk.unpickle_pickle). Correspondence: real destination.Writer under scripted full/short/failing sockets (nn, err, Buffered, socket bytes after every op), destination.Pickle bytes, and a real Destination -> loopback endpoint (iobuf from 1 byte, connbuf, flush 1..50 ms, lines up to 3x iobuf) byte-identical to the model; model-free monitors check order/once/newline/length-prefix and drop accounting.",
            "trusted: Lean kernel; harness+driver plumbing; kernel TCP delivers what was written; the interleaving of HandleData's select is explored by timing only (the theorem covers every interleaving of writes and flushes of the model).", "§5 C05"),
    "C10": ("Lean 4 invariant proof over all histories of points and ticks of a model of aggregator.AddOrCreate/Flush (generic processor) + differential validation of the executable aggregator model (ten processors, %f) against aggregator.NewMocked",
            "proof: Crng.Props.C10.emit_once, emit_ascending, late_is_counted (every rule, every history under a non-decreasing clock), carried to the executable model by step_eq/emitted_eq. Correspondence: boundary-aimed histories (on/around quantized == now-wait, out-of-order, late) x ten functions x intervals/waits produce identical output lines and too-old counts on the real aggregator (injected clock/tick, Snapshot barrier) and the model; monitor: no bucket twice, ascending, count conservation.",
            "trusted: Lean kernel; harness+driver plumbing; Go float arithmetic and sort; emit_value (the numeric formulas) is validated by the differential run, not proved; cache and capture-group expansion are covered under C03.", "§5 C10, App. D"),
    "C11": ("Lean 4 theorems about DispatchAggregate and the aggregator loop of Table.Dispatch + regenerated facts + differential validation with feedback of aggregator output through Table.In",
            "proof: Crng.Props.C11.aggregate_only_routes, aggregate_routes_exact, no_amplification, dropraw_exact (complete six-condition filter, via C03.agg_filter_complete), consumed_withheld, others_unaffected. Regenerated obligations (Crng.Tie.C11): Table.In feeds DispatchAggregate only; DispatchAggregate is the route loop; AddMaybe confirms the match before the hand-off and reports drop-raw after it; Dispatch returns on drop-raw. Correspondence (spec-exact): tables with drop-raw, self-matching and chained aggregations plus blacklist entries and rewriters aimed at the aggregate names; each aggregator emission is fed back through Table.In and its routing compared.",
            "trusted: Lean kernel; harness+driver plumbing; aggregator timing (flush ticks) is injected; numeric aggregation itself is C10.", "§5 C11"),
    "C12": ("Lean 4 theorem: for every stream and every segmentation the incremental scanner model yields the lines of the concatenation (induction over the chunk list); ReadLine model for AMQP; + regenerated handler skeletons + differential validation behind a chunking reader and through the real listener",
            "proof: Crng.Props.C12.chunk_invariance (all streams x all segmentations incl. empty reads and data+EOF/error), limit_exact (max-1 whole, max errors; 65536 for TCP/UDP), amqp_whole_lines (ReadLine with a 4096-byte buffer = newline-delimited lines when lines fit). Regenerated obligations (Crng.Tie.C12): Plain.Handle = default bufio.Scanner + Dispatch(scanner.Bytes()) per Scan + scanner.Err(); one reader per UDP datagram; AMQP NewReaderSize(4096)+ReadLine loop; TimeoutConn.Read delegates once; one handler call per TCP connection. Correspondence (spec-exact): real Plain.Handle / AMQP consume loop behind a chunking reader: every cut position and pair of cuts for short streams, random cuts, one-byte and empty reads, data+EOF, deadline expiring mid-line, lines at 65535/65536 and 4095/4096 bytes; python monitor splits the stream independently. Real input.Listener over loopback UDP/TCP with a slow dispatcher (datagrams arriving while earlier ones are handled).",
            "trusted: Lean kernel; harness+driver plumbing; bufio.Scanner and bufio.Reader.ReadLine are modelled and validated here; a read error ends the connection, what was delivered before it is the stream; observation (not a violation): the AMQP path keeps the CR of a final unterminated line, which the dispatcher's field splitting ignores.", "§5 C12"),
    "C15": ("Lean 4 theorems: the Go ring lookup (sorted by Less, sort.Search modulo length) equals Carbon's rule on the set of entries, for any position function; order independence; minimal movement; + regenerated constants/shape facts + three-way differential validation (real route, Lean model with Lean MD5, python transcription of Carbon)",
            "proof: Crng.Props.C15.lookup_eq_carbon, owner_unique, order_independent, one_destination, add_minimal, remove_minimal, addr_split (kernel-checked for every node list, replica count and position function). Regenerated obligations (Crng.Tie.C15): 100 replicas; replica key pieces; first two MD5 bytes big-endian; Less; Search predicate >= and modulo; hasher rebuilt by constructor/Add/DelDestination; key = text before the first space. Correspondence (spec-exact): the real ConsistentHashing route on node sets with/without ports and instances (1..30 nodes, so that different nodes share ring positions), permutations of the listing order, add/remove histories; Lean MD5 vs crypto/md5. Monitor: carbon 0.9.x ConsistentHashRing transcribed in python, plus minimal-movement checks.",
            "trusted: Lean kernel; harness+driver plumbing; Carbon's algorithm as transcribed (0.9.x: insort of (position, (server, instance)), bisect_left, None sorts before strings); sort.Sort returns a Less-sorted permutation.", "§5 C15"),
    "C16": ("Lean 4 theorems: unpickle(pickle dp) = dp for all datapoints (byte-level model of og-rek's output + a pickle VM), storage-schemas rule selection, presented name, record fields + regenerated skeleton facts + differential validation incl. CPython's unpickler",
            "proof: Crng.Props.C16.unpickle_pickle, length_prefix, rule_selection, presented_untagged, presented_tagged, record_fields. Regenerated obligations (Crng.Tie.C16): Pickle / ParseDataPoint / parseMetric skeletons (tuple shape, big-endian length, tag sort, presented-name construction, first retention, Validate), priority key p<<32-i, Less >=, first match. Correspondence (spec-exact): ParseDataPoint+Pickle bytes identical to the model (names around 228/255/256 bytes, timestamps around 2^31/2^32, every float spelling, unrepresentable timestamps skipped), and python's pickle.loads of the real bytes returns the datapoint; real getSchemas+parseMetric vs the model on generated schema files (anchored/unanchored patterns, priorities, old/new retention syntax, missing default, bad retentions) x tagged/untagged/invalid lines.",
            "trusted: Lean kernel; harness+driver plumbing; og-rek's encoder and metrictank's MetricData.Validate/EatDots are transcribed and validated differentially; ini parsing, msgp/snappy encoding of the record on the wire are external (the POST bodies are decoded in C17's harness); ASCII names/tags.", "§5 C16"),
    "C18": ("Lean 4 theorems about Go slice headers over shared backing arrays (snapshot isolation under safe update idioms; refinement of list operations) + regenerated idiom/lock facts + white-box differential validation",
            "proof: Crng.Props.C18.isolation, ops_refine_list, deleteInPlace_breaks. Regenerated obligations (Crng.Tie.C18): the idiom of each of the eleven assignments to a published slice is safe in the model; every mutator locks first, defers the unlock and does Load..Store; Dispatch/DispatchAggregate Load once, no lock; index/key guards; destination filter under its mutex. Correspondence (spec-exact): admin-op histories (add/delete by index and key, out-of-range indices, unknown keys) on a real table and route; the slice headers a dispatcher would hold are read out of the atomic.Value by reflection and re-read after later operations, compared with the model executing the extracted idioms; model-free monitor: a held snapshot never changes, the current view follows list semantics, bad indices are rejected.",
            "trusted: Lean kernel; harness+driver plumbing; the extractor's idiom classification; schedules are interleavings of element reads with whole mutators (mutex scope extracted); the aggregator list is covered by the idiom facts only; the dispatcher-blocked-on-a-shut-down-destination schedule is a documented known limitation (DESIGN §6 #8).", "§5 C18"),
    "C19": ("Lean 4 theorems about validate.Ordered over all sequential histories; all interleavings reduced to sequential histories by the regenerated fact that the whole function is one critical section; differential + concurrent validation",
            "proof: Crng.Props.C19.accepted_strictly_increasing, accept_iff_newer, newer_positive_accepted, not_newer_rejected, collision_counterexample. Regenerated obligations (Crng.Tie.C19): lock first / deferred unlock / strict comparison / update only on acceptance; the gate sits after validation on the validated key and returns on rejection. Correspondence (spec-exact): tables with order validation on, per-name sequences incl. names differing by a leading dot, out-of-order counter and bad-metrics report; concurrent goroutines on the real function with a max-register monitor (no timestamp accepted twice, per-goroutine monotone).",
            "trusted: Lean kernel; harness+driver plumbing; FNV-64a injective on the names of a history (hypothesis, shown necessary); schedules = interleavings of the extracted critical section.", "§5 C19"),
    "C08": ("Lean 4 theorem over all histories and crash points of a byte-level model of nsqd/diskqueue.go + exact differential validation of the model at every crash hook",
            "proof: Crng.Props.C08.crash_recovery (kernel-checked, all histories x all crash points x all segment/sync settings). The tie to the code is a correspondence check: at every filesystem mutation of the real queue (verif hook) the directory bytes and the recovered messages equal the model's; a model-free monitor checks the property statement on every real recovery.",
            "trusted: Lean kernel; harness+driver plumbing; crash model = process death between filesystem operations (completed operations are durable, nothing torn); filesystem calls succeed until the crash; no second crash during recovery. bufio/os behaviour of Go is modelled.", "§5 C08, App. B"),
    "C09": ("Lean 4 refinement theorem (byte-level disk queue model refines a list FIFO, depth exact) + differential validation of the model against the real DiskQueue",
            "proof: Crng.Props.C09.fifo / fifo_from for every configuration and every history of put/get/close+reopen; correspondence: random histories (rollover, oversize and empty messages, reopen after every op) produce identical outputs and depths on the real queue and the model; model-free FIFO monitor.",
            "trusted: Lean kernel; harness+driver plumbing; filesystem calls succeed; message length < 2^31.", "§5 C09, App. B"),
}

PENDING = {}

def main():
    props = [json.loads(l) for l in open(os.path.join(V, "properties.jsonl"))]
    checks = []
    na = []
    for p in props:
        pid = p["id"]
        if pid in CLAIMED:
            tech, text, note, ref = CLAIMED[pid]
            checks.append({
                "property_id": pid,
                "quick_cmd": "./check %s --tier quick" % pid,
                "thorough_cmd": "./check %s --tier thorough" % pid,
                "evidence_file": "/verif/evidence/%s.json" % pid,
                "replay_cmd_template": "./check %s --replay {path}" % pid,
                "engine": "lean-proof+correspondence",
                "level_claimed": {"category": "proof", "text": text, "design_ref": ref},
                "level_note": note,
                "technique": tech,
            })
        else:
            na.append({"property_id": pid, "reason": PENDING.get(pid, "check not built yet in this snapshot of /verif (planned, see DESIGN.md §5); not claimed until its theorem and correspondence run exist")})
    m = {
        "version": 1,
        "setup_cmd": "./setup.sh",
        "hooks": {
            "guard": "verif",
            "enable": "go build -tags verif (the harness in /verif/harness is built with it against /repo's working tree)",
            "baseline_off_cmd": "cd /repo && GOFLAGS=-mod=mod GOPROXY=off GOSUMDB=off GOTOOLCHAIN=local go test -vet=off -count=1 ./...",
            "source_commits": json.load(open(os.path.join(V, "hooks.json")))["commits"],
            "add_only": True,
        },
        "engines": [
            {"name": "lean-proof+correspondence", "path": "/verif/check", "serves_properties": sorted(CLAIMED),
             "kind_free_text": "Lean 4 theorems about hand-written executable models (lean/Crng), tied to /repo on every run by (A) facts regenerated from the Go source (extract/ -> lean/Crng/Gen, obligations in lean/Crng/Tie) and (B) differential runs of the real code (harness/, -tags verif) against the model's executable definitions (lean/Driver.lean), plus model-free property monitors used to search for a failing input"},
        ],
        "checks": checks,
        "not_applicable": na,
        "notes": "see DESIGN.md; known findings in known_findings.json; seeded changes in seeded/",
    }
    with open(os.path.join(V, "MANIFEST.json"), "w") as f:
        json.dump(m, f, indent=1)
    print("claimed", len(checks), "not claimed", len(na))

main()
