#!/bin/sh
# thorough tier of every claimed check from the directory this script's checkout is in (used with `vp run`)
cd "$(dirname "$0")/.."
./setup.sh > thorough_setup.log 2>&1 || { echo "setup failed"; tail -5 thorough_setup.log; exit 1; }
: > thorough.log
for id in $(python3 -c "import json;print(' '.join(c['property_id'] for c in json.load(open('MANIFEST.json'))['checks']))"); do
  s=$(date +%s)
  timeout 5400 ./check $id --tier thorough > thorough.$id.out 2>&1
  rc=$?
  echo "$id rc=$rc $(( $(date +%s) - s ))s $(grep -E '^(OK|VIOLATION)' thorough.$id.out | tail -1)" | tee -a thorough.log
done
echo DONE | tee -a thorough.log
