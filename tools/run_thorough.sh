#!/bin/sh
# thorough tier of every claimed check on /repo as it is; one line per check into .build/thorough.log
cd /verif
: > .build/thorough.log
for id in $(python3 -c "import json;print(' '.join(c['property_id'] for c in json.load(open('MANIFEST.json'))['checks']))"); do
  s=$(date +%s)
  timeout 7200 ./check $id --tier thorough > .build/thorough.$id.out 2>&1
  rc=$?
  echo "$id rc=$rc $(( $(date +%s) - s ))s $(grep -E '^(OK|VIOLATION)' .build/thorough.$id.out | tail -1)" >> .build/thorough.log
done
echo DONE >> .build/thorough.log
