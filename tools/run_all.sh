#!/bin/sh
# run every claimed check (quick by default) on /repo as it is; prints one line per check
cd /verif
TIER="${1:-quick}"
for id in $(python3 -c "import json;print(' '.join(c['property_id'] for c in json.load(open('MANIFEST.json'))['checks']))"); do
  ./check $id --tier $TIER 2>/dev/null | grep -E "^(OK|VIOLATION|KNOWN)"
done
