#!/usr/bin/env python3
"""tools/par_seeds.py [-j N] [--tier quick] <seed ids...>: like seed_matrix.py, but every seeded change is run in its own
scratch copy of /verif and of /repo (under /tmp/pv/<id>, removed afterwards), so several run at once and /repo itself is never
touched. The copy's harness is pointed at the scratch repository (go.mod replace + VERIF_REPO). Results go to
seeded/<id>/meta.json and are appended to seeded/RESULTS.md. Only for the seed matrix: registered checks always run from /verif
against /repo."""
import json, os, re, shutil, subprocess, sys, time
from concurrent.futures import ThreadPoolExecutor
V = os.path.dirname(os.path.dirname(os.path.abspath(__file__)))
args = sys.argv[1:]
jobs, tier = 4, "quick"
while args and args[0].startswith("-"):
    if args[0] == "-j":
        jobs = int(args[1]); args = args[2:]
    elif args[0] == "--tier":
        tier = args[1]; args = args[2:]
    else:
        sys.exit(__doc__)
# one snapshot of /verif for the whole run, so that edits made while the matrix runs do not leak into later jobs
SNAP = "/tmp/pv/_snapshot_%d" % os.getpid()
os.makedirs("/tmp/pv", exist_ok=True)
subprocess.run(["rsync", "-a", "--delete", "--exclude", ".git", "--exclude", "seeded", "--exclude", "replays", V + "/", SNAP + "/"], check=True)
ids = args or sorted(d for d in os.listdir(os.path.join(V, "seeded")) if os.path.isdir(os.path.join(V, "seeded", d)))


def one(d):
    p = os.path.join(V, "seeded", d)
    meta = json.load(open(os.path.join(p, "meta.json")))
    patch = os.path.join(p, "patch_rebased.diff" if os.path.exists(os.path.join(p, "patch_rebased.diff")) else "patch.diff")
    pid = meta["property"]
    root = "/tmp/pv/" + d
    shutil.rmtree(root, ignore_errors=True)
    os.makedirs(root)
    t0 = time.time()
    try:
        subprocess.run(["rsync", "-a", SNAP + "/", root + "/verif/"], check=True)
        subprocess.run(["rsync", "-a", "--exclude", ".git", "/repo/", root + "/repo/"], check=True)
        gm = os.path.join(root, "verif", "harness", "go.mod")
        s = open(gm).read().replace("=> /repo", "=> " + root + "/repo")
        open(gm, "w").write(s)
        for st in os.listdir(os.path.join(root, "verif", ".build")):
            if st.endswith(".stamp") or st.startswith("stamp"):
                os.remove(os.path.join(root, "verif", ".build", st))
        r = subprocess.run(["git", "apply", "--directory=" + root.lstrip("/") + "/repo", "--unsafe-paths", patch], cwd="/", capture_output=True)
        if r.returncode != 0:
            r = subprocess.run(["patch", "-p1", "-s", "-i", patch], cwd=root + "/repo", capture_output=True)
            if r.returncode != 0:
                return d, pid, None, "patch does not apply: " + r.stderr.decode()[:200]
        env = dict(os.environ, VERIF_REPO=root + "/repo")
        try:
            out = subprocess.run(["timeout", "2400", "./check", pid, "--tier", tier], cwd=root + "/verif", env=env, capture_output=True, timeout=2500)
            out = out.stdout.decode("utf-8", "replace") + out.stderr.decode("utf-8", "replace")
        except subprocess.TimeoutExpired:
            out = "TIMEOUT"
        viol = "VIOLATION" in out
        nowit = "no-failing-input-found" in out
        kinds = sorted(set(re.findall(r"PROBLEM \[([^\]]+)\]", out)))
        ties = sorted(set(re.findall(r"OBLIGATION FAILED \[([^\]]+)\]", out)))
        first = next((l.strip()[:300] for l in out.split("\n") if "PROBLEM" in l), "")
        meta["check_result"] = {"detected": viol, "failing_input_found": viol and not nowit, "problem_kinds": kinds,
                                "failed_obligation_kinds": ties, "first_problem": first, "wall_s": round(time.time() - t0),
                                "run": "scratch copy (tools/par_seeds.py)"}
        json.dump(meta, open(os.path.join(p, "meta.json"), "w"), indent=1)
        open("/tmp/pv/" + d + ".out", "w").write(out)
        return d, pid, viol, (viol and not nowit, ",".join(ties), first)
    finally:
        shutil.rmtree(root, ignore_errors=True)


with ThreadPoolExecutor(jobs) as ex:
    rows = []
    for res in ex.map(one, ids):
        d, pid, viol, rest = res
        if viol is None:
            print(d, "ERROR", rest, flush=True)
            continue
        print(d, "DETECTED" if viol else "MISSED", "witness" if rest[0] else "", flush=True)
        rows.append((d, pid, viol) + rest)
shutil.rmtree(SNAP, ignore_errors=True)
with open(os.path.join(V, "seeded", "RESULTS.md"), "a") as f:
    for r in rows:
        f.write("| %s | %s | %s | %s | %s | %s |\n" % (r[0], r[1], "yes" if r[2] else "NO", "yes" if r[3] else "no", r[4], r[5].replace("|", "/")[:200]))
