#!/bin/sh
# tools/sweep.sh "<seeds>" [ids...]: run the quick tier of the given (default: all claimed) checks for several seeds
cd /verif
SEEDS="$1"; shift
IDS="$@"
[ -z "$IDS" ] && IDS=$(python3 -c "import json;print(' '.join(c['property_id'] for c in json.load(open('MANIFEST.json'))['checks']))")
for s in $SEEDS; do for id in $IDS; do
  VERIF_SEED=$s timeout 1200 ./check $id --tier quick 2>/dev/null | grep -E "^(OK|VIOLATION|KNOWN)" | sed "s/^/seed=$s /"
done; done
