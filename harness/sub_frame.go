package main

import (
	"bytes"
	"errors"
	"fmt"
	"io"
	"math"
	"math/big"
	"net"
	"strconv"
	"strings"
	"sync"
	"time"

	"github.com/grafana/carbon-relay-ng/input"
	ogorek "github.com/kisielk/og-rek"
)

// input framing (C12, C13): the real handlers behind a reader that delivers the stream in prescribed chunks
//
//	plain <streamhex> <cuts> <end>      cuts: comma separated chunk lengths ("-" = one read per remaining byte run); end: eof | dataeof | timeout
//	udp <datagramhex>
//	amqp <bodyhex> [<bodyhex> ...]
//	pickle <streamhex> <cuts> <end>
// output: one line "tok <hex>" per dispatched line (copy taken at dispatch time); "invalid <n>" (protocol-level failures counted); "ret <ok|err>"

type capDisp struct {
	got  [][]byte
	cp   [][]byte
	ninv int
}

func (d *capDisp) Dispatch(buf []byte) {
	d.got = append(d.got, buf)
	d.cp = append(d.cp, append([]byte(nil), buf...))
}
func (d *capDisp) IncNumInvalid() { d.ninv++ }

type timeoutErr struct{}

func (timeoutErr) Error() string   { return "i/o timeout" }
func (timeoutErr) Timeout() bool   { return true }
func (timeoutErr) Temporary() bool { return true }

// chunkReader returns the stream in the prescribed pieces; `end` decides how the stream finishes
type chunkReader struct {
	data []byte
	cuts []int
	end  string
	done bool
}

func (r *chunkReader) Read(p []byte) (int, error) {
	if len(r.data) == 0 {
		switch r.end {
		case "timeout":
			return 0, timeoutErr{}
		case "reset":
			return 0, errors.New("connection reset by peer")
		}
		return 0, io.EOF
	}
	n := len(r.data)
	if len(r.cuts) > 0 {
		n = r.cuts[0]
		r.cuts = r.cuts[1:]
		if n == 0 {
			return 0, nil // an empty read
		}
		if n < 0 {
			return 0, timeoutErr{} // the read deadline expired here; a later Read would deliver the rest
		}
	}
	if n > len(r.data) {
		n = len(r.data)
	}
	if n > len(p) {
		// the caller's buffer is smaller than the prescribed segment: deliver what fits now, the rest of this segment next
		r.cuts = append([]int{n - len(p)}, r.cuts...)
		n = len(p)
	}
	copy(p, r.data[:n])
	r.data = r.data[n:]
	if len(r.data) == 0 && r.end == "dataeof" {
		return n, io.EOF
	}
	return n, nil
}

func parseCuts(s string) []int {
	if s == "-" {
		return nil
	}
	var out []int
	for _, x := range strings.Split(s, ",") {
		n, _ := strconv.Atoi(x)
		out = append(out, n)
	}
	return out
}

func report(d *capDisp, err error) {
	for i := range d.cp {
		// (the slice handed to Dispatch belongs to the reader and may be reused afterwards: only the copy counts)
		emit("tok %s", hexOrDash(d.cp[i]))
	}
	emit("invalid %d", d.ninv)
	if err != nil {
		emit("ret err")
	} else {
		emit("ret ok")
	}
}

func init() {
	subs["frame"] = func(args []string) {
		scanLines(func(f []string, raw string) {
			d := &capDisp{}
			switch f[0] {
			case "plain":
				r := &chunkReader{data: unhexArg(f[1]), cuts: parseCuts(f[2]), end: f[3]}
				err := input.NewPlain(d).Handle(r)
				report(d, err)
			case "udp":
				// listen.go handleData: one reader per datagram
				err := input.NewPlain(d).Handle(&chunkReader{data: unhexArg(f[1]), end: "eof"})
				report(d, err)
			case "amqp":
				var bodies [][]byte
				for _, b := range f[1:] {
					bodies = append(bodies, unhexArg(b))
				}
				input.VerifConsumeAMQP(d, bodies)
				report(d, nil)
			case "pickle":
				r := &chunkReader{data: unhexArg(f[1]), cuts: parseCuts(f[2]), end: f[3]}
				err := input.NewPickle(d).Handle(r)
				report(d, err)
			}
		})
	}
}

// real listener (C12): datagrams and TCP segments through input.Listener with a handler whose dispatcher is slow, so that
// the next datagrams arrive while an earlier one is still being handled
//
//	udpreal <delay_us> <d1> <d2> ...     -> "tok" lines in processing order
//	tcpreal <delay_us> <seg1> <seg2> ... -> one connection, the segments written separately (TCP_NODELAY, paced)
type slowDisp struct {
	capDisp
	delay time.Duration
	mu    sync.Mutex
}

func (d *slowDisp) Dispatch(buf []byte) {
	time.Sleep(d.delay)
	d.mu.Lock()
	d.cp = append(d.cp, append([]byte(nil), buf...))
	d.mu.Unlock()
}

func freePort() string {
	l, _ := net.Listen("tcp", "127.0.0.1:0")
	a := l.Addr().String()
	l.Close()
	return a
}

func init() {
	subs["listener"] = func(args []string) {
		scanLines(func(f []string, raw string) {
			us, _ := strconv.Atoi(f[1])
			d := &slowDisp{delay: time.Duration(us) * time.Microsecond}
			addr := freePort()
			l := input.NewListener(addr, 2*time.Second, input.NewPlain(d))
			if err := l.Start(); err != nil {
				emit("starterr")
				return
			}
			total := 0
			switch f[0] {
			case "udpreal":
				c, err := net.Dial("udp", addr)
				if err != nil {
					emit("dialerr")
					return
				}
				for _, h := range f[2:] {
					b := unhexArg(h)
					total += bytes.Count(b, []byte("\n"))
					if len(b) > 0 && b[len(b)-1] != '\n' {
						total++
					}
					c.Write(b)
				}
				c.Close()
			case "tcp2real":
				// two connections to the same listener, their segments written alternately (A, B, A, B, ...; "-" = nothing)
				ca, err := net.Dial("tcp", addr)
				if err != nil {
					emit("dialerr")
					return
				}
				cb, err := net.Dial("tcp", addr)
				if err != nil {
					emit("dialerr")
					return
				}
				var all [2][]byte
				for i, h := range f[2:] {
					b := unhexArg(h)
					if len(b) == 0 {
						continue
					}
					all[i%2] = append(all[i%2], b...)
					if i%2 == 0 {
						ca.Write(b)
					} else {
						cb.Write(b)
					}
					time.Sleep(1500 * time.Microsecond)
				}
				ca.Close()
				cb.Close()
				for _, a := range all {
					total += bytes.Count(a, []byte("\n"))
					if len(a) > 0 && a[len(a)-1] != '\n' {
						total++
					}
				}
			case "tcpreal":
				c, err := net.Dial("tcp", addr)
				if err != nil {
					emit("dialerr")
					return
				}
				var all []byte
				for _, h := range f[2:] {
					b := unhexArg(h)
					all = append(all, b...)
					c.Write(b)
					time.Sleep(300 * time.Microsecond)
				}
				c.Close()
				total = bytes.Count(all, []byte("\n"))
				if len(all) > 0 && all[len(all)-1] != '\n' {
					total++
				}
			}
			// wait until the expected number of lines was processed (or nothing changes any more)
			last, since := -1, time.Now()
			for time.Since(since) < 400*time.Millisecond {
				d.mu.Lock()
				n := len(d.cp)
				d.mu.Unlock()
				if n >= total {
					break
				}
				if n != last {
					last, since = n, time.Now()
				}
				time.Sleep(time.Millisecond)
			}
			l.Stop()
			d.mu.Lock()
			for _, t := range d.cp {
				emit("tok %s", hexOrDash(t))
			}
			d.mu.Unlock()
			emit("end")
		})
	}
}

// og-rek's view of one frame body (C13): `ogrek <bodyhex>` -> dump | "eof" (io.ErrUnexpectedEOF) | "err"
func dumpPy(v interface{}) string {
	switch x := v.(type) {
	case string:
		return "s" + hexOrDash([]byte(x))
	case int64:
		return "i" + strconv.FormatInt(x, 10)
	case int:
		return "i" + strconv.Itoa(x)
	case uint8, uint16, uint32, uint64, int8, int16, int32:
		return "i" + fmt.Sprintf("%d", x)
	case *big.Int:
		return "b" + x.String()
	case float64:
		return "f" + strconv.FormatUint(math.Float64bits(x), 10)
	case float32:
		return "f" + strconv.FormatUint(math.Float64bits(float64(x)), 10)
	case ogorek.Tuple:
		var ps []string
		for _, e := range x {
			ps = append(ps, dumpPy(e))
		}
		return "T(" + strings.Join(ps, ",") + ")"
	case []interface{}:
		var ps []string
		for _, e := range x {
			ps = append(ps, dumpPy(e))
		}
		return "L(" + strings.Join(ps, ",") + ")"
	}
	return "o"
}

func init() {
	subs["ogrek"] = func(args []string) {
		scanLines(func(f []string, raw string) {
			body := unhexArg(f[0])
			v, err := ogorek.NewDecoder(bytes.NewBuffer(body)).Decode()
			if err == io.ErrUnexpectedEOF {
				emit("eof")
			} else if err != nil {
				emit("err")
			} else {
				emit("%s", dumpPy(v))
			}
		})
	}
}
