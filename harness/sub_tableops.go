package main

import (
	"fmt"
	"reflect"
	"strconv"
	"strings"
	"time"

	"github.com/grafana/carbon-relay-ng/destination"
	"github.com/grafana/carbon-relay-ng/matcher"
	"github.com/grafana/carbon-relay-ng/rewriter"
	"github.com/grafana/carbon-relay-ng/route"
	"github.com/grafana/carbon-relay-ng/table"
	"github.com/grafana/carbon-relay-ng/validate"
)

// runtime table changes (C18), white box: a "snapshot" is the slice header a dispatcher would hold after its single
// config.Load(); it is read again after later admin operations, exactly as a slow dispatcher would read it.
//
//	new
//	addbl <id> | delbl <idx> | addrw <id> | delrw <idx> | addroute <id> | delroute <id>
//	adddest <id> | deldest <idx>            destinations of the real sendAllMatch route "rr"
//	snap                                     hold the current headers
//	views                                    print the current view and the view through every held snapshot

type snapT struct {
	bl, rw, routes, dests reflect.Value
}

// cfgOf digs the TableConfig / route config out of the atomic.Value without copying the slices
func cfgOf(holder interface{}) reflect.Value {
	av := reflect.ValueOf(holder).Elem().FieldByName("config") // atomic.Value
	return av.FieldByName("v").Elem()                          // the boxed config struct
}

func blIDs(v reflect.Value) string {
	var ids []string
	for i := 0; i < v.Len(); i++ {
		ids = append(ids, v.Index(i).Elem().FieldByName("Prefix").String())
	}
	return strings.Join(ids, ",")
}
func rwIDs(v reflect.Value) string {
	var ids []string
	for i := 0; i < v.Len(); i++ {
		ids = append(ids, v.Index(i).FieldByName("Old").String())
	}
	return strings.Join(ids, ",")
}
func routeIDs(v reflect.Value) string {
	var ids []string
	for i := 0; i < v.Len(); i++ {
		e := v.Index(i).Elem() // interface -> *capRoute / *route.SendAllMatch
		k := e.Elem().FieldByName("key")
		ids = append(ids, k.String())
	}
	return strings.Join(ids, ",")
}
func destIDs(v reflect.Value) string {
	var ids []string
	for i := 0; i < v.Len(); i++ {
		ids = append(ids, v.Index(i).Elem().FieldByName("Matcher").FieldByName("Prefix").String())
	}
	return strings.Join(ids, ",")
}

func init() {
	subs["tableops"] = func(args []string) {
		var tab *table.Table
		var rr route.Route
		var snaps []snapT
		seq := 0
		cur := func() snapT {
			c := cfgOf(tab)
			rc := cfgOf(rr) // baseConfig{matcher, dests}
			return snapT{c.FieldByName("blacklist"), c.FieldByName("rewriters"), c.FieldByName("routes"), rc.FieldByName("dests")}
		}
		show := func(tag string, s snapT) {
			emit("%s bl=[%s] rw=[%s] routes=[%s] dests=[%s]", tag, blIDs(s.bl), rwIDs(s.rw), routeIDs(s.routes), destIDs(s.dests))
		}
		newDest := func(id string) *destination.Destination {
			m, _ := matcher.New(id, "", "", "", "", "")
			seq++
			d, err := destination.New("rr", m, fmt.Sprintf("127.0.0.1:%d", 1+seq%1000), "/tmp", false, false, time.Second, time.Hour, 10, 100, 10, 1000, 10, time.Second, time.Millisecond, time.Millisecond)
			if err != nil {
				panic(err)
			}
			return d
		}
		scanLines(func(f []string, raw string) {
			res := func(err error) {
				if err != nil {
					emit("%s err", f[0])
				} else {
					emit("%s ok", f[0])
				}
			}
			switch f[0] {
			case "new":
				if rr != nil {
					go rr.Shutdown()
				}
				var ll validate.LevelLegacy
				var ml validate.LevelM20
				ll.UnmarshalText([]byte("none"))
				ml.UnmarshalText([]byte("none"))
				conf, _ := table.NewTableConfig("/tmp", "1h", ll, ml, false)
				tab = table.New(conf)
				m, _ := matcher.New("", "", "", "", "", "")
				rr, _ = route.NewSendAllMatch("rr", m, nil)
				snaps = nil
			case "addbl":
				m, _ := matcher.New(f[1], "", "", "", "", "")
				tab.AddBlacklist(&m)
				res(nil)
			case "delbl":
				i, _ := strconv.Atoi(f[1])
				res(tab.DelBlacklist(i))
			case "addrw":
				rw, _ := rewriter.New(f[1], "x", "", -1)
				tab.AddRewriter(rw)
				res(nil)
			case "delrw":
				i, _ := strconv.Atoi(f[1])
				res(tab.DelRewriter(i))
			case "addroute":
				m, _ := matcher.New("", "", "", "", "", "")
				tab.AddRoute(&capRoute{key: f[1], m: &m})
				res(nil)
			case "delroute":
				res(tab.DelRoute(f[1]))
			case "adddest":
				rr.(*route.SendAllMatch).Add(newDest(f[1]))
				res(nil)
			case "deldest":
				i, _ := strconv.Atoi(f[1])
				res(rr.DelDestination(i))
			case "snap":
				snaps = append(snaps, cur())
			case "views":
				show("cur", cur())
				for i, s := range snaps {
					show("snap"+strconv.Itoa(i), s)
				}
			}
		})
	}
}
