package main

import (
	"bytes"
	"fmt"
	"io"
	"io/ioutil"
	"net"
	"os"
	"path/filepath"
	"strconv"
	"strings"
	"time"

	"github.com/BurntSushi/toml"
	"github.com/grafana/carbon-relay-ng/aggregator"
	"github.com/grafana/carbon-relay-ng/cfg"
	"github.com/grafana/carbon-relay-ng/imperatives"
	"github.com/grafana/carbon-relay-ng/input"
	"github.com/grafana/carbon-relay-ng/stats"
	"github.com/grafana/carbon-relay-ng/table"
	"github.com/grafana/carbon-relay-ng/ui/telnet"
)

// crash search (C14): nothing here recovers from a panic — a panic anywhere (also in a background goroutine of a table
// entry) kills the process, which is what the check looks for. Every op is echoed *before* it is applied.
//
//	cmd <hex>        imperatives.Apply(table, command)
//	toml <hex>       decode + cfg.InitTable into the case's table
//	tel <hex>        the bytes sent as one write to the real admin listener (ui/telnet.Start on a loopback port)
//	m <hex>          table.Dispatch(line)                     (what every input does per line)
//	plain|pickle|udp <hex>   the bytes through the input handler with the table as dispatcher
//	amqp <hex> ...   message bodies through the AMQP consume loop
//	deldest <keyhex> <idx>   Table.DelDestination
//	sleep <ms>
//
// {SCHEMAS} {AGGFILE} {SPOOL} {SINK0..2} in commands/TOML are replaced by paths of files that exist.
func init() {
	subs["crash"] = func(args []string) {
		// what main() does before it builds the table
		stats.New("verif")
		aggregator.InitMetrics()
		dir, _ := ioutil.TempDir("", "crngcrash")
		defer os.RemoveAll(dir)
		schemas := filepath.Join(dir, "storage-schemas.conf")
		aggf := filepath.Join(dir, "storage-aggregation.conf")
		ioutil.WriteFile(schemas, []byte("[default]\npattern = .*\nretentions = 10s:1d\n"), 0644)
		ioutil.WriteFile(aggf, []byte("[default]\npattern = .*\nxFilesFactor = 0.5\naggregationMethod = avg\n"), 0644)
		// endpoints that accept and discard, so that destinations connect and really write
		var sinks []string
		for i := 0; i < 3; i++ {
			l, err := net.Listen("tcp", "127.0.0.1:0")
			if err != nil {
				panic(err)
			}
			sinks = append(sinks, l.Addr().String())
			go func() {
				for {
					c, err := l.Accept()
					if err != nil {
						return
					}
					go io.Copy(ioutil.Discard, c)
				}
			}()
		}
		subst := func(b []byte) string {
			s := string(b)
			for i, a := range sinks {
				s = strings.Replace(s, "{SINK"+strconv.Itoa(i)+"}", a, -1)
			}
			s = strings.Replace(s, "{SCHEMAS}", schemas, -1)
			s = strings.Replace(s, "{AGGFILE}", aggf, -1)
			s = strings.Replace(s, "{SPOOL}", dir, -1)
			return s
		}
		var tab *table.Table
		var adminAddr string
		blocked := false
		newTable := func() {
			if tab != nil {
				old := tab
				go old.Shutdown()
			}
			c := cfg.NewConfig()
			c.Spool_dir = dir
			c.Bad_metrics_max_age = "1h"
			tc, err := c.TableConfig()
			if err != nil {
				panic(err)
			}
			tab = table.New(tc)
			adminAddr = ""
			blocked = false
		}
		// an admin command or a dispatch that does not come back (deleting a grafanaNet route whose endpoint is down for good
		// waits for a flush that cannot succeed; a blocking route behind a dead endpoint parks its caller) is not a crash: the
		// rest of the case is skipped (later admin commands would queue behind the table lock), the process must stay alive
		guarded := func(fn func()) bool {
			done := make(chan struct{})
			go func() { fn(); close(done) }()
			select {
			case <-done:
				return true
			case <-time.After(3 * time.Second):
				blocked = true
				emit("blocked")
				return false
			}
		}
		scanLinesCase(newTable, func(f []string, raw string) {
			if blocked {
				return
			}
			emit("> %s", f[0])
			out.Flush()
			switch f[0] {
			case "cmd":
				var err error
				t := tab
				if !guarded(func() { err = imperatives.Apply(t, subst(unhexArg(f[1]))) }) {
					return
				}
				if err != nil {
					emit("err")
				} else {
					emit("ok")
				}
			case "toml":
				config := cfg.NewConfig()
				meta, err := toml.Decode(subst(unhexArg(f[1])), &config)
				if err != nil {
					emit("err decode")
					return
				}
				if err := cfg.InitTable(tab, config, meta); err != nil {
					emit("err init")
				} else {
					emit("ok")
				}
			case "tel":
				if adminAddr == "" {
					adminAddr = freePort()
					a, t := adminAddr, tab
					go telnet.Start(a, t)
					for i := 0; i < 200; i++ {
						c, err := net.Dial("tcp", a)
						if err == nil {
							c.Close()
							break
						}
						time.Sleep(5 * time.Millisecond)
					}
				}
				c, err := net.DialTimeout("tcp", adminAddr, time.Second)
				if err != nil {
					emit("tel noconn")
					return
				}
				buf := make([]byte, 65536)
				c.SetReadDeadline(time.Now().Add(300 * time.Millisecond))
				c.Read(buf) // greeting
				c.Write([]byte(subst(unhexArg(f[1]))))
				c.SetReadDeadline(time.Now().Add(300 * time.Millisecond))
				n, _ := c.Read(buf)
				c.Close()
				emit("tel %d", n)
			case "m":
				t := tab
				guarded(func() { t.Dispatch(append([]byte(nil), unhexArg(f[1])...)) })
			case "plain":
				err := input.NewPlain(tab).Handle(bytes.NewReader(unhexArg(f[1])))
				emit("plain %v", err != nil)
			case "pickle":
				err := input.NewPickle(tab).Handle(bytes.NewReader(unhexArg(f[1])))
				emit("pickle %v", err != nil)
			case "udp":
				// the UDP listener hands every datagram to the plain handler
				err := input.NewPlain(tab).Handle(bytes.NewReader(unhexArg(f[1])))
				emit("udp %v", err != nil)
			case "amqp":
				var bodies [][]byte
				for _, a := range f[1:] {
					bodies = append(bodies, unhexArg(a))
				}
				input.VerifConsumeAMQP(tab, bodies)
			case "deldest":
				// Table.DelDestination, the call behind "remove a destination" (the statement names the last destination of a consistentHashing route)
				idx, _ := strconv.Atoi(f[2])
				if err := tab.DelDestination(string(unhexArg(f[1])), idx); err != nil {
					emit("err")
				} else {
					emit("ok")
				}
			case "sleep":
				ms, _ := strconv.Atoi(f[1])
				time.Sleep(time.Duration(ms) * time.Millisecond)
			}
		})
		fmt.Fprintln(os.Stderr, "crash-sub: done")
	}
}
