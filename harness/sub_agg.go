package main

import (
	"math"
	"sort"
	"strconv"
	"strings"
	"sync/atomic"
	"time"

	"github.com/grafana/carbon-relay-ng/aggregator"
	"github.com/grafana/carbon-relay-ng/matcher"
	"github.com/grafana/carbon-relay-ng/stats"
)

// aggregator (C10) with injected clock and tick channel; Snapshot() is the barrier
func init() {
	subs["agg"] = func(args []string) {
		aggregator.InitMetrics()
		tooOld := stats.Counter("module=aggregator.unit=Metric.what=TooOld")
		var now int64
		nowFn := func() time.Time { return time.Unix(atomic.LoadInt64(&now), 0) }
		var a *aggregator.Aggregator
		var outc chan []byte
		var tick chan time.Time
		base := tooOld.Count()
		// every emitted line is kept as the slice the aggregator sent (no copy) next to its text at emission time and
		// re-read at the end of the case: a consumer (route, destination queue, spool) may hold it that long
		type heldLine struct {
			raw  []byte
			text string
		}
		var held []heldLine
		scanLines(func(f []string, raw string) {
			switch f[0] {
			case "cfg":
				m, _ := matcher.New("", "", "", "", "^(.*)$", "")
				interval, _ := strconv.Atoi(f[2])
				wait, _ := strconv.Atoi(f[3])
				outc = make(chan []byte, 1000000)
				held = nil
				tick = make(chan time.Time)
				var err error
				a, err = aggregator.NewMocked(f[1], m, "$1", false, uint(interval), uint(wait), false, outc, 0, nowFn, tick)
				if err != nil {
					emit("cfgerr")
					a = nil
					return
				}
				base = tooOld.Count()
			case "p":
				ts, _ := strconv.ParseUint(f[2], 10, 32)
				bits, _ := strconv.ParseUint(f[3], 10, 64)
				n, _ := strconv.ParseInt(f[4], 10, 64)
				atomic.StoreInt64(&now, n)
				a.AddMaybe([][]byte{[]byte(f[1]), []byte("0"), []byte(f[2])}, math.Float64frombits(bits), uint32(ts))
				a.Snapshot() // barrier: served by the same goroutine
				emit("p")
			case "t":
				n, _ := strconv.ParseInt(f[1], 10, 64)
				atomic.StoreInt64(&now, n)
				tick <- time.Unix(n, 0)
				a.Snapshot()
				var lines []string
				for len(outc) > 0 {
					b := <-outc
					held = append(held, heldLine{b, string(b)})
					lines = append(lines, string(b))
				}
				sort.SliceStable(lines, func(i, j int) bool {
					ti := lines[i][strings.LastIndex(lines[i], " ")+1:]
					tj := lines[j][strings.LastIndex(lines[j], " ")+1:]
					if ti != tj {
						return false // keep flush order across timestamps
					}
					return lines[i] < lines[j]
				})
				emit("t %d", len(lines))
				for _, l := range lines {
					emit("%s", l)
				}
			case "end":
				emit("tooold %d", tooOld.Count()-base)
				for _, h := range held {
					if string(h.raw) != h.text {
						emit("held-mutated %s %s", hexs([]byte(h.text)), hexs(h.raw))
						break
					}
				}
			}
		})
	}
}
