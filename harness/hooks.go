package main

import "github.com/grafana/carbon-relay-ng/validate"

func validateReset() { validate.VerifReset() }
