package main

import (
	"errors"
	"strconv"
	"strings"

	"github.com/grafana/carbon-relay-ng/destination"
)

// buffered writer (C05) over a scripted underlying writer
type scripted struct {
	script []string
	sock   []byte
}

func (s *scripted) Write(p []byte) (int, error) {
	o := "full"
	if len(s.script) > 0 {
		o = s.script[0]
		s.script = s.script[1:]
	}
	f := strings.Split(o, ":")
	switch f[0] {
	case "short":
		n, _ := strconv.Atoi(f[1])
		if n > len(p) {
			n = len(p)
		}
		s.sock = append(s.sock, p[:n]...)
		return n, nil
	case "fail":
		n, _ := strconv.Atoi(f[1])
		if n > len(p) {
			n = len(p)
		}
		s.sock = append(s.sock, p[:n]...)
		return n, errors.New("boom")
	}
	s.sock = append(s.sock, p...)
	return len(p), nil
}

func init() {
	subs["bw"] = func(args []string) {
		u := &scripted{}
		var w *destination.Writer
		scanLines(func(f []string, raw string) {
			switch f[0] {
			case "new":
				c, _ := strconv.Atoi(f[1])
				u = &scripted{}
				w = destination.NewWriter(u, c, "k")
			case "script":
				u.script = strings.Split(f[1], ",")
			case "w":
				var p []byte
				if len(f) > 1 {
					p = unhexArg(f[1])
				}
				nn, err := w.Write(p)
				emit("w %d %v %d", nn, err != nil, w.Buffered())
			case "f":
				err := w.Flush()
				emit("f %v %d", err != nil, w.Buffered())
			case "end":
				emit("sock %s", hexs(u.sock))
			}
		})
	}
}
