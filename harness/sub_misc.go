package main

import (
	"crypto/md5"
	"fmt"
	"math"
	"reflect"
	"strconv"
	"strings"
	"time"

	"github.com/grafana/carbon-relay-ng/destination"
	"github.com/grafana/carbon-relay-ng/imperatives"
	"github.com/grafana/carbon-relay-ng/rewriter"
	"github.com/grafana/carbon-relay-ng/table"
	m20 "github.com/metrics20/go-metrics20/carbon20"
)

func valErrName(err error) string {
	if err == nil {
		return "ok"
	}
	s := err.Error()
	switch {
	case s == "packet must consist of 3 fields":
		return "fields"
	case s == "empty key":
		return "emptykey"
	case s == "invalid tag appendix":
		return "tagappendix"
	case s == "empty node":
		return "emptynode"
	case strings.HasPrefix(s, "illegal char"):
		return "illegalchar"
	case strings.HasPrefix(s, "null byte"):
		return "null"
	case strings.HasPrefix(s, "non-ASCII"):
		return "nonascii"
	case s == "both = and _is_":
		return "mixeq"
	case s == "no unit tag":
		return "nounit"
	case s == "no mtype tag":
		return "nomtype"
	case strings.HasPrefix(s, "must have at least 1 tag"):
		return "fewtags"
	case s == "value field is not a float or int":
		return "val"
	case s == "timestamp field is not a unix timestamp":
		return "ts"
	}
	return "other:" + strings.Replace(s, " ", "_", -1)
}

func init() {
	subs["fmt"] = func(args []string) {
		scanLines(func(f []string, raw string) {
			bits, _ := strconv.ParseUint(f[0], 10, 64)
			emit("%s", fmt.Sprintf("%f", math.Float64frombits(bits)))
		})
	}
	subs["md5"] = func(args []string) {
		scanLines(func(f []string, raw string) {
			s := md5.Sum(unhexArg(f[0]))
			emit("%s", hexs(s[:]))
		})
	}
	subs["pk"] = func(args []string) {
		scanLines(func(f []string, raw string) {
			name := unhexArg(f[0])
			ts, _ := strconv.ParseUint(f[1], 10, 32)
			bits, _ := strconv.ParseUint(f[2], 10, 64)
			o := destination.Pickle(&destination.Datapoint{Name: string(name), Val: math.Float64frombits(bits), Time: uint32(ts)})
			emit("%s", hexs(o))
		})
	}
	subs["rw"] = func(args []string) {
		scanLines(func(f []string, raw string) {
			mx, _ := strconv.Atoi(f[3])
			rw, err := rewriter.New(string(unhexArg(f[0])), string(unhexArg(f[1])), string(unhexArg(f[2])), mx)
			if err != nil {
				emit("err")
				return
			}
			emit("%s", hexs(rw.Do(unhexArg(f[4]))))
		})
	}
	subs["val"] = func(args []string) {
		scanLines(func(f []string, raw string) {
			ll := map[string]m20.ValidationLevelLegacy{"strict": m20.StrictLegacy, "medium": m20.MediumLegacy, "none": m20.NoneLegacy}[f[0]]
			ml := map[string]m20.ValidationLevelM20{"medium": m20.MediumM20, "none": m20.NoneM20}[f[1]]
			b := unhexArg(f[2])
			key, _, _, err := m20.ValidatePacket(b, ll, ml)
			emit("%s %s", hexOrDash(key), valErrName(err))
		})
	}
	subs["tk"] = func(args []string) {
		scanLines(func(f []string, raw string) {
			b := unhexArg(f[1])
			ds, err := imperatives.ParseDestinations([]string{string(b)}, &table.MockTable{}, f[0] == "1", "rk")
			if err != nil || len(ds) != 1 {
				emit("err")
				return
			}
			d := ds[0]
			v := reflect.ValueOf(d).Elem()
			dur := func(n string) time.Duration { return time.Duration(v.FieldByName(n).Int()) }
			m := d.Matcher
			addr := d.Addr
			if d.Instance != "" {
				addr += ":" + d.Instance
			}
			emit("ok addr=%s pre=%s npre=%s sub=%s nsub=%s re=%s nre=%s spool=%v pickle=%v flush=%d reconn=%d connbuf=%d iobuf=%d spoolbuf=%d maxbytes=%d syncevery=%d syncperiod=%d spoolsleep=%d unspoolsleep=%d",
				hexs([]byte(addr)), hexs([]byte(m.Prefix)), hexs([]byte(m.NotPrefix)), hexs([]byte(m.Sub)),
				hexs([]byte(m.NotSub)), hexs([]byte(m.Regex)), hexs([]byte(m.NotRegex)), d.Spool, d.Pickle,
				dur("periodFlush")/time.Millisecond, dur("periodReConn")/time.Millisecond, v.FieldByName("connBufSize").Int(), v.FieldByName("ioBufSize").Int(),
				d.SpoolBufSize, d.SpoolMaxBytesPerFile, d.SpoolSyncEvery, d.SpoolSyncPeriod/time.Millisecond, d.SpoolSleep/time.Microsecond, d.UnspoolSleep/time.Microsecond)
		})
	}
}
