package main

import (
	"bytes"
	"github.com/grafana/carbon-relay-ng/route"
	"crypto/md5"
	"fmt"
	"math"
	"reflect"
	"regexp"
	"regexp/syntax"
	"strconv"
	"strings"
	"time"

	"github.com/grafana/carbon-relay-ng/destination"
	"github.com/grafana/carbon-relay-ng/imperatives"
	"github.com/grafana/carbon-relay-ng/matcher"
	"github.com/grafana/carbon-relay-ng/rewriter"
	"github.com/grafana/carbon-relay-ng/table"
	"github.com/grafana/carbon-relay-ng/validate"
	m20 "github.com/metrics20/go-metrics20/carbon20"
)

func valErrName(err error) string {
	if err == nil {
		return "ok"
	}
	s := err.Error()
	switch {
	case s == "packet must consist of 3 fields":
		return "fields"
	case s == "empty key":
		return "emptykey"
	case s == "invalid tag appendix":
		return "tagappendix"
	case s == "empty node":
		return "emptynode"
	case strings.HasPrefix(s, "illegal char"):
		return "illegalchar"
	case strings.HasPrefix(s, "null byte"):
		return "null"
	case strings.HasPrefix(s, "non-ASCII"):
		return "nonascii"
	case s == "both = and _is_":
		return "mixeq"
	case s == "no unit tag":
		return "nounit"
	case s == "no mtype tag":
		return "nomtype"
	case strings.HasPrefix(s, "must have at least 1 tag"):
		return "fewtags"
	case s == "value field is not a float or int":
		return "val"
	case s == "timestamp field is not a unix timestamp":
		return "ts"
	}
	return "other:" + strings.Replace(s, " ", "_", -1)
}

func init() {
	subs["fmt"] = func(args []string) {
		scanLines(func(f []string, raw string) {
			bits, _ := strconv.ParseUint(f[0], 10, 64)
			emit("%s", fmt.Sprintf("%f", math.Float64frombits(bits)))
		})
	}
	subs["md5"] = func(args []string) {
		scanLines(func(f []string, raw string) {
			s := md5.Sum(unhexArg(f[0]))
			emit("%s", hexs(s[:]))
		})
	}
	subs["pk"] = func(args []string) {
		// a returned message is printed only after the NEXT call has been made: it must still be intact then
		// (two pickle destinations encode concurrently; a shared or recycled buffer would corrupt the earlier message)
		var pending []byte
		beforeCase = func() {
			if pending != nil {
				emit("%s", hexs(pending))
				pending = nil
			}
		}
		scanLines(func(f []string, raw string) {
			name := unhexArg(f[0])
			ts, _ := strconv.ParseUint(f[1], 10, 32)
			bits, _ := strconv.ParseUint(f[2], 10, 64)
			o := destination.Pickle(&destination.Datapoint{Name: string(name), Val: math.Float64frombits(bits), Time: uint32(ts)})
			beforeCase()
			pending = o
		})
	}
	subs["rw"] = func(args []string) {
		// as for pk: the rewritten name is printed after the next rewrite has run (it sits in an aggregator's queue meanwhile)
		var pending []byte
		havePending := false
		beforeCase = func() {
			if havePending {
				emit("%s", hexs(pending))
				havePending = false
			}
		}
		cache := map[string]rewriter.RW{}
		scanLines(func(f []string, raw string) {
			mx, _ := strconv.Atoi(f[3])
			key := f[0] + " " + f[1] + " " + f[2] + " " + f[3]
			rw, ok := cache[key]
			if !ok {
				var err error
				rw, err = rewriter.New(string(unhexArg(f[0])), string(unhexArg(f[1])), string(unhexArg(f[2])), mx)
				if err != nil {
					beforeCase()
					emit("err")
					return
				}
				cache[key] = rw
			}
			o := rw.Do(unhexArg(f[4]))
			beforeCase()
			pending, havePending = o, true
		})
	}
	subs["val"] = func(args []string) {
		scanLines(func(f []string, raw string) {
			ll := map[string]m20.ValidationLevelLegacy{"strict": m20.StrictLegacy, "medium": m20.MediumLegacy, "none": m20.NoneLegacy}[f[0]]
			ml := map[string]m20.ValidationLevelM20{"medium": m20.MediumM20, "none": m20.NoneM20}[f[1]]
			b := unhexArg(f[2])
			key, _, _, err := m20.ValidatePacket(b, ll, ml)
			emit("%s %s", hexOrDash(key), valErrName(err))
		})
	}
	subs["rx"] = func(args []string) {
		scanLines(func(f []string, raw string) {
			re, err := regexp.Compile(string(unhexArg(f[1])))
			if err != nil {
				emit("err")
				return
			}
			switch f[0] {
			case "m":
				if re.Match(unhexArg(f[2])) {
					emit("1")
				} else {
					emit("0")
				}
			case "x":
				s := unhexArg(f[3])
				mm := re.FindSubmatchIndex(s)
				if mm == nil {
					emit("nomatch")
				} else {
					emit("%s", hexOrDash(re.Expand(nil, unhexArg(f[2]), s, mm)))
				}
			case "r":
				emit("%s", hexOrDash(re.ReplaceAll(unhexArg(f[3]), unhexArg(f[2]))))
			}
		})
	}
	subs["tk"] = func(args []string) {
		scanLines(func(f []string, raw string) {
			b := unhexArg(f[1])
			ds, err := imperatives.ParseDestinations([]string{string(b)}, &table.MockTable{}, f[0] == "1", "rk")
			if err != nil || len(ds) != 1 {
				emit("err")
				return
			}
			d := ds[0]
			v := reflect.ValueOf(d).Elem()
			dur := func(n string) time.Duration { return time.Duration(v.FieldByName(n).Int()) }
			m := d.Matcher
			addr := d.Addr
			if d.Instance != "" {
				addr += ":" + d.Instance
			}
			emit("ok addr=%s pre=%s npre=%s sub=%s nsub=%s re=%s nre=%s spool=%v pickle=%v flush=%d reconn=%d connbuf=%d iobuf=%d spoolbuf=%d maxbytes=%d syncevery=%d syncperiod=%d spoolsleep=%d unspoolsleep=%d",
				hexs([]byte(addr)), hexs([]byte(m.Prefix)), hexs([]byte(m.NotPrefix)), hexs([]byte(m.Sub)),
				hexs([]byte(m.NotSub)), hexs([]byte(m.Regex)), hexs([]byte(m.NotRegex)), d.Spool, d.Pickle,
				dur("periodFlush")/time.Millisecond, dur("periodReConn")/time.Millisecond, v.FieldByName("connBufSize").Int(), v.FieldByName("ioBufSize").Int(),
				d.SpoolBufSize, d.SpoolMaxBytesPerFile, d.SpoolSyncEvery, d.SpoolSyncPeriod/time.Millisecond, d.SpoolSleep/time.Microsecond, d.UnspoolSleep/time.Microsecond)
		})
	}
}

// matcher differential (C03): `m <pre> <npre> <sub> <nsub> <re> <nre> <name>` -> "<match 0/1> <premat 0/1> <prefixFromRegex> <prefixFromNotRegex>"
func init() {
	subs["match"] = func(args []string) {
		scanLines(func(f []string, raw string) {
			if f[0] == "torn" {
				// a destination's filter is replaced while a dispatcher evaluates it (C18): torn <name length> <delay ms>
				// old filter: regex a+$ (accepts, slow on a long name), notRegex ^a (rejects); new filter: regex ^b (rejects).
				// Whatever the interleaving, the name must be rejected: by the old filter or by the new one.
				ln, _ := strconv.Atoi(f[1])
				delay, _ := strconv.Atoi(f[2])
				name := bytes.Repeat([]byte("a"), ln)
				m, _ := matcher.New("", "", "", "", "a+$", "^a")
				d, err := destination.New("torn", m, "127.0.0.1:9", "/tmp", false, false, time.Second, time.Hour, 10, 100, 10, 1000, 10, time.Second, time.Millisecond, time.Millisecond)
				if err != nil {
					emit("err")
					return
				}
				res := make(chan bool)
				t0 := time.Now()
				go func() { res <- d.Match(name) }()
				time.Sleep(time.Duration(delay) * time.Millisecond)
				d.Update(map[string]string{"regex": "^b", "notRegex": ""})
				r := <-res
				emit("torn %v %d", r, time.Since(t0)/time.Millisecond)
				return
			}
			if f[0] == "u" {
				// filter updated at run time (modRoute / modDest): u <6 options> <6 updates: '=' keeps, else the new value> <name>
				// -> route.Match, dest.Match after the update, and Match of a matcher built afresh from the final options
				opt := func(i int) string { return string(unhexArg(f[i])) }
				m, err := matcher.New(opt(1), opt(2), opt(3), opt(4), opt(5), opt(6))
				if err != nil {
					emit("err")
					return
				}
				names := []string{"prefix", "notPrefix", "sub", "notSub", "regex", "notRegex"}
				final := []string{opt(1), opt(2), opt(3), opt(4), opt(5), opt(6)}
				upd := map[string]string{}
				for i, n := range names {
					if f[7+i] != "=" {
						upd[n] = string(unhexArg(f[7+i]))
						final[i] = upd[n]
					}
				}
				fresh, err := matcher.New(final[0], final[1], final[2], final[3], final[4], final[5])
				if err != nil {
					emit("err")
					return
				}
				rt, err := route.NewSendAllMatch("u", m, nil)
				if err != nil {
					emit("err")
					return
				}
				d, err := destination.New("u", m, "127.0.0.1:9", "/tmp", false, false, time.Second, time.Hour, 10, 100, 10, 1000, 10, time.Second, time.Millisecond, time.Millisecond)
				if err != nil {
					emit("err")
					return
				}
				if err := rt.Update(upd); err != nil {
					emit("upderr")
					return
				}
				if err := d.Update(upd); err != nil {
					emit("upderr")
					return
				}
				name := unhexArg(f[13])
				b2i := func(b bool) int {
					if b {
						return 1
					}
					return 0
				}
				emit("u %d %d %d", b2i(rt.Match(name)), b2i(d.Match(name)), b2i(fresh.Match(name)))
				return
			}
			m, err := matcher.New(string(unhexArg(f[1])), string(unhexArg(f[2])), string(unhexArg(f[3])), string(unhexArg(f[4])), string(unhexArg(f[5])), string(unhexArg(f[6])))
			if err != nil {
				emit("err")
				return
			}
			name := unhexArg(f[7])
			v := reflect.ValueOf(&m).Elem()
			b2i := func(b bool) int {
				if b {
					return 1
				}
				return 0
			}
			emit("%d %d %s %s", b2i(m.Match(name)), b2i(m.PreMatch(name)), hexOrDash(v.FieldByName("prefixFromRegex").Bytes()), hexOrDash(v.FieldByName("prefixFromNotRegex").Bytes()))
		})
	}
}

// AST dump (C03): `<re>` -> "<regexToPrefix as the matcher derived it> <simplified syntax tree>"
// tree: e | l<byte> | w | b | z | n | g(x) | s(x) | p(x) | q(x) | c(x,..) | a(x,..)
func dumpRe(re *syntax.Regexp) string {
	sub := func() string {
		var parts []string
		for _, s := range re.Sub {
			parts = append(parts, dumpRe(s))
		}
		return strings.Join(parts, ",")
	}
	switch re.Op {
	case syntax.OpEmptyMatch:
		return "e"
	case syntax.OpNoMatch:
		return "n"
	case syntax.OpLiteral:
		var parts []string
		for _, r := range re.Rune {
			if re.Flags&syntax.FoldCase != 0 || r >= 0x80 {
				parts = append(parts, "w")
			} else {
				parts = append(parts, fmt.Sprintf("l%d", r))
			}
		}
		if len(parts) == 1 {
			return parts[0]
		}
		return "c(" + strings.Join(parts, ",") + ")"
	case syntax.OpCharClass, syntax.OpAnyCharNotNL, syntax.OpAnyChar:
		return "w"
	case syntax.OpBeginText:
		return "b"
	case syntax.OpBeginLine, syntax.OpEndLine, syntax.OpEndText, syntax.OpWordBoundary, syntax.OpNoWordBoundary:
		return "z"
	case syntax.OpCapture:
		return "g(" + sub() + ")"
	case syntax.OpStar, syntax.OpRepeat:
		return "s(" + sub() + ")"
	case syntax.OpPlus:
		return "p(" + sub() + ")"
	case syntax.OpQuest:
		return "q(" + sub() + ")"
	case syntax.OpConcat:
		return "c(" + sub() + ")"
	case syntax.OpAlternate:
		return "a(" + sub() + ")"
	}
	return "w"
}

func init() {
	subs["rxast"] = func(args []string) {
		scanLines(func(f []string, raw string) {
			src := string(unhexArg(f[0]))
			m, err := matcher.New("", "", "", "", src, "")
			if err != nil {
				emit("err")
				return
			}
			re, err := syntax.Parse(src, syntax.Perl)
			if err != nil {
				emit("err")
				return
			}
			v := reflect.ValueOf(&m).Elem()
			emit("%s %s", hexOrDash(v.FieldByName("prefixFromRegex").Bytes()), dumpRe(re.Simplify()))
		})
	}
}

// concurrent order validation (C19): `run <goroutines> <ops per goroutine> <names> <tsrange> <seed>`
// every goroutine offers pseudo-random (name, ts) pairs; prints per name the accepted timestamps of each goroutine in its own order
func init() {
	subs["ordconc"] = func(args []string) {
		scanLines(func(f []string, raw string) {
			g, _ := strconv.Atoi(f[1])
			n, _ := strconv.Atoi(f[2])
			names, _ := strconv.Atoi(f[3])
			tsr, _ := strconv.Atoi(f[4])
			seed, _ := strconv.Atoi(f[5])
			skew := len(f) > 6 && f[6] == "1" // one busy name, the others offered about once in 2048 calls ("quiet" series)
			validate.VerifReset()
			acc := make([][][]uint32, g) // goroutine -> name -> accepted ts
			done := make(chan bool)
			for gi := 0; gi < g; gi++ {
				acc[gi] = make([][]uint32, names)
				go func(gi int) {
					x := uint64(seed*1000 + gi + 1)
					for i := 0; i < n; i++ {
						x = x*6364136223846793005 + 1442695040888963407
						nm := int((x >> 33) % uint64(names))
						if skew && names > 1 {
							if (x>>45)%2048 != 0 {
								nm = 0
							} else {
								nm = 1 + int((x>>33)%uint64(names-1))
							}
						}
						ts := uint32((x>>20)%uint64(tsr)) + 1
						key := []byte("name" + strconv.Itoa(nm))
						if validate.Ordered(key, ts) == nil {
							acc[gi][nm] = append(acc[gi][nm], ts)
						}
					}
					done <- true
				}(gi)
			}
			for gi := 0; gi < g; gi++ {
				<-done
			}
			for nm := 0; nm < names; nm++ {
				var parts []string
				for gi := 0; gi < g; gi++ {
					var s []string
					for _, t := range acc[gi][nm] {
						s = append(s, strconv.Itoa(int(t)))
					}
					parts = append(parts, strings.Join(s, ","))
				}
				emit("name %d %s", nm, strings.Join(parts, ";"))
			}
		})
	}
}
