package main

import (
	"fmt"
	"io/ioutil"
	"os"
	"os/exec"
	"reflect"
	"strings"
	"time"

	"github.com/BurntSushi/toml"
	"github.com/grafana/carbon-relay-ng/cfg"
	"github.com/grafana/carbon-relay-ng/imperatives"
	"github.com/grafana/carbon-relay-ng/matcher"
	"github.com/grafana/carbon-relay-ng/route"
	"github.com/grafana/carbon-relay-ng/table"
)

// configuration semantics (C20): what entry does a command / a TOML section put into a real table?
//
//	cmd <hex command> [<hex command> ...]   apply the commands, in order, to a fresh table
//	toml <hex toml text>                    decode and InitTable into a fresh table
//
// output: one canonical line per table entry (string fields hex, durations in their documented unit), then "end" — or "err"
func mstr(m matcher.Matcher) string {
	return fmt.Sprintf("pre=%s npre=%s sub=%s nsub=%s re=%s nre=%s", hexOrDash([]byte(m.Prefix)), hexOrDash([]byte(m.NotPrefix)),
		hexOrDash([]byte(m.Sub)), hexOrDash([]byte(m.NotSub)), hexOrDash([]byte(m.Regex)), hexOrDash([]byte(m.NotRegex)))
}

func describe(tab *table.Table) []string {
	var out []string
	snap := tab.Snapshot()
	for _, b := range snap.Blacklist {
		out = append(out, "bl "+mstr(*b))
	}
	for _, r := range snap.Rewriters {
		out = append(out, fmt.Sprintf("rw old=%s new=%s not=%s max=%d", hexOrDash([]byte(r.Old)), hexOrDash([]byte(r.New)), hexOrDash([]byte(r.Not)), r.Max))
	}
	for _, a := range snap.Aggregators {
		out = append(out, fmt.Sprintf("agg fun=%s %s fmt=%s cache=%v interval=%d wait=%d dropraw=%v", a.Fun, mstr(a.Matcher), hexOrDash([]byte(a.OutFmt)), a.Cache, a.Interval, a.Wait, a.DropRaw))
	}
	for _, rs := range snap.Routes {
		rt := tab.GetRoute(rs.Key)
		if g, ok := rt.(*route.GrafanaNet); ok {
			c := g.Cfg
			out = append(out, fmt.Sprintf("gn key=%s %s addr=%s apikey=%s schemas=%s aggfile=%s bufsize=%d flushmaxnum=%d flushmaxwait=%d timeout=%d concurrency=%d orgid=%d sslverify=%v blocking=%v spool=%v errbackoffmin=%d errbackofffactor=%v",
				rs.Key, mstr(rs.Matcher), hexOrDash([]byte(c.Addr)), hexOrDash([]byte(c.ApiKey)), hexOrDash([]byte(c.SchemasFile)), hexOrDash([]byte(c.AggregationFile)),
				c.BufSize, c.FlushMaxNum, c.FlushMaxWait/time.Millisecond, c.Timeout/time.Millisecond, c.Concurrency, c.OrgID, c.SSLVerify, c.Blocking, c.Spool,
				c.ErrBackoffMin/time.Millisecond, c.ErrBackoffFactor))
			continue
		}
		out = append(out, fmt.Sprintf("route type=%s key=%s %s ndest=%d", rs.Type, rs.Key, mstr(rs.Matcher), len(rs.Dests)))
		for i := range rs.Dests {
			d, err := rt.GetDestination(i) // the live destination: the snapshot copy carries the exported fields only
			if err != nil {
				out = append(out, "dest ?")
				continue
			}
			v := reflect.ValueOf(d).Elem()
			dur := func(n string) time.Duration { return time.Duration(v.FieldByName(n).Int()) }
			out = append(out, fmt.Sprintf("dest addr=%s inst=%s %s spool=%v pickle=%v flush=%d reconn=%d connbuf=%d iobuf=%d spoolbuf=%d maxbytes=%d syncevery=%d syncperiod=%d spoolsleep=%d unspoolsleep=%d",
				hexOrDash([]byte(d.Addr)), hexOrDash([]byte(d.Instance)), mstr(d.Matcher), d.Spool, d.Pickle,
				dur("periodFlush")/time.Millisecond, dur("periodReConn")/time.Millisecond, v.FieldByName("connBufSize").Int(), v.FieldByName("ioBufSize").Int(),
				d.SpoolBufSize, d.SpoolMaxBytesPerFile, d.SpoolSyncEvery, d.SpoolSyncPeriod/time.Millisecond, d.SpoolSleep/time.Microsecond, d.UnspoolSleep/time.Microsecond))
		}
	}
	return out
}

func freshTable() *table.Table {
	c := cfg.NewConfig()
	c.Spool_dir = os.TempDir()
	c.Bad_metrics_max_age = "1h"
	tc, err := c.TableConfig()
	if err != nil {
		panic(err)
	}
	return table.New(tc)
}

func init() {
	subs["cfg"] = func(args []string) {
		scanLines(func(f []string, raw string) {
			tab := freshTable()
			failed := false
			func() {
				defer func() {
					if r := recover(); r != nil {
						emit("panic %s", strings.Replace(fmt.Sprint(r), " ", "_", -1))
						failed = true
					}
				}()
				switch f[0] {
				case "cmd":
					for _, c := range f[1:] {
						if err := imperatives.Apply(tab, string(unhexArg(c))); err != nil {
							emit("err")
							failed = true
							return
						}
					}
				case "toml":
					config := cfg.NewConfig()
					meta, err := toml.Decode(string(unhexArg(f[1])), &config)
					if err != nil {
						emit("err")
						failed = true
						return
					}
					if err := cfg.InitTable(tab, config, meta); err != nil {
						emit("err")
						failed = true
						return
					}
				}
			}()
			if !failed {
				for _, l := range describe(tab) {
					emit("%s", l)
				}
				emit("end")
			}
			go tab.Shutdown()
		})
	}
}

// config-file interpolation through the real binary (built with -tags verif, path in CRNG_RELAY_BIN):
// `interp <texthex>` -> hex of readConfigFile's result; HOST is the machine's, the GRAFANA_NET_* variables are fixed here
func init() {
	subs["interp"] = func(args []string) {
		bin := os.Getenv("CRNG_RELAY_BIN")
		host, _ := os.Hostname()
		host = strings.SplitN(host, ".", 2)[0]
		scanLines(func(f []string, raw string) {
			tmp, _ := ioutil.TempFile("", "crngcfg")
			tmp.Write(unhexArg(f[1]))
			tmp.Close()
			defer os.Remove(tmp.Name())
			cmd := exec.Command(bin)
			cmd.Env = []string{"CRNG_VERIF_EXPAND=" + tmp.Name(), "GRAFANA_NET_ADDR=<ADDR>", "GRAFANA_NET_API_KEY=<KEY>", "GRAFANA_NET_USER_ID=<UID>"}
			o, err := cmd.Output()
			if err != nil {
				emit("experr")
				return
			}
			// make the output independent of the machine: the host name is replaced by a marker
			emit("%s", hexOrDash([]byte(strings.Replace(string(o), host, "<HOST>", -1))))
		})
	}
}
