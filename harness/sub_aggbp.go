package main

import (
	"bytes"
	"reflect"
	"strconv"
	"sync"
	"sync/atomic"
	"time"

	"github.com/grafana/carbon-relay-ng/aggregator"
	"github.com/grafana/carbon-relay-ng/matcher"
	"github.com/grafana/carbon-relay-ng/table"
	"github.com/grafana/carbon-relay-ng/validate"
)

// aggregation under backpressure (C11): a real table with one aggregation (count, optionally drop-raw, prefix filter, a
// small input buffer) in front of a capture route. The aggregator's goroutine is stalled (its clock blocks) while a
// second goroutine dispatches the lines of the case, so that the aggregator's input buffer fills; then it is released.
//
//	run <inbuf> <dropraw 0/1> <prefix hex> <line hex>...
//	-> raw <n> (raw lines the route received)  rawmatch <n> (of them: lines the aggregation's filter accepts)
//	   agg <sum of the emitted counts>  | hang (the dispatcher did not finish within 10 s of the release)
func init() {
	subs["aggbp"] = func(args []string) {
		aggregator.InitMetrics()
		seq := 0
		scanLines(func(f []string, raw string) {
			if f[0] != "run" {
				return
			}
			seq++
			inbuf, _ := strconv.Atoi(f[1])
			dropRaw := f[2] == "1"
			prefix := string(unhexArg(f[3]))
			var ll validate.LevelLegacy
			var ml validate.LevelM20
			ll.UnmarshalText([]byte("none"))
			ml.UnmarshalText([]byte("none"))
			conf, err := table.NewTableConfig("/tmp", "1h", ll, ml, false)
			if err != nil {
				emit("cfgerr")
				return
			}
			tab := table.New(conf)
			var parked int32 = 1
			gate := make(chan struct{})
			var once sync.Once
			var now int64 = 99990
			nowFn := func() time.Time {
				if atomic.LoadInt32(&parked) == 1 {
					<-gate
				}
				return time.Unix(atomic.LoadInt64(&now), 0)
			}
			m, err := matcher.New(prefix, "", "", "", "^(.*)$", "")
			if err != nil {
				emit("cfgerr")
				return
			}
			out := tab.In
			tick := make(chan time.Time)
			a, err := aggregator.NewMocked("count", m, "agg.$1", false, 10, 0, dropRaw, out, inbuf, nowFn, tick)
			if err != nil {
				emit("cfgerr")
				return
			}
			tab.AddAggregator(a)
			am, _ := matcher.New("", "", "", "", "", "")
			capr := &capRoute{key: "bp" + strconv.Itoa(seq), m: &am}
			tab.AddRoute(capr)
			done := make(chan bool)
			lines := f[4:]
			go func() {
				for _, h := range lines {
					tab.Dispatch(unhexArg(h))
				}
				close(done)
			}()
			time.Sleep(30 * time.Millisecond) // the dispatcher runs into the full buffer (or finishes)
			atomic.StoreInt32(&parked, 0)
			once.Do(func() { close(gate) })
			select {
			case <-done:
			case <-time.After(10 * time.Second):
				emit("hang")
				return
			}
			// everything handed to the aggregator has been taken out of its queue (then Snapshot is a barrier: it is served by
			// the same goroutine after the message being processed)
			inq := reflect.ValueOf(a).Elem().FieldByName("in")
			for k := 0; k < 2000000 && inq.Len() > 0; k++ {
				time.Sleep(5 * time.Microsecond)
			}
			a.Snapshot()
			atomic.StoreInt64(&now, 100000+1000)
			tick <- time.Unix(100000+1000, 0)
			a.Snapshot()
			time.Sleep(20 * time.Millisecond) // Table.In -> DispatchAggregate -> capture route
			for i := 0; i < 200 && len(tab.In) > 0; i++ {
				time.Sleep(time.Millisecond)
			}
			_, cp := capr.take()
			nraw, nrawmatch, agg := 0, 0, 0
			for _, l := range cp {
				if bytes.HasPrefix(l, []byte("agg.")) {
					fs := bytes.Fields(l)
					if len(fs) == 3 {
						v, _ := strconv.ParseFloat(string(fs[1]), 64)
						agg += int(v)
					}
					continue
				}
				nraw++
				if bytes.HasPrefix(l, []byte(prefix)) {
					nrawmatch++
				}
			}
			emit("raw %d rawmatch %d agg %d", nraw, nrawmatch, agg)
			go a.Shutdown()
		})
	}
}
