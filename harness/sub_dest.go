package main

import (
	"bytes"
	"fmt"
	"io/ioutil"
	"net"
	"os"
	"reflect"
	"strconv"
	"strings"
	"sync"
	"syscall"
	"time"
	"unsafe"

	"github.com/grafana/carbon-relay-ng/destination"
	"github.com/grafana/carbon-relay-ng/matcher"
	"github.com/grafana/carbon-relay-ng/nsqd"
	"github.com/grafana/carbon-relay-ng/stats"
)

// real destination -> loopback endpoint (C05, C06, C07)
//
//	cfg <pickle> <iobuf> <connbuf> <flushms> <spool> [reconnms]   start endpoint + destination, wait until connected
//	l <hex> [bits]      hand one line to the destination (blocking send on dest.In, as routes do)
//	pace <us>           sleep after every hand-off
//	down / up           close the endpoint (listener and connections) / listen again on the same port
//	silent              build an endpoint that never answers connection attempts (listen backlog 0, accept queue full)
//	update addr=silent|addr=ep|prefix=<s>   Destination.Update in a goroutine of its own, as the admin interface does (modDest)
//	mode <m>            change how the endpoint reads from now on (healthy | blackhole | slow), also on open connections
//	flush               Destination.Flush() in a goroutine
//	sleep <ms>
//	keep <ms>           keepSafe rotation period of the connections of the next cfg (default: the code's 10 s)
//	hold <hex>          hold HandleData at its schedule point when it has received exactly this line (until `release`)
//	waitheld            wait until the held goroutine has reached the point
//	release             let it continue
//	drain <ms>          wait until the endpoint has received nothing new for <ms>
//	end                 wait for quiescence, print what the endpoint received (per incarnation) and the counters
type endpoint struct {
	sync.Mutex
	ln    net.Listener
	addr  string
	conns []net.Conn
	recv  [][]byte // per accepted connection
	total int
	mode  string // healthy | blackhole (accept, never read) | slow (read a little every few ms)
	gen   int    // incremented by down(): readers of closed connections stop
}

func (e *endpoint) listen() error {
	var err error
	for i := 0; i < 50; i++ {
		a := e.addr
		if a == "" {
			a = "127.0.0.1:0"
		}
		e.ln, err = net.Listen("tcp", a)
		if err == nil {
			break
		}
		time.Sleep(20 * time.Millisecond)
	}
	if err != nil {
		return err
	}
	e.addr = e.ln.Addr().String()
	ln := e.ln
	go func() {
		for {
			c, err := ln.Accept()
			if err != nil {
				return
			}
			e.Lock()
			idx := len(e.recv)
			e.recv = append(e.recv, nil)
			e.conns = append(e.conns, c)
			e.Unlock()
			e.Lock()
			gen := e.gen
			e.Unlock()
			go func() {
				// the reading behaviour follows the endpoint's current mode, so that a connection can stall and resume
				big := make([]byte, 65536)
				for {
					e.Lock()
					mode := e.mode
					gone := e.gen != gen
					e.Unlock()
					buf := big
					switch mode {
					case "blackhole": // accepted, not read (for now)
						if gone {
							return
						}
						time.Sleep(5 * time.Millisecond)
						continue
					case "slow":
						time.Sleep(2 * time.Millisecond)
						buf = big[:512]
					}
					n, err := c.Read(buf)
					if n > 0 {
						e.Lock()
						e.recv[idx] = append(e.recv[idx], buf[:n]...)
						e.total += n
						e.Unlock()
					}
					if err != nil {
						return
					}
				}
			}()
		}
	}()
	return nil
}

func (e *endpoint) down() {
	if e.ln != nil {
		e.ln.Close()
	}
	e.Lock()
	for _, c := range e.conns {
		c.Close()
	}
	e.conns = nil
	e.gen++
	e.Unlock()
}

func (e *endpoint) newlines() int {
	e.Lock()
	defer e.Unlock()
	n := 0
	for _, r := range e.recv {
		n += bytes.Count(r, []byte{'\n'})
	}
	return n
}

// complete length-prefixed frames received so far (pickle mode)
func (e *endpoint) frames() int {
	e.Lock()
	defer e.Unlock()
	n := 0
	for _, r := range e.recv {
		for i := 0; i+4 <= len(r); {
			l := int(r[i])<<24 | int(r[i+1])<<16 | int(r[i+2])<<8 | int(r[i+3])
			if i+4+l > len(r) {
				break
			}
			i += 4 + l
			n++
		}
	}
	return n
}

func (e *endpoint) totalRecv() int {
	e.Lock()
	defer e.Unlock()
	return e.total
}

var destSeq int

// spoolBacklog reads, through the unexported fields, how much the destination's spool still holds: the disk queue's depth plus
// what sits in the channels in front of it (0 when spooling is off)
func spoolBacklog(d *destination.Destination) int64 {
	sp := reflect.ValueOf(d).Elem().FieldByName("spool")
	if sp.IsNil() {
		return 0
	}
	sp = sp.Elem()
	n := int64(sp.FieldByName("queueBuffer").Len() + sp.FieldByName("InRT").Len())
	q := sp.FieldByName("queue")
	q = reflect.NewAt(q.Type(), unsafe.Pointer(q.UnsafeAddr())).Elem()
	if dq, ok := q.Interface().(*nsqd.DiskQueue); ok && dq != nil {
		n += dq.Depth()
	}
	return n
}

// an endpoint that does not answer connection attempts: a listening socket with backlog 0 whose accept queue is full.
// Linux drops further SYNs, so a connect() to it hangs until the kernel gives up (minutes). "" if it cannot be built.
var silentKeep []net.Conn

func silentEndpoint() string {
	fd, err := syscall.Socket(syscall.AF_INET, syscall.SOCK_STREAM, 0)
	if err != nil {
		return ""
	}
	if err := syscall.Bind(fd, &syscall.SockaddrInet4{Addr: [4]byte{127, 0, 0, 1}}); err != nil {
		return ""
	}
	if err := syscall.Listen(fd, 0); err != nil {
		return ""
	}
	sa, err := syscall.Getsockname(fd)
	if err != nil {
		return ""
	}
	addr := fmt.Sprintf("127.0.0.1:%d", sa.(*syscall.SockaddrInet4).Port)
	for i := 0; i < 64; i++ {
		c, err := net.DialTimeout("tcp", addr, 300*time.Millisecond)
		if err != nil {
			if ne, ok := err.(net.Error); ok && ne.Timeout() {
				return addr
			}
			return ""
		}
		silentKeep = append(silentKeep, c)
	}
	return ""
}

func init() {
	subs["dest"] = func(args []string) {
		var ep *endpoint
		var d *destination.Destination
		var key string
		var spoolDir string
		cnt := func(name string) int64 { return stats.Counter("dest=" + key + "." + name).Count() }
		pace := time.Duration(0)
		sent := 0
		keep := 10 * time.Second
		silentAddr := ""
		isPickle := false
		var holdMu sync.Mutex
		var holdLine []byte
		var held, release chan bool
		destination.VerifSchedPoint = func(point string, buf []byte) {
			holdMu.Lock()
			match := holdLine != nil && point == "handledata-received" && string(buf) == string(holdLine)
			h, r := held, release
			if match {
				holdLine = nil
			}
			holdMu.Unlock()
			if match {
				close(h)
				select {
				case <-r:
				case <-time.After(10 * time.Second):
				}
			}
		}
		maxHandoff := time.Duration(0)
		counters := func() string {
			return fmt.Sprintf("slow_conn=%d conn_down_no_spool=%d slow_spool=%d bad_pickle=%d",
				cnt("unit=Metric.action=drop.reason=slow_conn"), cnt("unit=Metric.action=drop.reason=conn_down_no_spool"),
				cnt("unit=Metric.action=drop.reason=slow_spool"), cnt("unit=Metric.action=drop.reason=bad_pickle"))
		}
		stop := func() {
			if d != nil {
				done := make(chan bool)
				go func() { d.Shutdown(); close(done) }()
				select {
				case <-done:
				case <-time.After(3 * time.Second):
				}
				d = nil
			}
			if ep != nil {
				ep.down()
				ep = nil
			}
			if spoolDir != "" {
				os.RemoveAll(spoolDir)
				spoolDir = ""
			}
		}
		scanLines(func(f []string, raw string) {
			switch f[0] {
			case "cfg":
				stop()
				pickle := f[1] == "1"
				isPickle = pickle
				iobuf, _ := strconv.Atoi(f[2])
				connbuf, _ := strconv.Atoi(f[3])
				flushms, _ := strconv.Atoi(f[4])
				spool := f[5] == "1"
				reconn := 50
				if len(f) > 6 {
					reconn, _ = strconv.Atoi(f[6])
				}
				ep = &endpoint{mode: "healthy"}
				if len(f) > 7 {
					ep.mode = f[7]
				}
				maxHandoff = 0
				if ep.mode == "refuse" {
					// reserve an address nobody listens on
					l, _ := net.Listen("tcp", "127.0.0.1:0")
					ep.addr = l.Addr().String()
					l.Close()
				} else if err := ep.listen(); err != nil {
					emit("cfgerr listen")
					return
				}
				destSeq++
				destination.VerifSetKeepDuration(keep)
				keep = 10 * time.Second
				m, _ := matcher.New("", "", "", "", "", "")
				spoolDir, _ = ioutil.TempDir("", "crngspool")
				var err error
				d, err = destination.New("r"+strconv.Itoa(destSeq), m, ep.addr, spoolDir, spool, pickle,
					time.Duration(flushms)*time.Millisecond, time.Duration(reconn)*time.Millisecond, connbuf, iobuf,
					100, 2000, 100, 20*time.Millisecond, 100*time.Microsecond, 10*time.Microsecond)
				if err != nil {
					emit("cfgerr %v", err)
					d = nil
					return
				}
				key = d.Key
				d.Run()
				// (WaitOnline is only used by the repo's tests and misses a conn that is already up; poll instead)
				if ep.mode != "refuse" {
					for i := 0; i < 5000 && !d.Online; i++ {
						time.Sleep(time.Millisecond)
					}
					if !d.Online {
						emit("cfgerr never online")
					}
				}
				sent = 0
				pace = 0
			case "mode":
				ep.Lock()
				ep.mode = f[1]
				ep.Unlock()
			case "flush":
				// Destination.Flush (table.Flush / route.Flush), from a goroutine of its own
				dd := d
				go dd.Flush()
			case "silent":
				silentAddr = silentEndpoint()
				emit("silent %v", silentAddr != "")
			case "update":
				opts := map[string]string{}
				for _, kv := range f[1:] {
					p := strings.SplitN(kv, "=", 2)
					v := p[1]
					if p[0] == "addr" && v == "silent" {
						v = silentAddr
					} else if p[0] == "addr" && v == "ep" {
						v = ep.addr
					}
					opts[p[0]] = v
				}
				dd := d
				go dd.Update(opts)
			case "keep":
				ms, _ := strconv.Atoi(f[1])
				keep = time.Duration(ms) * time.Millisecond
			case "hold":
				holdMu.Lock()
				holdLine = unhexArg(f[1])
				held, release = make(chan bool), make(chan bool)
				holdMu.Unlock()
			case "waitheld":
				select {
				case <-held:
					emit("held true")
				case <-time.After(3 * time.Second):
					emit("held false")
				}
			case "release":
				if release != nil {
					close(release)
					release = nil
				}
			case "drain":
				// the endpoint has received nothing new for <ms> AND (white box, as the property's observation points say) the
				// spool holds nothing any more: disk queue depth 0, nothing in its input buffer. On a loaded machine the disk
				// queue can pause for longer than any fixed quiet period.
				ms, _ := strconv.Atoi(f[1])
				last, since := -1, time.Now()
				deadline := time.Now().Add(90 * time.Second)
				for time.Now().Before(deadline) {
					t := ep.totalRecv()
					if t != last {
						last, since = t, time.Now()
					} else if time.Since(since) > time.Duration(ms)*time.Millisecond && spoolBacklog(d) == 0 {
						break
					}
					time.Sleep(5 * time.Millisecond)
				}
				emit("drained backlog=%d", spoolBacklog(d))
			case "pace":
				us, _ := strconv.Atoi(f[1])
				pace = time.Duration(us) * time.Microsecond
			case "l":
				// exactly what SendAllMatch.Dispatch does per destination: `if dest.Match(buf) { dest.In <- buf }`
				b := unhexArg(f[1])
				t0 := time.Now()
				done := make(chan bool, 1)
				dd := d
				go func() {
					if dd.Match(b) {
						dd.In <- b
					}
					done <- true
				}()
				select {
				case <-done:
					sent++
					if dt := time.Since(t0); dt > maxHandoff {
						maxHandoff = dt
					}
				case <-time.After(5 * time.Second):
					emit("handoff-stalled")
				}
				if pace > 0 {
					time.Sleep(pace)
				}
			case "down":
				ep.down()
			case "up":
				if len(f) > 1 {
					ep.mode = f[1]
				}
				if err := ep.listen(); err != nil {
					emit("uperr")
				}
			case "waitonline":
				want := f[1] == "1"
				for i := 0; i < 8000 && d.Online != want; i++ {
					time.Sleep(time.Millisecond)
				}
				emit("online %v", d.Online)
			case "phase":
				// a steady-state boundary: wait until nothing new arrives, then report what has been received and counted so far
				last, since := -1, time.Now()
				deadline := time.Now().Add(4 * time.Second)
				for time.Now().Before(deadline) {
					t := ep.totalRecv()
					if t != last {
						last, since = t, time.Now()
					} else if time.Since(since) > 150*time.Millisecond {
						break
					}
					time.Sleep(5 * time.Millisecond)
				}
				emit("phase %s sent=%d recvbytes=%d %s", f[1], sent, ep.totalRecv(), counters())
			case "sleep":
				ms, _ := strconv.Atoi(f[1])
				time.Sleep(time.Duration(ms) * time.Millisecond)
			case "end":
				// quiescence: nothing new received for a while (several flush periods). On a loaded machine a flush tick can be
				// late by more than that, so while lines are still unaccounted (text mode: received newlines + counted drops <
				// handed off) the wait goes on, up to 5 s
				last, since, t0 := -1, time.Now(), time.Now()
				deadline := time.Now().Add(8 * time.Second)
				for time.Now().Before(deadline) {
					t := ep.totalRecv()
					if t != last {
						last, since = t, time.Now()
					} else if time.Since(since) > 300*time.Millisecond {
						drops := cnt("unit=Metric.action=drop.reason=slow_conn") + cnt("unit=Metric.action=drop.reason=conn_down_no_spool") +
							cnt("unit=Metric.action=drop.reason=slow_spool") + cnt("unit=Metric.action=drop.reason=bad_pickle")
						got := ep.newlines()
						if isPickle {
							got = ep.frames()
						}
						if got+int(drops) >= sent || time.Since(t0) > 5*time.Second {
							break
						}
					}
					time.Sleep(10 * time.Millisecond)
				}
				ep.Lock()
				for i, r := range ep.recv {
					emit("recv %d %s", i, hexOrDash(r))
				}
				ep.Unlock()
				emit("sent %d", sent)
				emit("maxhandoff_ms %d", maxHandoff/time.Millisecond)
				emit("drops slow_conn=%d conn_down_no_spool=%d slow_spool=%d bad_pickle=%d",
					cnt("unit=Metric.action=drop.reason=slow_conn"), cnt("unit=Metric.action=drop.reason=conn_down_no_spool"),
					cnt("unit=Metric.action=drop.reason=slow_spool"), cnt("unit=Metric.action=drop.reason=bad_pickle"))
				stop()
			}
		})
		stop()
	}
}
