package main

import (
	"fmt"
	"io/ioutil"
	"math"
	"os"
	"strconv"
	"strings"

	"github.com/grafana/carbon-relay-ng/destination"
	"github.com/grafana/carbon-relay-ng/persister"
	"github.com/grafana/carbon-relay-ng/route"
)

// C16: storage-schemas + parseMetric (through the verif accessors), ParseDataPoint + Pickle
//
//	schema | rule <pattern> <priority|-> <retentions> | endschema       the file is written as storage-schemas.conf text
//	pm <line> <bits> <org>
//	dp <line> <bits>
func init() {
	subs["pm"] = func(args []string) {
		var text strings.Builder
		var schemas persister.WhisperSchemas
		n := 0
		var pendingDP []byte
		havePendingDP := false
		beforeCase = func() {
			if havePendingDP {
				emit("%s", hexs(pendingDP))
				havePendingDP = false
			}
		}
		scanLines(func(f []string, raw string) {
			if f[0] != "dp" {
				beforeCase()
			}
			switch f[0] {
			case "schema":
				text.Reset()
				n = 0
				schemas = nil
			case "rule":
				n++
				fmt.Fprintf(&text, "[rule%d]\npattern = %s\n", n, string(unhexArg(f[1])))
				if f[2] != "-" {
					fmt.Fprintf(&text, "priority = %s\n", string(unhexArg(f[2])))
				}
				fmt.Fprintf(&text, "retentions = %s\n\n", string(unhexArg(f[3])))
			case "endschema":
				tmp, _ := ioutil.TempFile("", "schemas")
				tmp.WriteString(text.String())
				tmp.Close()
				func() {
					defer func() {
						if r := recover(); r != nil {
							emit("schema panic %v", strings.Replace(fmt.Sprint(r), " ", "_", -1))
							schemas = nil
						}
					}()
					s, err := route.VerifGetSchemas(tmp.Name())
					if err != nil {
						emit("schema err")
						schemas = nil
					} else {
						emit("schema ok")
						schemas = s
					}
				}()
				os.Remove(tmp.Name())
			case "pm":
				if schemas == nil {
					emit("err")
					return
				}
				org, _ := strconv.Atoi(f[3])
				md, err := route.VerifParseMetric(unhexArg(f[1]), schemas, org)
				if err != nil {
					emit("err")
					return
				}
				var tags []string
				for _, t := range md.Tags {
					tags = append(tags, hexs([]byte(t)))
				}
				emit("ok name=%s tags=%s interval=%d time=%d bits=%d org=%d", hexOrDash([]byte(md.Name)), strings.Join(tags, ","), md.Interval, md.Time, math.Float64bits(md.Value), md.OrgId)
			case "dp":
				// the message is printed after the NEXT one has been built (it sits in the connection's buffered writer
				// meanwhile): a message that shares storage with a later one shows here
				dp, err := destination.ParseDataPoint(unhexArg(f[1]))
				if err != nil {
					beforeCase()
					emit("err")
					return
				}
				o := destination.Pickle(dp)
				beforeCase()
				pendingDP, havePendingDP = o, true
			}
		})
	}
}
