package main

import (
	"crypto/md5"
	"fmt"
	"reflect"
	"strconv"
	"strings"
	"time"

	"github.com/grafana/carbon-relay-ng/destination"
	"github.com/grafana/carbon-relay-ng/matcher"
	"github.com/grafana/carbon-relay-ng/route"
)

// runtime changes of a consistentHashing route (C18), white box: a "snapshot" is the config value a dispatcher holds after
// its single config.Load() — the destination slice and the *ConsistentHasher with its ring. After later admin operations
// the snapshot is read again, exactly as a slow dispatcher would: the destination ids, a digest of the ring entries, and
// the destination id a set of fixed keys is sent to (ring lookup + index into the held destination slice).
//
//	new <id,id,..>      fresh route with these destinations
//	add <id> | del <idx>
//	snap                hold the current config
//	views               current config and every held one
func chDigest(conf reflect.Value) string {
	dests := conf.FieldByName("baseConfig").FieldByName("dests")
	var ids []string
	for i := 0; i < dests.Len(); i++ {
		ids = append(ids, dests.Index(i).Elem().FieldByName("Matcher").FieldByName("Prefix").String())
	}
	hasher := conf.FieldByName("Hasher").Elem()
	ring := hasher.FieldByName("Ring")
	h := md5.New()
	for i := 0; i < ring.Len(); i++ {
		e := ring.Index(i)
		fmt.Fprintf(h, "%d:%d;", e.FieldByName("Position").Uint(), e.FieldByName("DestinationIndex").Int())
	}
	// what a dispatcher holding this config does with some keys: GetDestinationIndex, then index the held destinations
	var choice []string
	for k := 0; k < 24; k++ {
		pos := uint64(k * 2731 % 65536)
		// sort.Search over the held ring, modulo its length (as GetDestinationIndex does)
		n := ring.Len()
		lo, hi := 0, n
		for lo < hi {
			mid := (lo + hi) / 2
			if ring.Index(mid).FieldByName("Position").Uint() >= pos {
				hi = mid
			} else {
				lo = mid + 1
			}
		}
		if n == 0 {
			choice = append(choice, "!")
			continue
		}
		di := int(ring.Index(lo % n).FieldByName("DestinationIndex").Int())
		if di < 0 || di >= len(ids) {
			choice = append(choice, "!oob")
		} else {
			choice = append(choice, ids[di])
		}
	}
	return fmt.Sprintf("dests=[%s] ringlen=%d ring=%x choice=[%s]", strings.Join(ids, ","), ring.Len(), h.Sum(nil)[:6], strings.Join(choice, ","))
}

func init() {
	subs["chops"] = func(args []string) {
		var rt *route.ConsistentHashing
		var snaps []reflect.Value
		seq := 0
		newDest := func(id string) *destination.Destination {
			m, _ := matcher.New(id, "", "", "", "", "")
			seq++
			d, err := destination.New("cc", m, fmt.Sprintf("10.0.%d.%d:2003:%s", seq/250, seq%250, id), "/tmp", false, false, time.Second, time.Hour, 10, 100, 10, 1000, 10, time.Second, time.Millisecond, time.Millisecond)
			if err != nil {
				panic(err)
			}
			return d
		}
		cur := func() reflect.Value {
			av := reflect.ValueOf(rt).Elem().FieldByName("baseRoute").FieldByName("config")
			return av.FieldByName("v").Elem()
		}
		scanLines(func(f []string, raw string) {
			switch f[0] {
			case "new":
				if rt != nil {
					old := rt
					go old.Shutdown()
				}
				var ds []*destination.Destination
				for _, id := range strings.Split(f[1], ",") {
					ds = append(ds, newDest(id))
				}
				m, _ := matcher.New("", "", "", "", "", "")
				r, err := route.NewConsistentHashing("cc"+strconv.Itoa(seq), m, ds)
				if err != nil {
					emit("new err")
					return
				}
				rt = r.(*route.ConsistentHashing)
				snaps = nil
			case "add":
				rt.Add(newDest(f[1]))
				emit("add ok")
			case "del":
				i, _ := strconv.Atoi(f[1])
				if err := rt.DelDestination(i); err != nil {
					emit("del err")
				} else {
					emit("del ok")
				}
			case "snap":
				snaps = append(snaps, cur())
				emit("snap%d %s", len(snaps)-1, chDigest(snaps[len(snaps)-1]))
			case "views":
				emit("cur %s", chDigest(cur()))
				for i, s := range snaps {
					emit("snap%d %s", i, chDigest(s))
				}
			}
		})
	}
}
