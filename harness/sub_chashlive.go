package main

import (
	"net"
	"strconv"
	"strings"
	"sync"
	"sync/atomic"
	"time"

	"github.com/grafana/carbon-relay-ng/destination"
	"github.com/grafana/carbon-relay-ng/matcher"
	"github.com/grafana/carbon-relay-ng/route"
)

// consistent hashing (C15) through the real route with *connected* destinations: same protocol as `chash`
// (`new a1,a2,..` | `add addr` | `del idx` | `k <namehex>`), but every address must have port 0, which is replaced by the
// port of a local sink; the route waits until every destination is online (so everything a (re)connect does to a
// destination has happened) and the answer to `k` is the index of the sink that received the line.
type liveSink struct {
	ln    net.Listener
	lines int64
	conns int64
}

func newLiveSink() *liveSink {
	l, err := net.Listen("tcp", "127.0.0.1:0")
	if err != nil {
		panic(err)
	}
	s := &liveSink{ln: l}
	go func() {
		for {
			c, err := l.Accept()
			if err != nil {
				return
			}
			atomic.AddInt64(&s.conns, 1)
			go func() {
				buf := make([]byte, 4096)
				for {
					n, err := c.Read(buf)
					for _, b := range buf[:n] {
						if b == '\n' {
							atomic.AddInt64(&s.lines, 1)
						}
					}
					if err != nil {
						return
					}
				}
			}()
		}
	}()
	return s
}

var chlSeq int

func init() {
	subs["chashlive"] = func(args []string) {
		var rt route.Route
		var dests []*destination.Destination
		var sinks []*liveSink
		var mu sync.Mutex
		var key string
		mk := func(addr string) (*destination.Destination, *liveSink) {
			p := strings.Split(addr, ":")
			s := newLiveSink()
			p[1] = strconv.Itoa(s.ln.Addr().(*net.TCPAddr).Port)
			m, _ := matcher.New("", "", "", "", "", "")
			d, err := destination.New(key, m, strings.Join(p, ":"), "/tmp", false, false, 2*time.Millisecond, 20*time.Millisecond, 1000, 4096, 10, 1000, 10, time.Second, time.Millisecond, time.Millisecond)
			if err != nil {
				panic(err)
			}
			return d, s
		}
		waitOnline := func() {
			for i := 0; i < 3000; i++ {
				all := true
				for _, d := range dests {
					if !d.Online {
						all = false
					}
				}
				if all {
					break
				}
				time.Sleep(time.Millisecond)
			}
			time.Sleep(30 * time.Millisecond) // a reconnect tick more: whatever connecting does to a destination has been done
		}
		closeAll := func() {
			if rt != nil {
				r := rt
				go r.Shutdown()
			}
			for _, s := range sinks {
				s.ln.Close()
			}
			dests, sinks = nil, nil
		}
		scanLines(func(f []string, raw string) {
			mu.Lock()
			defer mu.Unlock()
			switch f[0] {
			case "new":
				closeAll()
				chlSeq++
				key = "chl" + strconv.Itoa(chlSeq)
				for _, a := range strings.Split(f[1], ",") {
					d, s := mk(a)
					dests = append(dests, d)
					sinks = append(sinks, s)
				}
				m, _ := matcher.New("", "", "", "", "", "")
				rt, _ = route.NewConsistentHashing(key, m, dests)
				waitOnline()
			case "add":
				d, s := mk(f[1])
				rt.(*route.ConsistentHashing).Add(d)
				dests = append(dests, d)
				sinks = append(sinks, s)
				waitOnline()
			case "del":
				i, _ := strconv.Atoi(f[1])
				if err := rt.DelDestination(i); err != nil {
					emit("del err")
					return
				}
				dests = append(dests[:i:i], dests[i+1:]...)
				sinks = append(sinks[:i:i], sinks[i+1:]...)
				emit("del ok")
			case "repoint":
				// modDest addr=: an existing destination is pointed at another host:port:instance
				i, _ := strconv.Atoi(f[1])
				if i >= len(dests) {
					emit("repoint err")
					return
				}
				p := strings.Split(f[2], ":")
				ns := newLiveSink()
				p[1] = strconv.Itoa(ns.ln.Addr().(*net.TCPAddr).Port)
				if err := rt.UpdateDestination(i, map[string]string{"addr": strings.Join(p, ":")}); err != nil {
					emit("repoint err")
					return
				}
				old := sinks[i]
				sinks[i] = ns
				// the old endpoint goes away; the destination has to be connected to the new one before keys are sent
				old.ln.Close()
				for t := 0; t < 3000 && atomic.LoadInt64(&ns.conns) == 0; t++ {
					time.Sleep(time.Millisecond)
				}
				waitOnline()
				emit("repoint ok")
			case "k":
				before := make([]int64, len(sinks))
				for i, s := range sinks {
					before[i] = atomic.LoadInt64(&s.lines)
				}
				rt.Dispatch(append(unhexArg(f[1]), []byte(" 1 1")...))
				got := ""
				for t := 0; t < 1000 && got == ""; t++ {
					for i, s := range sinks {
						if atomic.LoadInt64(&s.lines) > before[i] {
							got = strconv.Itoa(i)
						}
					}
					if got == "" {
						time.Sleep(time.Millisecond)
					}
				}
				emit("k %s", got)
			}
		})
		closeAll()
	}
}
