package main

import "encoding/hex"

func unhexArg(s string) []byte {
	if s == "-" {
		return nil
	}
	b, err := hex.DecodeString(s)
	if err != nil {
		panic("bad hex " + s)
	}
	return b
}

func hexs(b []byte) string { return hex.EncodeToString(b) }

func hexOrDash(b []byte) string {
	if len(b) == 0 {
		return "-"
	}
	return hex.EncodeToString(b)
}
