package main

import (
	"strconv"
	"sync/atomic"
	"time"

	"github.com/grafana/carbon-relay-ng/matcher"
	"github.com/grafana/carbon-relay-ng/table"
	"github.com/grafana/carbon-relay-ng/validate"
)

// slowRoute is a capture route whose Shutdown takes a while and which notes traffic handed to it by a Table.Dispatch call that
// started when its shutdown had already begun. (A call that started earlier may have loaded the table from before the change and
// may legitimately still reach the route: that metric is processed against the old table as a whole.)
type slowRoute struct {
	capRoute
	state    int32 // 0 running, 1 shutting down, 2 shut down
	late     int32 // lines handed over by a dispatch that started after the shutdown began
	n        int32
	lateCall int32 // set by the (single) dispatching goroutine around each Table.Dispatch: the shutdown had begun before the call
}

func (r *slowRoute) Shutdown() error {
	atomic.StoreInt32(&r.state, 1)
	time.Sleep(150 * time.Millisecond)
	atomic.StoreInt32(&r.state, 2)
	return nil
}
func (r *slowRoute) Dispatch(buf []byte) {
	if atomic.LoadInt32(&r.lateCall) != 0 {
		atomic.AddInt32(&r.late, 1)
	}
	atomic.AddInt32(&r.n, 1)
}

// a route is deleted while traffic flows (C18): `run <routes> <victim> <delay_ms> <lines>`: DelRoute(victim) runs in a goroutine;
// after <delay_ms> (its Shutdown takes 150 ms) <lines> metrics are dispatched.
// -> late <n>  (lines handed to the victim by a dispatch that started after its shutdown had begun: it is neither part of the table before the change
//    as a running route nor of the table after it)  others <count per other route>
func init() {
	subs["delroute"] = func(args []string) {
		seq := 0
		scanLines(func(f []string, raw string) {
			if f[0] != "run" {
				return
			}
			seq++
			n, _ := strconv.Atoi(f[1])
			victim, _ := strconv.Atoi(f[2])
			delay, _ := strconv.Atoi(f[3])
			nl, _ := strconv.Atoi(f[4])
			var ll validate.LevelLegacy
			var ml validate.LevelM20
			ll.UnmarshalText([]byte("none"))
			ml.UnmarshalText([]byte("none"))
			conf, err := table.NewTableConfig("/tmp", "1h", ll, ml, false)
			if err != nil {
				emit("cfgerr")
				return
			}
			tab := table.New(conf)
			var rs []*slowRoute
			for i := 0; i < n; i++ {
				m, _ := matcher.New("", "", "", "", "", "")
				r := &slowRoute{capRoute: capRoute{key: "dr" + strconv.Itoa(seq) + "_" + strconv.Itoa(i), m: &m}}
				rs = append(rs, r)
				tab.AddRoute(r)
			}
			done := make(chan bool)
			go func() { tab.DelRoute(rs[victim].key); close(done) }()
			time.Sleep(time.Duration(delay) * time.Millisecond)
			for k := 0; k < nl; k++ {
				// DelRoute publishes the new table before it shuts the route down, so a dispatch that starts once the shutdown
				// has begun loads the new table
				if atomic.LoadInt32(&rs[victim].state) != 0 {
					atomic.StoreInt32(&rs[victim].lateCall, 1)
				}
				tab.Dispatch([]byte("m." + strconv.Itoa(k) + " 1 1500000000"))
			}
			<-done
			out := "late " + strconv.Itoa(int(atomic.LoadInt32(&rs[victim].late))) + " others"
			for i, r := range rs {
				if i != victim {
					out += " " + strconv.Itoa(int(atomic.LoadInt32(&r.n)))
				}
			}
			emit("%s", out)
		})
	}
}
