package main

import (
	"io/ioutil"
	"os"
	"sort"
	"strconv"
	"strings"
	"time"

	"github.com/grafana/carbon-relay-ng/nsqd"
)

// disk queue (C08, C09): every filesystem mutation is a crash point (hook), the directory is
// snapshotted there; after the operation each snapshot is printed and recovered with a fresh queue.
type dqCrash struct{ line, snap string }

type dqH struct {
	dir                 string
	maxBytes, syncEvery int64
	pending             []dqCrash
	idle                chan struct{}
	q                   *nsqd.DiskQueue
	tmpRoot             string
	nocrash             bool
}

func showDisk(dir string) string {
	fis, _ := ioutil.ReadDir(dir)
	var segs, bad, meta, tmp []string
	for _, fi := range fis {
		b, _ := ioutil.ReadFile(dir + "/" + fi.Name())
		n := fi.Name()
		switch {
		case strings.HasSuffix(n, ".meta.dat.tmp"):
			tmp = append(tmp, "tmp="+hexs(b))
		case strings.HasSuffix(n, ".meta.dat"):
			meta = append(meta, "meta="+hexs(b))
		case strings.HasSuffix(n, ".dat.bad"):
			bad = append(bad, strings.Split(n, ".")[2]+".bad="+hexs(b))
		default:
			segs = append(segs, strings.Split(n, ".")[2]+"="+hexs(b))
		}
	}
	sort.Strings(segs)
	sort.Strings(bad)
	return strings.Join(append(append(append(segs, bad...), meta...), tmp...), " ")
}

func (h *dqH) hook(p string) {
	if strings.HasPrefix(p, "loop.select") {
		h.idle <- struct{}{}
		return
	}
	if h.nocrash {
		return
	}
	snap, _ := ioutil.TempDir(h.tmpRoot, "snap")
	fis, _ := ioutil.ReadDir(h.dir)
	for _, fi := range fis {
		b, _ := ioutil.ReadFile(h.dir + "/" + fi.Name())
		ioutil.WriteFile(snap+"/"+fi.Name(), b, 0600)
	}
	h.pending = append(h.pending, dqCrash{"crash " + p + " | " + showDisk(h.dir), snap})
}

// flush prints the crash points of the op that just finished, each followed by what a recovery
// on that snapshot delivers. A recovery that does not finish in time is reported as "rec hang".
func (h *dqH) flush() {
	ps := h.pending
	h.pending = nil
	for _, c := range ps {
		emit("%s", c.line)
		ridle := make(chan bool, 100000)
		nsqd.VerifCrashPoint = func(p string) {
			if strings.HasPrefix(p, "loop.select") {
				ridle <- p == "loop.select.data"
			}
		}
		res := make(chan []string, 1)
		go func() {
			defer func() {
				if r := recover(); r != nil {
					res <- []string{"PANIC"}
				}
			}()
			rq := nsqd.NewDiskQueue("q", c.snap, h.maxBytes, h.syncEvery, time.Hour).(*nsqd.DiskQueue)
			var got []string
			for <-ridle {
				m := <-rq.ReadChan()
				got = append(got, hexs(m))
				if len(got) > 100000 {
					break
				}
			}
			nsqd.VerifCrashPoint = nil
			rq.Close()
			res <- got
		}()
		select {
		case got := <-res:
			emit("rec %d %s", len(got), strings.Join(got, ","))
		case <-time.After(20 * time.Second):
			emit("rec hang")
		}
		os.RemoveAll(c.snap)
	}
	nsqd.VerifCrashPoint = h.hook
}

func (h *dqH) open() {
	h.q = nsqd.NewDiskQueue("q", h.dir, h.maxBytes, h.syncEvery, time.Hour).(*nsqd.DiskQueue)
}

func (h *dqH) closeCase() {
	if h.q != nil {
		nsqd.VerifCrashPoint = nil
		h.q.Close()
		h.q = nil
	}
	if h.dir != "" {
		os.RemoveAll(h.dir)
		h.dir = ""
	}
}

func init() {
	subs["dq"] = func(args []string) {
		h := &dqH{nocrash: len(args) > 0 && args[0] == "nocrash"}
		h.tmpRoot, _ = ioutil.TempDir("", "crngdq")
		defer os.RemoveAll(h.tmpRoot)
		scanLines(func(f []string, raw string) {
			switch f[0] {
			case "cfg":
				h.closeCase()
				h.maxBytes, _ = strconv.ParseInt(f[1], 10, 64)
				h.syncEvery, _ = strconv.ParseInt(f[2], 10, 64)
				h.dir, _ = ioutil.TempDir(h.tmpRoot, "q")
				h.idle = make(chan struct{}, 100000)
				h.pending = nil
				nsqd.VerifCrashPoint = h.hook
				h.open()
				<-h.idle
				h.flush()
			case "put":
				var m []byte
				if len(f) > 1 {
					m = unhexArg(f[1])
				}
				h.q.Put(m)
				<-h.idle
				h.flush()
				emit("put depth=%d", h.q.Depth())
			case "get":
				select {
				case m := <-h.q.ReadChan():
					<-h.idle
					h.flush()
					emit("get %s depth=%d", hexs(m), h.q.Depth())
				case <-time.After(300 * time.Millisecond):
					emit("get none depth=%d", h.q.Depth())
				}
			case "reopen":
				h.q.Close()
				h.open()
				<-h.idle
				h.flush()
				emit("reopen depth=%d", h.q.Depth())
			case "end":
				h.q.Close()
				h.q = nil
				h.flush()
				emit("close")
				h.closeCase()
			}
		})
		h.closeCase()
	}
}
