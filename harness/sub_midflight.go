package main

import (
	"runtime"
	"sort"
	"strconv"
	"strings"
	"sync"
	"sync/atomic"
	"time"

	"github.com/grafana/carbon-relay-ng/aggregator"
	"github.com/grafana/carbon-relay-ng/matcher"
	"github.com/grafana/carbon-relay-ng/rewriter"
	"github.com/grafana/carbon-relay-ng/stats"
	"github.com/grafana/carbon-relay-ng/table"
	"github.com/grafana/carbon-relay-ng/validate"
)

// a metric in flight while the table changes (C18): a Dispatch is held inside the pipeline (in Aggregator.AddMaybe, whose
// input queue is full because the aggregator's goroutine is parked), several admin operations are applied, the Dispatch
// is let go. What it did must be what a Dispatch against ONE complete table of the history does.
//
//	new [rw]           fresh table: capture routes r1 (prefix old.), r2 (prefix new.), r3 (sub .x), one aggregator on ^(old|new)\.
//	                   with "rw": a rewriter old. -> new. is there from the start
//	adm addrw <old> <new> | delrw <i> | addroute <key> <prefix> | delroute <key> | addbl <prefix> | delbl <i>
//	probe <linehex>    synchronous Dispatch; prints the outcome
//	fill               park the aggregator and fill its input queue
//	ain <linehex>      Dispatch in a goroutine (it blocks in AddMaybe)
//	await              unpark, wait for the held Dispatch; prints its outcome
func init() {
	subs["midflight"] = func(args []string) {
		aggregator.InitMetrics()
		var tab *table.Table
		var caps []*capRoute
		var agg *aggregator.Aggregator
		var tick chan time.Time
		var parked int32
		var gateMu sync.Mutex
		gate := make(chan struct{})
		seq := 0
		var done chan bool
		var cUnr, cBl interface{ Count() int64 }
		var u0, b0 int64
		nowFn := func() time.Time {
			gateMu.Lock()
			g := gate
			gateMu.Unlock()
			if atomic.LoadInt32(&parked) == 1 {
				pcs := make([]uintptr, 6)
				n := runtime.Callers(2, pcs)
				frames := runtime.CallersFrames(pcs[:n])
				for {
					fr, more := frames.Next()
					if strings.HasSuffix(fr.Function, "AddOrCreate") {
						<-g
						break
					}
					if !more {
						break
					}
				}
			}
			return time.Unix(100000, 0)
		}
		unpark := func() {
			atomic.StoreInt32(&parked, 0)
			gateMu.Lock()
			close(gate)
			gate = make(chan struct{})
			gateMu.Unlock()
		}
		addCap := func(key, prefix, sub string) {
			m, _ := matcher.New(prefix, "", sub, "", "", "")
			c := &capRoute{key: key, m: &m}
			caps = append(caps, c)
			tab.AddRoute(c)
		}
		outcome := func() string {
			var parts []string
			for _, c := range caps {
				_, cp := c.take()
				for _, b := range cp {
					parts = append(parts, c.key+"="+hexOrDash(b))
				}
			}
			sort.Strings(parts)
			return "out [" + strings.Join(parts, " ") + "] unr=" + strconv.FormatInt(cUnr.Count()-u0, 10) + " bl=" + strconv.FormatInt(cBl.Count()-b0, 10)
		}
		mark := func() {
			for _, c := range caps {
				c.take()
			}
			u0, b0 = cUnr.Count(), cBl.Count()
		}
		scanLines(func(f []string, raw string) {
			switch f[0] {
			case "new":
				if tab != nil {
					if atomic.LoadInt32(&parked) == 1 {
						unpark()
					}
					old := tab
					go old.Shutdown()
				}
				seq++
				var ll validate.LevelLegacy
				var ml validate.LevelM20
				ll.UnmarshalText([]byte("none"))
				ml.UnmarshalText([]byte("none"))
				conf, _ := table.NewTableConfig("/tmp", "1h", ll, ml, false)
				tab = table.New(conf)
				caps = nil
				cUnr = stats.Counter("unit=Metric.direction=unroutable")
				cBl = stats.Counter("unit=Metric.direction=blacklist")
				if len(f) > 1 && f[1] == "rw" {
					rw, _ := rewriter.New("old.", "new.", "", -1)
					tab.AddRewriter(rw)
				}
				m, _ := matcher.New("", "", "", "", "^(old|new)\\.(.*)", "")
				tick = make(chan time.Time)
				out := make(chan []byte, 64)
				go func() {
					for range out {
					}
				}()
				var err error
				agg, err = aggregator.NewMocked("sum", m, "agg.$2", false, 10, 1000000000, false, out, 1, nowFn, tick)
				if err != nil {
					emit("newerr %v", err)
					return
				}
				tab.AddAggregator(agg)
				addCap("r1", "old.", "")
				addCap("r2", "new.", "")
				addCap("r3", "", ".x")
			case "adm":
				var err error
				switch f[1] {
				case "addrw":
					rw, e := rewriter.New(f[2], f[3], "", -1)
					if e == nil {
						tab.AddRewriter(rw)
					}
					err = e
				case "delrw":
					i, _ := strconv.Atoi(f[2])
					err = tab.DelRewriter(i)
				case "addroute":
					addCap(f[2], f[3], "")
				case "delroute":
					err = tab.DelRoute(f[2])
				case "addbl":
					m, _ := matcher.New(f[2], "", "", "", "", "")
					tab.AddBlacklist(&m)
				case "delbl":
					i, _ := strconv.Atoi(f[2])
					err = tab.DelBlacklist(i)
				}
				if err != nil {
					emit("adm err")
				} else {
					emit("adm ok")
				}
			case "probe":
				mark()
				tab.Dispatch(append([]byte(nil), unhexArg(f[1])...))
				emit("%s", outcome())
			case "fill":
				atomic.StoreInt32(&parked, 1)
				// the first filler is taken by the aggregator's goroutine, which then parks inside AddOrCreate; the second fills the queue (capacity 1)
				tab.Dispatch([]byte("old.filler1 1 200000"))
				for i := 0; i < 2000; i++ {
					time.Sleep(100 * time.Microsecond)
				}
				tab.Dispatch([]byte("old.filler2 1 200000"))
			case "ain":
				mark()
				done = make(chan bool)
				d := done
				b := append([]byte(nil), unhexArg(f[1])...)
				go func() { tab.Dispatch(b); close(d) }()
				time.Sleep(20 * time.Millisecond) // it has loaded the table and is now blocked handing the point to the aggregator
				select {
				case <-d:
					emit("ain notheld")
				default:
					emit("ain held")
				}
			case "await":
				unpark()
				select {
				case <-done:
					emit("%s", outcome())
				case <-time.After(5 * time.Second):
					emit("await stuck")
				}
			}
		})
		if atomic.LoadInt32(&parked) == 1 {
			unpark()
		}
	}
}
