package main

import (
	"strconv"
	"strings"
	"time"

	"github.com/grafana/carbon-relay-ng/destination"
	"github.com/grafana/carbon-relay-ng/matcher"
	"github.com/grafana/carbon-relay-ng/route"
	"github.com/grafana/carbon-relay-ng/stats"
)

// consistent hashing (C15) through the real route: `new a1,a2,..` | `add addr` | `del idx` | `k <namehex>` -> index (in
// configured order) of the destination that received the line, found through its conn_down_no_spool counter
var chSeq int

func init() {
	subs["chash"] = func(args []string) {
		var rt route.Route
		var dests []*destination.Destination
		var last []int64
		var key string
		mk := func(addr string) *destination.Destination {
			m, _ := matcher.New("", "", "", "", "", "")
			d, err := destination.New(key, m, addr, "/tmp", false, false, time.Second, time.Hour, 10, 100, 10, 1000, 10, time.Second, time.Millisecond, time.Millisecond)
			if err != nil {
				panic(err)
			}
			return d
		}
		count := func(d *destination.Destination) int64 {
			d.Flush()
			return stats.Counter("dest=" + d.Key + ".unit=Metric.action=drop.reason=conn_down_no_spool").Count()
		}
		resync := func() {
			last = make([]int64, len(dests))
			for i, d := range dests {
				last[i] = count(d)
			}
		}
		scanLines(func(f []string, raw string) {
			switch f[0] {
			case "new":
				if rt != nil {
					go rt.Shutdown()
				}
				chSeq++
				key = "ch" + strconv.Itoa(chSeq)
				dests = nil
				for _, a := range strings.Split(f[1], ",") {
					dests = append(dests, mk(a))
				}
				m, _ := matcher.New("", "", "", "", "", "")
				rt, _ = route.NewConsistentHashing(key, m, dests)
				resync()
			case "add":
				d := mk(f[1])
				rt.(*route.ConsistentHashing).Add(d)
				dests = append(dests, d)
				resync()
			case "del":
				i, _ := strconv.Atoi(f[1])
				if err := rt.DelDestination(i); err != nil {
					emit("del err")
					return
				}
				dests = append(dests[:i:i], dests[i+1:]...)
				resync()
				emit("del ok")
			case "k":
				rt.Dispatch(append(unhexArg(f[1]), []byte(" 1 1")...))
				var got []string
				for i, d := range dests {
					c := count(d)
					for n := last[i]; n < c; n++ {
						got = append(got, strconv.Itoa(i))
					}
					last[i] = c
				}
				emit("k %s", strings.Join(got, ","))
			}
		})
	}
}
