package main

import (
	"sync/atomic"
	"bytes"
	"io/ioutil"
	"net"
	"net/http"
	"net/http/httptest"
	"os"
	"strconv"
	"strings"
	"sync"
	"time"

	"github.com/golang/snappy"
	"github.com/grafana/carbon-relay-ng/matcher"
	"github.com/grafana/carbon-relay-ng/route"
	"github.com/grafana/carbon-relay-ng/stats"
	"github.com/grafana/carbon-relay-ng/util"
	"github.com/grafana/metrictank/schema"
	"github.com/grafana/metrictank/schema/msg"
)

// grafanaNet route (C17) against a scripted http endpoint
//
//	cfg <concurrency> <bufsize> <flushmaxnum> <flushmaxwait_ms> <blocking 0/1> <timeout_ms>
//	script <o1,o2,...>      per-request outcomes for POSTs to /metrics (exhausted = ok): ok | 500 | 400 | hang | reset | 502short
//	m <linehex>             route.Dispatch(line)
//	sleep <ms>
//	wait                    until every accepted metric was acknowledged (or 5 s)
//	shutdown                route.Shutdown() with a deadline
//	end                     acknowledged POSTs in completion order, counters
type gnEndpoint struct {
	mu      sync.Mutex
	script  []string
	acked   [][]string // per acknowledged POST: "name|time|valuebits"
	nacked  int
	reqs    int
	failing int
}

func (e *gnEndpoint) next() string {
	e.mu.Lock()
	defer e.mu.Unlock()
	e.reqs++
	if len(e.script) == 0 {
		return "ok"
	}
	o := e.script[0]
	e.script = e.script[1:]
	return o
}

func decodeBody(b []byte) ([]string, error) {
	raw, err := ioutil.ReadAll(snappy.NewReader(bytes.NewReader(b)))
	if err != nil {
		return nil, err
	}
	var m msg.MetricData
	if err := m.InitFromMsg(raw); err != nil {
		return nil, err
	}
	if err := m.DecodeMetricData(); err != nil {
		return nil, err
	}
	var out []string
	for _, md := range m.Metrics {
		out = append(out, md.Name+"|"+strconv.FormatInt(md.Time, 10)+"|"+strconv.Itoa(md.Interval))
	}
	return out, nil
}

var gnSeq int

func init() {
	_ = schema.MetricData{}
	subs["gnet"] = func(args []string) {
		var ep *gnEndpoint
		var srv *httptest.Server
		var rt route.Route
		sent := 0
		schemas, _ := ioutil.TempFile("", "schemas")
		schemas.WriteString("[default]\npattern = .*\nretentions = 10s:1d\n")
		schemas.Close()
		aggf, _ := ioutil.TempFile("", "agg")
		aggf.WriteString("[default]\npattern = .*\nxFilesFactor = 0.5\naggregationMethod = avg\n")
		aggf.Close()
		defer os.Remove(schemas.Name())
		defer os.Remove(aggf.Name())
		stop := func() {
			if srv != nil {
				srv.CloseClientConnections()
				go srv.Close()
				srv = nil
			}
		}
		type bgDispatch struct {
			line string
			done *int32
		}
		var bg []bgDispatch
		scanLines(func(f []string, raw string) {
			switch f[0] {
			case "cfg":
				stop()
				bg = nil
				ep = &gnEndpoint{}
				e := ep
				mux := http.NewServeMux()
				mux.HandleFunc("/metrics", func(w http.ResponseWriter, r *http.Request) {
					body, _ := ioutil.ReadAll(r.Body)
					switch o := e.next(); o {
					case "ok":
						ms, err := decodeBody(body)
						if err != nil {
							ms = []string{"UNDECODABLE"}
						}
						e.mu.Lock()
						e.acked = append(e.acked, ms)
						e.nacked += len(ms)
						e.mu.Unlock()
						w.Write([]byte(`{"invalid":0,"published":` + strconv.Itoa(len(ms)) + `}`))
					case "500":
						w.WriteHeader(500)
						w.Write([]byte("boom"))
					case "400":
						w.WriteHeader(400)
						w.Write([]byte("bad"))
					case "hang":
						time.Sleep(400 * time.Millisecond) // longer than the client timeout
					case "reset":
						if hj, ok := w.(http.Hijacker); ok {
							c, _, _ := hj.Hijack()
							if tc, ok := c.(*net.TCPConn); ok {
								tc.SetLinger(0)
							}
							c.Close()
						}
					case "502short":
						// an error status whose body is cut short: the response cannot be read to the end
						if hj, ok := w.(http.Hijacker); ok {
							c, bw, _ := hj.Hijack()
							bw.WriteString("HTTP/1.1 502 Bad Gateway\r\nContent-Length: 100\r\n\r\npartial")
							bw.Flush()
							c.Close()
						}
					}
				})
				mux.HandleFunc("/", func(w http.ResponseWriter, r *http.Request) { w.Write([]byte("{}")) })
				srv = httptest.NewServer(mux)
				conc, _ := strconv.Atoi(f[1])
				bufsize, _ := strconv.Atoi(f[2])
				maxnum, _ := strconv.Atoi(f[3])
				maxwait, _ := strconv.Atoi(f[4])
				timeout, _ := strconv.Atoi(f[6])
				c, err := route.NewGrafanaNetConfig(srv.URL+"/metrics", "key", schemas.Name(), aggf.Name())
				if err != nil {
					emit("cfgerr %v", err)
					return
				}
				c.Concurrency, c.BufSize, c.FlushMaxNum = conc, bufsize, maxnum
				c.FlushMaxWait = time.Duration(maxwait) * time.Millisecond
				c.Blocking = f[5] == "1"
				c.Timeout = time.Duration(timeout) * time.Millisecond
				c.ErrBackoffMin = time.Millisecond
				c.ErrBackoffFactor = 1.1
				gnSeq++
				m, _ := matcher.New("", "", "", "", "", "")
				rt, err = route.NewGrafanaNet("gn"+strconv.Itoa(gnSeq), m, c)
				if err != nil {
					emit("cfgerr %v", err)
					rt = nil
					return
				}
				sent = 0
			case "script":
				ep.mu.Lock()
				ep.script = strings.Split(f[1], ",")
				ep.mu.Unlock()
			case "m":
				done := make(chan bool)
				go func() { rt.Dispatch(unhexArg(f[1])); close(done) }()
				select {
				case <-done:
					sent++
				case <-time.After(3 * time.Second):
					emit("dispatch-blocked")
				}
			case "mbg":
				// dispatch from a goroutine of its own, as a second input connection would: it may stay parked on a full
				// buffer (blocking mode); whether it returned is reported at the end
				fl := new(int32)
				bg = append(bg, bgDispatch{f[1], fl})
				r := rt
				go func() { r.Dispatch(unhexArg(f[1])); atomic.StoreInt32(fl, 1) }()
				time.Sleep(2 * time.Millisecond) // keep the hand-off order of the parked callers
			case "sleep":
				ms, _ := strconv.Atoi(f[1])
				time.Sleep(time.Duration(ms) * time.Millisecond)
			case "wait":
				want, _ := strconv.Atoi(f[1])
				deadline := time.Now().Add(6 * time.Second)
				for time.Now().Before(deadline) {
					ep.mu.Lock()
					n := ep.nacked
					ep.mu.Unlock()
					if n >= want {
						break
					}
					time.Sleep(2 * time.Millisecond)
				}
			case "shutdown":
				done := make(chan bool)
				t0 := time.Now()
				go func() { rt.Shutdown(); close(done) }()
				select {
				case <-done:
					_ = t0
					emit("shutdown ok")
				case <-time.After(8 * time.Second):
					emit("shutdown hang")
				}
			case "end":
				ep.mu.Lock()
				for _, b := range ep.acked {
					emit("post %s", strings.Join(b, ","))
				}
				emit("requests %d", ep.reqs)
				for _, b := range bg {
					emit("bg %s %d", b.line, atomic.LoadInt32(b.done))
				}
				bg = nil
				ep.mu.Unlock()
				drops := stats.Counter("dest=" + util.AddrToPath(srv.URL+"/metrics") + ".unit=Metric.action=drop.reason=queue_full").Count()
				errs := stats.Counter("dest=" + util.AddrToPath(srv.URL+"/metrics") + ".unit=Err.type=flush").Count()
				emit("errs %d", errs)
				emit("drops %d", drops)
				stop()
			}
		})
		stop()
	}
}
