package main

import (
	"fmt"
	"reflect"
	"runtime"
	"sort"
	"strconv"
	"strings"
	"sync"
	"sync/atomic"
	"time"

	"github.com/grafana/carbon-relay-ng/aggregator"
	"github.com/grafana/carbon-relay-ng/destination"
	"github.com/grafana/carbon-relay-ng/matcher"
	"github.com/grafana/carbon-relay-ng/rewriter"
	"github.com/grafana/carbon-relay-ng/route"
	"github.com/grafana/carbon-relay-ng/stats"
	"github.com/grafana/carbon-relay-ng/table"
	"github.com/grafana/carbon-relay-ng/validate"
)

// table pipeline (C01, C02, C03, C04, C11, C19): a real table.Table built from a description, fed line by line.
//
//	lvl <legacy> <m20> <order>
//	bl <pre> <npre> <sub> <nsub> <re> <nre>
//	rw <old> <new> <not> <max>
//	agg <fn> <re> <fmt> <interval> <wait> <dropraw> <cache> <pre> <npre> <sub> <nsub> <nre>
//	route <cap|all|first> <pre> <npre> <sub> <nsub> <re> <nre>
//	dest <pre> <npre> <sub> <nsub> <re> <nre>          destination of the last (all|first) route
//	build
//	in <line> [mutate]     Table.Dispatch(line); with "mutate" the caller's buffer is overwritten right after the call returns
//	aggin <line>           Table.DispatchAggregate(line)
//	bad                    bad-metrics report

// capRoute is a route.Route that records what it is handed (copy at hand-off time and the slice itself, to detect later mutation)
type capRoute struct {
	key string
	m   *matcher.Matcher
	mu  sync.Mutex
	got [][]byte // the very slices handed over (not copies)
	cp  [][]byte // copies taken at hand-off time
}

func (r *capRoute) Dispatch(buf []byte) {
	r.mu.Lock()
	r.got = append(r.got, buf)
	r.cp = append(r.cp, append([]byte(nil), buf...))
	r.mu.Unlock()
}
func (r *capRoute) Match(s []byte) bool { return r.m.Match(s) }
func (r *capRoute) Snapshot() route.Snapshot {
	return route.Snapshot{Matcher: *r.m, Type: "capture", Key: r.key}
}
func (r *capRoute) Key() string     { return r.key }
func (r *capRoute) Flush() error    { return nil }
func (r *capRoute) Shutdown() error { return nil }
func (r *capRoute) GetDestination(index int) (*destination.Destination, error) {
	return nil, fmt.Errorf("none")
}
func (r *capRoute) DelDestination(index int) error                            { return fmt.Errorf("none") }
func (r *capRoute) UpdateDestination(index int, opts map[string]string) error { return fmt.Errorf("none") }
func (r *capRoute) Update(opts map[string]string) error                       { return fmt.Errorf("none") }
func (r *capRoute) take() (got, cp [][]byte) {
	r.mu.Lock()
	got, cp = r.got, r.cp
	r.got, r.cp = nil, nil
	r.mu.Unlock()
	return
}

type tRoute struct {
	key   string
	kind  string
	m     [6]string
	dests [][6]string
	cap   *capRoute
	real  route.Route
	dkeys []string
	dobjs []*destination.Destination
}

type tAgg struct {
	spec []string
	a    *aggregator.Aggregator
	out  chan []byte
	tick chan time.Time
}

var tableSeq int

func mk6(f []string) [6]string {
	var m [6]string
	for i := 0; i < 6; i++ {
		m[i] = string(unhexArg(f[i]))
	}
	return m
}

func init() {
	subs["table"] = func(args []string) {
		var legacy, m20l string
		var order bool
		var bls [][6]string
		var rws [][]string
		var aggs []*tAgg
		var routes []*tRoute
		var tab *table.Table
		var sentinel *capRoute
		barriers := int64(0) // barriers since the last collectRoutes
		var now int64 = 100000
		// parking: while `parked` is set, a now() call made from AddOrCreate (the aggregator's own goroutine) blocks until
		// `unpark`, so that later points queue up in the aggregator's input channel (C04: buffers must not alias the caller's)
		var parked int32
		var gateMu sync.Mutex
		gate := make(chan struct{})
		getGate := func() chan struct{} { gateMu.Lock(); defer gateMu.Unlock(); return gate }
		nowFn := func() time.Time {
			g := getGate() // taken before the flag is read: `unpark` clears the flag first and then closes this very channel
			if atomic.LoadInt32(&parked) == 1 {
				pcs := make([]uintptr, 6)
				n := runtime.Callers(2, pcs)
				frames := runtime.CallersFrames(pcs[:n])
				for {
					fr, more := frames.Next()
					if strings.HasSuffix(fr.Function, "AddOrCreate") {
						<-g
						break
					}
					if !more {
						break
					}
				}
			}
			return time.Unix(atomic.LoadInt64(&now), 0)
		}
		cIn := stats.Counter("unit=Metric.direction=in")
		cInv := stats.Counter("unit=Err.type=invalid")
		cOoo := stats.Counter("unit=Err.type=out_of_order")
		cBl := stats.Counter("unit=Metric.direction=blacklist")
		cUnr := stats.Counter("unit=Metric.direction=unroutable")
		aggregator.InitMetrics()
		reset := func() {
			if tab != nil {
				for _, r := range routes {
					if r.real != nil {
						done := make(chan bool)
						go func(rt route.Route) { rt.Shutdown(); close(done) }(r.real)
						select {
						case <-done:
						case <-time.After(2 * time.Second):
						}
					}
				}
			}
			legacy, m20l, order = "medium", "medium", false
			bls, rws, aggs, routes, tab = nil, nil, nil, nil, nil
		}
		reset()
		// wait until the table goroutine has dispatched everything queued on table.In so far
		barrier := func() {
			barriers++
			tab.In <- []byte("__sentinel__ 1 1")
			for i := 0; i < 200000; i++ {
				g, _ := sentinel.take()
				if len(g) > 0 {
					return
				}
				time.Sleep(10 * time.Microsecond)
			}
			emit("barrier-timeout")
		}
		// destinations that received something since the last call (conn is down, spooling off: every hand-off is counted)
		destCounts := func(r *tRoute) []int64 {
			res := make([]int64, len(r.dkeys))
			for i, d := range r.dobjs {
				d.Flush() // answered by the relay loop: everything handed to dest.In before has been counted
				res[i] = stats.Counter("dest=" + r.dkeys[i] + ".unit=Metric.action=drop.reason=conn_down_no_spool").Count()
			}
			return res
		}
		var lastDest map[*tRoute][]int64
		var sentEff map[*tRoute][]int64 // what one barrier sentinel adds to each destination counter
		collectRoutes := func(prefix string) {
			for i, r := range routes {
				if r.cap != nil {
					got, cp := r.cap.take()
					for j := range got {
						if string(cp[j]) == "__sentinel__ 1 1" {
							continue
						}
						mut := ""
						if string(got[j]) != string(cp[j]) {
							mut = " MUTATED-AFTER-HANDOFF"
						}
						emit("%s %d [%s]%s", prefix, i, hexs(cp[j]), mut)
					}
				} else {
					cur := destCounts(r)
					var ds []string
					for k := range cur {
						skip := int64(0)
						if sentEff != nil {
							skip = sentEff[r][k] * barriers
						}
						for n := lastDest[r][k] + skip; n < cur[k]; n++ {
							ds = append(ds, strconv.Itoa(k))
						}
					}
					lastDest[r] = cur
					if len(ds) > 0 {
						emit("%s %d :%s", prefix, i, strings.Join(ds, ","))
					}
				}
			}
			barriers = 0
		}
		// flush every aggregator, print what each emitted, feed it back through table.In as the relay does, print where it went
		pump := func() {
			type em struct {
				idx  int
				line string
			}
			var ems []em
			for i, a := range aggs {
				// everything handed to the aggregator has been taken out of its input queue (then Snapshot is a barrier:
				// it is served by the same goroutine after the message being processed)
				inq := reflect.ValueOf(a.a).Elem().FieldByName("in")
				for k := 0; k < 1000000 && inq.Len() > 0; k++ {
					time.Sleep(5 * time.Microsecond)
				}
				a.a.Snapshot()
				a.tick <- time.Unix(5000000000, 0)
				a.a.Snapshot()
				var ls []string
				for len(a.out) > 0 {
					ls = append(ls, string(<-a.out))
				}
				sort.Strings(ls)
				for _, l := range ls {
					ems = append(ems, em{i, l})
				}
			}
			for _, e := range ems {
				u0 := cUnr.Count()
				tab.In <- []byte(e.line)
				barrier()
				emit("a %d %s unr=%d", e.idx, hexs([]byte(e.line)), cUnr.Count()-u0)
				collectRoutes("ad")
			}
		}
		// measure what the barrier's own sentinel line does to the destination counters (again after every change of a
		// route's or destination's filter: the sentinel may match differently)
		measureSentinel := func() {
			sentEff = nil
			barrier()
			eff := map[*tRoute][]int64{}
			for _, r := range routes {
				if r.cap != nil {
					r.cap.take()
					continue
				}
				cur := destCounts(r)
				d := make([]int64, len(cur))
				for k := range cur {
					d[k] = cur[k] - lastDest[r][k]
				}
				eff[r] = d
				lastDest[r] = cur
			}
			sentEff = eff
			barriers = 0
		}
		scanLines(func(f []string, raw string) {
			switch f[0] {
			case "lvl":
				reset()
				legacy, m20l, order = f[1], f[2], f[3] == "1"
			case "bl":
				bls = append(bls, mk6(f[1:]))
			case "rw":
				rws = append(rws, f[1:])
			case "agg":
				aggs = append(aggs, &tAgg{spec: f[1:]})
			case "route":
				routes = append(routes, &tRoute{kind: f[1], m: mk6(f[2:])})
			case "dest":
				r := routes[len(routes)-1]
				r.dests = append(r.dests, mk6(f[1:]))
			case "build":
				tableSeq++
				var ll validate.LevelLegacy
				var ml validate.LevelM20
				if err := ll.UnmarshalText([]byte(legacy)); err != nil {
					emit("builderr level")
					return
				}
				if err := ml.UnmarshalText([]byte(m20l)); err != nil {
					emit("builderr level")
					return
				}
				conf, err := table.NewTableConfig("/tmp", "1h", ll, ml, order)
				if err != nil {
					emit("builderr conf")
					return
				}
				tab = table.New(conf)
				validateReset()
				for _, b := range bls {
					m, err := matcher.New(b[0], b[1], b[2], b[3], b[4], b[5])
					if err != nil {
						emit("builderr bl")
						return
					}
					tab.AddBlacklist(&m)
				}
				for _, r := range rws {
					mx, _ := strconv.Atoi(r[3])
					rw, err := rewriter.New(string(unhexArg(r[0])), string(unhexArg(r[1])), string(unhexArg(r[2])), mx)
					if err != nil {
						emit("builderr rw")
						return
					}
					tab.AddRewriter(rw)
				}
				for _, a := range aggs {
					s := a.spec
					m, err := matcher.New(string(unhexArg(s[7])), string(unhexArg(s[8])), string(unhexArg(s[9])), string(unhexArg(s[10])), string(unhexArg(s[1])), string(unhexArg(s[11])))
					if err != nil {
						emit("builderr aggmatcher")
						return
					}
					interval, _ := strconv.Atoi(s[3])
					wait, _ := strconv.Atoi(s[4])
					a.out = make(chan []byte, 100000)
					a.tick = make(chan time.Time)
					a.a, err = aggregator.NewMocked(s[0], m, string(unhexArg(s[2])), s[6] == "1", uint(interval), uint(wait), s[5] == "1", a.out, 1000, nowFn, a.tick)
					if err != nil {
						emit("builderr agg")
						return
					}
					tab.AddAggregator(a.a)
				}
				lastDest = map[*tRoute][]int64{}
				for i, r := range routes {
					m, err := matcher.New(r.m[0], r.m[1], r.m[2], r.m[3], r.m[4], r.m[5])
					if err != nil {
						emit("builderr route")
						return
					}
					key := fmt.Sprintf("t%dr%d", tableSeq, i)
					r.key = key
					if r.kind == "cap" {
						r.cap = &capRoute{key: key, m: &m}
						tab.AddRoute(r.cap)
						continue
					}
					var ds []*destination.Destination
					for k, d := range r.dests {
						dm, err := matcher.New(d[0], d[1], d[2], d[3], d[4], d[5])
						if err != nil {
							emit("builderr dest")
							return
						}
						addr := fmt.Sprintf("127.0.0.1:%d", k+1) // nothing listens on ports 1..n: the conn stays down
						dd, err := destination.New(key, dm, addr, "/tmp", false, false, time.Second, time.Hour, 10, 100, 10, 1000, 10, time.Second, time.Millisecond, time.Millisecond)
						if err != nil {
							emit("builderr destnew")
							return
						}
						ds = append(ds, dd)
						r.dkeys = append(r.dkeys, dd.Key)
					}
					r.dobjs = ds
					if r.kind == "all" {
						r.real, err = route.NewSendAllMatch(key, m, ds)
					} else {
						r.real, err = route.NewSendFirstMatch(key, m, ds)
					}
					if err != nil {
						emit("builderr routenew")
						return
					}
					tab.AddRoute(r.real)
					lastDest[r] = destCounts(r)
				}
				sm, _ := matcher.New("__sentinel__", "", "", "", "", "")
				sentinel = &capRoute{key: "sentinel", m: &sm}
				tab.AddRoute(sentinel)
				measureSentinel()
				emit("built")
			case "in", "inm", "inx", "inmx", "aggin":
				line := unhexArg(f[1])
				i0, v0, o0, b0, u0 := cIn.Count(), cInv.Count(), cOoo.Count(), cBl.Count(), cUnr.Count()
				buf := append([]byte(nil), line...)
				if f[0] != "aggin" {
					tab.Dispatch(buf)
				} else {
					tab.DispatchAggregate(buf)
				}
				if f[0] == "inm" || f[0] == "inmx" {
					for i := range buf {
						buf[i] = '#'
					}
				}
				emit("res in=%d inv=%d ooo=%d bl=%d unr=%d", cIn.Count()-i0, cInv.Count()-v0, cOoo.Count()-o0, cBl.Count()-b0, cUnr.Count()-u0)
				collectRoutes("d")
				if f[0] == "in" || f[0] == "inm" {
					pump()
				}
			// ---- changes applied to the running table through its admin API (history streams) ----
			case "addrw":
				mx, _ := strconv.Atoi(f[4])
				rw, err := rewriter.New(string(unhexArg(f[1])), string(unhexArg(f[2])), string(unhexArg(f[3])), mx)
				if err != nil {
					emit("op err")
					return
				}
				tab.AddRewriter(rw)
				emit("op ok")
			case "delrw", "delbl":
				i, _ := strconv.Atoi(f[1])
				var err error
				if f[0] == "delrw" {
					err = tab.DelRewriter(i)
				} else {
					err = tab.DelBlacklist(i)
				}
				if err != nil {
					emit("op err")
				} else {
					emit("op ok")
				}
			case "addbl":
				b := mk6(f[1:])
				m, err := matcher.New(b[0], b[1], b[2], b[3], b[4], b[5])
				if err != nil {
					emit("op err")
					return
				}
				tab.AddBlacklist(&m)
				emit("op ok")
			case "modroute", "moddest":
				ri, _ := strconv.Atoi(f[1])
				if ri >= len(routes) || routes[ri].kind == "cap" {
					emit("op skip")
					return
				}
				r := routes[ri]
				var b [6]string
				var err error
				if f[0] == "modroute" {
					b = mk6(f[2:])
				} else {
					b = mk6(f[3:])
				}
				opts := map[string]string{"prefix": b[0], "notPrefix": b[1], "sub": b[2], "notSub": b[3], "regex": b[4], "notRegex": b[5]}
				if f[0] == "modroute" {
					err = tab.UpdateRoute(r.key, opts)
				} else {
					di, _ := strconv.Atoi(f[2])
					err = tab.UpdateDestination(r.key, di, opts)
				}
				if err != nil {
					emit("op err")
				} else {
					emit("op ok")
				}
				measureSentinel()
			case "park":
				atomic.StoreInt32(&parked, 1)
			case "unpark":
				atomic.StoreInt32(&parked, 0)
				gateMu.Lock()
				close(gate)
				gate = make(chan struct{})
				gateMu.Unlock()
			case "pump":
				pump()
			case "bad":
				for i := 0; i < 100000 && len(tab.Bad().In) > 0; i++ {
					time.Sleep(10 * time.Microsecond)
				}
				recs := tab.Bad().Get(time.Hour)
				for _, r := range recs {
					kind := valErrName(fmt.Errorf("%s", r.LastErr))
					if r.LastErr == "point is not newer than previous" {
						kind = "notnewer"
					}
					emit("bad %s %s %s", hexOrDash([]byte(r.Metric)), hexOrDash([]byte(r.LastMsg)), kind)
				}
				emit("badend")
			}
		})
		reset()
	}
}
