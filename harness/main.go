// Correspondence harness: drives the real carbon-relay-ng code in-process, one operation per
// input line, one (or more) answer lines per operation. Lines starting with "#case" are echoed.
package main

import (
	"bufio"
	"fmt"
	"io/ioutil"
	"log"
	"os"
	"strings"
	"sync"

	"github.com/sirupsen/logrus"
)

var out = bufio.NewWriterSize(os.Stdout, 1<<20)

func emit(format string, a ...interface{}) {
	fmt.Fprintf(out, format, a...)
	out.WriteByte('\n')
}

// scanLines calls f for every input line that is not a case marker (those are echoed)
func scanLines(f func(fields []string, raw string)) { scanLinesCase(nil, f) }

// beforeCase, when set by a sub, is called before a case marker is echoed and at end of input: subs that answer an
// operation only after the next one has run (to see whether a returned buffer is still intact then) flush their last answer here
var beforeCase func()

// scanLinesCase additionally calls onCase at every case marker
func scanLinesCase(onCase func(), f func(fields []string, raw string)) {
	defer func() {
		if beforeCase != nil {
			beforeCase()
			out.Flush()
		}
	}()
	sc := bufio.NewScanner(os.Stdin)
	sc.Buffer(make([]byte, 1<<24), 1<<24)
	for sc.Scan() {
		t := sc.Text()
		if strings.HasPrefix(t, "#case") {
			if beforeCase != nil {
				beforeCase()
			}
			emit("%s", t)
			out.Flush()
			if onCase != nil {
				onCase()
			}
			continue
		}
		fl := strings.Fields(t)
		if len(fl) == 0 {
			continue
		}
		f(fl, t)
		out.Flush()
	}
}

type lockedBuf struct {
	sync.Mutex
	b []byte
}

func (l *lockedBuf) Write(p []byte) (int, error) {
	l.Lock()
	l.b = append(l.b, p...)
	l.Unlock()
	return len(p), nil
}

var traceBuf *lockedBuf
var traceFile string

var subs = map[string]func(args []string){}

func main() {
	log.SetOutput(ioutil.Discard)
	logrus.SetOutput(ioutil.Discard)
	if f := os.Getenv("CRNG_HARNESS_TRACE"); f != "" {
		// debugging aid: the relay's own trace log into a file
		traceBuf = &lockedBuf{}
		traceFile = f
		logrus.SetOutput(traceBuf)
		logrus.SetLevel(logrus.TraceLevel)
		defer func() { ioutil.WriteFile(traceFile, traceBuf.b, 0644) }()
	}
	if len(os.Args) < 2 || subs[os.Args[1]] == nil {
		fmt.Fprintln(os.Stderr, "usage: harness <sub>")
		os.Exit(2)
	}
	subs[os.Args[1]](os.Args[2:])
	out.Flush()
}
