package main

import (
	"hash/fnv"
	"strconv"

	"github.com/grafana/carbon-relay-ng/validate"
)

// the digest validate.Ordered keys its map by (C19):
//
//	d <name hex>                          -> Go's hash/fnv 64a digest (what `h = fnv.New64a()` in validate/ordered.go computes)
//	o <name hex> <ts> <name hex> <ts> ... -> the real validate.Ordered on a fresh map: one 1/0 per point (accepted or not)
func init() {
	subs["fnv"] = func(args []string) {
		scanLines(func(f []string, raw string) {
			switch f[0] {
			case "d":
				h := fnv.New64a()
				h.Write(unhexArg(f[1]))
				emit("%d", h.Sum64())
			case "o":
				validateReset()
				out := ""
				for i := 1; i+1 < len(f); i += 2 {
					ts, _ := strconv.ParseUint(f[i+1], 10, 32)
					if validate.Ordered(unhexArg(f[i]), uint32(ts)) == nil {
						out += "1"
					} else {
						out += "0"
					}
				}
				emit("%s", out)
			default:
				emit("bad-op")
			}
		})
	}
}
