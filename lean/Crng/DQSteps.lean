import Crng.DQInv
namespace Crng.DQ

theorem OnDisk_of_segs (d d' : Disk) (h : d'.segs = d.segs) (r : Rec) (hr : OnDisk d r) : OnDisk d' r := by
  obtain ⟨c, rest, h1, h2⟩ := hr
  exact ⟨c, rest, by simpa [segGet, h] using h1, h2⟩

/-- `Inv` only looks at the positions, read-ahead and the segment files -/
theorem Inv.congr {cfg : Cfg} {s s' : St} {recs : List Rec} (h : Inv cfg s recs)
    (e1 : s'.mem.rfn = s.mem.rfn) (e2 : s'.mem.rpos = s.mem.rpos) (e3 : s'.mem.wfn = s.mem.wfn) (e4 : s'.mem.wpos = s.mem.wpos)
    (e6 : s'.mem.nrfn = s.mem.nrfn) (e7 : s'.mem.nrpos = s.mem.nrpos)
    (e8 : s'.mem.dataRead = s.mem.dataRead) (e9 : s'.disk.segs = s.disk.segs) : Inv cfg s' recs where
  chain := by rw [e1, e2, e3, e4]; exact h.chain
  ondisk := fun r hr => OnDisk_of_segs _ _ e9 r (h.ondisk r hr)
  small := h.small
  ahead := by rw [e1, e2, e6, e7, e8]; exact h.ahead

theorem persistMeta_mem (s : St) : (persistMeta s).mem = s.mem := rfl
theorem persistMeta_segs (s : St) : (persistMeta s).disk.segs = s.disk.segs := rfl

theorem sync_inv {cfg : Cfg} {s : St} {recs : List Rec} (h : Inv cfg s recs) : Inv cfg (sync s) recs := by
  unfold sync
  by_cases hw : s.mem.writeOpen = true <;> simp only [hw] <;>
    exact h.congr rfl rfl rfl rfl rfl rfl rfl rfl

theorem tickCount_inv {cfg : Cfg} {s : St} {recs : List Rec} (h : Inv cfg s recs) : Inv cfg (tickCount cfg s) recs := by
  unfold tickCount
  simp only []
  split
  · split
    · exact sync_inv (h.congr rfl rfl rfl rfl rfl rfl rfl rfl)
    · exact h.congr rfl rfl rfl rfl rfl rfl rfl rfl
  · split
    · exact sync_inv (h.congr rfl rfl rfl rfl rfl rfl rfl rfl)
    · exact h.congr rfl rfl rfl rfl rfl rfl rfl rfl

end Crng.DQ

namespace Crng.DQ

/-- with a pending record at the read position, `readOne` succeeds and loads exactly that record -/
theorem readOne_inv {cfg : Cfg} {s : St} {r : Rec} {rs : List Rec} (h : Inv cfg s (r :: rs)) :
    ∃ s', readOne cfg s = some s' ∧ Inv cfg s' (r :: rs) ∧ Ready cfg s' (r :: rs) := by
  have hpos := h.chain.1
  have hf : r.file = s.mem.rfn := by have := congrArg Prod.fst hpos; simpa using this
  have ho : r.off = s.mem.rpos := by have := congrArg Prod.snd hpos; simpa using this
  obtain ⟨c, rest, hc, hd⟩ := h.ondisk r (List.mem_cons_self ..)
  have hsm := h.small r (List.mem_cons_self ..)
  have hdec := decodeAt_of_drop c r.off r.msg rest hsm hd
  rw [ho] at hdec
  rw [hf] at hc
  have hnext : r.next cfg = if s.mem.rpos + 4 + r.msg.length > cfg.maxBytes then (s.mem.rfn + 1, 0) else (s.mem.rfn, s.mem.rpos + 4 + r.msg.length) := by
    simp [Rec.next, Rec.stop, hf, ho]
  unfold readOne
  simp only [hc, hdec]
  by_cases hroll : s.mem.rpos + 4 + r.msg.length > cfg.maxBytes
  · simp only [hroll, if_true] at hnext ⊢
    refine ⟨_, rfl, ?_, ?_⟩
    · exact { chain := h.chain, ondisk := h.ondisk, small := h.small, ahead := Or.inr ⟨r, rs, rfl, rfl, hnext.symm⟩ }
    · intro r' rs' he
      cases he
      exact ⟨rfl, hnext.symm⟩
  · simp only [hroll, if_false] at hnext ⊢
    refine ⟨_, rfl, ?_, ?_⟩
    · exact { chain := h.chain, ondisk := h.ondisk, small := h.small, ahead := Or.inr ⟨r, rs, rfl, rfl, hnext.symm⟩ }
    · intro r' rs' he
      cases he
      exact ⟨rfl, hnext.symm⟩

/-- after the top of a loop iteration the invariant still holds and the next message (if any) is loaded -/
theorem loopTop_inv {cfg : Cfg} {s : St} {recs : List Rec} (fuel : Nat) (h : Inv cfg s recs) :
    Inv cfg (loopTop cfg (fuel + 1) s) recs ∧ Ready cfg (loopTop cfg (fuel + 1) s) recs := by
  unfold loopTop
  have h1 := tickCount_inv (cfg := cfg) h
  generalize tickCount cfg s = s1 at h1
  simp only []
  cases recs with
  | nil =>
    have : hasData s1.mem = false := by
      cases hh : hasData s1.mem
      · rfl
      · exact absurd rfl ((hasData_iff cfg s1 [] h1).mp hh)
    simp only [this, Bool.false_and]
    exact ⟨h1, by intro r rs he; cases he⟩
  | cons r rs =>
    have hd : hasData s1.mem = true := (hasData_iff cfg s1 _ h1).mpr (by simp)
    by_cases hp : s1.mem.nrpos = s1.mem.rpos
    · obtain ⟨s', hs', hi, hr⟩ := readOne_inv h1
      simp [hd, hp, hs']
      exact ⟨hi, hr⟩
    · have : (s1.mem.nrpos == s1.mem.rpos) = false := by simpa using hp
      simp only [hd, this, Bool.and_false]
      refine ⟨h1, ?_⟩
      rcases h1.ahead with ⟨_, h2⟩ | ⟨r', rs', he, hdat, hn⟩
      · exact absurd h2 hp
      · intro r'' rs'' he'
        cases he; cases he'
        exact ⟨hdat, hn⟩

end Crng.DQ

namespace Crng.DQ

theorem openWrite_mem (s : St) : (openWrite s).mem.rfn = s.mem.rfn ∧ (openWrite s).mem.rpos = s.mem.rpos ∧
    (openWrite s).mem.wfn = s.mem.wfn ∧ (openWrite s).mem.wpos = s.mem.wpos ∧ (openWrite s).mem.depth = s.mem.depth ∧
    (openWrite s).mem.nrfn = s.mem.nrfn ∧ (openWrite s).mem.nrpos = s.mem.nrpos ∧ (openWrite s).mem.dataRead = s.mem.dataRead := by
  unfold openWrite; split <;> simp [St.crash]

theorem openWrite_ondisk (s : St) (r : Rec) (h : OnDisk s.disk r) : OnDisk (openWrite s).disk r := by
  unfold openWrite
  split
  · exact h
  · simp only [St.crash]
    split
    · exact h
    · rename_i hnone
      obtain ⟨c, rest, h1, h2⟩ := h
      have hne : r.file ≠ s.mem.wfn := by
        intro he; rw [he] at h1; rw [h1] at hnone; cases hnone
      exact ⟨c, rest, by rw [segGet_segSet_other _ _ _ _ hne]; exact h1, h2⟩

theorem writeData_mem (s : St) (m : Bytes) : (writeData s m).mem.rfn = s.mem.rfn ∧ (writeData s m).mem.rpos = s.mem.rpos ∧
    (writeData s m).mem.wfn = s.mem.wfn ∧ (writeData s m).mem.wpos = s.mem.wpos + 4 + m.length ∧ (writeData s m).mem.depth = s.mem.depth + 1 ∧
    (writeData s m).mem.nrfn = s.mem.nrfn ∧ (writeData s m).mem.nrpos = s.mem.nrpos ∧ (writeData s m).mem.dataRead = s.mem.dataRead := by
  obtain ⟨o1, o2, o3, o4, o5, o6, o7, o8⟩ := openWrite_mem s
  simp [writeData, St.crash, o1, o2, o3, o4, o5, o6, o7, o8]

theorem writeData_disk (s : St) (m : Bytes) : (writeData s m).disk =
    segSet (openWrite s).disk s.mem.wfn (writeAt ((segGet (openWrite s).disk s.mem.wfn).getD []) s.mem.wpos (encode m)) := by
  obtain ⟨_, _, o3, o4, _⟩ := openWrite_mem s
  simp [writeData, St.crash, o3, o4]

theorem writeOne_inv {cfg : Cfg} {s : St} {recs : List Rec} (m : Bytes) (hm : m.length < 2147483648)
    (h : Inv cfg s recs) : Inv cfg (writeOne cfg s m) (recs ++ [⟨m, s.mem.wfn, s.mem.wpos⟩]) := by
  obtain ⟨o1, o2, o3, o4, o5, o6, o7, o8⟩ := writeData_mem s m
  have hbound := chain_bound cfg recs _ _ h.chain
  have key : ∀ r ∈ recs ++ [⟨m, s.mem.wfn, s.mem.wpos⟩], OnDisk (writeData s m).disk r := by
    intro r hr
    rw [writeData_disk]
    rcases List.mem_append.mp hr with hr | hr
    · obtain ⟨c, rest, h1, h2⟩ := openWrite_ondisk s r (h.ondisk r hr)
      by_cases hf : r.file = s.mem.wfn
      · rw [hf] at h1
        have hb := (hbound r hr).2
        have hstop : r.off + (encode r.msg).length ≤ s.mem.wpos := by
          simp only [encode_length]
          rcases hb with hb | hb
          · simp at hb; omega
          · simp [Rec.stop] at hb; omega
        obtain ⟨rest', hk⟩ := writeAt_keeps c s.mem.wpos r.off (encode m) (encode r.msg) rest h2 hstop (by rw [encode_length]; omega)
        refine ⟨_, rest', by rw [hf]; exact segGet_segSet_same _ _ _, ?_⟩
        simp [h1, hk]
      · exact ⟨c, rest, by rw [segGet_segSet_other _ _ _ _ hf]; exact h1, h2⟩
    · simp at hr; subst hr
      exact ⟨_, _, segGet_segSet_same _ _ _, writeAt_drop_pos _ _ _⟩
  have hchain := chain_append cfg recs _ _ ⟨m, s.mem.wfn, s.mem.wpos⟩ h.chain rfl
  have hsmall : ∀ r ∈ recs ++ [⟨m, s.mem.wfn, s.mem.wpos⟩], r.msg.length < 2147483648 := by
    intro r hr
    rcases List.mem_append.mp hr with hr | hr
    · exact h.small r hr
    · simp at hr; subst hr; exact hm
  have hahead : ((writeData s m).mem.nrfn = (writeData s m).mem.rfn ∧ (writeData s m).mem.nrpos = (writeData s m).mem.rpos) ∨
      (∃ r rs, recs ++ [⟨m, s.mem.wfn, s.mem.wpos⟩] = r :: rs ∧ (writeData s m).mem.dataRead = r.msg ∧
        ((writeData s m).mem.nrfn, (writeData s m).mem.nrpos) = r.next cfg) := by
    rw [o1, o2, o6, o7, o8]
    rcases h.ahead with hh | ⟨r, rs, he, h1, h2⟩
    · exact Or.inl hh
    · exact Or.inr ⟨r, rs ++ [_], by rw [he]; rfl, h1, h2⟩
  unfold writeOne
  simp only []
  by_cases hroll : s.mem.wpos + 4 + m.length > cfg.maxBytes
  · have : (writeData s m).mem.wpos > cfg.maxBytes := by rw [o4]; exact hroll
    simp only [this, if_true]
    have hnext : (⟨m, s.mem.wfn, s.mem.wpos⟩ : Rec).next cfg = (s.mem.wfn + 1, 0) := by
      simp [Rec.next, Rec.stop, hroll]
    rw [hnext] at hchain
    have base : Inv cfg (rollState (writeData s m)) (recs ++ [⟨m, s.mem.wfn, s.mem.wpos⟩]) :=
      { chain := by simp only [rollState, o1, o2, o3]; exact hchain
        ondisk := key
        small := hsmall
        ahead := hahead }
    exact (sync_inv base).congr rfl rfl rfl rfl rfl rfl rfl rfl
  · have : ¬ ((writeData s m).mem.wpos > cfg.maxBytes) := by rw [o4]; exact hroll
    simp only [this, if_false]
    have hnext : (⟨m, s.mem.wfn, s.mem.wpos⟩ : Rec).next cfg = (s.mem.wfn, s.mem.wpos + 4 + m.length) := by
      simp [Rec.next, Rec.stop, hroll]
    rw [hnext] at hchain
    exact { chain := by rw [o1, o2, o3, o4]; exact hchain
            ondisk := key
            small := hsmall
            ahead := hahead }

end Crng.DQ
