/-! destination.go `relay()` as a step function over its select cases (C06, C07 accounting): every hand-off from a route is
consumed by exactly one step and ends up in exactly one place: the connection queue, the spool, or a drop counter. The sends
are non-blocking (`select … default`, a regenerated fact), so the effect of a step depends on the endpoint only through
"is there a live connection" and "is its queue full". -/
namespace Crng.Relay

structure St where
  connUp : Bool := false
  queue : Nat := 0          -- len(conn.In)
  cap : Nat := 0            -- connbuf
  spool : Bool := false
  spoolRoom : Bool := true  -- can InRT take one more (it is drained by the spool's own goroutine)
  handoffs : Nat := 0       -- lines taken from dest.In
  enq : Nat := 0            -- lines put on conn.In
  spooled : Nat := 0        -- lines put on spool.InRT
  slowConn : Nat := 0
  slowSpool : Nat := 0
  downNoSpool : Nat := 0
  deriving Repr

inductive Ev where
  | handoff                 -- `case buf := <-dest.In`
  | connTake                -- HandleData takes one line from conn.In
  | connUp (cap : Nat)      -- `case conn = <-dest.connUpdates`
  | connDie                 -- the loop notices `!conn.isAlive()`
  | spoolRoom (b : Bool)    -- the spool writer catches up / falls behind
  | tick
  deriving Repr

def step (s : St) : Ev → St
  | .handoff =>
    let s := { s with handoffs := s.handoffs + 1 }
    if s.connUp then
      if s.queue < s.cap then { s with queue := s.queue + 1, enq := s.enq + 1 }   -- nonBlockingSend succeeded
      else { s with slowConn := s.slowConn + 1 }                                    -- default branch: dropped and counted
    else if s.spool then
      if s.spoolRoom then { s with spooled := s.spooled + 1 } else { s with slowSpool := s.slowSpool + 1 }
    else { s with downNoSpool := s.downNoSpool + 1 }
  | .connTake => if s.queue > 0 then { s with queue := s.queue - 1 } else s
  | .connUp cap => { s with connUp := true, queue := 0, cap := cap }
  | .connDie => { s with connUp := false, queue := 0 }
  | .spoolRoom b => { s with spoolRoom := b }
  | .tick => s

def run : St → List Ev → St
  | s, [] => s
  | s, e :: es => run (step s e) es

/-- every hand-off is accounted for in exactly one place -/
def Acct (s : St) : Prop := s.handoffs = s.enq + s.spooled + s.slowConn + s.slowSpool + s.downNoSpool

theorem step_acct (s : St) (e : Ev) (h : Acct s) : Acct (step s e) := by
  unfold Acct at *
  cases e with
  | handoff =>
    simp only [step]
    split
    · split <;> simp <;> omega
    · split
      · split <;> simp <;> omega
      · simp; omega
  | connTake => simp only [step]; split <;> simpa using h
  | connUp c => simpa [step] using h
  | connDie => simpa [step] using h
  | spoolRoom b => simpa [step] using h
  | tick => simpa [step] using h

theorem run_acct : ∀ (es : List Ev) (s : St), Acct s → Acct (run s es) := by
  intro es
  induction es with
  | nil => intro s h; exact h
  | cons e es ih => intro s h; exact ih _ (step_acct s e h)

/-- no event other than the ones listed changes the connection state -/
def Steady (up : Bool) : List Ev → Prop
  | [] => True
  | .connUp _ :: _ => False
  | .connDie :: _ => False
  | _ :: es => Steady up es

theorem run_steady_conn : ∀ (es : List Ev) (s : St) (up : Bool), Steady up es →
    (run s es).connUp = s.connUp ∧ (run s es).spool = s.spool := by
  intro es
  induction es with
  | nil => intro s up _; exact ⟨rfl, rfl⟩
  | cons e es ih =>
    intro s up h
    cases e with
    | connUp c => exact absurd h (by simp [Steady])
    | connDie => exact absurd h (by simp [Steady])
    | handoff =>
      have := ih (step s .handoff) up (by simpa [Steady] using h)
      simp only [run]; rw [this.1, this.2]
      simp only [step]; split
      · split <;> exact ⟨rfl, rfl⟩
      · split
        · split <;> exact ⟨rfl, rfl⟩
        · exact ⟨rfl, rfl⟩
    | connTake =>
      have := ih (step s .connTake) up (by simpa [Steady] using h)
      simp only [run]; rw [this.1, this.2]; simp only [step]; split <;> exact ⟨rfl, rfl⟩
    | spoolRoom b => have := ih (step s (.spoolRoom b)) up (by simpa [Steady] using h); simp only [run]; rw [this.1, this.2]; exact ⟨rfl, rfl⟩
    | tick => have := ih (step s .tick) up (by simpa [Steady] using h); simp only [run]; rw [this.1, this.2]; exact ⟨rfl, rfl⟩

/-- while the connection stays up (spooling or not), nothing is counted as conn-down and nothing goes to the spool:
every hand-off is enqueued for the endpoint or counted as a slow-connection drop -/
theorem steady_up : ∀ (es : List Ev) (s : St), s.connUp = true → Steady true es →
    (run s es).downNoSpool = s.downNoSpool ∧ (run s es).spooled = s.spooled ∧ (run s es).slowSpool = s.slowSpool := by
  intro es
  induction es with
  | nil => intro s _ _; exact ⟨rfl, rfl, rfl⟩
  | cons e es ih =>
    intro s hu h
    cases e with
    | connUp c => exact absurd h (by simp [Steady])
    | connDie => exact absurd h (by simp [Steady])
    | handoff =>
      have hs : (step s .handoff).connUp = true := by simp only [step, hu, if_true]; split <;> rfl
      have := ih (step s .handoff) hs (by simpa [Steady] using h)
      simp only [run]; rw [this.1, this.2.1, this.2.2]
      simp only [step, hu, if_true]; split <;> exact ⟨rfl, rfl, rfl⟩
    | connTake =>
      have hs : (step s .connTake).connUp = true := by simp only [step]; split <;> exact hu
      have := ih (step s .connTake) hs (by simpa [Steady] using h)
      simp only [run]; rw [this.1, this.2.1, this.2.2]; simp only [step]; split <;> exact ⟨rfl, rfl, rfl⟩
    | spoolRoom b => have := ih (step s (.spoolRoom b)) hu (by simpa [Steady] using h); simp only [run]; rw [this.1, this.2.1, this.2.2]; exact ⟨rfl, rfl, rfl⟩
    | tick => have := ih (step s .tick) hu (by simpa [Steady] using h); simp only [run]; rw [this.1, this.2.1, this.2.2]; exact ⟨rfl, rfl, rfl⟩

/-- while the connection is down and spooling is disabled, every hand-off is counted in the connection-down counter -/
theorem steady_down_nospool : ∀ (es : List Ev) (s : St), s.connUp = false → s.spool = false → Steady false es →
    (run s es).downNoSpool + s.handoffs = (run s es).handoffs + s.downNoSpool ∧ (run s es).enq = s.enq := by
  intro es
  induction es with
  | nil => intro s _ _ _; exact ⟨by simp [run]; omega, rfl⟩
  | cons e es ih =>
    intro s hu hsp h
    cases e with
    | connUp c => exact absurd h (by simp [Steady])
    | connDie => exact absurd h (by simp [Steady])
    | handoff =>
      have e1 : step s .handoff = { s with handoffs := s.handoffs + 1, downNoSpool := s.downNoSpool + 1 } := by
        simp [step, hu, hsp]
      have := ih (step s .handoff) (by rw [e1]; exact hu) (by rw [e1]; exact hsp) (by simpa [Steady] using h)
      simp only [run]
      rw [e1] at this ⊢
      simp only [] at this
      exact ⟨by omega, this.2⟩
    | connTake =>
      have e1 : (step s .connTake).connUp = false ∧ (step s .connTake).spool = false ∧ (step s .connTake).downNoSpool = s.downNoSpool ∧
          (step s .connTake).handoffs = s.handoffs ∧ (step s .connTake).enq = s.enq := by
        simp only [step]; split <;> exact ⟨hu, hsp, rfl, rfl, rfl⟩
      have := ih (step s .connTake) e1.1 e1.2.1 (by simpa [Steady] using h)
      simp only [run]; rw [e1.2.2.1, e1.2.2.2.1, e1.2.2.2.2] at this; exact this
    | spoolRoom b => exact ih (step s (.spoolRoom b)) hu hsp (by simpa [Steady] using h)
    | tick => exact ih (step s .tick) hu hsp (by simpa [Steady] using h)

end Crng.Relay
