import Crng.DiskQueue
namespace Crng.DQ

def dstep (a : Nat) (d : UInt8) : Nat := a * 10 + (d.toNat - 48)
def dval (ds : Bytes) (a : Nat) : Nat := ds.foldl dstep a

theorem dig_toNat (k : Nat) (hk : k < 10) : (dig k).toNat = 48 + k := by
  unfold dig; rw [UInt8.toNat_ofNat']; omega

theorem isDigit_dig (k : Nat) (hk : k < 10) : isDigit (dig k) = true := by
  have := dig_toNat k hk
  simp only [isDigit, Bool.and_eq_true, decide_eq_true_eq, UInt8.le_iff_toNat_le, this]
  constructor
  · show (48 : UInt8).toNat ≤ 48 + k; simp
  · show 48 + k ≤ (57 : UInt8).toNat; simp; omega

theorem dstep_dig (a k : Nat) (hk : k < 10) : dstep a (dig k) = a * 10 + k := by
  unfold dstep; rw [dig_toNat k hk]; omega

/-- `digitsAux` produces the decimal digits of `n` in front of `acc` -/
theorem digitsAux_spec : ∀ (fuel n : Nat) (acc : Bytes), n < fuel →
    ∃ ds : Bytes, digitsAux fuel n acc = ds ++ acc ∧ ds ≠ [] ∧ (∀ d ∈ ds, isDigit d = true) ∧ ∀ a, dval ds a = a * 10 ^ ds.length + n := by
  intro fuel
  induction fuel with
  | zero => intro n acc h; omega
  | succ f ih =>
    intro n acc h
    unfold digitsAux
    by_cases hn : n < 10
    · simp only [hn, if_true]
      refine ⟨[dig n], rfl, by simp, ?_, ?_⟩
      · intro d hd
        have : d = dig n := by simpa using hd
        subst this; exact isDigit_dig n hn
      · intro a
        show dstep a (dig n) = a * 10 ^ 1 + n
        rw [dstep_dig a n hn]
    · simp only [hn, if_false]
      have hlt : n / 10 < f := by omega
      have hmod : n % 10 < 10 := Nat.mod_lt n (by decide)
      obtain ⟨ds, h1, h2, h3, h4⟩ := ih (n / 10) (dig (n % 10) :: acc) hlt
      refine ⟨ds ++ [dig (n % 10)], by rw [h1, List.append_assoc]; rfl, by simp, ?_, ?_⟩
      · intro d hd
        rcases List.mem_append.mp hd with hd | hd
        · exact h3 d hd
        · have : d = dig (n % 10) := by simpa using hd
          subst this; exact isDigit_dig _ hmod
      · intro a
        have h5 := h4 a
        unfold dval at h5 ⊢
        rw [List.foldl_append, h5]
        show dstep (a * 10 ^ ds.length + n / 10) (dig (n % 10)) = a * 10 ^ (ds ++ [dig (n % 10)]).length + n
        rw [dstep_dig _ _ hmod, List.length_append, List.length_singleton, Nat.pow_succ, Nat.add_mul, Nat.mul_assoc]
        omega

theorem natDigits_spec (n : Nat) : natDigits n ≠ [] ∧ (∀ d ∈ natDigits n, isDigit d = true) ∧ dval (natDigits n) 0 = n := by
  obtain ⟨ds, h1, h2, h3, h4⟩ := digitsAux_spec (n + 1) n [] (by omega)
  simp only [List.append_nil] at h1
  unfold natDigits
  rw [h1]
  exact ⟨h2, h3, by simpa using h4 0⟩

theorem takeWhile_all_append (p : UInt8 → Bool) (ds : Bytes) (c : UInt8) (rest : Bytes)
    (h : ∀ d ∈ ds, p d = true) (hc : p c = false) : (ds ++ c :: rest).takeWhile p = ds := by
  induction ds with
  | nil => simp [List.takeWhile_cons, hc]
  | cons d t ih =>
    have hd : p d = true := h d (List.mem_cons_self ..)
    simp only [List.cons_append, List.takeWhile_cons, hd, if_true]
    rw [ih (fun x hx => h x (List.mem_cons_of_mem _ hx))]

theorem scanNat_natDigits (n : Nat) (c : UInt8) (rest : Bytes) (hc : isDigit c = false) :
    scanNat (natDigits n ++ c :: rest) = some (n, c :: rest) := by
  obtain ⟨h1, h2, h3⟩ := natDigits_spec n
  unfold scanNat
  have htw := takeWhile_all_append isDigit (natDigits n) c rest h2 hc
  simp only [htw]
  have hne : (natDigits n).isEmpty = false := by
    cases hh : natDigits n with
    | nil => exact absurd hh h1
    | cons _ _ => rfl
  simp only [hne]
  have hv : (natDigits n).foldl (fun a d => a * 10 + (d.toNat - 48)) 0 = n := h3
  simp [hv]

end Crng.DQ

namespace Crng.DQ

theorem scanInt_natDigits (n : Nat) (c : UInt8) (rest : Bytes) (hc : isDigit c = false) :
    scanInt (natDigits n ++ c :: rest) = some ((n : Int), c :: rest) := by
  obtain ⟨h1, h2, _⟩ := natDigits_spec n
  have hs := scanNat_natDigits n c rest hc
  cases hnd : natDigits n with
  | nil => exact absurd hnd h1
  | cons d0 ds =>
    have hd0 : isDigit d0 = true := h2 d0 (by rw [hnd]; exact List.mem_cons_self ..)
    have h45 : d0 ≠ 45 := by intro h; subst h; simp [isDigit] at hd0
    have h43 : d0 ≠ 43 := by intro h; subst h; simp [isDigit] at hd0
    rw [hnd] at hs
    simp only [List.cons_append] at hs ⊢
    unfold scanInt
    split
    · rename_i heq; simp at heq; exact absurd heq.1 h45
    · rename_i heq; simp at heq; exact absurd heq.1 h43
    · simp [hs]

theorem isDigit_10 : isDigit 10 = false := by decide
theorem isDigit_44 : isDigit 44 = false := by decide

theorem parse_render (m : Mem) (junk : Bytes) (hd : 0 ≤ m.depth) :
    parseMeta (renderMeta m ++ junk) = some (m.depth, m.rfn, m.rpos, m.wfn, m.wpos) := by
  have hint : intText m.depth = natDigits m.depth.toNat := by
    unfold intText; simp [Int.not_lt.mpr hd]
  unfold renderMeta parseMeta
  rw [hint]
  simp only [List.append_assoc, List.singleton_append, List.cons_append, List.nil_append]
  rw [scanInt_natDigits _ 10 _ isDigit_10]
  simp only [Option.bind_eq_bind, Option.bind_some, expect, beq_self_eq_true, if_true]
  rw [scanNat_natDigits _ 44 _ isDigit_44]
  simp only [Option.bind_some, expect, beq_self_eq_true, if_true]
  rw [scanNat_natDigits _ 10 _ isDigit_10]
  simp only [Option.bind_some, expect, beq_self_eq_true, if_true]
  rw [scanNat_natDigits _ 44 _ isDigit_44]
  simp only [Option.bind_some, expect, beq_self_eq_true, if_true]
  rw [scanNat_natDigits _ 10 _ isDigit_10]
  simp [Int.toNat_of_nonneg hd]

end Crng.DQ
