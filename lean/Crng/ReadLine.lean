import Crng.Framing
/-! `bufio.Reader.ReadLine` over a message body with a buffer of `size` bytes, as `consumeAMQP` uses it (size 4096,
`isPrefix` ignored, loop until the first error). One iteration = one `ReadLine` call. -/
namespace Crng.RL
abbrev Bytes := List UInt8

def dropCR (l : Bytes) : Bytes := if l.getLast? = some 13 then l.dropLast else l

/-- `pend`: unread bytes in the buffer; `src`: bytes still in the underlying reader -/
def readLines (size : Nat) : Nat → Bytes → Bytes → List Bytes
  | 0, _, _ => []
  | fuel + 1, pend, src =>
    -- ReadSlice('\n'): search the buffer, fill it (bytes.Reader delivers all it is asked for), search again
    let w := pend ++ src.take (size - pend.length)
    let src' := src.drop (size - pend.length)
    let line := w.takeWhile (· != 10)
    if line.length < w.length then
      -- a newline inside the window: the line without its terminator ("\n" or "\r\n")
      dropCR line :: readLines size fuel (w.drop (line.length + 1)) src'
    else if w.length ≥ size then
      -- ErrBufferFull: the whole buffer is returned as a fragment (isPrefix); a trailing '\r' is put back
      if w.getLast? = some 13 then w.dropLast :: readLines size fuel [13] src'
      else w :: readLines size fuel [] src'
    else if w.isEmpty then []           -- EOF with nothing pending: the loop ends
    else [w]                            -- EOF: the final unterminated line, returned as it is

/-- what `consumeAMQP` dispatches for one message body -/
def amqpTokens (size : Nat) (body : Bytes) : List Bytes := readLines size (body.length + 2) [] body

/-- specification for bodies whose lines fit: newline-delimited lines, one trailing CR dropped from terminated lines,
a non-empty final unterminated line kept as received -/
def specLines : Nat → Bytes → List Bytes
  | 0, _ => []
  | fuel + 1, s =>
    if s.isEmpty then [] else
    let line := s.takeWhile (· != 10)
    if line.length < s.length then dropCR line :: specLines fuel (s.drop (line.length + 1))
    else [s]

def spec (s : Bytes) : List Bytes := specLines (s.length + 2) s

/-- every line of the body (terminator excluded, a CR included) is shorter than the buffer -/
def Fits (size : Nat) : Nat → Bytes → Prop
  | 0, _ => True
  | fuel + 1, s => (s.takeWhile (· != 10)).length < size ∧ Fits size fuel (s.drop ((s.takeWhile (· != 10)).length + 1))

end Crng.RL
