import Crng.Gen.CodeMatcher
import Crng.Table
/-! Obligations of the regenerated *code* layer, matcher/matcher.go: `Matcher.Match` and `Matcher.PreMatch` as translated
from /repo's Go source on this run are proved equal, for every matcher value and every name, to the hand-written model
functions that `Crng.Props.C03` / `C01` / `C11` are about, and hence to the documented six-condition conjunction.
A semantic change of the Go functions makes an equality false: the proof stops checking, the check reports the
obligation and searches for a failing input with the matcher streams. -/
namespace Crng.Tie.CodeMatcher
open Crng.Code Crng.Gen.Code

def absRx (pre : Bytes) (r : RegexpI) : Crng.Tb.Rx := ⟨r.Match, pre⟩
/-- the model's matcher for a Go `Matcher` value -/
def absM (m : Matcher) : Crng.Tb.Matcher :=
  { prefix_ := m.prefix_, notPrefix := m.notPrefix, sub := m.sub, notSub := m.notSub,
    regex := m.regex.map (absRx m.prefixFromRegex), notRegex := m.notRegex.map (absRx m.prefixFromNotRegex) }

theorem hasPrefix_eq (s p : Bytes) : Lib.bytes_HasPrefix s p = Crng.Tb.hasPrefix s p := rfl
theorem contains_eq (s p : Bytes) : Lib.bytes_Contains s p = Crng.Tb.contains s p := rfl
theorem len_pos (l : Bytes) : decide (Lib.len l > 0) = decide (l.length > 0) := by
  simp [Lib.len]
theorem len_zero (l : Bytes) : (Lib.len l == 0) = (l.length == 0) := by
  cases l <;> simp [Lib.len] <;> omega

/-- **matcher.Match (regenerated) = the model's `Matcher.match`** -/
theorem matcher_match_eq (m : Matcher) (s : Bytes) : m.Match s = (absM m).match s := by
  unfold Matcher.Match Crng.Tb.Matcher.match absM
  simp only [hasPrefix_eq, contains_eq, len_pos, len_zero]
  cases hr : m.regex <;> cases hn : m.notRegex <;>
    simp [Lib.notNil, Option.Match, absRx] <;>
    (repeat' split) <;> simp_all

/-- **matcher.Match (regenerated) = the documented conjunction**, whenever the derived static prefixes are sound
(`Crng.Props.C03.soundPrefix_sound` is the theorem that `regexToPrefix` derives sound ones) -/
theorem matcher_match_spec (m : Matcher) (h : (absM m).PrefixOK) (s : Bytes) : m.Match s = (absM m).spec s := by
  rw [matcher_match_eq, Crng.Tb.match_eq_spec _ h]

/-- **matcher.PreMatch (regenerated) = the model's `preMatch`**; `matcher.New` leaves `prefixFromRegex` empty when no
regex is configured -/
theorem matcher_prematch_eq (m : Matcher) (s : Bytes) (h : m.regex = none → m.prefixFromRegex = []) :
    m.PreMatch s = (absM m).preMatch s := by
  unfold Matcher.PreMatch Crng.Tb.Matcher.preMatch absM
  simp only [hasPrefix_eq, contains_eq, len_pos]
  cases hr : m.regex <;> simp [absRx, h, hr] <;> (repeat' split) <;> simp_all

/-- a regexp object answers `FindSubmatchIndex` with non-nil exactly when `Match` is true (Go's regexp) -/
def RegexpI.Coherent (r : RegexpI) : Prop := ∀ s, (r.FindSubmatchIndex s).isSome = r.Match s

/-- **matcher.MatchRegexAndExpand (regenerated)** succeeds exactly when the regex matches and notRegex does not (the
model's `regexStage` with `useNot`), for a matcher that has a regex (`aggregator.New` rejects one without) -/
theorem matcher_regexStage_eq (m : Matcher) (r : RegexpI) (hr : m.regex = some r) (hc : RegexpI.Coherent r) (key t : Bytes) :
    (m.MatchRegexAndExpand key t).2 = (absM m).regexStage true key := by
  unfold Matcher.MatchRegexAndExpand Crng.Tb.Matcher.regexStage absM
  have := hc key
  cases hn : m.notRegex <;> cases hm : r.Match key <;>
    simp_all [Lib.notNil, Lib.isNil, Option.Match, Option.FindSubmatchIndex, absRx] <;>
    (repeat' split) <;> simp_all

example : (absM ⟨[97], [], [], [], none, none, [], []⟩).match [97, 98] = true := by decide
end Crng.Tie.CodeMatcher
