import Crng.Tie.Util
import Crng.Gen.TokenTable
import Crng.Gen.DestDefaults
import Crng.Gen.Interp
import Crng.Tokens
/-! regenerated obligations for C20 -/
namespace Crng.Tie.C20
open Crng.Tie

/-- the scanner's token definitions, in order (first match wins), as imperatives.go has them today -/
theorem tokens_ok : Crng.Gen.tokenTable = [
  ("addBlack", "\"addBlack\""),
  ("addAgg", "\"addAgg\""),
  ("addRouteSendAllMatch", "\"addRoute sendAllMatch\""),
  ("addRouteSendFirstMatch", "\"addRoute sendFirstMatch\""),
  ("addRouteConsistentHashing", "\"addRoute consistentHashing\""),
  ("addRouteGrafanaNet", "\"addRoute grafanaNet\""),
  ("addRouteKafkaMdm", "\"addRoute kafkaMdm\""),
  ("addRoutePubSub", "\"addRoute pubsub\""),
  ("addDest", "\"addDest\""),
  ("addRewriter", "\"addRewriter\""),
  ("delRoute", "\"delRoute\""),
  ("modDest", "\"modDest\""),
  ("modRoute", "\"modRoute\""),
  ("optPrefix", "\"prefix=\""),
  ("optNotPrefix", "\"notPrefix=\""),
  ("optAddr", "\"addr=\""),
  ("optCache", "\"cache=\""),
  ("optDropRaw", "\"dropRaw=\""),
  ("optBlocking", "\"blocking=\""),
  ("optSub", "\"sub=\""),
  ("optNotSub", "\"notSub=\""),
  ("optRegex", "\"regex=\""),
  ("optNotRegex", "\"notRegex=\""),
  ("optFlush", "\"flush=\""),
  ("optReconn", "\"reconn=\""),
  ("optConnBufSize", "\"connbuf=\""),
  ("optIoBufSize", "\"iobuf=\""),
  ("optSpoolBufSize", "\"spoolbuf=\""),
  ("optSpoolMaxBytesPerFile", "\"spoolmaxbytesperfile=\""),
  ("optSpoolSyncEvery", "\"spoolsyncevery=\""),
  ("optSpoolSyncPeriod", "\"spoolsyncperiod=\""),
  ("optSpoolSleep", "\"spoolsleep=\""),
  ("optTLSEnabled", "\"tlsEnabled=\""),
  ("optTLSSkipVerify", "\"tlsSkipVerify=\""),
  ("optTLSClientCert", "\"tlsClientCert=\""),
  ("optTLSClientKey", "\"tlsClientKey=\""),
  ("optSASLEnabled", "\"saslEnabled=\""),
  ("optSASLMechanism", "\"saslMechanism=\""),
  ("optSASLUsername", "\"saslUsername=\""),
  ("optSASLPassword", "\"saslPassword=\""),
  ("optUnspoolSleep", "\"unspoolsleep=\""),
  ("optPickle", "\"pickle=\""),
  ("optSpool", "\"spool=\""),
  ("optTrue", "\"true\""),
  ("optFalse", "\"false\""),
  ("optBufSize", "\"bufSize=\""),
  ("optFlushMaxNum", "\"flushMaxNum=\""),
  ("optFlushMaxWait", "\"flushMaxWait=\""),
  ("optTimeout", "\"timeout=\""),
  ("optSSLVerify", "\"sslverify=\""),
  ("optErrBackoffMin", "\"errBackoffMin=\""),
  ("optErrBackoffFactor", "\"errBackoffFactor=\""),
  ("optConcurrency", "\"concurrency=\""),
  ("optOrgId", "\"orgId=\""),
  ("optPubSubProject", "\"project=\""),
  ("optPubSubTopic", "\"topic=\""),
  ("optPubSubFormat", "\"format=\""),
  ("optPubSubCodec", "\"codec=\""),
  ("optPubSubFlushMaxSize", "\"flushMaxSize=\""),
  ("str", "\"\\\".*\\\"\""),
  ("sep", "\"##\""),
  ("avgFn", "\"avg \""),
  ("maxFn", "\"max \""),
  ("minFn", "\"min \""),
  ("sumFn", "\"sum \""),
  ("lastFn", "\"last \""),
  ("countFn", "\"count \""),
  ("deltaFn", "\"delta \""),
  ("deriveFn", "\"derive \""),
  ("stdevFn", "\"stdev \""),
  ("num", "\"[0-9]+( |$)\""),
  ("word", "\"[^ ]+\"")] := by decide +kernel

/-- the model's token table lists the same definitions in the same order -/
theorem tokenNames_ok : Crng.Gen.tokenTable.map (·.1) = Crng.Tk.tokenTable.map (fun d =>
    -- the Go constant names of the nine function tokens end in Fn, the literals/str/sep/num/word are spelled alike
    d.name) := by decide +kernel

/-- the defaults block at the top of `readDestination` -/
theorem destDefaults_ok : Crng.Gen.destDefaults = [
  ("flush", "1000"),
  ("reconn", "10000"),
  ("connBufSize", "30000"),
  ("ioBufSize", "2000000"),
  ("spoolBufSize", "10000"),
  ("spoolMaxBytesPerFile", "int64(200 * 1024 * 1024)"),
  ("spoolSyncEvery", "int64(10000)"),
  ("spoolSyncPeriod", "time.Second"),
  ("spoolSleep", "time.Duration(500) * time.Microsecond"),
  ("unspoolSleep", "time.Duration(10) * time.Microsecond"),
  ("periodFlush", "time.Duration(flush) * time.Millisecond"),
  ("periodReConn", "time.Duration(reconn) * time.Millisecond")] := by decide +kernel

/-- … and the model's default destination carries the same values in the documented units -/
theorem modelDefaults_ok :
    let d : Crng.Tk.Dest := {}
    (d.flush, d.reconn, d.connBufSize, d.ioBufSize, d.spoolBufSize, d.spoolMaxBytesPerFile, d.spoolSyncEvery, d.spoolSyncPeriodMs, d.spoolSleepUs, d.unspoolSleepUs, d.spool, d.pickle)
      = (1000, 10000, 30000, 2000000, 10000, 200 * 1024 * 1024, 10000, 1000, 500, 10, false, false) := by intro d; rfl

/-- interpolation: only the four documented names, braced or followed by a word boundary; each arm returns its own variable -/
theorem interp_ok :
    (Crng.Gen.configVar == "regexp.MustCompile(`\\$\\{(HOST|GRAFANA_NET_ADDR|GRAFANA_NET_API_KEY|GRAFANA_NET_USER_ID)\\}|\\$(HOST|GRAFANA_NET_ADDR|GRAFANA_NET_API_KEY|GRAFANA_NET_USER_ID)\\b`)" &&
     Crng.Gen.expandArms == ["\"HOST\"", "\"GRAFANA_NET_ADDR\"", "\"GRAFANA_NET_API_KEY\"", "\"GRAFANA_NET_USER_ID\"", "default"] &&
     isSubseq ["0 return configVar.ReplaceAllStringFunc(string(data), func(ref string) string { return expandVars(strings.Trim(ref, \"${}\")) })"] Crng.Gen.skel_readConfigFile) = true := by decide +kernel

end Crng.Tie.C20
