import Crng.Gen.CodeRewriter
/-! Obligations of the regenerated *code* layer, rewriter/rewriter.go `RW.Do`: a rule is skipped exactly when its not-clause
(regex, else substring) matches; a /regex/ rule is `ReplaceAll`; a literal rule is `bytes.Replace` with `Max`, i.e. the
model function `Crng.Rw.rwDo` / `replaceN` that `Crng.Props.C04` is about. -/
namespace Crng.Tie.CodeRewriter
open Crng.Code Crng.Gen.Code

theorem contains_eq (s p : Bytes) : Lib.bytes_Contains s p = Crng.Rw.contains s p := rfl

/-- **RW.Do (regenerated), literal rule with a substring not-clause = the model's `rwDo`** -/
theorem do_literal_eq (r : RW) (buf : Bytes) (hre : r.re = none) (hnr : r.notRe = none) :
    r.Do buf = Crng.Rw.rwDo r.old r.new r.not (if r.Max < 0 then none else some r.Max.toNat) buf := by
  unfold RW.Do Crng.Rw.rwDo Lib.bytes_Replace
  simp only [hre, hnr, Lib.notNil, Option.isSome_none, Bool.false_eq_true, if_false, contains_eq, Lib.len]
  cases hn : r.not with
  | nil => simp
  | cons c cs => cases hc : Crng.Rw.contains buf (c :: cs) <;> simp [hc]

/-- a rule whose not-clause regex matches leaves the name alone; one whose not-clause substring occurs as well -/
theorem do_not_skips (r : RW) (buf : Bytes) :
    (∀ x, r.notRe = some x → x.Match buf = true → r.Do buf = buf) ∧
    (r.notRe = none → r.not ≠ [] → Lib.bytes_Contains buf r.not = true → r.Do buf = buf) := by
  refine ⟨fun x hx hm => ?_, fun hn hne hc => ?_⟩
  · unfold RW.Do; simp [hx, Lib.notNil, Option.Match, hm]
  · unfold RW.Do
    have : decide (Lib.len r.not > 0) = true := by
      cases h : r.not with
      | nil => exact absurd h hne
      | cons _ _ => simp [Lib.len]
    simp [hn, Lib.notNil, this, hc]

/-- a /regex/ rule that is not skipped is `ReplaceAll(buf, new)` -/
theorem do_regex (r : RW) (x : RegexpI) (buf : Bytes) (hre : r.re = some x) (hnr : r.notRe = none) (hn : r.not = []) :
    r.Do buf = x.ReplaceAll buf r.new := by
  unfold RW.Do; simp [hre, hnr, hn, Lib.notNil, Lib.len, Option.ReplaceAll]

/-- a not-clause regex takes precedence over a not-clause substring (`else if`) -/
theorem do_notRe_precedence (r : RW) (x : RegexpI) (buf : Bytes) (hx : r.notRe = some x) (hm : x.Match buf = false)
    (hre : r.re = none) : r.Do buf = Lib.bytes_Replace buf r.old r.new r.Max := by
  unfold RW.Do; simp [hx, Lib.notNil, Option.Match, hm, hre]
end Crng.Tie.CodeRewriter
