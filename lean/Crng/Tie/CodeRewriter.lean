import Crng.Gen.CodeRewriter
/-! Obligations of the regenerated *code* layer, rewriter/rewriter.go `RW.Do`: a rule is skipped exactly when its not-clause
(regex, else substring) matches; a /regex/ rule is `ReplaceAll`; a literal rule is `bytes.Replace` with `Max`, i.e. the
model function `Crng.Rw.rwDo` / `replaceN` that `Crng.Props.C04` is about. -/
namespace Crng.Tie.CodeRewriter
open Crng.Code Crng.Gen.Code

theorem contains_eq (s p : Bytes) : Lib.bytes_Contains s p = Crng.Rw.contains s p := rfl

/-- **RW.Do (regenerated), literal rule with a substring not-clause = the model's `rwDo`** -/
theorem do_literal_eq (r : RW) (buf : Bytes) (hre : r.re = none) (hnr : r.notRe = none) :
    r.Do buf = Crng.Rw.rwDo r.old r.new r.not (if r.Max < 0 then none else some r.Max.toNat) buf := by
  unfold RW.Do Crng.Rw.rwDo Lib.bytes_Replace
  simp only [hre, hnr, Lib.notNil, Option.isSome_none, Bool.false_eq_true, if_false, contains_eq, Lib.len]
  cases hn : r.not with
  | nil => simp
  | cons c cs => cases hc : Crng.Rw.contains buf (c :: cs) <;> simp [hc]

/-- a rule whose not-clause regex matches leaves the name alone; one whose not-clause substring occurs as well -/
theorem do_not_skips (r : RW) (buf : Bytes) :
    (∀ x, r.notRe = some x → x.Match buf = true → r.Do buf = buf) ∧
    (r.notRe = none → r.not ≠ [] → Lib.bytes_Contains buf r.not = true → r.Do buf = buf) := by
  refine ⟨fun x hx hm => ?_, fun hn hne hc => ?_⟩
  · unfold RW.Do; simp [hx, Lib.notNil, Option.Match, hm]
  · unfold RW.Do
    have : decide (Lib.len r.not > 0) = true := by
      cases h : r.not with
      | nil => exact absurd h hne
      | cons _ _ => simp [Lib.len]
    simp [hn, Lib.notNil, this, hc]

/-- a /regex/ rule that is not skipped is `ReplaceAll(buf, new)` -/
theorem do_regex (r : RW) (x : RegexpI) (buf : Bytes) (hre : r.re = some x) (hnr : r.notRe = none) (hn : r.not = []) :
    r.Do buf = x.ReplaceAll buf r.new := by
  unfold RW.Do; simp [hre, hnr, hn, Lib.notNil, Lib.len, Option.ReplaceAll]

/-- a not-clause regex takes precedence over a not-clause substring (`else if`) -/
theorem do_notRe_precedence (r : RW) (x : RegexpI) (buf : Bytes) (hx : r.notRe = some x) (hm : x.Match buf = false)
    (hre : r.re = none) : r.Do buf = Lib.bytes_Replace buf r.old r.new r.Max := by
  unfold RW.Do; simp [hx, Lib.notNil, Option.Match, hm, hre]
/-! ### rewriter.New -/
/-- `/…/`: longer than one byte, first and last byte a slash -/
def isSlashed (b : Bytes) : Bool :=
  decide (Lib.len b > 1) && (Lib.slice b 0 1 == [47]) && (Lib.sliceFrom b (Lib.len b - 1) == [47])
def inner (b : Bytes) : Bytes := Lib.slice b 1 (Lib.len b - 1)

/-- **rewriter.New (regenerated), closed form**: empty `old` and `max < -1` are rejected; `old` is a regex rule exactly when
it is `/…/` (then the text between the slashes must compile and `max` must be -1), otherwise a literal rule; the same test
decides whether the not-clause is a regex or a substring; the accepted rule carries its arguments unchanged -/
theorem new_eq (E : Env) (old new not : Bytes) (max : Int) :
    rewriter_New E old new not max =
      if Lib.len old == 0 then (default, errEmptyOld)
      else if max < -1 then (default, errMaxTooLow)
      else if isSlashed old && (E.regexp_Compile (inner old)).2.isSome then (default, errInvalidRegexp)
      else if isSlashed old && max != -1 then (default, errInvalidRegexpMax)
      else if isSlashed not && (E.regexp_Compile (inner not)).2.isSome then (default, errInvalidNotRegexp)
      else ({ Old := old, New := new, Not := not, Max := max, old := old, new := new, not := not,
              re := if isSlashed old then (E.regexp_Compile (inner old)).1 else none,
              notRe := if isSlashed not then (E.regexp_Compile (inner not)).1 else none }, none) := by
  have e1 : (decide (Lib.len old > 1) && (Lib.slice old 0 1 == [47]) && (Lib.sliceFrom old (Lib.len old - 1) == [47])) = isSlashed old := rfl
  have e2 : (decide (Lib.len not > 1) && (Lib.slice not 0 1 == [47]) && (Lib.sliceFrom not (Lib.len not - 1) == [47])) = isSlashed not := rfl
  rcases hc : E.regexp_Compile (Lib.slice old 1 (Lib.len old - 1)) with ⟨r1, e1'⟩
  rcases hd : E.regexp_Compile (Lib.slice not 1 (Lib.len not - 1)) with ⟨r2, e2'⟩
  unfold rewriter_New
  simp only [e1, e2, inner, hc, hd, Lib.notNil]
  by_cases h0 : (Lib.len old == 0) = true
  · simp [h0]
  · by_cases h1 : max < -1
    · simp [h0, h1]
    · cases ho : isSlashed old <;> cases hn : isSlashed not <;>
        cases e1' <;> cases e2' <;> by_cases hm : max = -1 <;> simp [h0, h1, hm] <;> rfl

/-- a literal rule that `New` accepted rewrites like the model's `rwDo` (C04), with `max = -1` meaning all -/
theorem new_then_do_literal (E : Env) (old new not : Bytes) (max : Int) (buf : Bytes)
    (hacc : (rewriter_New E old new not max).2 = none) (ho : isSlashed old = false) (hn : isSlashed not = false) :
    (rewriter_New E old new not max).1.Do buf = Crng.Rw.rwDo old new not (if max < 0 then none else some max.toNat) buf := by
  rw [new_eq] at hacc ⊢
  by_cases h0 : (Lib.len old == 0) = true
  · simp [h0, errEmptyOld] at hacc
  · by_cases h1 : max < -1
    · simp [h0, h1, errMaxTooLow] at hacc
    · simp only [h0, h1, ho, hn, Bool.false_and, Bool.false_eq_true, if_false]
      exact do_literal_eq _ buf rfl rfl

end Crng.Tie.CodeRewriter
