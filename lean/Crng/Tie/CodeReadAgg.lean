import Crng.Gen.CodeReadAgg
import Crng.CodeSpecAgg
/-! Obligations of the regenerated *code* layer, imperatives/imperatives.go `readAddAgg` (the command side of C20 for
aggregations): the function translated from /repo on this run — function token, optional bare regex, the six filter options
in any order, format / interval / wait, `cache=` / `dropRaw=` with their defaults, `matcher.New`, `aggregator.New`,
`table.AddAggregator` — equals the closed form `Crng.CodeSpecAgg.readAddAggSpec` for every token list. The two token loops are
named definitions (`readAddAgg_cond1/body1`, `…2`) proved equal to table-driven steps; the loops are then structural
recursions over the tokens (`optLoop1`, `optLoop2`), never running out of fuel. -/
namespace Crng.Tie.CodeReadAgg
open Crng.Code Crng.Gen.Code Crng.CodeSpecAgg

theorem whileR_pure {σ ρ : Type} (c c' : σ → Bool) (b : σ → Res (Step σ ρ)) (b' : σ → Step σ ρ)
    (hc : ∀ s, c s = c' s) (hb : ∀ s, b s = Res.pure (b' s)) :
    ∀ (n : Nat) (s : σ), whileR n c b s = Res.pure (whileP n c' b' s) := by
  intro n
  induction n with
  | zero => intro s; rfl
  | succ n ih =>
    intro s
    simp only [whileR, whileP, hc, hb]
    split
    · cases hbs : b' s <;> simp [Res.bind_pure, ih]
    · rfl

theorem cond1_eq (E : Env) (st : T1) : readAddAgg_cond1 E st = tupleCond1 st := by
  rcases st with ⟨notPrefix, notRegex, notSub, prefix_, regex, s, sub, t⟩; rfl
theorem cond2_eq (E : Env) (st : T2) : readAddAgg_cond2 E st = tupleCond2 st := by
  rcases st with ⟨cache, dropRaw, err, s, t⟩; rfl

set_option maxRecDepth 8000 in
theorem body1_eq (E : Env) (st : T1) : readAddAgg_body1 E st = Res.pure (tupleStep1 st) := by
  rcases st with ⟨notPrefix, notRegex, notSub, prefix_, regex, s, sub, t⟩
  simp only [readAddAgg_body1, tupleStep1, step1]
  generalize s.Next = p
  obtain ⟨v, s1⟩ := p
  generalize s1.Next = q
  obtain ⟨t', s2⟩ := q
  obtain ⟨tok, tv⟩ := t
  obtain ⟨vtok, vv⟩ := v
  simp only []
  cases tok <;> simp [mSet, M6.toTuple, Res.pure] <;> (by_cases hv : vtok = Token.word <;> simp [hv])

set_option maxRecDepth 8000 in
theorem body2_eq (E : Env) (st : T2) : readAddAgg_body2 E st = Res.pure (tupleStep2 E st) := by
  rcases st with ⟨cache, dropRaw, err, s, t⟩
  simp only [readAddAgg_body2, tupleStep2]
  generalize s.Next = p
  obtain ⟨v, s1⟩ := p
  generalize s1.Next = q
  obtain ⟨t', s2⟩ := q
  obtain ⟨tok, tv⟩ := t
  obtain ⟨vtok, vv⟩ := v
  simp only []
  rcases hb : E.strconv_ParseBool vv with ⟨b, be⟩
  cases be <;> cases tok <;> simp [Res.pure, Lib.notNil, hb] <;>
    (by_cases h1 : vtok = Token.optTrue <;> by_cases h2 : vtok = Token.optFalse <;> simp [h1, h2, hb])

theorem cond1_toTuple (m : M6) (s : Scanner) (t : TokV) :
    tupleCond1 (m.toTuple s t) = ((t.Token != toki_EOF) && (t.Token != Token.word)) := rfl
theorem step1_toTuple (m : M6) (s : Scanner) (t : TokV) :
    tupleStep1 (m.toTuple s t) = stepMap (fun (x : M6 × Scanner × TokV) => x.1.toTuple x.2.1 x.2.2) (step1 m s t) := rfl

theorem loop1_eq : ∀ (n : Nat) (toks : List TokV) (m : M6) (t : TokV) (fuel : Nat),
    toks.length ≤ n → toks.length + 2 ≤ fuel →
    whileP fuel tupleCond1 tupleStep1 (m.toTuple ⟨toks⟩ t) =
      match optLoop1 t toks m with
      | .error r => Out.ret r
      | .ok (m', t', s') => Out.done (m'.toTuple s' t') := by
  intro n
  induction n using Nat.strongRecOn with
  | _ n ih =>
    intro toks m t fuel hn hf
    obtain ⟨f1, rfl⟩ : ∃ f1, fuel = f1 + 1 := ⟨fuel - 1, by omega⟩
    rw [optLoop1]
    by_cases hend : t.Token = Token.EOF ∨ t.Token = Token.word
    · have hc : tupleCond1 (m.toTuple ⟨toks⟩ t) = false := by
        rw [cond1_toTuple]; rcases hend with h | h <;> simp [h, toki_EOF]
      simp [whileP, hc, hend]
    · have hc : tupleCond1 (m.toTuple ⟨toks⟩ t) = true := by
        rw [cond1_toTuple]; simp only [toki_EOF]
        have h1 : t.Token ≠ Token.EOF := fun h => hend (Or.inl h)
        have h2 : t.Token ≠ Token.word := fun h => hend (Or.inr h)
        simp [h1, h2]
      simp only [whileP, hc, if_true, step1_toTuple, hend, if_false]
      cases hk : mSet t.Token with
      | none => simp [step1, hk]
      | some f =>
        cases toks with
        | nil => simp [step1, hk, Scanner.Next]
        | cons v r =>
          by_cases hv : v.Token = Token.word
          · cases r with
            | nil =>
              obtain ⟨f2, rfl⟩ : ∃ f2, f1 = f2 + 1 := ⟨f1 - 1, by simp at hf; omega⟩
              have hc2 : tupleCond1 ((f v.Value m).toTuple ⟨[]⟩ ⟨Token.EOF, []⟩) = false := by rw [cond1_toTuple]; decide
              simp [step1, hk, Scanner.Next, hv, whileP, hc2]
            | cons t' r' =>
              have := ih (n - 2) (by simp at hn; omega) r' (f v.Value m) t' f1 (by simp at hn; omega) (by simp at hf ⊢; omega)
              simp [step1, hk, Scanner.Next, hv, this]
          · simp [step1, hk, Scanner.Next, hv]

theorem loop2_eq (E : Env) : ∀ (n : Nat) (toks : List TokV) (cache dropRaw : Bool) (err : Err) (t : TokV) (fuel : Nat),
    toks.length ≤ n → toks.length + 2 ≤ fuel →
    ∃ e' t', whileP fuel tupleCond2 (tupleStep2 E) (cache, dropRaw, err, ⟨toks⟩, t) =
      match optLoop2 E t toks cache dropRaw with
      | .error r => Out.ret r
      | .ok (c', d', s') => Out.done (c', d', e', s', t') := by
  intro n
  induction n using Nat.strongRecOn with
  | _ n ih =>
    intro toks cache dropRaw err t fuel hn hf
    obtain ⟨f1, rfl⟩ : ∃ f1, fuel = f1 + 1 := ⟨fuel - 1, by omega⟩
    generalize hr : optLoop2 E t toks cache dropRaw = res
    unfold optLoop2 at hr
    by_cases hend : t.Token = Token.EOF
    · simp only [hend, if_true] at hr; subst hr
      exact ⟨err, t, by simp [whileP, tupleCond2, hend, toki_EOF]⟩
    · have hc : tupleCond2 (cache, dropRaw, err, ⟨toks⟩, t) = true := by simp [tupleCond2, toki_EOF, hend]
      simp only [whileP, hc, if_true]
      simp only [hend, if_false] at hr
      by_cases hopt : t.Token = Token.optCache ∨ t.Token = Token.optDropRaw
      · simp only [hopt, if_true] at hr
        cases toks with
        | nil => simp only [] at hr; subst hr; exact ⟨err, t, by simp [tupleStep2, hopt, Scanner.Next]⟩
        | cons v r =>
          simp only [] at hr
          by_cases hv : v.Token = Token.optTrue ∨ v.Token = Token.optFalse
          · simp only [hv, if_true] at hr
            rcases hb : E.strconv_ParseBool v.Value with ⟨b, be⟩
            rw [hb] at hr
            cases be with
            | some e => simp only [] at hr; subst hr; exact ⟨err, t, by simp [tupleStep2, hopt, Scanner.Next, hv, hb]⟩
            | none =>
              simp only [] at hr
              cases r with
              | nil =>
                simp only [] at hr; subst hr
                obtain ⟨f2, rfl⟩ : ∃ f2, f1 = f2 + 1 := ⟨f1 - 1, by simp at hf; omega⟩
                refine ⟨none, ⟨Token.EOF, []⟩, ?_⟩
                by_cases hcache : t.Token = Token.optCache
                · simp [tupleStep2, hopt, Scanner.Next, hv, hb, hcache, whileP, tupleCond2, toki_EOF]
                · have hd : t.Token = Token.optDropRaw := by
                    rcases hopt with h | h
                    · exact absurd h hcache
                    · exact h
                  simp [tupleStep2, Scanner.Next, hv, hb, hd, whileP, tupleCond2, toki_EOF]
              | cons t' r' =>
                simp only [] at hr; subst hr
                by_cases hcache : t.Token = Token.optCache
                · obtain ⟨e', t'', h⟩ := ih (n - 2) (by simp at hn; omega) r' b dropRaw none t' f1 (by simp at hn; omega) (by simp at hf ⊢; omega)
                  exact ⟨e', t'', by simp [tupleStep2, hopt, Scanner.Next, hv, hb, hcache, h]⟩
                · have hd : t.Token = Token.optDropRaw := by
                    rcases hopt with h | h
                    · exact absurd h hcache
                    · exact h
                  obtain ⟨e', t'', h⟩ := ih (n - 2) (by simp at hn; omega) r' cache b none t' f1 (by simp at hn; omega) (by simp at hf ⊢; omega)
                  exact ⟨e', t'', by simp [tupleStep2, Scanner.Next, hv, hb, hd, h]⟩
          · simp only [hv, if_false] at hr; subst hr
            exact ⟨err, t, by simp [tupleStep2, hopt, Scanner.Next, hv]⟩
      · simp only [hopt, if_false] at hr; subst hr
        exact ⟨err, t, by simp [tupleStep2, hopt]⟩

set_option maxRecDepth 8000 in
set_option maxHeartbeats 1600000 in
theorem readAddAgg_eq (E : Env) (toks : List TokV) (table : TableI) :
    readAddAgg E ⟨toks⟩ table = readAddAggSpec E toks table := by
  unfold readAddAgg readAddAggSpec
  simp only [whileR_pure _ _ _ _ (cond1_eq E) (body1_eq E), whileR_pure _ _ _ _ (cond2_eq E) (body2_eq E), Res.bind_pure]
  generalize (Scanner.mk toks).Next = p0
  obtain ⟨f, s0⟩ := p0
  simp only []
  by_cases hfn : isFn f.Token = true
  · have hfn' : (f.Token != sumFn && f.Token != avgFn && f.Token != minFn && f.Token != maxFn && f.Token != lastFn &&
        f.Token != deltaFn && f.Token != countFn && f.Token != deriveFn && f.Token != stdevFn) = false := by
      obtain ⟨ft, fv⟩ := f
      cases ft <;> simp_all [isFn]
    simp only [hfn', Bool.false_eq_true, if_false, hfn]
    generalize s0.Next = p1
    obtain ⟨t1, s1⟩ := p1
    generalize s1.Next = p2
    obtain ⟨t2, s2⟩ := p2
    simp only []
    have hstart : ∀ (m : M6) (s : Scanner) (t : TokV),
        whileP (s.toks.length + 2) tupleCond1 tupleStep1 (m.toTuple s t) =
          match optLoop1 t s.toks m with
          | .error r => Out.ret r
          | .ok (m', t', s') => Out.done (m'.toTuple s' t') := by
      intro m s t
      obtain ⟨tk⟩ := s
      exact loop1_eq tk.length tk m t (tk.length + 2) (Nat.le_refl _) (Nat.le_refl _)
    -- what follows the first loop, for any outcome of it
    have htail : ∀ (m : M6) (t : TokV) (s : Scanner),
        (if (m.regex == []) = true then Res.pure (some "need a regex string", s)
          else
            if (t.Token != word) = true then Res.pure (some "need a format string", s)
            else
              if (s.Next.fst.Token != num) = true then Res.pure (some "need an interval number", s.Next.snd)
              else
                if Lib.notNil (E.strconv_Atoi (E.strings_TrimSpace s.Next.fst.Value)).snd = true then
                  Res.pure ((E.strconv_Atoi (E.strings_TrimSpace s.Next.fst.Value)).snd, s.Next.snd)
                else
                  if (s.Next.snd.Next.fst.Token != num) = true then Res.pure (some "need a wait number", s.Next.snd.Next.snd)
                  else
                    if Lib.notNil (E.strconv_Atoi (E.strings_TrimSpace s.Next.snd.Next.fst.Value)).snd = true then
                      Res.pure ((E.strconv_Atoi (E.strings_TrimSpace s.Next.snd.Next.fst.Value)).snd, s.Next.snd.Next.snd)
                    else
                      match
                        whileP (s.Next.snd.Next.snd.Next.snd.toks.length + 2) tupleCond2 (tupleStep2 E)
                          (true, false, (E.strconv_Atoi (E.strings_TrimSpace s.Next.snd.Next.fst.Value)).snd,
                            s.Next.snd.Next.snd.Next.snd, s.Next.snd.Next.snd.Next.fst) with
                      | Out.ret r_ => Res.pure r_
                      | Out.done (cache, dropRaw, err, s_1, t_1) =>
                        if Lib.notNil (E.matcher_New m.prefix_ m.notPrefix m.sub m.notSub m.regex m.notRegex).snd = true then
                          Res.pure ((E.matcher_New m.prefix_ m.notPrefix m.sub m.notSub m.regex m.notRegex).snd, s_1)
                        else
                          if
                              Lib.notNil
                                  (E.aggregator_New (Lib.sliceTo f.Value (Lib.len f.Value - 1))
                                      (E.matcher_New m.prefix_ m.notPrefix m.sub m.notSub m.regex m.notRegex).fst t.Value cache
                                      (E.strconv_Atoi (E.strings_TrimSpace s.Next.fst.Value)).fst
                                      (E.strconv_Atoi (E.strings_TrimSpace s.Next.snd.Next.fst.Value)).fst dropRaw table.GetIn).snd =
                                true then
                            Res.pure
                              ((E.aggregator_New (Lib.sliceTo f.Value (Lib.len f.Value - 1))
                                    (E.matcher_New m.prefix_ m.notPrefix m.sub m.notSub m.regex m.notRegex).fst t.Value cache
                                    (E.strconv_Atoi (E.strings_TrimSpace s.Next.fst.Value)).fst
                                    (E.strconv_Atoi (E.strings_TrimSpace s.Next.snd.Next.fst.Value)).fst dropRaw table.GetIn).snd,
                                s_1)
                          else
                            emit
                              (Ev.call "table.AddAggregator" table.id
                                [arg
                                    (E.aggregator_New (Lib.sliceTo f.Value (Lib.len f.Value - 1))
                                        (E.matcher_New m.prefix_ m.notPrefix m.sub m.notSub m.regex m.notRegex).fst t.Value cache
                                        (E.strconv_Atoi (E.strings_TrimSpace s.Next.fst.Value)).fst
                                        (E.strconv_Atoi (E.strings_TrimSpace s.Next.snd.Next.fst.Value)).fst dropRaw table.GetIn).fst])
                              (Res.pure (none, s_1))) =
          finishAgg E table (Lib.sliceTo f.Value (Lib.len f.Value - 1)) m t s := by
      intro m t s
      simp only [finishAgg]
      generalize s.Next = q1
      obtain ⟨iv, sa⟩ := q1
      generalize sa.Next = q2
      obtain ⟨w, sb⟩ := q2
      generalize sb.Next = q3
      obtain ⟨t3, sc⟩ := q3
      simp only []
      rcases hA : E.strconv_Atoi (E.strings_TrimSpace iv.Value) with ⟨interval, ie⟩
      rcases hW : E.strconv_Atoi (E.strings_TrimSpace w.Value) with ⟨wait, we⟩
      obtain ⟨tk⟩ := sc
      obtain ⟨e', t', h2⟩ := loop2_eq E tk.length tk true false we t3 (tk.length + 2) (Nat.le_refl _) (Nat.le_refl _)
      simp only [h2]
      by_cases hr : (m.regex == []) = true
      · simp [hr, Res.pure]
      · by_cases hwd : (t.Token != word) = true
        · simp [hr, hwd, Res.pure]
        · by_cases hnum : (iv.Token != num) = true
          · simp [hr, hwd, hnum, Res.pure]
          · cases ie with
            | some e => simp [hr, hwd, hnum, Res.pure, Lib.notNil]
            | none =>
              by_cases hnum2 : (w.Token != num) = true
              · simp [hr, hwd, hnum, hnum2, Res.pure, Lib.notNil]
              · cases we with
                | some e => simp [hr, hwd, hnum, hnum2, Res.pure, Lib.notNil]
                | none =>
                  simp only [hr, hwd, hnum, hnum2, Lib.notNil, Option.isSome_none, Bool.false_eq_true, if_false]
                  cases hl2 : optLoop2 E t3 tk true false with
                  | error r => obtain ⟨e, s3⟩ := r; rfl
                  | ok r =>
                    obtain ⟨cache, dropRaw, s3⟩ := r
                    simp only []
                    rcases hM : E.matcher_New m.prefix_ m.notPrefix m.sub m.notSub m.regex m.notRegex with ⟨mm, me⟩
                    cases me with
                    | some e => simp [Res.pure]
                    | none =>
                      simp only [Option.isSome_none, Bool.false_eq_true, if_false]
                      rcases hG : E.aggregator_New (Lib.sliceTo f.Value (Lib.len f.Value - 1)) mm t.Value cache interval wait dropRaw () with ⟨agg, ae⟩
                      have hu : table.GetIn = () := rfl
                      cases ae <;> simp [hu, hG, Res.pure, emit]
    by_cases hw : (t1.Token == word) = true
    · simp only [hw, if_true]
      have := hstart { regex := t1.Value } s2 t2
      simp only [M6.toTuple] at this
      rw [this]
      cases hl : optLoop1 t2 s2.toks { regex := t1.Value } with
      | error r => obtain ⟨e, s⟩ := r; rfl
      | ok r =>
        obtain ⟨m, t, s⟩ := r
        simp only [M6.toTuple]
        exact htail m t s
    · simp only [hw, Bool.false_eq_true, if_false]
      have := hstart {} s1 t1
      simp only [M6.toTuple] at this
      rw [this]
      cases hl : optLoop1 t1 s1.toks {} with
      | error r => obtain ⟨e, s⟩ := r; rfl
      | ok r =>
        obtain ⟨m, t, s⟩ := r
        simp only [M6.toTuple]
        exact htail m t s
  · have hfn' : (f.Token != sumFn && f.Token != avgFn && f.Token != minFn && f.Token != maxFn && f.Token != lastFn &&
        f.Token != deltaFn && f.Token != countFn && f.Token != deriveFn && f.Token != stdevFn) = true := by
      obtain ⟨ft, fv⟩ := f
      cases ft <;> simp_all [isFn]
    simp [hfn', hfn, Res.pure]

/-- C20, aggregations in the command syntax: the options may come in any order, each sets exactly its own field -/
theorem mSet_commute (a b : Token) (fa fb : Bytes → M6 → M6) (ha : mSet a = some fa) (hb : mSet b = some fb) (hab : a ≠ b)
    (x y : Bytes) (m : M6) : fa x (fb y m) = fb y (fa x m) := by
  cases a <;> simp [mSet] at ha <;> cases b <;> simp [mSet] at hb <;> subst ha <;> subst hb <;> first | rfl | exact absurd rfl hab

/-- defaults of the trailing options: without `cache=` / `dropRaw=` the aggregation caches and does not drop -/
theorem trailing_defaults (E : Env) : optLoop2 E ⟨Token.EOF, []⟩ [] true false = .ok (true, false, ⟨[]⟩) := by
  rw [optLoop2]; simp

end Crng.Tie.CodeReadAgg
