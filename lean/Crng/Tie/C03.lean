import Crng.Gen.MatchArgs
import Crng.Gen.AggMatcherCalls
import Crng.Gen.AggCache
/-! regenerated obligations for C03: every filter call site in the dispatch path passes the metric name, and the
aggregator consults both matcher stages (PreMatch: prefix/sub options + regex prefix; MatchRegexAndExpand: regex, notRegex) -/
namespace Crng.Tie.C03

/-- all five call sites found, each classified `name` -/
theorem matchArgs_ok :
    (Crng.Gen.matchArgs.length == 5 && Crng.Gen.matchArgs.all (fun r => r.2.2.2 == "name")) = true := by decide

/-- the name is what precedes the first space -/
theorem metricName_ok :
    Crng.Gen.metricNameBody = "{ if pos := bytes.IndexByte(buf, ' '); pos >= 0 { return buf[:pos] } return buf }" := by decide

theorem aggCalls_ok :
    Crng.Gen.aggMatcherCalls = ["Aggregator.AddMaybe:PreMatch(buf[0])", "Aggregator.matchWithCache:MatchRegexAndExpand(key)"] := by decide

/-- the match cache is a map keyed by the metric name itself (the `K` of `Crng.AC.Cache`): `cache_transparent` is about
that cache; a cache keyed by a hash or any other non-injective image of the name is a different object -/
theorem aggCache_ok :
    (Crng.Gen.aggCacheKeys == ["string(key)"] && Crng.Gen.aggCacheType == "map[string]CacheEntry") = true := by decide

end Crng.Tie.C03
