import Crng.Tie.Util
import Crng.Gen.Skel
/-! regenerated obligations for C06 (also used by C07) -/
namespace Crng.Tie.C06
open Crng.Tie

def relay := Crng.Gen.skel_destination_Destination_relay

/-- the hand-off branch: live connection → non-blocking send; else spool → non-blocking spool; else count -/
theorem handoff_branch_ok : isInfix
    ["2 case buf := <-dest.In", "3 if conn != nil", "4 call nonBlockingSend(buf)", "3 else ", "4 if dest.Spool", "5 call nonBlockingSpool(buf)",
     "4 else ", "5 call dest.numDropNoConnNoSpool.Inc(1)"] relay = true := by decide +kernel

/-- both helpers are `select` with a `default` that counts the drop: they never wait on the endpoint or the spool -/
theorem nonblocking_ok :
    (count "0 assign nonBlockingSend := func(buf []byte) { select { case conn.In <- buf: conn.numBuffered.Inc(1) default: log.Tracef(\"dest %s %s nonBlockingSend -> dropping due to slow conn\", dest.Key, buf) dest.numDropSlowConn.Inc(1) dest.SlowNow = true } }" relay == 1 &&
     count "0 assign nonBlockingSpool := func(buf []byte) { select { case dest.spool.InRT <- buf: log.Tracef(\"dest %s %s nonBlockingSpool -> added to spool\", dest.Key, buf) default: log.Tracef(\"dest %s %s nonBlockingSpool -> dropping due to slow spool\", dest.Key, buf) dest.numDropSlowSpool.Inc(1) } }" relay == 1) = true := by decide +kernel

/-- dialing never happens inside the loop's own goroutine -/
theorem dial_async_ok : containing "updateConn(" relay = ["0 go dest.updateConn(dest.Addr)", "4 go dest.updateConn(dest.Addr)"] := by decide +kernel

/-- calls that can wait for the endpoint (Flush, Close) occur only in the flush and shutdown branches, which no dispatcher reaches -/
theorem blocking_calls_ok :
    (containing "conn.Flush()" relay == ["4 send dest.flushErr <- conn.Flush()", "4 call conn.Flush()"] &&
     containing "conn.Close()" relay == ["4 call conn.Close()"] &&
     isInfix ["2 case <-dest.shutdown", "3 if conn != nil", "4 call conn.Flush()", "4 call conn.Close()"] relay &&
     isInfix ["2 case <-dest.flush", "3 if conn != nil", "4 send dest.flushErr <- conn.Flush()"] relay) = true := by decide +kernel

/-- a dead connection is dropped without waiting; with spooling its unconfirmed lines are collected in a separate goroutine -/
theorem dead_conn_ok : isInfix
    ["1 if conn != nil", "2 if !conn.isAlive()", "3 assign dest.Online = false", "3 if dest.Spool", "4 call dest.tasks.Add(1)",
     "4 go dest.collectRedo(conn)", "3 else ", "4 call conn.clearRedo()", "3 assign conn = nil"] relay = true := by decide +kernel

/-- unspooling only while a connection exists and it has not been slow lately; unspooled lines use the same non-blocking send -/
theorem unspool_ok :
    (isInfix ["1 if conn != nil && dest.Spool && !dest.SlowLastLoop && !dest.SlowNow", "2 assign toUnspool = dest.spool.Out", "1 else ", "2 assign toUnspool = nil"] relay &&
     isInfix ["2 case buf := <-toUnspool", "3 call nonBlockingSend(buf)"] relay) = true := by decide +kernel

/-- what a route does per destination before the hand-off is `dest.Match`: it holds the matcher lock only for the match itself, and
`Destination.Update` (modDest) never holds that lock — in particular not while `updateConn` dials a new address -/
theorem match_lock_ok :
    (Crng.Gen.skel_destination_Destination_Match == ["0 call dest.lockMatcher.Lock()", "0 defer dest.lockMatcher.Unlock()", "0 return dest.Matcher.Match(s)"] &&
     containing "lockMatcher" Crng.Gen.skel_destination_Destination_Update == [] &&
     containing "dest.Matcher" Crng.Gen.skel_destination_Destination_Update == [] &&
     containing "updateConn" Crng.Gen.skel_destination_Destination_Update == ["1 call dest.updateConn(addr)"]) = true := by decide +kernel

end Crng.Tie.C06
