import Crng.Gen.CodeReadDest
import Crng.CodeSpecDest
/-! Obligations of the regenerated *code* layer, imperatives/imperatives.go `readDestination`: the function translated from
/repo on this run — the defaults at its top, the 24-arm switch inside its token loop, the conversions after the loop and the
call of `destination.New` — equals, for every token list, the closed form `Crng.CodeSpecDest.readDestinationSpec` built
from the option table (`optKind`, `applyOpt`). C20's "no option is silently ignored, swapped with another, or applied to
the wrong field; every unspecified option takes its documented default" is then read off the table. -/
namespace Crng.Tie.CodeReadDest
open Crng.Code Crng.Gen.Code Crng.CodeSpecDest

theorem whileP_congr {σ ρ : Type} (c c' : σ → Bool) (b b' : σ → Step σ ρ) (hc : ∀ s, c s = c' s) (hb : ∀ s, b s = b' s) :
    ∀ (n : Nat) (s : σ), whileP n c b s = whileP n c' b' s := by
  intro n
  induction n with
  | zero => intro s; rfl
  | succ n ih =>
    intro s
    simp only [whileP, hc, hb]
    split
    · split <;> simp_all
    · rfl

theorem cond_toTuple (d : DRec) (s : Scanner) (t : TokV) :
    tupleCond (d.toTuple s t) = ((t.Token != toki_EOF) && (t.Token != Token.sep)) := rfl

theorem step_toTuple (E : Env) (d : DRec) (s : Scanner) (t : TokV) :
    tupleStep E (d.toTuple s t) = stepMap (fun (x : DRec × Scanner × TokV) => x.1.toTuple x.2.1 x.2.2) (recStep E d s) := rfl

theorem valueOK_not_end (k : OKind) (v : Token) (h : valueTokenOK k v = true) : ((v != toki_EOF) && (v != Token.sep)) = true := by
  cases k <;> simp [valueTokenOK] at h
  · subst h; decide
  · subst h; decide
  · rcases h with h | h <;> subst h <;> decide

theorem loop_eq (E : Env) : ∀ (n : Nat) (toks : List TokV) (d : DRec) (t : TokV) (fuel : Nat),
    toks.length ≤ n → toks.length + 2 ≤ fuel → tupleCond (d.toTuple ⟨toks⟩ t) = true →
    ∃ t', whileP fuel tupleCond (tupleStep E) (d.toTuple ⟨toks⟩ t) =
      match optLoop E toks d with
      | .error (e, s) => Out.ret (none, e, s)
      | .ok (d', s') => Out.done (d'.toTuple s' t') := by
  intro n
  induction n using Nat.strongRecOn with
  | _ n ih =>
    intro toks d t fuel hn hf hc
    obtain ⟨f1, rfl⟩ : ∃ f1, fuel = f1 + 1 := ⟨fuel - 1, by omega⟩
    simp only [whileP, hc, if_true, step_toTuple]
    cases toks with
    | nil =>
      obtain ⟨f2, rfl⟩ : ∃ f2, f1 = f2 + 1 := ⟨f1 - 1, by simp at hf; omega⟩
      refine ⟨⟨Token.EOF, []⟩, ?_⟩
      simp [recStep, Scanner.Next, optLoop, whileP, cond_toTuple, toki_EOF]
    | cons t1 rest =>
      by_cases hend : t1.Token = Token.EOF ∨ t1.Token = Token.sep
      · obtain ⟨f2, rfl⟩ : ∃ f2, f1 = f2 + 1 := ⟨f1 - 1, by simp at hf; omega⟩
        refine ⟨t1, ?_⟩
        have hc2 : tupleCond (d.toTuple ⟨rest⟩ t1) = false := by
          rw [cond_toTuple]; rcases hend with h | h <;> simp [h, toki_EOF]
        simp [recStep, Scanner.Next, optLoop, hend, whileP, hc2]
      · cases hk : optKind t1.Token with
        | none =>
          refine ⟨t, ?_⟩
          simp [recStep, Scanner.Next, optLoop, hend, hk]
        | some k =>
          cases rest with
          | nil =>
            refine ⟨t, ?_⟩
            have : valueTokenOK k Token.EOF = false := by cases k <;> rfl
            simp [recStep, Scanner.Next, optLoop, hend, hk, this]
          | cons v rest2 =>
            cases hv : valueTokenOK k v.Token with
            | false =>
              refine ⟨t, ?_⟩
              simp [recStep, Scanner.Next, optLoop, hend, hk, hv]
            | true =>
              cases ha : applyOpt E t1.Token v.Value d with
              | error e =>
                refine ⟨t, ?_⟩
                simp [recStep, Scanner.Next, optLoop, hend, hk, hv, ha]
              | ok d' =>
                have hc' : tupleCond (d'.toTuple ⟨rest2⟩ v) = true := by
                  rw [cond_toTuple]; exact valueOK_not_end k v.Token hv
                obtain ⟨t', ht'⟩ := ih (n - 2) (by simp at hn; omega) rest2 d' v f1 (by simp at hn; omega) (by simp at hf ⊢; omega) hc'
                refine ⟨t', ?_⟩
                simp [recStep, Scanner.Next, hend, hk, hv, ha]
                rw [ht']
                conv => rhs; rw [optLoop]
                simp [hend, hk, hv, ha]

set_option maxRecDepth 8000 in
set_option maxHeartbeats 1600000 in
/-- **readDestination (regenerated) = its closed form**, for every token list, table, route type and route key -/
theorem readDestination_eq (E : Env) (toks : List TokV) (table : TableI) (allowMatcher : Bool) (routeKey : Bytes) :
    readDestination E ⟨toks⟩ table allowMatcher routeKey = readDestinationSpec E toks table allowMatcher routeKey := by
  unfold readDestination
  simp only []
  rw [whileP_congr _ tupleCond _ (tupleStep E)]
  rotate_left
  · intro st
    rcases st with ⟨connBufSize, err, flush, ioBufSize, notPrefix, notRegex, notSub, pickle, prefix_, reconn, regex, s, spool, spoolBufSize, spoolMaxBytesPerFile, spoolSleep, spoolSyncEvery, spoolSyncPeriod, sub, t, unspoolSleep⟩
    rfl
  · intro st
    rcases st with ⟨connBufSize, err, flush, ioBufSize, notPrefix, notRegex, notSub, pickle, prefix_, reconn, regex, s, spool, spoolBufSize, spoolMaxBytesPerFile, spoolSleep, spoolSyncEvery, spoolSyncPeriod, sub, t, unspoolSleep⟩
    simp only [tupleStep, recStep]
    generalize s.Next = p
    obtain ⟨t1, s1⟩ := p
    simp only []
    generalize s1.Next = q
    obtain ⟨v, s2⟩ := q
    simp only []
    generalize hA : E.strconv_Atoi (E.strings_TrimSpace v.Value) = atoi
    obtain ⟨an, ae⟩ := atoi
    generalize hB : E.strconv_ParseBool v.Value = bt
    obtain ⟨bn, be⟩ := bt
    obtain ⟨tok, tv⟩ := t1
    obtain ⟨vtok, vv⟩ := v
    simp only [] at hA hB ⊢
    cases ae <;> cases be <;> cases tok <;> simp [optKind, valueTokenOK, applyOpt, DRec.toTuple, toki_EOF, Lib.notNil, hA, hB]
  cases toks with
  | nil => simp [Scanner.Next, readDestinationSpec]
  | cons a rest =>
    simp only [Scanner.Next, readDestinationSpec]
    by_cases hw : a.Token = word
    · have hne : (a.Token != word) = false := by simp [hw]
      simp only [hne, Bool.false_eq_true, if_false]
      have hc : tupleCond (({} : DRec).toTuple ⟨rest⟩ a) = true := by
        show ((a.Token != toki_EOF) && (a.Token != Token.sep)) = true
        rw [hw]; decide
      obtain ⟨t', ht'⟩ := loop_eq E rest.length rest {} a (rest.length + 2) (Nat.le_refl _) (Nat.le_refl _) hc
      have hinit : ((30000 : Int), (default : Err), (1000 : Int), (2000000 : Int), (default : Bytes), (default : Bytes), (default : Bytes), (default : Bool), (default : Bytes), (10000 : Int), (default : Bytes),
          (⟨rest⟩ : Scanner), (default : Bool), (10000 : Int), (200 * 1024 * 1024 : Int), 500 * time_Microsecond, (10000 : Int), time_Second, (default : Bytes), a, 10 * time_Microsecond) =
          ({} : DRec).toTuple ⟨rest⟩ a := by rfl
      rw [hinit, ht']
      cases hl : optLoop E rest {} with
      | error es => obtain ⟨e, s⟩ := es; rfl
      | ok ds =>
        obtain ⟨d, s⟩ := ds
        simp only [DRec.toTuple, finish]
        have hadd : ∀ x y : Bytes, x + y = x ++ y := fun _ _ => rfl
        simp only [hadd]
        rcases hm : E.matcher_New d.prefix_ d.notPrefix d.sub d.notSub d.regex d.notRegex with ⟨m, me⟩
        cases me <;> simp [Lib.notNil, hm]
    · have hne : (a.Token != word) = true := by simp [hw]
      simp [hne]

/-! corollaries: the statements of C20 about destinations, on the regenerated function -/
/-- an address and nothing else: every option has its documented default (flush 1000 ms, reconn 10000 ms, connbuf 30000,
iobuf 2000000, spoolbuf 10000, spoolmaxbytesperfile 200 MiB, spoolsyncevery 10000, spoolsyncperiod 1 s, spoolsleep 500 µs,
unspoolsleep 10 µs, no pickle, no spool, no filter, the table's spool directory) -/
theorem defaults (E : Env) (addr : Bytes) (table : TableI) (allowMatcher : Bool) (routeKey : Bytes) :
    readDestination E ⟨[⟨Token.word, addr⟩]⟩ table allowMatcher routeKey =
      finish E {} addr table.GetSpoolDir routeKey allowMatcher ⟨[]⟩ := by
  rw [readDestination_eq]
  simp [readDestinationSpec, optLoop]

/-- one `option value` pair in front of the remaining options: exactly the table's field is set (`applyOpt`), whatever
follows is read with that record; a value token of the wrong kind is an error -/
theorem option_step (E : Env) (o v : TokV) (rest : List TokV) (d : DRec) (k : OKind)
    (ho : optKind o.Token = some k) (hne : ¬ (o.Token = Token.EOF ∨ o.Token = Token.sep)) :
    optLoop E (o :: v :: rest) d =
      if valueTokenOK k v.Token = false then .error (errFmtAddRoute, ⟨rest⟩)
      else match applyOpt E o.Token v.Value d with
        | .error e => .error (e, ⟨rest⟩)
        | .ok d' => optLoop E rest d' := by
  rw [optLoop]; simp only [hne, ho, if_false]
  cases hv : valueTokenOK k v.Token
  · simp
  · simp only [Bool.true_eq_false, if_false]
    cases ha : applyOpt E o.Token v.Value d <;> rfl

/-- **every destination option sets exactly its documented field, in the documented unit, and nothing else** — the eighteen
arms of the regenerated switch, read off the table that `readDestination_eq` ties to the code (`w` = the text of the value
token, `n` / `b` = what `strconv.Atoi` / `ParseBool` make of it): flush and reconn in ms (converted after the loop),
spoolsyncperiod in ms, spoolsleep and unspoolsleep in µs, sizes and counts as given -/
theorem applyOpt_sets_its_field (E : Env) (d : DRec) (w : Bytes) (n : Int) (b : Bool)
    (hA : E.strconv_Atoi (E.strings_TrimSpace w) = (n, none)) (hB : E.strconv_ParseBool w = (b, none)) :
    applyOpt E Token.optPrefix w d = .ok { d with prefix_ := w } ∧ applyOpt E Token.optNotPrefix w d = .ok { d with notPrefix := w } ∧
    applyOpt E Token.optSub w d = .ok { d with sub := w } ∧ applyOpt E Token.optNotSub w d = .ok { d with notSub := w } ∧
    applyOpt E Token.optRegex w d = .ok { d with regex := w } ∧ applyOpt E Token.optNotRegex w d = .ok { d with notRegex := w } ∧
    applyOpt E Token.optFlush w d = .ok { d with flush := n, err := none } ∧
    applyOpt E Token.optReconn w d = .ok { d with reconn := n, err := none } ∧
    applyOpt E Token.optPickle w d = .ok { d with pickle := b, err := none } ∧
    applyOpt E Token.optSpool w d = .ok { d with spool := b, err := none } ∧
    applyOpt E Token.optConnBufSize w d = .ok { d with connBufSize := n, err := none } ∧
    applyOpt E Token.optIoBufSize w d = .ok { d with ioBufSize := n, err := none } ∧
    applyOpt E Token.optSpoolBufSize w d = .ok { d with spoolBufSize := n, err := none } ∧
    applyOpt E Token.optSpoolMaxBytesPerFile w d = .ok { d with spoolMaxBytesPerFile := n, err := none } ∧
    applyOpt E Token.optSpoolSyncEvery w d = .ok { d with spoolSyncEvery := n, err := none } ∧
    applyOpt E Token.optSpoolSyncPeriod w d = .ok { d with spoolSyncPeriod := n * 1000000, err := none } ∧
    applyOpt E Token.optSpoolSleep w d = .ok { d with spoolSleep := n * 1000, err := none } ∧
    applyOpt E Token.optUnspoolSleep w d = .ok { d with unspoolSleep := n * 1000, err := none } := by
  simp [applyOpt, hA, hB, time_Millisecond, time_Microsecond]

/-- a token that introduces no destination option is rejected, never skipped -/
theorem unknown_option_rejected (E : Env) (o : TokV) (rest : List TokV) (d : DRec)
    (ho : optKind o.Token = none) (hne : ¬ (o.Token = Token.EOF ∨ o.Token = Token.sep)) :
    optLoop E (o :: rest) d = .error (some "unrecognized option '%s'", ⟨rest⟩) := by
  rw [optLoop]; simp [hne, ho]

/-- two different options commute (each sets its own field) -/
theorem prefix_then_sub (E : Env) (a b : Bytes) (d : DRec) :
    (applyOpt E Token.optPrefix a d >>= applyOpt E Token.optSub b) = (applyOpt E Token.optSub b d >>= applyOpt E Token.optPrefix a) := rfl

/-- a well-formed `option value` pair -/
def PairOK (p : TokV × TokV) : Prop :=
  ¬ (p.1.Token = Token.EOF ∨ p.1.Token = Token.sep) ∧ ∃ k, optKind p.1.Token = some k ∧ valueTokenOK k p.2.Token = true

def applyPairs (E : Env) : List (TokV × TokV) → DRec → Except Err DRec
  | [], d => .ok d
  | p :: ps, d => match applyOpt E p.1.Token p.2.Value d with
    | .error e => .error e
    | .ok d' => applyPairs E ps d'

def flatten : List (TokV × TokV) → List TokV
  | [] => []
  | p :: ps => p.1 :: p.2 :: flatten ps

/-- **every option of a well-formed option list is applied, in order, to exactly its field; none is ignored**: the option
loop on `o₁ v₁ … oₙ vₙ` is the left fold of `applyOpt` over the pairs, or stops at the first conversion error -/
theorem optLoop_pairs (E : Env) (ps : List (TokV × TokV)) (h : ∀ p ∈ ps, PairOK p) (d : DRec) :
    (∀ d', applyPairs E ps d = .ok d' → optLoop E (flatten ps) d = .ok (d', ⟨[]⟩)) ∧
    (∀ e, applyPairs E ps d = .error e → ∃ s, optLoop E (flatten ps) d = .error (e, s)) := by
  induction ps generalizing d with
  | nil => constructor <;> intro x hx <;> simp [applyPairs] at hx; subst hx; simp [flatten, optLoop]
  | cons p ps ih =>
    obtain ⟨hne, k, hk, hv⟩ := h p (List.mem_cons_self ..)
    have hrest : ∀ q ∈ ps, PairOK q := fun q hq => h q (List.mem_cons_of_mem _ hq)
    simp only [flatten, applyPairs]
    rw [option_step E p.1 p.2 (flatten ps) d k hk hne]
    simp only [hv, Bool.true_eq_false, if_false]
    cases ha : applyOpt E p.1.Token p.2.Value d with
    | error e => constructor <;> intro x hx <;> simp at hx; subst hx; exact ⟨_, rfl⟩
    | ok d1 => exact ih hrest d1

end Crng.Tie.CodeReadDest
