import Crng.Gen.CodeRoute
import Crng.CodeSpec
/-! Obligations of the regenerated *code* layer, route/route.go: `SendAllMatch.Dispatch` hands the line to exactly the
destinations whose filter accepts the metric name, each once, in configured order; `SendFirstMatch.Dispatch` to the first
of them only; the filter sees the name (text before the first space), not the line. -/
namespace Crng.Tie.CodeRoute
open Crng.Code Crng.Gen.Code Crng.CodeSpec

def sendEv (buf : Bytes) (d : DestI) : Ev := Ev.call "dest.In<-" d.id [arg buf]

theorem forRange_sendAll {ρ : Type} (name buf : Bytes) (ds : List DestI) :
    forRange (ρ := ρ) (fun (d : DestI) (_ : Unit) =>
        if d.Match name = true then emit (Ev.call "dest.In<-" d.id [arg buf]) (Res.pure (Step.next ())) else Res.pure (Step.next ())) ds () =
      ((ds.filter (·.Match name)).map (sendEv buf), Out.done ()) := by
  induction ds with
  | nil => rfl
  | cons d ds ih =>
    cases h : d.Match name
    · rw [forRange_cons_next (t := []) (s' := ()) (by simp [h, Res.pure]), ih]; simp [h]
    · rw [forRange_cons_next (t := [sendEv buf d]) (s' := ()) (by simp [h, Res.pure, emit, sendEv]), ih]; simp [h]

theorem forRange_sendFirst {ρ : Type} (name buf : Bytes) (ds : List DestI) :
    forRange (ρ := ρ) (fun (d : DestI) (_ : Unit) =>
        if d.Match name = true then emit (Ev.call "dest.In<-" d.id [arg buf]) (Res.pure (Step.brk ())) else Res.pure (Step.next ())) ds () =
      (((ds.filter (·.Match name)).take 1).map (sendEv buf), Out.done ()) := by
  induction ds with
  | nil => rfl
  | cons d ds ih =>
    cases h : d.Match name
    · rw [forRange_cons_next (t := []) (s' := ()) (by simp [h, Res.pure]), ih]; simp [h]
    · rw [forRange_cons_brk (t := [sendEv buf d]) (s' := ()) (by simp [h, Res.pure, emit, sendEv])]; simp [h]

/-- **metricName (regenerated)**: the text before the first space, the whole buffer when there is none -/
theorem metricName_eq (buf : Bytes) : metricName buf = buf.takeWhile (· != 32) := by
  unfold metricName Lib.sliceTo
  have key : ∀ l : Bytes, (Lib.bytes_IndexByte l 32 < 0 → l.takeWhile (· != 32) = l) ∧
      (0 ≤ Lib.bytes_IndexByte l 32 → l.take (Lib.bytes_IndexByte l 32).toNat = l.takeWhile (· != 32)) := by
    intro l
    induction l with
    | nil => simp [Lib.bytes_IndexByte]
    | cons c cs ih =>
      by_cases hc : c = 32
      · subst hc; simp [Lib.bytes_IndexByte]
      · have hb : (c == 32) = false := by simpa using hc
        have hb' : (c != 32) = true := by simp [bne, hb]
        simp only [Lib.bytes_IndexByte, hb, Bool.false_eq_true, if_false]
        by_cases hn : Lib.bytes_IndexByte cs 32 < 0
        · simp only [hn, if_true]
          refine ⟨fun _ => ?_, fun h => by omega⟩
          simp [List.takeWhile, hb', ih.1 hn]
        · simp only [hn, if_false]
          refine ⟨fun h => by omega, fun _ => ?_⟩
          have h0 : 0 ≤ Lib.bytes_IndexByte cs 32 := by omega
          have := ih.2 h0
          rw [show (Lib.bytes_IndexByte cs 32 + 1).toNat = (Lib.bytes_IndexByte cs 32).toNat + 1 from by omega]
          simp [List.takeWhile, hb', this]
  by_cases h : Lib.bytes_IndexByte buf 32 ≥ 0
  · simp only [h, decide_true, if_true]; exact (key buf).2 h
  · simp only [h, decide_false, Bool.false_eq_true, if_false]; exact ((key buf).1 (by omega)).symm

/-- **SendAllMatch.Dispatch (regenerated)** -/
theorem sendAll_trace (r : SendAllMatch) (buf : Bytes) :
    (r.Dispatch buf).1 = (r.config.Dests.filter (·.Match (metricName buf))).map (sendEv buf) := by
  unfold SendAllMatch.Dispatch
  simp only [forRange_sendAll]
  simp [Res.bind, Res.pure]

/-- **SendFirstMatch.Dispatch (regenerated)** -/
theorem sendFirst_trace (r : SendFirstMatch) (buf : Bytes) :
    (r.Dispatch buf).1 = ((r.config.Dests.filter (·.Match (metricName buf))).take 1).map (sendEv buf) := by
  unfold SendFirstMatch.Dispatch
  simp only [forRange_sendFirst]
  simp [Res.bind, Res.pure]

end Crng.Tie.CodeRoute
