import Crng.Gen.CodeOrdered
/-! Obligations of the regenerated *code* layer, validate/ordered.go `Ordered`: with the shared hasher empty on entry
(which the function re-establishes on every path), a point is accepted exactly when its timestamp is strictly greater
than the value stored for `hash(key)`; acceptance stores the timestamp for that hash and for no other; rejection stores
nothing and answers `errNotNewer`. These are the step facts `Crng.Props.C19` builds the per-name strict maximum on. -/
namespace Crng.Tie.CodeOrdered
open Crng.Code Crng.Gen.Code

/-- **validate.Ordered (regenerated), closed form** -/
theorem ordered_eq (m : MapII) (h : Hasher64) (key : Bytes) (ts : Int) (hd : h.data = []) :
    validate_Ordered m h key ts =
      (if ts > Lib.mapGet m (h.sum key) then none else errNotNewer,
       if ts > Lib.mapGet m (h.sum key) then Lib.mapSet m (h.sum key) ts else m, h) := by
  obtain ⟨sum, data⟩ := h
  simp only at hd; subst hd
  unfold validate_Ordered
  simp only [Hasher64.Write, Hasher64.Sum64, Hasher64.Reset, List.nil_append]
  by_cases hgt : ts > Lib.mapGet m (sum key) <;> simp [hgt]

/-- the hasher is handed back empty on every path (accept and reject): the next call hashes its own key only -/
theorem hasher_restored (m : MapII) (h : Hasher64) (key : Bytes) (ts : Int) :
    (validate_Ordered m h key ts).2.2.data = [] ∧ (validate_Ordered m h key ts).2.2.sum = h.sum := by
  unfold validate_Ordered
  simp only [Hasher64.Write, Hasher64.Sum64, Hasher64.Reset]
  by_cases hgt : ts > Lib.mapGet m (h.sum (h.data ++ key)) <;> simp [hgt]

theorem mapGet_set_same (m : MapII) (k v : Int) : Lib.mapGet (Lib.mapSet m k v) k = v := by simp [Lib.mapGet, Lib.mapSet]

theorem mapGet_set_other (m : MapII) (k k' v : Int) (h : k' ≠ k) : Lib.mapGet (Lib.mapSet m k v) k' = Lib.mapGet m k' := by
  have h1 : ((k == k') = false) := by simp; omega
  simp only [Lib.mapGet, Lib.mapSet, List.find?_cons, h1]
  congr 2
  induction m with
  | nil => rfl
  | cons a t ih =>
    by_cases ha : a.1 = k
    · have : (a.1 == k') = false := by simp; omega
      simp [List.filter_cons, ha, List.find?_cons, ih]
      subst ha; simp [this]
    · simp [List.filter_cons, ha, List.find?_cons, ih]

/-- accepted ⇒ strictly newer than what was stored, and now stored; rejected ⇒ not newer, map untouched -/
theorem accept_iff_newer (m : MapII) (h : Hasher64) (key : Bytes) (ts : Int) (hd : h.data = []) :
    ((validate_Ordered m h key ts).1 = none ↔ ts > Lib.mapGet m (h.sum key)) ∧
    ((validate_Ordered m h key ts).1 = none → Lib.mapGet (validate_Ordered m h key ts).2.1 (h.sum key) = ts) ∧
    ((validate_Ordered m h key ts).1 ≠ none → (validate_Ordered m h key ts).2.1 = m) ∧
    (∀ k', k' ≠ h.sum key → Lib.mapGet (validate_Ordered m h key ts).2.1 k' = Lib.mapGet m k') := by
  rw [ordered_eq m h key ts hd]
  by_cases hgt : ts > Lib.mapGet m (h.sum key)
  · simp [hgt, mapGet_set_same]; intro k' hk; exact mapGet_set_other _ _ _ _ hk
  · simp [hgt, errNotNewer]

/-- a history of calls, as the table makes them -/
def runOrdered : MapII → Hasher64 → List (Bytes × Int) → List Bool
  | _, _, [] => []
  | m, h, (k, ts) :: es =>
    ((validate_Ordered m h k ts).1 == none) :: runOrdered (validate_Ordered m h k ts).2.1 (validate_Ordered m h k ts).2.2 es

/-- timestamps accepted for one hash value along a history are strictly increasing (C19, on the regenerated code;
names are identified by their hash, as in the code — `Crng.Props.C19` states the injectivity assumption) -/
theorem accepted_increasing (hk : Int) : ∀ (es : List (Bytes × Int)) (m : MapII) (h : Hasher64), h.data = [] →
    ∀ acc : List Int,
      acc = (es.zip (runOrdered m h es)).filterMap (fun p => if h.sum p.1.1 = hk ∧ p.2 = true then some p.1.2 else none) →
      (∀ t ∈ acc, Lib.mapGet m hk < t) ∧ acc.Pairwise (· < ·) := by
  intro es
  induction es with
  | nil => intro m h _ acc hacc; subst hacc; simp [runOrdered]
  | cons e es ih =>
    intro m h hd acc hacc
    obtain ⟨k, ts⟩ := e
    have hr := hasher_restored m h k ts
    have ha := accept_iff_newer m h k ts hd
    simp only [runOrdered, List.zip_cons_cons, List.filterMap_cons] at hacc
    have hsum : ∀ p : Bytes × Int, (validate_Ordered m h k ts).2.2.sum p.1 = h.sum p.1 := fun p => by rw [hr.2]
    obtain ⟨ih1, ih2⟩ := ih (validate_Ordered m h k ts).2.1 (validate_Ordered m h k ts).2.2 hr.1 _ rfl
    simp only [hr.2] at ih1 ih2
    by_cases hacc1 : (validate_Ordered m h k ts).1 = none
    · have hgt := ha.1.mp hacc1
      by_cases hkk : h.sum k = hk
      · subst hkk
        simp only [hacc1, beq_self_eq_true, and_self, if_true] at hacc
        subst hacc
        rw [ha.2.1 hacc1] at ih1
        refine ⟨?_, List.pairwise_cons.mpr ⟨ih1, ih2⟩⟩
        intro t ht
        rcases List.mem_cons.mp ht with rfl | ht
        · exact hgt
        · exact Int.lt_trans hgt (ih1 t ht)
      · simp only [hkk, false_and, if_false] at hacc
        subst hacc
        rw [ha.2.2.2 hk (fun h' => hkk h'.symm)] at ih1
        exact ⟨ih1, ih2⟩
    · have hm := ha.2.2.1 hacc1
      have : ((validate_Ordered m h k ts).1 == none) = false := by
        cases hx : (validate_Ordered m h k ts).1 with
        | none => exact absurd hx hacc1
        | some _ => rfl
      simp only [this, Bool.false_eq_true, and_false, if_false] at hacc
      subst hacc
      have hb : Lib.mapGet (validate_Ordered m h k ts).2.1 hk = Lib.mapGet m hk := by rw [hm]
      exact ⟨fun t ht => by have := ih1 t ht; rwa [hb] at this, ih2⟩

example : (validate_Ordered [] ⟨fun _ => 5, []⟩ [1] 10).1 = none ∧ (validate_Ordered [(5, 10)] ⟨fun _ => 5, []⟩ [1] 10).1 = errNotNewer := by
  decide
end Crng.Tie.CodeOrdered
