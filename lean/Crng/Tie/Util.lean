/-! helpers for the regenerated obligations: decidable shape predicates over skeletons (lists of statement strings) -/
namespace Crng.Tie

/-- `xs` occurs as a contiguous block of `ys` -/
def isInfix (xs : List String) : List String → Bool
  | [] => xs.isEmpty
  | y :: ys => (xs.isPrefixOf (y :: ys)) || isInfix xs ys

/-- `xs` occurs in `ys` in this order (not necessarily contiguous) -/
def isSubseq : List String → List String → Bool
  | [], _ => true
  | _ :: _, [] => false
  | x :: xs, y :: ys => if x == y then isSubseq xs ys else isSubseq (x :: xs) ys

def count (x : String) (ys : List String) : Nat := (ys.filter (· == x)).length

/-- statements (any depth) whose text contains `needle` -/
def infixChars (xs : List Char) : List Char → Bool
  | [] => xs.isEmpty
  | y :: ys => xs.isPrefixOf (y :: ys) || infixChars xs ys

def containing (needle : String) (ys : List String) : List String :=
  ys.filter fun y => infixChars needle.toList y.toList

end Crng.Tie
