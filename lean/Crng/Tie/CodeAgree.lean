import Crng.Tie.CodeReadAgg
import Crng.Tie.CodeCfg
/-! C20's headline for aggregations, on code regenerated from /repo on this run: the init/admin command and the TOML section
produce the same routing-table entry. -/
namespace Crng.Tie.CodeAgree
open Crng.Code Crng.Gen.Code Crng.CodeSpecAgg Crng.CodeSpec

/-- the command `addAgg <fn> prefix=… notPrefix=… sub=… notSub=… regex=… notRegex=… <fmt> <interval> <wait> cache=… dropRaw=…`
as tokens (`fnTok` = the function token with its trailing blank, `iv` / `wv` / `cv` / `dv` = the texts of the two numbers and
the two booleans) -/
def cmdTokens (fnTok : TokV) (a : AggregationCfg) (iv wv cv dv : TokV) : List TokV :=
  [fnTok, ⟨Token.optPrefix, []⟩, ⟨Token.word, a.Prefix⟩, ⟨Token.optNotPrefix, []⟩, ⟨Token.word, a.NotPrefix⟩,
   ⟨Token.optSub, []⟩, ⟨Token.word, a.Sub⟩, ⟨Token.optNotSub, []⟩, ⟨Token.word, a.NotSub⟩,
   ⟨Token.optRegex, []⟩, ⟨Token.word, a.Regex⟩, ⟨Token.optNotRegex, []⟩, ⟨Token.word, a.NotRegex⟩,
   ⟨Token.word, a.Format⟩, iv, wv, ⟨Token.optCache, []⟩, cv, ⟨Token.optDropRaw, []⟩, dv]

/-- **C20, aggregations: the command and the TOML section produce the same aggregator.** When the command spells the options of
an `[[aggregation]]` section (its numbers and booleans parse to the section's values), `readAddAgg` and `InitAggregation` —
both regenerated from /repo — register the same object (same `matcher.New` and `aggregator.New` arguments), or both fail. -/
theorem agg_cmd_toml_agree (E : Env) (table : TableI) (a : AggregationCfg) (fnTok iv wv cv dv : TokV)
    (hfn : isFn fnTok.Token = true) (hfv : Lib.sliceTo fnTok.Value (Lib.len fnTok.Value - 1) = a.Function)
    (hre : a.Regex ≠ []) (hsub : a.Substr = [])
    (hiv : iv.Token = Token.num) (hwv : wv.Token = Token.num)
    (hia : E.strconv_Atoi (E.strings_TrimSpace iv.Value) = (a.Interval, none))
    (hwa : E.strconv_Atoi (E.strings_TrimSpace wv.Value) = (a.Wait, none))
    (hcv : cv.Token = Token.optTrue ∨ cv.Token = Token.optFalse) (hdv : dv.Token = Token.optTrue ∨ dv.Token = Token.optFalse)
    (hcb : E.strconv_ParseBool cv.Value = (a.Cache, none)) (hdb : E.strconv_ParseBool dv.Value = (a.DropRaw, none)) :
    (readAddAgg E ⟨cmdTokens fnTok a iv wv cv dv⟩ table).1 = (InitAggregation E table ⟨[a], [], []⟩).1 ∧
    (((readAddAgg E ⟨cmdTokens fnTok a iv wv cv dv⟩ table).2.1 = none) ↔ ((InitAggregation E table ⟨[a], [], []⟩).2 = none)) := by
  rw [Crng.Tie.CodeReadAgg.readAddAgg_eq, Crng.Tie.CodeCfg.initAggregation_eq]
  have hsub' : (if Lib.len a.Sub > 0 then a.Sub else a.Substr) = a.Sub := by
    cases hs : a.Sub with
    | nil => simp [Lib.len, hsub]
    | cons _ _ => simp [Lib.len]
  have hloop1 : optLoop1 ⟨Token.optPrefix, []⟩ [⟨Token.word, a.Prefix⟩, ⟨Token.optNotPrefix, []⟩, ⟨Token.word, a.NotPrefix⟩,
      ⟨Token.optSub, []⟩, ⟨Token.word, a.Sub⟩, ⟨Token.optNotSub, []⟩, ⟨Token.word, a.NotSub⟩,
      ⟨Token.optRegex, []⟩, ⟨Token.word, a.Regex⟩, ⟨Token.optNotRegex, []⟩, ⟨Token.word, a.NotRegex⟩,
      ⟨Token.word, a.Format⟩, iv, wv, ⟨Token.optCache, []⟩, cv, ⟨Token.optDropRaw, []⟩, dv] {} =
      .ok ({ prefix_ := a.Prefix, notPrefix := a.NotPrefix, sub := a.Sub, notSub := a.NotSub, regex := a.Regex, notRegex := a.NotRegex },
           ⟨Token.word, a.Format⟩, ⟨[iv, wv, ⟨Token.optCache, []⟩, cv, ⟨Token.optDropRaw, []⟩, dv]⟩) := by
    rw [optLoop1]; simp [mSet]
    rw [optLoop1]; simp [mSet]
    rw [optLoop1]; simp [mSet]
    rw [optLoop1]; simp [mSet]
    rw [optLoop1]; simp [mSet]
    rw [optLoop1]; simp [mSet]
    rw [optLoop1]; simp
  have hloop2 : optLoop2 E ⟨Token.optCache, []⟩ [cv, ⟨Token.optDropRaw, []⟩, dv] true false = .ok (a.Cache, a.DropRaw, ⟨[]⟩) := by
    rw [optLoop2]; simp [hcv, hcb]
    rw [optLoop2]; simp [hdv, hdb]
  have hrne : (a.Regex == []) = false := by
    cases h : a.Regex with
    | nil => exact absurd h hre
    | cons _ _ => rfl
  simp only [readAddAggSpec, cmdTokens, Scanner.Next, hfn, hfv]
  have hnw : (Token.optPrefix == Token.word) = false := by decide
  simp only [hnw, Bool.false_eq_true, if_false, hloop1, finishAgg, hrne, Scanner.Next, hiv, hwv, hia, hwa, hloop2]
  simp only [Crng.Tie.CodeCfg.initResult, tryEach, Crng.Tie.CodeCfg.aggOne, hsub']
  rcases hM : E.matcher_New a.Prefix a.NotPrefix a.Sub a.NotSub a.Regex a.NotRegex with ⟨mm, me⟩
  cases me with
  | some e => simp
  | none =>
    simp only []
    rcases hG : E.aggregator_New a.Function mm a.Format a.Cache a.Interval a.Wait a.DropRaw () with ⟨agg, ae⟩
    cases ae <;> simp

end Crng.Tie.CodeAgree
