import Crng.Tie.CodeReadAgg
import Crng.Tie.CodeCfg
import Crng.Gen.CodeReadSmall
/-! C20's headline for aggregations, on code regenerated from /repo on this run: the init/admin command and the TOML section
produce the same routing-table entry. -/
namespace Crng.Tie.CodeAgree
open Crng.Code Crng.Gen.Code Crng.CodeSpecAgg Crng.CodeSpec

/-- the command `addAgg <fn> prefix=… notPrefix=… sub=… notSub=… regex=… notRegex=… <fmt> <interval> <wait> cache=… dropRaw=…`
as tokens (`fnTok` = the function token with its trailing blank, `iv` / `wv` / `cv` / `dv` = the texts of the two numbers and
the two booleans) -/
def cmdTokens (fnTok : TokV) (a : AggregationCfg) (iv wv cv dv : TokV) : List TokV :=
  [fnTok, ⟨Token.optPrefix, []⟩, ⟨Token.word, a.Prefix⟩, ⟨Token.optNotPrefix, []⟩, ⟨Token.word, a.NotPrefix⟩,
   ⟨Token.optSub, []⟩, ⟨Token.word, a.Sub⟩, ⟨Token.optNotSub, []⟩, ⟨Token.word, a.NotSub⟩,
   ⟨Token.optRegex, []⟩, ⟨Token.word, a.Regex⟩, ⟨Token.optNotRegex, []⟩, ⟨Token.word, a.NotRegex⟩,
   ⟨Token.word, a.Format⟩, iv, wv, ⟨Token.optCache, []⟩, cv, ⟨Token.optDropRaw, []⟩, dv]

/-- **C20, aggregations: the command and the TOML section produce the same aggregator.** When the command spells the options of
an `[[aggregation]]` section (its numbers and booleans parse to the section's values), `readAddAgg` and `InitAggregation` —
both regenerated from /repo — register the same object (same `matcher.New` and `aggregator.New` arguments), or both fail. -/
theorem agg_cmd_toml_agree (E : Env) (table : TableI) (a : AggregationCfg) (fnTok iv wv cv dv : TokV)
    (hfn : isFn fnTok.Token = true) (hfv : Lib.sliceTo fnTok.Value (Lib.len fnTok.Value - 1) = a.Function)
    (hre : a.Regex ≠ []) (hsub : a.Substr = [])
    (hiv : iv.Token = Token.num) (hwv : wv.Token = Token.num)
    (hia : E.strconv_Atoi (E.strings_TrimSpace iv.Value) = (a.Interval, none))
    (hwa : E.strconv_Atoi (E.strings_TrimSpace wv.Value) = (a.Wait, none))
    (hcv : cv.Token = Token.optTrue ∨ cv.Token = Token.optFalse) (hdv : dv.Token = Token.optTrue ∨ dv.Token = Token.optFalse)
    (hcb : E.strconv_ParseBool cv.Value = (a.Cache, none)) (hdb : E.strconv_ParseBool dv.Value = (a.DropRaw, none)) :
    (readAddAgg E ⟨cmdTokens fnTok a iv wv cv dv⟩ table).1 = (InitAggregation E table ⟨[a], [], []⟩).1 ∧
    (((readAddAgg E ⟨cmdTokens fnTok a iv wv cv dv⟩ table).2.1 = none) ↔ ((InitAggregation E table ⟨[a], [], []⟩).2 = none)) := by
  rw [Crng.Tie.CodeReadAgg.readAddAgg_eq, Crng.Tie.CodeCfg.initAggregation_eq]
  have hsub' : (if Lib.len a.Sub > 0 then a.Sub else a.Substr) = a.Sub := by
    cases hs : a.Sub with
    | nil => simp [Lib.len, hsub]
    | cons _ _ => simp [Lib.len]
  have hloop1 : optLoop1 ⟨Token.optPrefix, []⟩ [⟨Token.word, a.Prefix⟩, ⟨Token.optNotPrefix, []⟩, ⟨Token.word, a.NotPrefix⟩,
      ⟨Token.optSub, []⟩, ⟨Token.word, a.Sub⟩, ⟨Token.optNotSub, []⟩, ⟨Token.word, a.NotSub⟩,
      ⟨Token.optRegex, []⟩, ⟨Token.word, a.Regex⟩, ⟨Token.optNotRegex, []⟩, ⟨Token.word, a.NotRegex⟩,
      ⟨Token.word, a.Format⟩, iv, wv, ⟨Token.optCache, []⟩, cv, ⟨Token.optDropRaw, []⟩, dv] {} =
      .ok ({ prefix_ := a.Prefix, notPrefix := a.NotPrefix, sub := a.Sub, notSub := a.NotSub, regex := a.Regex, notRegex := a.NotRegex },
           ⟨Token.word, a.Format⟩, ⟨[iv, wv, ⟨Token.optCache, []⟩, cv, ⟨Token.optDropRaw, []⟩, dv]⟩) := by
    rw [optLoop1]; simp [mSet]
    rw [optLoop1]; simp [mSet]
    rw [optLoop1]; simp [mSet]
    rw [optLoop1]; simp [mSet]
    rw [optLoop1]; simp [mSet]
    rw [optLoop1]; simp [mSet]
    rw [optLoop1]; simp
  have hloop2 : optLoop2 E ⟨Token.optCache, []⟩ [cv, ⟨Token.optDropRaw, []⟩, dv] true false = .ok (a.Cache, a.DropRaw, ⟨[]⟩) := by
    rw [optLoop2]; simp [hcv, hcb]
    rw [optLoop2]; simp [hdv, hdb]
  have hrne : (a.Regex == []) = false := by
    cases h : a.Regex with
    | nil => exact absurd h hre
    | cons _ _ => rfl
  simp only [readAddAggSpec, cmdTokens, Scanner.Next, hfn, hfv]
  have hnw : (Token.optPrefix == Token.word) = false := by decide
  simp only [hnw, Bool.false_eq_true, if_false, hloop1, finishAgg, hrne, Scanner.Next, hiv, hwv, hia, hwa, hloop2]
  simp only [Crng.Tie.CodeCfg.initResult, tryEach, Crng.Tie.CodeCfg.aggOne, hsub']
  rcases hM : E.matcher_New a.Prefix a.NotPrefix a.Sub a.NotSub a.Regex a.NotRegex with ⟨mm, me⟩
  cases me with
  | some e => simp
  | none =>
    simp only []
    rcases hG : E.aggregator_New a.Function mm a.Format a.Cache a.Interval a.Wait a.DropRaw () with ⟨agg, ae⟩
    cases ae <;> simp

/-- **readAddBlack (regenerated)**: `addBlack <method> <pattern>` sets exactly the option the method names -/
theorem readAddBlack_eq (E : Env) (table : TableI) (method pat : Bytes) (rest : List TokV) :
    (readAddBlack E ⟨⟨Token.word, method⟩ :: ⟨Token.word, pat⟩ :: rest⟩ table) =
      match Crng.Tie.CodeCfg.blackArgs method pat with
      | none => ([], errFmtAddBlack, ⟨⟨Token.word, pat⟩ :: rest⟩)
      | some (a, b, c, d, e, f) =>
        match E.matcher_New a b c d e f with
        | (_, some err) => ([], some err, ⟨rest⟩)
        | (m, none) => ([Ev.call "table.AddBlacklist" table.id [arg m]], none, ⟨rest⟩) := by
  unfold readAddBlack Crng.Tie.CodeCfg.blackArgs
  simp only [Scanner.Next]
  have hw : (Token.word != Token.word) = false := by decide
  simp only [hw, Bool.false_eq_true, if_false]
  by_cases h1 : (method == ([112, 114, 101, 102, 105, 120] : Bytes)) = true
  · rcases hm : E.matcher_New pat [] [] [] [] [] with ⟨m, me⟩
    cases me <;> simp [h1, hm, Lib.notNil, Res.pure, emit]
  · by_cases h2 : (method == ([110, 111, 116, 80, 114, 101, 102, 105, 120] : Bytes)) = true
    · rcases hm : E.matcher_New [] pat [] [] [] [] with ⟨m, me⟩
      cases me <;> simp [h1, h2, hm, Lib.notNil, Res.pure, emit]
    · by_cases h3 : (method == ([115, 117, 98] : Bytes)) = true
      · rcases hm : E.matcher_New [] [] pat [] [] [] with ⟨m, me⟩
        cases me <;> simp [h1, h2, h3, hm, Lib.notNil, Res.pure, emit]
      · by_cases h4 : (method == ([110, 111, 116, 83, 117, 98] : Bytes)) = true
        · rcases hm : E.matcher_New [] [] [] pat [] [] with ⟨m, me⟩
          cases me <;> simp [h1, h2, h3, h4, hm, Lib.notNil, Res.pure, emit]
        · by_cases h5 : (method == ([114, 101, 103, 101, 120] : Bytes)) = true
          · rcases hm : E.matcher_New [] [] [] [] pat [] with ⟨m, me⟩
            cases me <;> simp [h1, h2, h3, h4, h5, hm, Lib.notNil, Res.pure, emit]
          · by_cases h6 : (method == ([110, 111, 116, 82, 101, 103, 101, 120] : Bytes)) = true
            · rcases hm : E.matcher_New [] [] [] [] [] pat with ⟨m, me⟩
              cases me <;> simp [h1, h2, h3, h4, h5, h6, hm, Lib.notNil, Res.pure, emit]
            · simp [h1, h2, h3, h4, h5, h6, Res.pure]

/-- **C20, blacklist: `addBlack <method> <pattern>` and the TOML entry `"<method> <pattern>"` add the same matcher** (the TOML
string is cut at its first blank: `strings.SplitN`) -/
theorem black_cmd_toml_agree (E : Env) (table : TableI) (method pat : Bytes) (hm : ¬ method.contains 32) :
    (readAddBlack E ⟨[⟨Token.word, method⟩, ⟨Token.word, pat⟩]⟩ table).1 = (InitBlacklist E table ⟨[], [method ++ 32 :: pat], []⟩).1 := by
  rw [readAddBlack_eq, Crng.Tie.CodeCfg.initBlacklist_eq]
  have hsplit : Lib.strings_SplitN (method ++ 32 :: pat) [32] 2 = [method, pat] := by
    have h1 : ∀ l : Bytes, ¬ l.contains 32 → (l ++ 32 :: pat).takeWhile (· != 32) = l ∧ (l ++ 32 :: pat).dropWhile (· != 32) = 32 :: pat := by
      intro l
      induction l with
      | nil => intro _; simp
      | cons c cs ih =>
        intro h
        have hc : c ≠ 32 := by intro hc; subst hc; simp at h
        have hcs : ¬ cs.contains 32 := by intro h'; apply h; simp at h' ⊢; exact Or.inr h'
        have hb : (c != 32) = true := by simp [hc]
        simp [List.takeWhile, List.dropWhile, hb, ih hcs]
    simp [Lib.strings_SplitN, h1 method hm]
  simp only [Crng.Tie.CodeCfg.initResult, tryEach, Crng.Tie.CodeCfg.blackOne, hsplit]
  have hl : ¬ (Lib.len [method, pat] < 2) := by simp [Lib.len]
  simp only [hl, if_false, Lib.idx]
  cases hb : Crng.Tie.CodeCfg.blackArgs method pat with
  | none => simp [hb]
  | some r =>
    obtain ⟨a, b, c, d, e, f⟩ := r
    rcases hmn : E.matcher_New a b c d e f with ⟨m, me⟩
    cases me <;> simp [hb, hmn]

/-- **readAddRewriter (regenerated)** and **C20, rewriters: `addRewriter <old> <new> <max>` and a `[[rewriter]]` section without
`not` add the same rule** -/
theorem rewriter_cmd_toml_agree (E : Env) (table : TableI) (old new : Bytes) (mx : TokV) (max : Int)
    (hmt : mx.Token = Token.num ∨ mx.Token = Token.word) (hma : E.strconv_Atoi (E.strings_TrimSpace mx.Value) = (max, none)) :
    (readAddRewriter E ⟨[⟨Token.word, old⟩, ⟨Token.word, new⟩, mx]⟩ table).1 = (InitRewrite E table ⟨[], [], [⟨old, new, [], max⟩]⟩).1 := by
  rw [Crng.Tie.CodeCfg.initRewrite_eq]
  have hw : (Token.word != Token.word) = false := by decide
  have hm2 : ((mx.Token != Token.num) && (mx.Token != Token.word)) = false := by
    rcases hmt with h | h <;> simp [h]
  rcases hr : E.rewriter_New old new [] max with ⟨rw, re⟩
  unfold readAddRewriter
  simp only [Scanner.Next, hw, hm2, Bool.false_eq_true, if_false, hma, hr, Lib.notNil, Option.isSome_none]
  simp only [Crng.Tie.CodeCfg.initResult, tryEach, Crng.Tie.CodeCfg.rwOne, hr]
  cases re <;> simp [Res.pure, emit]

/-! ### readRouteOpts: the filter options of `addRoute … <key> [option…]` and `modRoute` -/
set_option maxRecDepth 8000 in
theorem body3_eq (st : T3) : readRouteOpts_body1 st = tupleStep3 st := by
  rcases st with ⟨err, notPrefix, notRegex, notSub, prefix_, regex, s, sub⟩
  simp only [readRouteOpts_body1, tupleStep3, step3]
  generalize s.Next = p
  obtain ⟨t, s1⟩ := p
  generalize s1.Next = q
  obtain ⟨v, s2⟩ := q
  obtain ⟨tok, tv⟩ := t
  obtain ⟨vtok, vv⟩ := v
  simp only []
  cases tok <;> simp [mSet, M6.toT3, M6.result, toki_EOF, toki_Error, badMsg] <;> (by_cases hv : vtok = Token.word <;> simp [hv])

theorem step3_toT3 (m : M6) (e : Err) (s : Scanner) :
    tupleStep3 (m.toT3 e s) = stepMap (fun (x : M6 × Err × Scanner) => x.1.toT3 x.2.1 x.2.2) (step3 m e s) := rfl

theorem loop3_eq : ∀ (n : Nat) (toks : List TokV) (m : M6) (fuel : Nat),
    toks.length ≤ n → toks.length + 1 ≤ fuel →
    whileP fuel readRouteOpts_cond1 tupleStep3 (m.toT3 none ⟨toks⟩) = Out.ret (routeOpts toks m) := by
  intro n
  induction n using Nat.strongRecOn with
  | _ n ih =>
    intro toks m fuel hn hf
    obtain ⟨f1, rfl⟩ : ∃ f1, fuel = f1 + 1 := ⟨fuel - 1, by omega⟩
    have hc : readRouteOpts_cond1 (m.toT3 none ⟨toks⟩) = true := rfl
    simp only [whileP, hc, if_true, step3_toT3]
    generalize hr : routeOpts toks m = res
    unfold routeOpts at hr
    subst hr
    cases toks with
    | nil => simp [step3, Scanner.Next]
    | cons t r =>
      by_cases hend : t.Token = Token.EOF ∨ t.Token = Token.sep
      · simp [step3, Scanner.Next, hend]
      · by_cases herr : t.Token = Token.Error
        · simp [step3, Scanner.Next, hend, herr]
        · cases hk : mSet t.Token with
          | none => simp [step3, Scanner.Next, hend, herr, hk]
          | some f =>
            cases r with
            | nil => simp [step3, Scanner.Next, hend, herr, hk]
            | cons v r2 =>
              by_cases hv : v.Token = Token.word
              · have := ih (n - 2) (by simp at hn; omega) r2 (f v.Value m) f1 (by simp at hn; omega) (by simp at hf ⊢; omega)
                simp [step3, Scanner.Next, hend, herr, hk, hv, this]
              · simp [step3, Scanner.Next, hend, herr, hk, hv]

theorem whileP_congr_body {σ ρ : Type} (c : σ → Bool) (b b' : σ → Step σ ρ) (hb : ∀ s, b s = b' s) :
    ∀ (n : Nat) (s : σ), whileP n c b s = whileP n c b' s := by
  have : b = b' := funext hb
  subst this; intro n s; rfl

/-- **readRouteOpts (regenerated) = `routeOpts`**, for every token list -/
theorem readRouteOpts_eq (toks : List TokV) : readRouteOpts ⟨toks⟩ = routeOpts toks {} := by
  unfold readRouteOpts
  simp only []
  rw [whileP_congr_body _ _ _ body3_eq]
  have := loop3_eq toks.length toks {} (toks.length + 2) (Nat.le_refl _) (by omega)
  simp only [M6.toT3] at this
  have hd : ((default : Err), (default : Bytes), (default : Bytes), (default : Bytes), (default : Bytes), (default : Bytes), (⟨toks⟩ : Scanner), (default : Bytes)) =
      (none, [], [], [], [], [], ⟨toks⟩, []) := rfl
  rw [hd, this]

end Crng.Tie.CodeAgree
