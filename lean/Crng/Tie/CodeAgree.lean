import Crng.Tie.CodeReadAgg
import Crng.Tie.CodeCfg
import Crng.Gen.CodeReadSmall
/-! C20's headline for aggregations, on code regenerated from /repo on this run: the init/admin command and the TOML section
produce the same routing-table entry. -/
namespace Crng.Tie.CodeAgree
open Crng.Code Crng.Gen.Code Crng.CodeSpecAgg Crng.CodeSpec

/-- the command `addAgg <fn> prefix=… notPrefix=… sub=… notSub=… regex=… notRegex=… <fmt> <interval> <wait> cache=… dropRaw=…`
as tokens (`fnTok` = the function token with its trailing blank, `iv` / `wv` / `cv` / `dv` = the texts of the two numbers and
the two booleans) -/
def cmdTokens (fnTok : TokV) (a : AggregationCfg) (iv wv cv dv : TokV) : List TokV :=
  [fnTok, ⟨Token.optPrefix, []⟩, ⟨Token.word, a.Prefix⟩, ⟨Token.optNotPrefix, []⟩, ⟨Token.word, a.NotPrefix⟩,
   ⟨Token.optSub, []⟩, ⟨Token.word, a.Sub⟩, ⟨Token.optNotSub, []⟩, ⟨Token.word, a.NotSub⟩,
   ⟨Token.optRegex, []⟩, ⟨Token.word, a.Regex⟩, ⟨Token.optNotRegex, []⟩, ⟨Token.word, a.NotRegex⟩,
   ⟨Token.word, a.Format⟩, iv, wv, ⟨Token.optCache, []⟩, cv, ⟨Token.optDropRaw, []⟩, dv]

/-- **C20, aggregations: the command and the TOML section produce the same aggregator.** When the command spells the options of
an `[[aggregation]]` section (its numbers and booleans parse to the section's values), `readAddAgg` and `InitAggregation` —
both regenerated from /repo — register the same object (same `matcher.New` and `aggregator.New` arguments), or both fail. -/
theorem agg_cmd_toml_agree (E : Env) (table : TableI) (a : AggregationCfg) (fnTok iv wv cv dv : TokV)
    (hfn : isFn fnTok.Token = true) (hfv : Lib.sliceTo fnTok.Value (Lib.len fnTok.Value - 1) = a.Function)
    (hre : a.Regex ≠ []) (hsub : a.Substr = [])
    (hiv : iv.Token = Token.num) (hwv : wv.Token = Token.num)
    (hia : E.strconv_Atoi (E.strings_TrimSpace iv.Value) = (a.Interval, none))
    (hwa : E.strconv_Atoi (E.strings_TrimSpace wv.Value) = (a.Wait, none))
    (hcv : cv.Token = Token.optTrue ∨ cv.Token = Token.optFalse) (hdv : dv.Token = Token.optTrue ∨ dv.Token = Token.optFalse)
    (hcb : E.strconv_ParseBool cv.Value = (a.Cache, none)) (hdb : E.strconv_ParseBool dv.Value = (a.DropRaw, none)) :
    (readAddAgg E ⟨cmdTokens fnTok a iv wv cv dv⟩ table).1 = (InitAggregation E table ⟨[a], [], []⟩).1 ∧
    (((readAddAgg E ⟨cmdTokens fnTok a iv wv cv dv⟩ table).2.1 = none) ↔ ((InitAggregation E table ⟨[a], [], []⟩).2 = none)) := by
  rw [Crng.Tie.CodeReadAgg.readAddAgg_eq, Crng.Tie.CodeCfg.initAggregation_eq]
  have hsub' : (if Lib.len a.Sub > 0 then a.Sub else a.Substr) = a.Sub := by
    cases hs : a.Sub with
    | nil => simp [Lib.len, hsub]
    | cons _ _ => simp [Lib.len]
  have hloop1 : optLoop1 ⟨Token.optPrefix, []⟩ [⟨Token.word, a.Prefix⟩, ⟨Token.optNotPrefix, []⟩, ⟨Token.word, a.NotPrefix⟩,
      ⟨Token.optSub, []⟩, ⟨Token.word, a.Sub⟩, ⟨Token.optNotSub, []⟩, ⟨Token.word, a.NotSub⟩,
      ⟨Token.optRegex, []⟩, ⟨Token.word, a.Regex⟩, ⟨Token.optNotRegex, []⟩, ⟨Token.word, a.NotRegex⟩,
      ⟨Token.word, a.Format⟩, iv, wv, ⟨Token.optCache, []⟩, cv, ⟨Token.optDropRaw, []⟩, dv] {} =
      .ok ({ prefix_ := a.Prefix, notPrefix := a.NotPrefix, sub := a.Sub, notSub := a.NotSub, regex := a.Regex, notRegex := a.NotRegex },
           ⟨Token.word, a.Format⟩, ⟨[iv, wv, ⟨Token.optCache, []⟩, cv, ⟨Token.optDropRaw, []⟩, dv]⟩) := by
    rw [optLoop1]; simp [mSet]
    rw [optLoop1]; simp [mSet]
    rw [optLoop1]; simp [mSet]
    rw [optLoop1]; simp [mSet]
    rw [optLoop1]; simp [mSet]
    rw [optLoop1]; simp [mSet]
    rw [optLoop1]; simp
  have hloop2 : optLoop2 E ⟨Token.optCache, []⟩ [cv, ⟨Token.optDropRaw, []⟩, dv] true false = .ok (a.Cache, a.DropRaw, ⟨[]⟩) := by
    rw [optLoop2]; simp [hcv, hcb]
    rw [optLoop2]; simp [hdv, hdb]
  have hrne : (a.Regex == []) = false := by
    cases h : a.Regex with
    | nil => exact absurd h hre
    | cons _ _ => rfl
  simp only [readAddAggSpec, cmdTokens, Scanner.Next, hfn, hfv]
  have hnw : (Token.optPrefix == Token.word) = false := by decide
  simp only [hnw, Bool.false_eq_true, if_false, hloop1, finishAgg, hrne, Scanner.Next, hiv, hwv, hia, hwa, hloop2]
  simp only [Crng.Tie.CodeCfg.initResult, tryEach, Crng.Tie.CodeCfg.aggOne, hsub']
  rcases hM : E.matcher_New a.Prefix a.NotPrefix a.Sub a.NotSub a.Regex a.NotRegex with ⟨mm, me⟩
  cases me with
  | some e => simp
  | none =>
    simp only []
    rcases hG : E.aggregator_New a.Function mm a.Format a.Cache a.Interval a.Wait a.DropRaw () with ⟨agg, ae⟩
    cases ae <;> simp

/-- **readAddBlack (regenerated)**: `addBlack <method> <pattern>` sets exactly the option the method names -/
theorem readAddBlack_eq (E : Env) (table : TableI) (method pat : Bytes) (rest : List TokV) :
    (readAddBlack E ⟨⟨Token.word, method⟩ :: ⟨Token.word, pat⟩ :: rest⟩ table) =
      match Crng.Tie.CodeCfg.blackArgs method pat with
      | none => ([], errFmtAddBlack, ⟨⟨Token.word, pat⟩ :: rest⟩)
      | some (a, b, c, d, e, f) =>
        match E.matcher_New a b c d e f with
        | (_, some err) => ([], some err, ⟨rest⟩)
        | (m, none) => ([Ev.call "table.AddBlacklist" table.id [arg m]], none, ⟨rest⟩) := by
  unfold readAddBlack Crng.Tie.CodeCfg.blackArgs
  simp only [Scanner.Next]
  have hw : (Token.word != Token.word) = false := by decide
  simp only [hw, Bool.false_eq_true, if_false]
  by_cases h1 : (method == ([112, 114, 101, 102, 105, 120] : Bytes)) = true
  · rcases hm : E.matcher_New pat [] [] [] [] [] with ⟨m, me⟩
    cases me <;> simp [h1, hm, Lib.notNil, Res.pure, emit]
  · by_cases h2 : (method == ([110, 111, 116, 80, 114, 101, 102, 105, 120] : Bytes)) = true
    · rcases hm : E.matcher_New [] pat [] [] [] [] with ⟨m, me⟩
      cases me <;> simp [h1, h2, hm, Lib.notNil, Res.pure, emit]
    · by_cases h3 : (method == ([115, 117, 98] : Bytes)) = true
      · rcases hm : E.matcher_New [] [] pat [] [] [] with ⟨m, me⟩
        cases me <;> simp [h1, h2, h3, hm, Lib.notNil, Res.pure, emit]
      · by_cases h4 : (method == ([110, 111, 116, 83, 117, 98] : Bytes)) = true
        · rcases hm : E.matcher_New [] [] [] pat [] [] with ⟨m, me⟩
          cases me <;> simp [h1, h2, h3, h4, hm, Lib.notNil, Res.pure, emit]
        · by_cases h5 : (method == ([114, 101, 103, 101, 120] : Bytes)) = true
          · rcases hm : E.matcher_New [] [] [] [] pat [] with ⟨m, me⟩
            cases me <;> simp [h1, h2, h3, h4, h5, hm, Lib.notNil, Res.pure, emit]
          · by_cases h6 : (method == ([110, 111, 116, 82, 101, 103, 101, 120] : Bytes)) = true
            · rcases hm : E.matcher_New [] [] [] [] [] pat with ⟨m, me⟩
              cases me <;> simp [h1, h2, h3, h4, h5, h6, hm, Lib.notNil, Res.pure, emit]
            · simp [h1, h2, h3, h4, h5, h6, Res.pure]

/-- **C20, blacklist: `addBlack <method> <pattern>` and the TOML entry `"<method> <pattern>"` add the same matcher** (the TOML
string is cut at its first blank: `strings.SplitN`) -/
theorem black_cmd_toml_agree (E : Env) (table : TableI) (method pat : Bytes) (hm : ¬ method.contains 32) :
    (readAddBlack E ⟨[⟨Token.word, method⟩, ⟨Token.word, pat⟩]⟩ table).1 = (InitBlacklist E table ⟨[], [method ++ 32 :: pat], []⟩).1 := by
  rw [readAddBlack_eq, Crng.Tie.CodeCfg.initBlacklist_eq]
  have hsplit : Lib.strings_SplitN (method ++ 32 :: pat) [32] 2 = [method, pat] := by
    have h1 : ∀ l : Bytes, ¬ l.contains 32 → (l ++ 32 :: pat).takeWhile (· != 32) = l ∧ (l ++ 32 :: pat).dropWhile (· != 32) = 32 :: pat := by
      intro l
      induction l with
      | nil => intro _; simp
      | cons c cs ih =>
        intro h
        have hc : c ≠ 32 := by intro hc; subst hc; simp at h
        have hcs : ¬ cs.contains 32 := by intro h'; apply h; simp at h' ⊢; exact Or.inr h'
        have hb : (c != 32) = true := by simp [hc]
        simp [List.takeWhile, List.dropWhile, hb, ih hcs]
    simp [Lib.strings_SplitN, h1 method hm]
  simp only [Crng.Tie.CodeCfg.initResult, tryEach, Crng.Tie.CodeCfg.blackOne, hsplit]
  have hl : ¬ (Lib.len [method, pat] < 2) := by simp [Lib.len]
  simp only [hl, if_false, Lib.idx]
  cases hb : Crng.Tie.CodeCfg.blackArgs method pat with
  | none => simp [hb]
  | some r =>
    obtain ⟨a, b, c, d, e, f⟩ := r
    rcases hmn : E.matcher_New a b c d e f with ⟨m, me⟩
    cases me <;> simp [hb, hmn]

/-- **readAddRewriter (regenerated)** and **C20, rewriters: `addRewriter <old> <new> <max>` and a `[[rewriter]]` section without
`not` add the same rule** -/
theorem rewriter_cmd_toml_agree (E : Env) (table : TableI) (old new : Bytes) (mx : TokV) (max : Int)
    (hmt : mx.Token = Token.num ∨ mx.Token = Token.word) (hma : E.strconv_Atoi (E.strings_TrimSpace mx.Value) = (max, none)) :
    (readAddRewriter E ⟨[⟨Token.word, old⟩, ⟨Token.word, new⟩, mx]⟩ table).1 = (InitRewrite E table ⟨[], [], [⟨old, new, [], max⟩]⟩).1 := by
  rw [Crng.Tie.CodeCfg.initRewrite_eq]
  have hw : (Token.word != Token.word) = false := by decide
  have hm2 : ((mx.Token != Token.num) && (mx.Token != Token.word)) = false := by
    rcases hmt with h | h <;> simp [h]
  rcases hr : E.rewriter_New old new [] max with ⟨rw, re⟩
  unfold readAddRewriter
  simp only [Scanner.Next, hw, hm2, Bool.false_eq_true, if_false, hma, hr, Lib.notNil, Option.isSome_none]
  simp only [Crng.Tie.CodeCfg.initResult, tryEach, Crng.Tie.CodeCfg.rwOne, hr]
  cases re <;> simp [Res.pure, emit]

end Crng.Tie.CodeAgree
