import Crng.Gen.CodeGuards
import Crng.Safe
/-! Obligations of the regenerated *code* layer, constructor guards (C14): the parameter validation at the top of
`destination.New` and `route.NewGrafanaNet`, as translated from /repo on this run, lets exactly those parameters through
that the acceptance predicates of `Crng.Safe` describe — the predicates `Crng.Props.C14.dest_accept_safe` and
`gn_accept_safe` prove sufficient for every later use (tickers, channel and buffer allocation, divisions). A guard that is
weakened, dropped or reordered so that a bad value passes makes the equivalence false. -/
namespace Crng.Tie.CodeGuards
open Crng.Code Crng.Gen.Code

/-- **destination.New's guards pass ⇔ `destAccept`** -/
theorem destination_guards_iff (routeName : Bytes) (m : MatcherArgs) (addr spoolDir : Bytes) (spool pickle : Bool)
    (periodFlush periodReConn connBufSize ioBufSize spoolBufSize spoolMaxBytesPerFile spoolSyncEvery spoolSyncPeriod spoolSleep unspoolSleep : Int) :
    (destination_New_guards routeName m addr spoolDir spool pickle periodFlush periodReConn connBufSize ioBufSize spoolBufSize
        spoolMaxBytesPerFile spoolSyncEvery spoolSyncPeriod spoolSleep unspoolSleep = none) ↔
      Crng.Safe.destAccept ⟨periodFlush, periodReConn, connBufSize, ioBufSize, spool, spoolBufSize, spoolSyncPeriod⟩ = true := by
  unfold destination_New_guards Crng.Safe.destAccept
  simp only [math_MaxInt32, Crng.Safe.maxInt32]
  cases spool <;> simp <;> (repeat' split) <;> simp_all <;> omega

/-- **NewGrafanaNet's guards pass ⇔ `gnAccept`** -/
theorem grafanaNet_guards_iff (key : Bytes) (m : MatcherArgs) (cfg : GrafanaNetConfig) :
    (NewGrafanaNet_guards key m cfg = none) ↔
      Crng.Safe.gnAccept ⟨cfg.Concurrency, cfg.BufSize, cfg.FlushMaxNum, cfg.FlushMaxWait⟩ = true := by
  unfold NewGrafanaNet_guards Crng.Safe.gnAccept
  simp only [math_MaxInt32, Crng.Safe.maxInt32]
  simp
  (repeat' split) <;> simp_all <;> omega

end Crng.Tie.CodeGuards
