import Crng.Tie.Util
import Crng.Gen.Skel
/-! regenerated obligations for C07: the statements of conn.go, keepsafe.go, spool.go, slowchan.go that the actions of
    `Crng/Spool.lean` and the slice-level `Crng/KeepSafe.lean` were written from (the relay loop's own branches: `Crng.Tie.C06`) -/
namespace Crng.Tie.C07
open Crng.Tie
open Crng.Gen

/-- `take`/`keepAdd`: a line taken from In is put into keepSafe before it is written, and nothing between the two can block or return -/
theorem keep_before_write_ok : isInfix
    ["2 case buf := <-c.In", "3 assign active = time.Now()", "3 call c.numBuffered.Dec(1)", "3 assign action = \"write\"",
     "3 call verifSchedPoint(\"handledata-received\", buf)", "3 call c.keepSafe.Add(buf)", "3 assign n, err := c.Write(buf)",
     "3 if err != nil", "4 call c.close()", "4 return "] skel_destination_Conn_HandleData = true := by decide +kernel

/-- `stop`: HandleData only returns after close() (its own, on an error) or on the shutdown token close() sends; it announces its end through wg -/
theorem handledata_exits_ok :
    (containing "return" skel_destination_Conn_HandleData == ["4 return ", "4 return ", "4 return ", "3 return "] &&
     count "4 call c.close()" skel_destination_Conn_HandleData == 3 &&
     isInfix ["2 case <-c.shutdown", "3 return "] skel_destination_Conn_HandleData &&
     skel_destination_Conn_HandleData.head? == some "0 defer c.wg.Done()" &&
     skel_destination_Conn_checkEOF.head? == some "0 defer c.wg.Done()" &&
     skel_destination_Conn_close == ["0 call c.alive(false)", "0 send c.shutdown <- true", "0 call c.conn.Close()"]) = true := by decide +kernel

/-- `collect` (H2): getRedo first waits for the connection's goroutines, then drains In into keepSafe, then takes everything -/
theorem getredo_ok : skel_destination_Conn_getRedo =
    ["0 call c.wg.Wait()", "0 defer c.clearRedo()", "0 for ; ; ", "1 select ", "2 case buf := <-c.In", "3 call c.numBuffered.Dec(1)",
     "3 call c.keepSafe.Add(buf)", "2 default ", "3 return c.keepSafe.GetAll()"] := by decide +kernel

/-- `collect` → `ingest`: everything getRedo returned is handed to the spool -/
theorem collect_ok :
    (skel_destination_Destination_collectRedo == ["0 assign bulkData := conn.getRedo()", "0 call dest.spool.Ingest(bulkData)", "0 call dest.tasks.Done()"] &&
     skel_destination_Spool_Ingest == ["0 range _, buf := range bulkData", "1 send s.InBulk <- buf", "1 call time.Sleep(s.spoolSleep)"]) = true := by decide +kernel

/-- keepSafe is the three operations of `Crng.KeepSafe`: append to recent; rotation = (old := recent; recent := a fresh slice); GetAll = append(old, recent...) then two fresh slices -/
theorem keepsafe_ok :
    (skel_destination_keepSafe_Add == ["0 call k.Lock()", "0 assign k.safeRecent = append(k.safeRecent, buf)", "0 call k.Unlock()"] &&
     isInfix ["2 case <-tick.C", "3 call k.Lock()", "3 assign k.safeOld = k.safeRecent", "3 assign k.safeRecent = make([][]byte, 0, k.initialCap)", "3 call k.Unlock()"] skel_destination_keepSafe_keepClean &&
     containing "safe" skel_destination_keepSafe_keepClean == ["3 assign k.safeOld = k.safeRecent", "3 assign k.safeRecent = make([][]byte, 0, k.initialCap)"] &&
     skel_destination_keepSafe_GetAll == ["0 call k.Lock()", "0 assign ret := append(k.safeOld, k.safeRecent...)", "0 assign k.safeOld = make([][]byte, 0, k.initialCap)",
       "0 assign k.safeRecent = make([][]byte, 0, k.initialCap)", "0 call k.Unlock()", "0 return ret"] &&
     containing "safeOld: make([][]byte, 0, initialCap), safeRecent: make([][]byte, 0, initialCap)" skel_destination_NewKeepSafe != []) = true := by decide +kernel

/-- the spool forwards every line it is given: InRT and InBulk → queueBuffer → disk queue; the slow chan forwards every line it reads -/
theorem spool_ok :
    (isInfix ["2 case buf := <-s.InRT", "3 call s.numIncomingRT.Inc(1)", "3 call s.durationBuffer.Time(func() { s.queueBuffer <- buf })"] skel_destination_Spool_Writer &&
     isInfix ["2 case buf := <-s.InBulk", "3 call s.numIncomingBulk.Inc(1)", "3 call s.durationBuffer.Time(func() { s.queueBuffer <- buf })"] skel_destination_Spool_Writer &&
     isInfix ["2 case buf := <-s.queueBuffer", "3 call s.numBuffered.Dec(1)", "3 call s.durationWrite.Time(func() { s.queue.Put(buf) })"] skel_destination_Spool_Buffer &&
     containing "for v := range backend { c <- v time.Sleep(sleep) }" skel_destination_NewSlowChan != []) = true := by decide +kernel

end Crng.Tie.C07
