import Crng.Tie.Util
import Crng.Gen.Skel
import Crng.Gen.PanicSites
/-! regenerated obligations for C14: the acceptance tests and guarded uses that `Crng/Safe.lean` states, and the inventory of every
    construct that can panic at run time (index, slice, unchecked type assertion, division by a non-constant, explicit
    panic/exit, ticker, sized make, close, MustCompile) in the files network input and admin commands reach.
    The inventory is compared with the list that was examined when the check was written: a new or changed site breaks the
    obligation and has to be looked at (and searched for a crashing input) before the list is updated. -/
namespace Crng.Tie.C14
open Crng.Tie
open Crng.Gen

/-- aggregator.New = `aggAccept` (with NewMocked's function and regex tests), and it hands the checked period to AlignedTick -/
theorem agg_new_ok :
    (skel_aggregator_New == [
  "0 if interval == 0",
  "1 return nil, errors.New(\"aggregation interval must be > 0\")",
  "0 assign period := time.Duration(interval) * time.Second",
  "0 if period <= 0 || period/time.Second != time.Duration(interval)",
  "1 return nil, errors.New(\"aggregation interval is too large\")",
  "0 assign ticker := clock.AlignedTick(period, time.Duration(wait)*time.Second, 2)",
  "0 return NewMocked(fun, matcher, outFmt, cache, interval, wait, dropRaw, out, 2000, time.Now, ticker)"] &&
     isInfix ["0 assign procConstr, err := GetProcessorConstructor(fun)", "0 if err != nil", "1 return nil, err", "0 if interval == 0",
              "1 return nil, errors.New(\"aggregation interval must be > 0\")", "0 if matcher.Regex == \"\"", "1 return nil, errors.New(\"aggregation needs a regex\")"] skel_aggregator_NewMocked) = true := by decide +kernel

/-- AlignedTick is `tickDiff` followed by Sleep -/
theorem aligned_tick_ok : skel_clock_AlignedTick = [
  "0 assign c := make(chan time.Time, bufSize)",
  "0 go func() { for { unix := time.Now().UnixNano() adjusted := time.Duration(unix) - offset diff := time.Duration(period - adjusted%period) time.Sleep(diff) select { case c <- time.Now(): default: } } }()",
  "0 return c"] := by decide +kernel

/-- destination.New = `destAccept` -/
theorem dest_new_ok : skel_destination_New.take 8 = [
  "0 if periodFlush <= 0 || periodReConn <= 0",  "1 return nil, errors.New(\"flush and reconn periods must be > 0\")",  "0 if connBufSize < 0 || ioBufSize <= 0",  "1 return nil, errors.New(\"connbuf must be >= 0 and iobuf must be > 0\")",  "0 if spool && (spoolBufSize < 0 || spoolSyncPeriod <= 0)",  "1 return nil, errors.New(\"spoolbuf must be >= 0 and spoolsyncperiod must be > 0\")",  "0 if connBufSize > math.MaxInt32 || ioBufSize > math.MaxInt32 || (spool && spoolBufSize > math.MaxInt32)",  "1 return nil, errors.New(\"connbuf, iobuf and spoolbuf sizes this large cannot be allocated\")"] := by decide +kernel

/-- route.NewGrafanaNet = `gnAccept`, and the uses `gnUses` lists -/
theorem gn_new_ok :
    (skel_route_NewGrafanaNet.take 4 == [
  "0 if cfg.Concurrency < 1 || cfg.BufSize < 0 || cfg.FlushMaxNum < 1 || cfg.FlushMaxWait <= 0",  "1 return nil, errors.New(\"NewGrafanaNet: concurrency, flushMaxNum and flushMaxWait must be > 0 and bufSize must be >= 0\")",  "0 if cfg.Concurrency > math.MaxInt32 || cfg.BufSize > math.MaxInt32 || cfg.FlushMaxNum > math.MaxInt32",  "1 return nil, errors.New(\"NewGrafanaNet: concurrency, bufSize and flushMaxNum this large cannot be allocated\")"] &&
     count "0 call r.wg.Add(cfg.Concurrency)" skel_route_NewGrafanaNet == 1 &&
     isInfix ["0 for i := 0; i < cfg.Concurrency; i++", "1 assign r.in[i] = make(chan []byte, cfg.BufSize/cfg.Concurrency)", "1 go r.run(r.in[i])"] skel_route_NewGrafanaNet) = true := by decide +kernel

/-- the grafanaNet address: the constructor of the config applies to the text the test getGrafanaNetAddr panics on -/
theorem gn_addr_ok :
    (isInfix ["0 if !strings.HasSuffix(strings.TrimSuffix(addr, \"/\"), \"/metrics\")",
              "1 return GrafanaNetConfig{}, fmt.Errorf(\"NewGrafanaNetConfig: invalid value for 'addr': %q. needs to end on /metrics or /metrics/\", addr)"] skel_route_NewGrafanaNetConfig &&
     skel_route_getGrafanaNetAddr.take 4 == [
  "0 if strings.HasSuffix(addr, \"/\")",  "1 assign addr = addr[:len(addr)-1]",  "0 if !strings.HasSuffix(addr, \"/metrics\")",  "1 call panic(\"getAddr called on an addr that does not end on /metrics or /metrics/ - this is not supported. Normally NewGrafanaNetConfig would already have validated this\")"]) = true := by decide +kernel

/-- consistent hashing: `chStep`'s refusal below two destinations, and the modulo by the ring length -/
theorem ch_ok :
    (skel_route_ConsistentHashing_DelDestination == [
  "0 if conf := route.config.Load().(Config); len(conf.Dests()) < 2",
  "1 return fmt.Errorf(\"cannot remove the last destination of a consistentHashing route\")",
  "0 return route.delDestination(index, consistentHashingConfigExtender)"] &&
     skel_route_ConsistentHasher_GetDestinationIndex == [
  "0 assign position := computeRingPosition(key)",
  "0 assign index := sort.Search(len(h.Ring), func(i int) bool { return h.Ring[i].Position >= position }) % len(h.Ring)",
  "0 return h.Ring[index].DestinationIndex"]) = true := by decide +kernel

/-- modDest / DelDestination: `guardedIndex` — the comparison is `>=`, and it comes before the indexing -/
theorem index_guard_ok :
    (isInfix ["0 if index >= len(conf.Dests())", "1 return fmt.Errorf(\"Invalid index %d\", index)", "0 assign err := conf.Dests()[index].Update(opts)"] skel_route_baseRoute_updateDestination &&
     isInfix ["0 if index >= len(conf.Dests())", "1 return fmt.Errorf(\"Invalid index %d\", index)", "0 call conf.Dests()[index].Shutdown()"] skel_route_baseRoute_delDestination &&
     containing "[index" skel_route_baseRoute_updateDestination == ["0 assign err := conf.Dests()[index].Update(opts)"]) = true := by decide +kernel

/-- a line a pickle destination cannot convert is counted and dropped *before* Pickle(dp) is reached -/
theorem conn_write_ok : isInfix
    ["0 if c.pickle", "1 assign dp, err := ParseDataPoint(buf)", "1 if err != nil", "2 call fmt.Fprintln(os.Stderr, err)", "2 call c.numDropBadPickle.Inc(1)",
     "2 return 0, nil", "1 assign buf = Pickle(dp)"] skel_destination_Conn_Write = true := by decide +kernel

/-- the admin connection loop: one read = one command, split and re-joined, handler errors written back — nothing else -/
theorem telnet_ok : skel_telnet_handleApiRequest = [
  "0 assign buf := make([]byte, 1024)",
  "0 for ; ; ",
  "1 call conn.Write([]byte(\"inspecting status is fine, but making changes on-the-fly is an experimental feature\\n\"))",
  "1 assign n, err := conn.Read(buf)",
  "1 if err != nil",
  "2 if err == io.EOF",
  "2 else ",
  "2 call conn.Close()",
  "2 branch break",
  "1 assign clean_cmd := strings.TrimSpace(string(buf[:n]))",
  "1 assign command := strings.Split(clean_cmd, \" \")",
  "1 assign req := Req{command, &conn}",
  "1 assign fn := getHandler(clean_cmd)",
  "1 if fn != nil",
  "2 assign err := fn(req)",
  "2 if err != nil",
  "3 call conn.Write([]byte(err.Error() + \"\\n\"))",
  "1 else ",
  "2 call conn.Write([]byte(\"unrecognized command\\n\"))"] := by decide +kernel

/-- the examined inventory -/
def examined : List String := [
  "aggregator/aggregator.go:Aggregator.AddMaybe index buf[0]",
  "aggregator/aggregator.go:Aggregator.AddMaybe index buf[0]",
  "aggregator/aggregator.go:Aggregator.AddOrCreate index a.aggregations[quantized]",
  "aggregator/aggregator.go:Aggregator.AddOrCreate index a.aggregations[quantized]",
  "aggregator/aggregator.go:Aggregator.AddOrCreate index a.tsList[len(a.tsList)-2]",
  "aggregator/aggregator.go:Aggregator.AddOrCreate index agg.state[key]",
  "aggregator/aggregator.go:Aggregator.AddOrCreate index agg.state[key]",
  "aggregator/aggregator.go:Aggregator.Flush index a.aggregations[ts]",
  "aggregator/aggregator.go:Aggregator.Flush index results[0]",
  "aggregator/aggregator.go:Aggregator.Flush slice a.tsList[0:]",
  "aggregator/aggregator.go:Aggregator.Flush slice a.tsList[:0]",
  "aggregator/aggregator.go:Aggregator.Flush slice a.tsList[:len(a.tsList)-pos-1]",
  "aggregator/aggregator.go:Aggregator.Flush slice a.tsList[pos+1:]",
  "aggregator/aggregator.go:Aggregator.Shutdown close close(a.shutdown)",
  "aggregator/aggregator.go:Aggregator.matchWithCache index a.reCache[string(key)]",
  "aggregator/aggregator.go:Aggregator.matchWithCache index a.reCache[string(key)]",
  "aggregator/aggregator.go:Aggregator.matchWithCache index a.reCache[string(key)]",
  "aggregator/aggregator.go:Aggregator.run div ts % a.Interval",
  "aggregator/aggregator.go:Aggregator.run index aggsCopy[quant]",
  "aggregator/aggregator.go:Aggregator.run index msg.buf[0]",
  "aggregator/aggregator.go:Aggregator.run index stateCopy[key]",
  "aggregator/aggregator.go:Aggregator.setKey slice key[:7]",
  "aggregator/aggregator.go:New div period / time.Second",
  "aggregator/aggregator.go:New ticker clock.AlignedTick(period, time.Duration(wait)*time.Second, 2)",
  "aggregator/aggregator.go:NewMocked make make(chan msg, inBuf)",
  "aggregator/aggregator.go:TsSlice.Less index p[i]",
  "aggregator/aggregator.go:TsSlice.Less index p[j]",
  "aggregator/aggregator.go:TsSlice.Swap index p[i]",
  "aggregator/aggregator.go:TsSlice.Swap index p[i]",
  "aggregator/aggregator.go:TsSlice.Swap index p[j]",
  "aggregator/aggregator.go:TsSlice.Swap index p[j]",
  "cfg/table.go:InitBlacklist index parts[0]",
  "cfg/table.go:InitBlacklist index parts[1]",
  "cfg/table.go:InitBlacklist index parts[1]",
  "cfg/table.go:InitBlacklist index parts[1]",
  "cfg/table.go:InitBlacklist index parts[1]",
  "cfg/table.go:InitBlacklist index parts[1]",
  "cfg/table.go:InitBlacklist index parts[1]",
  "cfg/table.go:InitBlacklist index parts[1]",
  "cfg/table.go:InitRoutes assert meta.Mapping[\"route\"].([]map[string]interface{})",
  "cfg/table.go:InitRoutes assert v2.(bool)",
  "cfg/table.go:InitRoutes assert v2.(bool)",
  "cfg/table.go:InitRoutes assert v2.(bool)",
  "cfg/table.go:InitRoutes index meta.Mapping[\"route\"]",
  "clock/clock.go:AlignedTick div adjusted % period",
  "clock/clock.go:AlignedTick make make(chan time.Time, bufSize)",
  "destination/conn.go:Conn.HandleData ticker time.NewTicker(periodFlush)",
  "destination/conn.go:Conn.checkEOF slice b[:num]",
  "destination/conn.go:NewConn make make(chan []byte, connBufSize)",
  "destination/destination.go:Destination.Run exit panic(fmt.Sprintf(\"Run() called on already running dest %q\", dest.Key))",
  "destination/destination.go:Destination.relay close close(signalConnOnline)",
  "destination/destination.go:Destination.relay ticker time.NewTicker(dest.periodReConn)",
  "destination/destination.go:addrInstanceSplit index addrComponents[2]",
  "destination/destination.go:addrInstanceSplit slice addrComponents[0:2]",
  "destination/metric.go:ParseDataPoint index elements[0]",
  "destination/metric.go:ParseDataPoint index elements[1]",
  "destination/metric.go:ParseDataPoint index elements[2]",
  "destination/pickle.go:Pickle exit log.Fatal(err.Error())",
  "imperatives/imperatives.go:readAddAgg slice t.Value[:len(t.Value)-1]",
  "imperatives/imperatives.go:readModDest index opts[\"addr\"]",
  "imperatives/imperatives.go:readModDest index opts[\"notPrefix\"]",
  "imperatives/imperatives.go:readModDest index opts[\"notRegex\"]",
  "imperatives/imperatives.go:readModDest index opts[\"notSub\"]",
  "imperatives/imperatives.go:readModDest index opts[\"prefix\"]",
  "imperatives/imperatives.go:readModDest index opts[\"regex\"]",
  "imperatives/imperatives.go:readModDest index opts[\"sub\"]",
  "imperatives/imperatives.go:readModRoute index opts[\"notPrefix\"]",
  "imperatives/imperatives.go:readModRoute index opts[\"notRegex\"]",
  "imperatives/imperatives.go:readModRoute index opts[\"notSub\"]",
  "imperatives/imperatives.go:readModRoute index opts[\"prefix\"]",
  "imperatives/imperatives.go:readModRoute index opts[\"regex\"]",
  "imperatives/imperatives.go:readModRoute index opts[\"sub\"]",
  "input/amqp.go:Amqp.Stop close close(a.shutdown)",
  "input/listen.go:Listener.Stop close close(l.shutdown)",
  "input/listen.go:Listener.acceptTcpConn close close(connClose)",
  "input/listen.go:Listener.consumeUdp slice buffer[:b]",
  "input/pickle.go:Pickle.Handle assert data[0].(string)",
  "input/pickle.go:Pickle.Handle assert data[1].(string)",
  "input/pickle.go:Pickle.Handle index data[0]",
  "input/pickle.go:Pickle.Handle index data[0]",
  "input/pickle.go:Pickle.Handle index data[0]",
  "input/pickle.go:Pickle.Handle index data[0]",
  "input/pickle.go:Pickle.Handle index data[0]",
  "input/pickle.go:Pickle.Handle index data[1]",
  "input/pickle.go:Pickle.Handle index data[1]",
  "input/pickle.go:Pickle.Handle index data[1]",
  "input/pickle.go:Pickle.Handle index data[1]",
  "input/pickle.go:Pickle.Handle index data[1]",
  "input/pickle.go:Pickle.Handle index item[0]",
  "input/pickle.go:Pickle.Handle index item[0]",
  "input/pickle.go:Pickle.Handle index item[1]",
  "input/pickle.go:Pickle.Handle index item[1]",
  "input/pickle.go:Pickle.Handle make make([]byte, chunkLength, chunkLength)",
  "input/pickle.go:Pickle.Handle slice chunk[:tmpLengthRead]",
  "input/pickle.go:Pickle.Handle slice chunk[:toRead]",
  "input/pickle.go:checkProtocol index prefix[0]",
  "input/pickle.go:checkProtocol index prefix[0]",
  "input/pickle.go:checkProtocol index prefix[0]",
  "input/pickle.go:checkProtocol index prefix[0]",
  "input/pickle.go:checkProtocol index prefix[1]",
  "input/pickle.go:checkProtocol index prefix[2]",
  "input/pickle.go:checkProtocol index prefix[2]",
  "matcher/matcher.go:regexToPrefix index re.Sub[0]",
  "matcher/matcher.go:regexToPrefix slice re.Sub[1:]",
  "rewriter/rewriter.go:New slice not[0:1]",
  "rewriter/rewriter.go:New slice not[1 : len(not)-1]",
  "rewriter/rewriter.go:New slice not[len(not)-1:]",
  "rewriter/rewriter.go:New slice old[0:1]",
  "rewriter/rewriter.go:New slice old[1 : len(old)-1]",
  "rewriter/rewriter.go:New slice old[len(old)-1:]",
  "route/consistent_hashing.go:ConsistentHasher.AddDestination index newRingEntries[i]",
  "route/consistent_hashing.go:ConsistentHasher.AddDestination index newRingEntries[i]",
  "route/consistent_hashing.go:ConsistentHasher.AddDestination index newRingEntries[i]",
  "route/consistent_hashing.go:ConsistentHasher.AddDestination index newRingEntries[i]",
  "route/consistent_hashing.go:ConsistentHasher.AddDestination index server[0]",
  "route/consistent_hashing.go:ConsistentHasher.AddDestination index server[0]",
  "route/consistent_hashing.go:ConsistentHasher.AddDestination make make(hashRing, h.replicaCount)",
  "route/consistent_hashing.go:ConsistentHasher.GetDestinationIndex div sort.Search(len(h.Ring), func(i int) bool { return h.Ring[i].Position >= position }) % len(h.Ring)",
  "route/consistent_hashing.go:ConsistentHasher.GetDestinationIndex index h.Ring[i]",
  "route/consistent_hashing.go:ConsistentHasher.GetDestinationIndex index h.Ring[index]",
  "route/consistent_hashing.go:computeRingPosition slice hash[0:2]",
  "route/consistent_hashing.go:hashRing.Less index r[i]",
  "route/consistent_hashing.go:hashRing.Less index r[i]",
  "route/consistent_hashing.go:hashRing.Less index r[i]",
  "route/consistent_hashing.go:hashRing.Less index r[i]",
  "route/consistent_hashing.go:hashRing.Less index r[i]",
  "route/consistent_hashing.go:hashRing.Less index r[i]",
  "route/consistent_hashing.go:hashRing.Less index r[j]",
  "route/consistent_hashing.go:hashRing.Less index r[j]",
  "route/consistent_hashing.go:hashRing.Less index r[j]",
  "route/consistent_hashing.go:hashRing.Less index r[j]",
  "route/consistent_hashing.go:hashRing.Less index r[j]",
  "route/consistent_hashing.go:hashRing.Less index r[j]",
  "route/consistent_hashing.go:hashRing.Swap index r[i]",
  "route/consistent_hashing.go:hashRing.Swap index r[i]",
  "route/consistent_hashing.go:hashRing.Swap index r[j]",
  "route/consistent_hashing.go:hashRing.Swap index r[j]",
  "route/grafananet.go:GrafanaNet.Dispatch div hasher.Sum32() % uint32(route.Cfg.Concurrency)",
  "route/grafananet.go:GrafanaNet.Dispatch index route.in[shard]",
  "route/grafananet.go:GrafanaNet.Dispatch slice buf[:index]",
  "route/grafananet.go:GrafanaNet.Shutdown close close(route.shutdown)",
  "route/grafananet.go:GrafanaNet.flush index mda[idx]",
  "route/grafananet.go:GrafanaNet.flush slice buf[:n]",
  "route/grafananet.go:GrafanaNet.postConfig exit panic(err)",
  "route/grafananet.go:GrafanaNet.retryFlush exit panic(err)",
  "route/grafananet.go:GrafanaNet.retryFlush exit panic(err)",
  "route/grafananet.go:GrafanaNet.retryFlush slice metrics[:0]",
  "route/grafananet.go:GrafanaNet.updateAggregation ticker time.Tick(6 * time.Hour)",
  "route/grafananet.go:GrafanaNet.updateSchemas ticker time.Tick(6 * time.Hour)",
  "route/grafananet.go:NewGrafanaNet div cfg.BufSize / cfg.Concurrency",
  "route/grafananet.go:NewGrafanaNet index r.in[i]",
  "route/grafananet.go:NewGrafanaNet index r.in[i]",
  "route/grafananet.go:NewGrafanaNet make make([]chan []byte, cfg.Concurrency)",
  "route/grafananet.go:NewGrafanaNet make make(chan []byte, cfg.BufSize/cfg.Concurrency)",
  "route/grafananet.go:getGrafanaNetAddr exit panic(\"getAddr called on an addr that does not end on /metrics or /metrics/ - this is not supported. Normally NewGrafanaNetConfig would already have validated this\")",
  "route/grafananet.go:getGrafanaNetAddr slice addr[:len(addr)-1]",
  "route/route.go:ConsistentHashing.DelDestination assert route.config.Load().(Config)",
  "route/route.go:ConsistentHashing.Dispatch assert route.config.Load().(consistentHashingConfig)",
  "route/route.go:ConsistentHashing.Dispatch index conf.Dests()[conf.Hasher.GetDestinationIndex(name)]",
  "route/route.go:ConsistentHashing.Dispatch slice buf[0:pos]",
  "route/route.go:SendAllMatch.Dispatch assert route.config.Load().(Config)",
  "route/route.go:SendFirstMatch.Dispatch assert route.config.Load().(Config)",
  "route/route.go:baseRoute.Flush assert route.config.Load().(Config)",
  "route/route.go:baseRoute.GetDestination assert route.config.Load().(Config)",
  "route/route.go:baseRoute.GetDestination index conf.Dests()[index]",
  "route/route.go:baseRoute.Match assert route.config.Load().(Config)",
  "route/route.go:baseRoute.Shutdown assert route.config.Load().(Config)",
  "route/route.go:baseRoute.addDestination assert route.config.Load().(Config)",
  "route/route.go:baseRoute.delDestination assert route.config.Load().(Config)",
  "route/route.go:baseRoute.delDestination index conf.Dests()[index]",
  "route/route.go:baseRoute.delDestination slice conf.Dests()[:index:index]",
  "route/route.go:baseRoute.delDestination slice conf.Dests()[index+1:]",
  "route/route.go:baseRoute.run assert route.config.Load().(Config)",
  "route/route.go:baseRoute.update assert route.config.Load().(Config)",
  "route/route.go:baseRoute.updateDestination assert route.config.Load().(Config)",
  "route/route.go:baseRoute.updateDestination index conf.Dests()[index]",
  "route/route.go:baseRoute.updateMatcher assert route.config.Load().(Config)",
  "route/route.go:makeSnapshot assert route.config.Load().(Config)",
  "route/route.go:makeSnapshot index dests[i]",
  "route/route.go:makeSnapshot make make([]*dest.Destination, len(conf.Dests()))",
  "route/route.go:metricName slice buf[:pos]",
  "table/table.go:Table.AddAggregator assert table.config.Load().(TableConfig)",
  "table/table.go:Table.AddBlacklist assert table.config.Load().(TableConfig)",
  "table/table.go:Table.AddRewriter assert table.config.Load().(TableConfig)",
  "table/table.go:Table.AddRoute assert table.config.Load().(TableConfig)",
  "table/table.go:Table.DelAggregator assert table.config.Load().(TableConfig)",
  "table/table.go:Table.DelAggregator index conf.aggregators[id]",
  "table/table.go:Table.DelAggregator slice conf.aggregators[:id:id]",
  "table/table.go:Table.DelAggregator slice conf.aggregators[id+1:]",
  "table/table.go:Table.DelBlacklist assert table.config.Load().(TableConfig)",
  "table/table.go:Table.DelBlacklist slice conf.blacklist[:index:index]",
  "table/table.go:Table.DelBlacklist slice conf.blacklist[index+1:]",
  "table/table.go:Table.DelRewriter assert table.config.Load().(TableConfig)",
  "table/table.go:Table.DelRewriter slice conf.rewriters[:id:id]",
  "table/table.go:Table.DelRewriter slice conf.rewriters[id+1:]",
  "table/table.go:Table.DelRoute assert table.config.Load().(TableConfig)",
  "table/table.go:Table.DelRoute slice conf.routes[:toDelete:toDelete]",
  "table/table.go:Table.DelRoute slice conf.routes[toDelete+1:]",
  "table/table.go:Table.Dispatch assert table.config.Load().(TableConfig)",
  "table/table.go:Table.Dispatch index fields[0]",
  "table/table.go:Table.Dispatch index fields[0]",
  "table/table.go:Table.Dispatch index fields[0]",
  "table/table.go:Table.Dispatch index fields[0]",
  "table/table.go:Table.Dispatch make make([]byte, len(buf))",
  "table/table.go:Table.DispatchAggregate assert table.config.Load().(TableConfig)",
  "table/table.go:Table.DispatchAggregate slice buf[:pos]",
  "table/table.go:Table.Flush assert table.config.Load().(TableConfig)",
  "table/table.go:Table.GetRoute assert table.config.Load().(TableConfig)",
  "table/table.go:Table.Shutdown assert table.config.Load().(TableConfig)",
  "table/table.go:Table.Snapshot assert table.config.Load().(TableConfig)",
  "table/table.go:Table.Snapshot index aggs[i]",
  "table/table.go:Table.Snapshot index blacklist[i]",
  "table/table.go:Table.Snapshot index rewriters[i]",
  "table/table.go:Table.Snapshot index routes[i]",
  "table/table.go:Table.Snapshot make make([]*aggregator.Aggregator, len(conf.aggregators))",
  "table/table.go:Table.Snapshot make make([]*matcher.Matcher, len(conf.blacklist))",
  "table/table.go:Table.Snapshot make make([]rewriter.RW, len(conf.rewriters))",
  "table/table.go:Table.Snapshot make make([]route.Snapshot, len(conf.routes))",
  "telnet/telnet.go:handleApiRequest slice buf[:n]",
  "validate/validate.go:LevelLegacy.UnmarshalText index levels[string(text)]",
  "validate/validate.go:LevelM20.UnmarshalText index levels[string(text)]"]

theorem inventory_ok : panicSites = examined := by decide +kernel

end Crng.Tie.C14
