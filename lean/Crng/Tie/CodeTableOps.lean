import Crng.Gen.CodeTableOps
import Crng.Gen.CodeRouteOps
import Crng.CodeSpec
/-! Obligations of the regenerated *code* layer, table/table.go mutators (value level; the slice-header level — that no
published snapshot is written to — is `Crng.Props.C18` / `Crng.GoSlice`): adding appends at the end and changes nothing
else; deleting by index removes that entry only; an index at or beyond the end is rejected with an error and leaves the
table unchanged; deleting a route by key removes the first route with that key only and shuts that one down; an unknown
key is a no-op without error. -/
namespace Crng.Tie.CodeTableOps
open Crng.Code Crng.Gen.Code Crng.CodeSpec

theorem addRoute_eq (t : Table) (r : RouteI) : t.AddRoute r = { t with config := { t.config with routes := t.config.routes ++ [r] } } := rfl
theorem addBlacklist_eq (t : Table) (m : MatcherI) : t.AddBlacklist m = { t with config := { t.config with blacklist := t.config.blacklist ++ [m] } } := rfl
theorem addAggregator_eq (t : Table) (a : AggregatorI) : t.AddAggregator a = { t with config := { t.config with aggregators := t.config.aggregators ++ [a] } } := rfl
theorem addRewriter_eq (t : Table) (rw : RewriterI) : t.AddRewriter rw = { t with config := { t.config with rewriters := t.config.rewriters ++ [rw] } } := rfl

/-- `append(s[:i:i], s[i+1:]...)` is the list without its `i`-th element -/
theorem cut_eq_eraseIdx {α} (l : List α) (i : Nat) :
    Lib.sliceTo l (i : Int) ++ Lib.sliceFrom l ((i : Int) + 1) = l.eraseIdx i := by
  simp only [Lib.sliceTo, Lib.sliceFrom, Int.toNat_natCast]
  rw [show ((i : Int) + 1).toNat = i + 1 from by omega]
  exact (List.eraseIdx_eq_take_drop_succ l i).symm

/-- **DelBlacklist (regenerated)** -/
theorem delBlacklist_eq (t : Table) (i : Nat) :
    t.DelBlacklist i =
      if i ≥ t.config.blacklist.length then ((some "Invalid index %d" : Err), t)
      else (none, { t with config := { t.config with blacklist := t.config.blacklist.eraseIdx i } }) := by
  unfold Table.DelBlacklist
  simp only [Lib.len, cut_eq_eraseIdx]
  by_cases h : i ≥ t.config.blacklist.length
  · have : (i : Int) ≥ (t.config.blacklist.length : Int) := by omega
    simp [h, this]
  · have : ¬ (i : Int) ≥ (t.config.blacklist.length : Int) := by omega
    simp [h, this]

/-- **DelRewriter (regenerated)** -/
theorem delRewriter_eq (t : Table) (i : Nat) :
    t.DelRewriter i =
      if i ≥ t.config.rewriters.length then ((some "Invalid index %d" : Err), t)
      else (none, { t with config := { t.config with rewriters := t.config.rewriters.eraseIdx i } }) := by
  unfold Table.DelRewriter
  simp only [Lib.len, cut_eq_eraseIdx]
  by_cases h : i ≥ t.config.rewriters.length
  · have : (i : Int) ≥ (t.config.rewriters.length : Int) := by omega
    simp [h, this]
  · have : ¬ (i : Int) ≥ (t.config.rewriters.length : Int) := by omega
    simp [h, this]

/-- **DelAggregator (regenerated)**: the removed aggregator, and only it, is shut down -/
theorem delAggregator_eq (t : Table) (i : Nat) :
    t.DelAggregator i =
      if h : i ≥ t.config.aggregators.length then ([], (some "Invalid index %d" : Err), t)
      else ((t.config.aggregators[i]'(by omega)).Shutdown.1,
            none, { t with config := { t.config with aggregators := t.config.aggregators.eraseIdx i } }) := by
  unfold Table.DelAggregator
  simp only [Lib.len, cut_eq_eraseIdx]
  by_cases h : i ≥ t.config.aggregators.length
  · have : (i : Int) ≥ (t.config.aggregators.length : Int) := by omega
    simp [h, this, Res.pure]
  · have h' : ¬ (i : Int) ≥ (t.config.aggregators.length : Int) := by omega
    have hi : i < t.config.aggregators.length := by omega
    have hidx : Lib.idx t.config.aggregators (i : Int) = t.config.aggregators[i] := by
      unfold Lib.idx
      rw [if_neg (by omega), Int.toNat_natCast, List.getD_eq_getElem?_getD, List.getElem?_eq_getElem hi, Option.getD_some]
    simp [h, h', hidx, Res.bind, Res.pure]

/-- the search loop of `DelRoute`: index and element of the first route with the key; `toDelete` stays -1 when there is none -/
theorem forRange_findKey (key : Bytes) (rs : List (Int × RouteI)) (i0 : Int) (r0 : RouteI) :
    (forRange (ρ := Err × Table) (fun (p : Int × RouteI) (s : Int × RouteI × Int) =>
        if (p.2.Key == key) = true then Res.pure (Step.brk (p.1, p.2, p.1)) else Res.pure (Step.next (p.1, p.2, s.2.2))) rs (i0, r0, -1)).1 = [] ∧
    match rs.find? (fun p => p.2.Key == key) with
    | some p => (forRange (ρ := Err × Table) (fun (p : Int × RouteI) (s : Int × RouteI × Int) =>
        if (p.2.Key == key) = true then Res.pure (Step.brk (p.1, p.2, p.1)) else Res.pure (Step.next (p.1, p.2, s.2.2))) rs (i0, r0, -1)).2 = Out.done (p.1, p.2, p.1)
    | none => ∃ a b, (forRange (ρ := Err × Table) (fun (p : Int × RouteI) (s : Int × RouteI × Int) =>
        if (p.2.Key == key) = true then Res.pure (Step.brk (p.1, p.2, p.1)) else Res.pure (Step.next (p.1, p.2, s.2.2))) rs (i0, r0, -1)).2 = Out.done (a, b, -1) := by
  induction rs generalizing i0 r0 with
  | nil => exact ⟨rfl, i0, r0, rfl⟩
  | cons p rs ih =>
    cases h : (p.2.Key == key)
    · rw [forRange_cons_next (t := []) (s' := (p.1, p.2, -1)) (by simp [h, Res.pure])]
      simp only [List.find?_cons, h, List.nil_append]
      exact ih p.1 p.2
    · rw [forRange_cons_brk (t := []) (s' := (p.1, p.2, p.1)) (by simp [h, Res.pure])]
      simp [List.find?_cons, h]

theorem enum_nonneg {α} (l : List α) : ∀ p ∈ Lib.enum l, 0 ≤ p.1 := by
  intro p hp
  simp only [Lib.enum, List.mem_map] at hp
  obtain ⟨q, _, rfl⟩ := hp
  exact Int.natCast_nonneg _

/-- **DelRoute (regenerated)**: an unknown key is a no-op without error; otherwise the first route carrying the key — and
no other entry — is removed, that route is shut down, and its shutdown error (if any) is what the caller gets -/
theorem delRoute_eq (t : Table) (key : Bytes) :
    t.DelRoute key =
      match (Lib.enum t.config.routes).find? (fun p => p.2.Key == key) with
      | none => ([], none, t)
      | some p => (p.2.Shutdown.1, p.2.Shutdown.2,
          { t with config := { t.config with routes := Lib.sliceTo t.config.routes p.1 ++ Lib.sliceFrom t.config.routes (p.1 + 1) } }) := by
  unfold Table.DelRoute
  have hk := forRange_findKey key (Lib.enum t.config.routes) default default
  simp only [] at hk ⊢
  generalize hfr : forRange (ρ := Err × Table) _ (Lib.enum t.config.routes) _ = fr at hk ⊢
  obtain ⟨tr, out⟩ := fr
  obtain ⟨h1, h2⟩ := hk
  simp only at h1; subst h1
  cases hf : (Lib.enum t.config.routes).find? (fun p => p.2.Key == key) with
  | none =>
    rw [hf] at h2
    obtain ⟨a, b, h2⟩ := h2
    simp only at h2; subst h2
    simp [Res.bind, Res.pure]
  | some p =>
    rw [hf] at h2
    simp only at h2; subst h2
    have hp : 0 ≤ p.1 := enum_nonneg _ _ (List.mem_of_find?_eq_some hf)
    have hne : (p.1 == -1) = false := by
      cases hq : (p.1 == -1) with
      | false => rfl
      | true => have : p.1 = -1 := by simpa using hq
                omega
    simp only [Res.bind, Res.pure, hne, Bool.false_eq_true, if_false, List.nil_append]
    cases hs : p.2.Shutdown.2 <;> simp [Lib.notNil, hs]

/-! ### route level: adding and deleting destinations (`baseRoute.addDestination` / `delDestination`; the config extender —
identity for carbon routes, "rebuild the hash ring" for consistent hashing — is a parameter) -/
/-- **addDestination (regenerated)**: the destination is started and appended; filter and the other destinations unchanged -/
theorem addDestination_eq (r : baseRoute) (d : DestI) (ext : Matcher × List DestI → BaseConfig) :
    r.addDestination d ext = ([Ev.call "dest.Run" d.id []], { r with config := ext (r.config.Matcher, r.config.Dests ++ [d]) }) := rfl

/-- **delDestination (regenerated)**: an index at or beyond the end is an error and leaves the route unchanged; otherwise that
destination — and only it — is shut down and removed -/
theorem delDestination_eq (r : baseRoute) (i : Nat) (ext : Matcher × List DestI → BaseConfig) :
    r.delDestination i ext =
      if h : i ≥ r.config.Dests.length then ([], (some "Invalid index %d" : Err), r)
      else ((r.config.Dests[i]'(by omega)).Shutdown.1, none, { r with config := ext (r.config.Matcher, r.config.Dests.eraseIdx i) }) := by
  unfold baseRoute.delDestination
  simp only [Lib.len, cut_eq_eraseIdx]
  by_cases h : i ≥ r.config.Dests.length
  · have : (i : Int) ≥ (r.config.Dests.length : Int) := by omega
    simp [h, this, Res.pure]
  · have h' : ¬ (i : Int) ≥ (r.config.Dests.length : Int) := by omega
    have hi : i < r.config.Dests.length := by omega
    have hidx : Lib.idx r.config.Dests (i : Int) = r.config.Dests[i] := by
      unfold Lib.idx
      rw [if_neg (by omega), Int.toNat_natCast, List.getD_eq_getElem?_getD, List.getElem?_eq_getElem hi, Option.getD_some]
    simp [h, h', hidx, Res.bind, Res.pure]

end Crng.Tie.CodeTableOps
