import Crng.Tie.CodeTable
import Crng.Tie.CodeRoute
import Crng.Tie.CodeMatcher
import Crng.Tie.CodeAgg
import Crng.Gen.CodeFilters
/-! The regenerated functions composed: a table whose blacklist entries, aggregators, routes and destinations are the
*translated* `Matcher.Match`, `Aggregator.AddMaybe`, `SendAllMatch.Dispatch` / `SendFirstMatch.Dispatch` plugged into the
interfaces `Table.Dispatch` calls through. The statements below are C01 and C11 end to end, about code regenerated from
/repo on this run: which destination queues receive which bytes for an accepted line, and when a raw metric is withheld. -/
namespace Crng.Tie.CodeCompose
open Crng.Code Crng.Gen.Code Crng.CodeSpec Crng.Tie.CodeRoute

/-- a destination as a route sees it: its filter is the translated `Matcher.Match` -/
def destOf (id : Nat) (m : Matcher) : DestI := { id, Match := m.Match }
/-- a carbon route as the table sees it -/
def sendAllRoute (id : Nat) (key : Bytes) (m : Matcher) (ds : List DestI) : RouteI :=
  { id, Key := key, Match := m.Match, Dispatch := (SendAllMatch.mk ⟨ds⟩).Dispatch, Shutdown := ([], none) }
def sendFirstRoute (id : Nat) (key : Bytes) (m : Matcher) (ds : List DestI) : RouteI :=
  { id, Key := key, Match := m.Match, Dispatch := (SendFirstMatch.mk ⟨ds⟩).Dispatch, Shutdown := ([], none) }
/-- an aggregator as the table sees it: the translated `AddMaybe` -/
def aggOf (a : Aggregator) : AggregatorI := { id := a.id, AddMaybe := a.AddMaybe, Shutdown := ([], ()) }
/-- a blacklist entry -/
def blackOf (id : Nat) (m : Matcher) : MatcherI := ⟨id, m.Match⟩

/-- the filter of a real destination / carbon route is its matcher's (translated) `Match`: `Destination.Match` and
`baseRoute.Match` only take the lock / load the published config around it -/
theorem destination_match_eq (d : Destination) (s : Bytes) : d.Match s = d.Matcher.Match s := rfl
theorem baseRoute_match_eq (r : baseRoute) (s : Bytes) : r.Match s = r.config.Matcher.Match s := rfl
/-- … so, with sound derived prefixes, both decide by the documented six-condition conjunction on what they are given -/
theorem destination_match_spec (d : Destination) (h : (Crng.Tie.CodeMatcher.absM d.Matcher).PrefixOK) (s : Bytes) :
    d.Match s = (Crng.Tie.CodeMatcher.absM d.Matcher).spec s := by
  rw [destination_match_eq]; exact Crng.Tie.CodeMatcher.matcher_match_spec _ h s
theorem baseRoute_match_spec (r : baseRoute) (h : (Crng.Tie.CodeMatcher.absM r.config.Matcher).PrefixOK) (s : Bytes) :
    r.Match s = (Crng.Tie.CodeMatcher.absM r.config.Matcher).spec s := by
  rw [baseRoute_match_eq]; exact Crng.Tie.CodeMatcher.matcher_match_spec _ h s

/-- hand-offs into destination queues -/
def isDestSend : Ev → Bool
  | .call name _ _ => name == "dest.In<-"

theorem sendAllRoute_dispatch (id : Nat) (key : Bytes) (m : Matcher) (ds : List DestI) (final : Bytes) :
    ((sendAllRoute id key m ds).Dispatch final).1 = (ds.filter (·.Match (metricName final))).map (sendEv final) :=
  sendAll_trace _ _
theorem sendFirstRoute_dispatch (id : Nat) (key : Bytes) (m : Matcher) (ds : List DestI) (final : Bytes) :
    ((sendFirstRoute id key m ds).Dispatch final).1 = ((ds.filter (·.Match (metricName final))).take 1).map (sendEv final) :=
  sendFirst_trace _ _

/-- the aggregator stage made of translated `AddMaybe`s hands nothing to a destination queue -/
theorem aggTrace_no_dest_send (fields : List Bytes) (val : F64) (ts : Int) (as : List Aggregator) :
    ((aggTrace fields val ts (as.map aggOf)).1.filter isDestSend) = [] := by
  induction as with
  | nil => rfl
  | cons a as ih =>
    simp only [List.map_cons, aggTrace, aggOf] at ih ⊢
    have h1 : ((a.AddMaybe fields val ts).1.filter isDestSend) = [] := by
      rw [Crng.Tie.CodeAgg.addMaybe_eq]; simp only []; split <;> simp [isDestSend]
    split <;> simp [List.filter_append, h1, ih]

/-- the raw metric is withheld from the routes exactly when some drop-raw aggregator's cheap filter passes and its
(cached) regex stage confirms — C11's "exactly those raw metrics the aggregation consumes" -/
theorem consumed_iff (fields : List Bytes) (val : F64) (ts : Int) (as : List Aggregator) :
    (aggTrace fields val ts (as.map aggOf)).2 =
      as.any (fun a => a.DropRaw && a.Matcher.PreMatch (Lib.idx fields 0) && (a.matchWithCache (Lib.idx fields 0)).2) := by
  induction as with
  | nil => rfl
  | cons a as ih =>
    simp only [List.map_cons, aggTrace, List.any_cons]
    have h2 : ((aggOf a).AddMaybe fields val ts).2 =
        (a.Matcher.PreMatch (Lib.idx fields 0) && (!a.DropRaw || (a.matchWithCache (Lib.idx fields 0)).2) && a.DropRaw) := by
      simp only [aggOf]; rw [Crng.Tie.CodeAgg.addMaybe_eq]
    cases hp : a.Matcher.PreMatch (Lib.idx fields 0) <;> cases hd : a.DropRaw <;> cases hm : (a.matchWithCache (Lib.idx fields 0)).2 <;>
      simp [h2, hp, hd, hm, ih]

/-- **C01 end to end on the regenerated code.** For a line that the validator accepts, that is in order, not blacklisted
and not withheld by a drop-raw aggregation, the hand-offs into destination queues made by `Table.Dispatch` are exactly:
for each route, in table order, whose filter accepts the rewritten name — that route's hand-offs of the re-joined line
(for a send-all route: every destination whose filter accepts the line's name, in configured order, each once; for a
send-first route: the first of them). Nothing else is handed to any destination. -/
theorem dispatch_dest_sends (E : Env) (t : Table) (as : List Aggregator) (buf key : Bytes) (val : F64) (ts : Int)
    (hag : t.config.aggregators = as.map aggOf)
    (hv : E.m20_ValidatePacket buf t.config.Validation_level_legacy.Level t.config.Validation_level_m20.Level = (key, val, ts, none))
    (ho : t.config.Validate_order = false ∨ E.validate_Ordered key ts = none)
    (hb : t.config.blacklist.any (fun m => m.Match (Lib.idx (Lib.bytes_Fields buf) 0)) = false)
    (hc : (aggTrace (rewriteFields t.config.rewriters (Lib.bytes_Fields buf)) val ts t.config.aggregators).2 = false) :
    (t.Dispatch E buf).1.filter isDestSend =
      ((t.config.routes.filter (·.Match (Lib.idx (rewriteFields t.config.rewriters (Lib.bytes_Fields buf)) 0))).flatMap
        fun r => (r.Dispatch (Lib.bytes_Join (rewriteFields t.config.rewriters (Lib.bytes_Fields buf)) [32])).1).filter isDestSend := by
  rw [Crng.Tie.CodeTable.dispatch_accepted E t buf key val ts hv ho hb]
  simp only [hc, Bool.false_eq_true, if_false, List.filter_cons, List.filter_append]
  have h0 : isDestSend (inc "table.numIn.Inc") = false := rfl
  have h1 := aggTrace_no_dest_send (rewriteFields t.config.rewriters (Lib.bytes_Fields buf)) val ts as
  rw [← hag] at h1
  simp only [h0, Bool.false_eq_true, if_false, h1, List.nil_append, routeStage, routeTrace, List.filter_append]
  split <;> simp [isDestSend, inc]

/-- … and a blacklisted, invalid or out-of-order line is handed to no destination at all -/
theorem rejected_no_dest_sends (E : Env) (t : Table) (buf : Bytes)
    (h : (E.m20_ValidatePacket buf t.config.Validation_level_legacy.Level t.config.Validation_level_m20.Level).2.2.2.isSome = true ∨
         (t.config.Validate_order = true ∧ (E.validate_Ordered
            (E.m20_ValidatePacket buf t.config.Validation_level_legacy.Level t.config.Validation_level_m20.Level).1
            (E.m20_ValidatePacket buf t.config.Validation_level_legacy.Level t.config.Validation_level_m20.Level).2.2.1).isSome = true) ∨
         t.config.blacklist.any (fun m => m.Match (Lib.idx (Lib.bytes_Fields buf) 0)) = true) :
    (t.Dispatch E buf).1.filter isDestSend = [] := by
  rw [Crng.Tie.CodeTable.table_dispatch_trace]
  unfold tableTrace
  rcases h with h | ⟨h1, h2⟩ | h
  · simp [h, isDestSend, inc]
  · by_cases hv : (E.m20_ValidatePacket buf t.config.Validation_level_legacy.Level t.config.Validation_level_m20.Level).2.2.2.isSome = true
    · simp [hv, isDestSend, inc]
    · simp [hv, h1, h2, isDestSend, inc]
  · by_cases hv : (E.m20_ValidatePacket buf t.config.Validation_level_legacy.Level t.config.Validation_level_m20.Level).2.2.2.isSome = true
    · simp [hv, isDestSend, inc]
    · by_cases h2 : (t.config.Validate_order && (E.validate_Ordered
            (E.m20_ValidatePacket buf t.config.Validation_level_legacy.Level t.config.Validation_level_m20.Level).1
            (E.m20_ValidatePacket buf t.config.Validation_level_legacy.Level t.config.Validation_level_m20.Level).2.2.1).isSome) = true
      · simp [hv, h2, isDestSend, inc]
      · simp [hv, h2, h, isDestSend, inc]

end Crng.Tie.CodeCompose
