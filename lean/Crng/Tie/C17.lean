import Crng.Tie.Util
import Crng.Gen.Skel
/-! regenerated obligations for C17 -/
namespace Crng.Tie.C17
open Crng.Tie

/-- the retry loop leaves only on success, counts each failure, re-instantiates the same body -/
theorem retry_ok : isSubseq
    ["0 if len(metrics) == 0", "1 return metrics", "0 assign body := buffer.Bytes()", "0 for ; ; ", "1 assign dur, err = route.flush(mda, req)",
     "1 if err == nil", "2 branch break", "1 call route.numErrFlush.Inc(1)", "1 call time.Sleep(b)",
     "1 assign req.Body = ioutil.NopCloser(bytes.NewReader(body))", "0 return metrics[:0]"]
    Crng.Gen.skel_route_GrafanaNet_retryFlush = true := by decide +kernel

/-- a request counts as acknowledged only with a 2xx status; transport errors and other statuses are errors -/
theorem flush_ok :
    (isSubseq ["0 assign resp, err := route.client.Do(req)", "0 if err != nil", "1 return dur, err", "0 if resp.StatusCode >= 200 && resp.StatusCode < 300",
               "1 return dur, nil", "0 return dur, fmt.Errorf(\"http %d - %s\", resp.StatusCode, buf[:n])"] Crng.Gen.skel_route_GrafanaNet_flush &&
     (containing "return dur, nil" Crng.Gen.skel_route_GrafanaNet_flush).all (fun s => s.startsWith "1 " || s.startsWith "2 ")) = true := by decide +kernel

/-- worker: Done deferred; a received metric joins the batch, a full batch is flushed; the timer flushes; the shutdown branch
drains the shard queue, flushes and returns -/
theorem run_ok : isSubseq
    ["0 defer route.wg.Done()", "2 case buf := <-in", "3 if add(buf)", "2 case <-timer.C", "3 assign metrics = route.retryFlush(metrics, buffer)",
     "2 case <-route.shutdown", "5 case buf := <-in", "6 call add(buf)", "6 branch continue", "5 default ", "4 branch break",
     "3 assign metrics = route.retryFlush(metrics, buffer)", "3 return "]
    Crng.Gen.skel_route_GrafanaNet_run = true := by decide +kernel

/-- shutdown reaches every worker (close) and waits for all of them -/
theorem shutdown_ok : Crng.Gen.skel_route_GrafanaNet_Shutdown = ["0 call close(route.shutdown)", "0 call route.wg.Wait()", "0 return nil"] := by decide +kernel

/-- sharding: FNV-1a 32 of the text before the first space, modulo the concurrency -/
theorem shard_ok : Crng.Gen.skel_route_GrafanaNet_Dispatch =
    ["0 assign buf = bytes.TrimSpace(buf)", "0 assign index := bytes.Index(buf, []byte(\" \"))", "0 if index == -1", "1 return ",
     "0 assign key := buf[:index]", "0 assign hasher := fnv.New32a()", "0 call hasher.Write(key)",
     "0 assign shard := int(hasher.Sum32() % uint32(route.Cfg.Concurrency))",
     "0 call route.dispatch(route.in[shard], buf, route.numBuffered, route.numDropBuffFull)"] := by decide +kernel

/-- non-blocking mode never waits and counts every drop; blocking mode never drops -/
theorem modes_ok :
    (Crng.Gen.skel_route_dispatchNonBlocking == ["0 select ", "1 case buf <- in", "2 call gauge.Inc(1)", "1 default ", "2 call drops.Inc(1)"] &&
     Crng.Gen.skel_route_dispatchBlocking == ["0 call gauge.Inc(1)", "0 send buf <- in"]) = true := by decide +kernel

end Crng.Tie.C17
