import Crng.Gen.CodePickleItems
import Crng.CodeSpec
/-! Obligations of the regenerated *code* layer, input/pickle.go: the item loop of `Pickle.Handle` (the statement labelled
`ItemLoop`), as translated from /repo on this run, turns each decoded item `(name, (timestamp, value))` — tuple or list at
both levels, name a string, timestamp and value a string, an integer (any width, or a long) or a float — into the plain-text
line `name value timestamp` and hands it to the dispatcher, in order; every other item is counted invalid, once, and skipped
without affecting the items after it (C13's "a structurally invalid item … is counted as invalid and skipped"). The
conversions `%d`, `%f`, `%.0f` are Go's (parameter `Fmt`; `Crng.FloatFmt` is the validated model), og-rek's decoder is
external (`PyVal` is what it hands over). -/
namespace Crng.Tie.CodePickleItems
open Crng.Code Crng.Gen.Code Crng.CodeSpec

def pair : PyVal → Option (PyVal × PyVal)
  | .tuple [a, b] => some (a, b)
  | .list [a, b] => some (a, b)
  | _ => none

/-- a scalar as text: strings verbatim, integers `%d`, floats with the given float format -/
def scalar (fmt : Fmt) (ff : PyVal → Bytes) : PyVal → Option Bytes
  | .str s => some s
  | .int z => some (fmt.d (.int z))
  | .big z => some (fmt.d (.big z))
  | .float b => some (ff (.float b))
  | _ => none

/-- one item → its plain-text line, or `none` = invalid -/
def itemLine (fmt : Fmt) (item : PyVal) : Option Bytes :=
  match pair item with
  | none => none
  | some (nameV, dataV) =>
    match nameV with
    | .str name =>
      match pair dataV with
      | none => none
      | some (tsV, valV) =>
        match scalar fmt fmt.f valV, scalar fmt fmt.f0 tsV with
        | some v, some t => some (name ++ [32] ++ v ++ [32] ++ t)
        | _, _ => none
    | _ => none

def itemTrace (p : PickleP) (item : PyVal) : List Ev :=
  match itemLine p.fmt item with
  | none => [Ev.call "p.dispatcher.IncNumInvalid" 0 []]
  | some l => (p.dispatcher.Dispatch l).1

theorem forRange_each {α : Type} (body : α → Unit → Res (Step Unit Unit)) (tr : α → List Ev)
    (h : ∀ x, body x () = (tr x, Step.next ())) (xs : List α) :
    forRange body xs () = (xs.flatMap tr, Out.done ()) := by
  induction xs with
  | nil => rfl
  | cons x xs ih => rw [forRange_cons_next (h x), ih]; simp

theorem hadd (x y : Bytes) : x + y = x ++ y := rfl

set_option maxRecDepth 8000 in
set_option maxHeartbeats 1600000 in
theorem items_trace (p : PickleP) (decoded : List PyVal) :
    (Pickle_Handle_items p decoded).1 = decoded.flatMap (itemTrace p) := by
  unfold Pickle_Handle_items
  rw [forRange_each _ (itemTrace p)]
  · simp [Res.bind, Res.pure]
  · intro rawItem
    simp only [itemTrace, itemLine]
    cases rawItem with
    | tuple l =>
      simp only []
      rcases l with _ | ⟨a, _ | ⟨b, _ | ⟨c, r⟩⟩⟩
      · simp [pair, Lib.len, emit, Res.pure]
      · simp [pair, Lib.len, emit, Res.pure]
      · cases a <;> simp [pair, Lib.len, Lib.idx, Lib.asString, emit, Res.pure]
        cases b <;> simp [pair, emit, Res.pure]
        all_goals (rename_i v; rcases v with _ | ⟨t, _ | ⟨w, _ | ⟨c2, r2⟩⟩⟩ <;> simp [pair, Lib.len, Lib.idx, emit, Res.pure])
        all_goals (cases w <;> cases t <;> simp [scalar, Lib.asString, Res.bind, Res.pure, emit, hadd])
        all_goals (try (intro h; exfalso; omega))
      · simp [pair, Lib.len, emit, Res.pure]
        omega
    | list l =>
      simp only []
      rcases l with _ | ⟨a, _ | ⟨b, _ | ⟨c, r⟩⟩⟩
      · simp [pair, Lib.len, emit, Res.pure]
      · simp [pair, Lib.len, emit, Res.pure]
      · cases a <;> simp [pair, Lib.len, Lib.idx, Lib.asString, emit, Res.pure]
        cases b <;> simp [pair, emit, Res.pure]
        all_goals (rename_i v; rcases v with _ | ⟨t, _ | ⟨w, _ | ⟨c2, r2⟩⟩⟩ <;> simp [pair, Lib.len, Lib.idx, emit, Res.pure])
        all_goals (cases w <;> cases t <;> simp [scalar, Lib.asString, Res.bind, Res.pure, emit, hadd])
        all_goals (try (intro h; exfalso; omega))
      · simp [pair, Lib.len, emit, Res.pure]
        omega
    | _ => simp [pair, emit, Res.pure]

/-- an invalid item does not affect the others: the trace of a frame is the concatenation of its items' traces, each
item's own depending on that item alone (this is the theorem: `itemTrace p x` has no other argument) -/
theorem item_independence (p : PickleP) (pre post : List PyVal) (x : PyVal) :
    (Pickle_Handle_items p (pre ++ x :: post)).1 =
      (Pickle_Handle_items p pre).1 ++ itemTrace p x ++ (Pickle_Handle_items p post).1 := by
  simp [items_trace]

/-- a well-formed item is dispatched as `name value timestamp` -/
example (p : PickleP) :
    itemLine p.fmt (.tuple [.str [97], .tuple [.str [49], .str [50]]]) = some [97, 32, 50, 32, 49] := rfl

end Crng.Tie.CodePickleItems
