import Crng.Tie.Util
import Crng.Gen.Skel
/-! regenerated obligations for C13 -/
namespace Crng.Tie.C13
open Crng.Tie

/-- the frame loop: 4-byte big-endian length, clean EOF only at a frame boundary, 500 MiB cap, prefix check, exact payload read -/
theorem frame_ok : isSubseq
    ["0 assign r := bufio.NewReaderSize(c, 4096)", "0 assign maxLength := 500 * 1024 * 1024",
     "1 assign err := binary.Read(r, binary.BigEndian, &length)", "1 if err != nil", "2 if err != io.EOF", "2 return nil",
     "1 assign lengthTotal := int(length)", "1 if lengthTotal > maxLength", "1 if err := checkProtocol(r); err != nil", "2 return err",
     "2 assign toRead := lengthTotal - lengthRead", "2 if toRead > chunkLength", "3 assign toRead = chunkLength",
     "2 assign tmpLengthRead, err := r.Read(chunk[:toRead])", "2 assign lengthRead += tmpLengthRead",
     "2 call payload.Write(chunk[:tmpLengthRead])", "2 if lengthRead == lengthTotal", "3 branch break"]
    Crng.Gen.skel_input_Pickle_Handle = true := by decide +kernel

/-- every structural rejection is `IncNumInvalid` followed by `continue`; the conversion verbs -/
theorem items_ok :
    (count "3 call p.dispatcher.IncNumInvalid()" Crng.Gen.skel_input_Pickle_Handle +
       count "4 call p.dispatcher.IncNumInvalid()" Crng.Gen.skel_input_Pickle_Handle == 7 &&
     isSubseq ["4 assign value = fmt.Sprintf(\"%d\", data[1])", "4 assign value = fmt.Sprintf(\"%f\", data[1])",
               "4 assign timestamp = fmt.Sprintf(\"%d\", data[0])", "4 assign timestamp = fmt.Sprintf(\"%.0f\", data[0])",
               "2 assign buf := []byte(metric + \" \" + value + \" \" + timestamp)", "2 call p.dispatcher.Dispatch(buf)"]
       Crng.Gen.skel_input_Pickle_Handle) = true := by decide +kernel

end Crng.Tie.C13
