import Crng.Tie.Util
import Crng.Gen.Skel
/-! regenerated obligations for C11 -/
namespace Crng.Tie.C11
open Crng.Tie

/-- what arrives on `Table.In` (where aggregators write) is handed to `DispatchAggregate`, nothing else -/
theorem tableIn_ok : count "0 go func() { for buf := range t.In { t.DispatchAggregate(buf) } }()" Crng.Gen.skel_table_New = 1 := by decide +kernel

/-- `DispatchAggregate` consists of the route loop only: no validation, blacklist, rewriter, aggregator -/
theorem dispatchAggregate_ok : Crng.Gen.skel_table_Table_DispatchAggregate =
    ["0 assign conf := table.config.Load().(TableConfig)", "0 assign routed := false", "0 assign name := buf",
     "0 if pos := bytes.IndexByte(buf, ' '); pos >= 0", "1 assign name = buf[:pos]",
     "0 range _, route := range conf.routes", "1 if route.Match(name)", "2 assign routed = true", "2 call route.Dispatch(buf)",
     "0 if !routed", "1 call table.numUnroutable.Inc(1)"] := by decide +kernel

/-- `AddMaybe`: pre-match; for drop-raw the confirmed (regex) match comes before the hand-off; drop-raw is reported only
after the hand-off -/
theorem addMaybe_ok : Crng.Gen.skel_aggregator_Aggregator_AddMaybe =
    ["0 if !a.Matcher.PreMatch(buf[0])", "1 return false", "0 if a.DropRaw", "1 assign _, ok := a.matchWithCache(buf[0])",
     "1 if !ok", "2 return false", "0 send a.in <- msg{ buf, val, ts, }", "0 return a.DropRaw"] := by decide +kernel

/-- in `Dispatch` the aggregator loop returns on drop-raw before the route loop -/
theorem dropRaw_return_ok : isInfix
    ["0 range _, aggregator := range conf.aggregators", "1 assign dropRaw := aggregator.AddMaybe(fields, val, ts)", "1 if dropRaw", "2 return "]
    Crng.Gen.skel_table_Table_Dispatch = true := by decide +kernel

end Crng.Tie.C11
