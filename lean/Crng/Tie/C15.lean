import Crng.Tie.Util
import Crng.Gen.Skel
/-! regenerated obligations for C15 -/
namespace Crng.Tie.C15
open Crng.Tie

theorem replicas_ok : Crng.Gen.skel_route_NewConsistentHasher = ["0 return NewConsistentHasherReplicaCount(destinations, 100)"] := by decide +kernel

/-- replica key `('host', 'inst'):n` / `('host', None):n`, host without the port -/
theorem key_ok : isSubseq
    ["0 for i := 0; i < h.replicaCount; i++", "1 assign server := strings.Split(d.Addr, \":\")", "1 call keyBuf.WriteString(\"('\")",
     "1 call keyBuf.WriteString(server[0])", "1 call keyBuf.WriteString(\"', \")", "1 if d.Instance != \"\"", "2 call keyBuf.WriteString(\"'\")",
     "2 call keyBuf.WriteString(d.Instance)", "2 call keyBuf.WriteString(\"'\")", "1 else ", "2 call keyBuf.WriteString(\"None\")",
     "1 call keyBuf.WriteString(\")\")", "1 call keyBuf.WriteString(\":\")", "1 call keyBuf.WriteString(strconv.Itoa(i))",
     "1 assign position := computeRingPosition(keyBuf.Bytes())", "1 assign newRingEntries[i].Position = position",
     "1 assign newRingEntries[i].Hostname = server[0]", "1 assign newRingEntries[i].Instance = d.Instance",
     "0 assign h.Ring = append(h.Ring, newRingEntries...)", "0 call sort.Sort(h.Ring)"]
    Crng.Gen.skel_route_ConsistentHasher_AddDestination = true := by decide +kernel

theorem position_ok : Crng.Gen.skel_route_computeRingPosition =
    ["0 decl var Position uint16", "0 assign hash := md5.Sum(key)", "0 assign buf := bytes.NewReader(hash[0:2])",
     "0 call binary.Read(buf, binary.BigEndian, &Position)", "0 return Position"] := by decide +kernel

theorem less_ok : Crng.Gen.skel_route_hashRing_Less =
    ["0 return r[i].Position < r[j].Position || (r[i].Position == r[j].Position && r[i].Hostname < r[j].Hostname) || (r[i].Position == r[j].Position && r[i].Hostname == r[j].Hostname && r[i].Instance < r[j].Instance)"] := by decide +kernel

/-- bisect-left, wrap by modulo -/
theorem lookup_ok : Crng.Gen.skel_route_ConsistentHasher_GetDestinationIndex =
    ["0 assign position := computeRingPosition(key)",
     "0 assign index := sort.Search(len(h.Ring), func(i int) bool { return h.Ring[i].Position >= position }) % len(h.Ring)",
     "0 return h.Ring[index].DestinationIndex"] := by decide +kernel

/-- the hasher is rebuilt from the destination list by every mutator of a hashing route -/
theorem rebuilt_ok :
    (Crng.Gen.skel_route_consistentHashingConfigExtender == ["0 assign hasher := NewConsistentHasher(baseConfig.Dests())", "0 return consistentHashingConfig{baseConfig, &hasher}"] &&
     Crng.Gen.skel_route_ConsistentHashing_Add == ["0 call route.addDestination(dest, consistentHashingConfigExtender)"] &&
     isSubseq ["0 return route.delDestination(index, consistentHashingConfigExtender)"] Crng.Gen.skel_route_ConsistentHashing_DelDestination &&
     isSubseq ["0 assign hasher := NewConsistentHasher(destinations)"] Crng.Gen.skel_route_NewConsistentHashing) = true := by decide +kernel

/-- the key is the text before the first space -/
theorem dispatch_ok : isSubseq
    ["0 if pos := bytes.IndexByte(buf, ' '); pos > 0", "1 assign name := buf[0:pos]",
     "1 assign dest := conf.Dests()[conf.Hasher.GetDestinationIndex(name)]", "1 send dest.In <- buf"]
    Crng.Gen.skel_route_ConsistentHashing_Dispatch = true := by decide +kernel

end Crng.Tie.C15
