import Crng.Gen.CodeTable
import Crng.CodeSpec
/-! Obligations of the regenerated *code* layer, table/table.go: the trace of `Table.Dispatch` and of
`Table.DispatchAggregate` as translated from /repo's Go source on this run equals the closed form of `Crng.CodeSpec`, for
every table, validator, order validator, blacklist, rewriter, aggregator, route and input. The closed form is the
statement of C01 / C02 / C11 / C19 about the table: received counted once and first; an invalid line is counted, reported
and goes nowhere; order validation sits after validation and before the blacklist; a blacklisted line is counted and goes
nowhere; rewriters apply to the first field in order; aggregators are offered the point in order until one withholds
it; the routes whose filter accepts the rewritten name get the re-joined line, each once, in order; unroutable is
counted exactly when there is none; aggregate output only meets the routes. -/
namespace Crng.Tie.CodeTable
open Crng.Code Crng.Gen.Code Crng.CodeSpec

/-- **Table.Dispatch (regenerated) has exactly the trace `tableTrace`** -/
theorem table_dispatch_trace (E : Env) (t : Table) (buf : Bytes) : (t.Dispatch E buf).1 = tableTrace E t buf := by
  unfold Table.Dispatch tableTrace
  simp only [Lib.copy_make, forRange_find, forRange_fold, forRange_agg, forRange_routes]
  rcases hv : E.m20_ValidatePacket buf t.config.Validation_level_legacy.Level t.config.Validation_level_m20.Level with ⟨key, val, ts, err⟩
  simp only [hv, emit_fst, inc]
  congr 1
  cases err with
  | some e => simp [Lib.notNil, emit, Res.pure]
  | none =>
    simp only [Lib.notNil, Option.isSome_none, Bool.false_eq_true, if_false]
    cases hb : (t.config.blacklist.any fun m => m.Match (Lib.idx (Lib.bytes_Fields buf) 0)) <;>
    cases ha : (aggTrace (rewriteFields t.config.rewriters (Lib.bytes_Fields buf)) val ts t.config.aggregators).snd <;>
    cases hr : (t.config.routes.any fun x => x.Match (Lib.idx (rewriteFields t.config.rewriters (Lib.bytes_Fields buf)) 0)) <;>
    cases ho : t.config.Validate_order <;>
    cases hq : E.validate_Ordered key ts <;>
    simp only [rewriteFields] at ha hr <;>
    simp [rewriteFields, routeStage, Res.bind, Res.pure, emit, inc, ha, hr]

/-- **Table.DispatchAggregate (regenerated) has exactly the trace `aggregateTrace`**: routes only -/
theorem table_dispatchAggregate_trace (t : Table) (buf : Bytes) : (t.DispatchAggregate buf).1 = aggregateTrace t buf := by
  unfold Table.DispatchAggregate aggregateTrace
  simp only [forRange_routes]
  by_cases hp : Lib.bytes_IndexByte buf 32 ≥ 0 <;>
  simp only [hp, decide_true, decide_false, if_true, if_false, Bool.false_eq_true]
  · cases hr : (t.config.routes.any fun x => x.Match (Lib.sliceTo buf (Lib.bytes_IndexByte buf 32))) <;>
      simp [routeStage, Res.bind, Res.pure, emit, inc, hr]
  · cases hr : (t.config.routes.any fun x => x.Match buf) <;>
      simp [routeStage, Res.bind, Res.pure, emit, inc, hr]

/-! corollaries, stated on the regenerated function -/
/-- C02: a line the validator rejects is counted in, reported with its text and reason, counted invalid — and nothing else
happens (no aggregator, no route, no other counter) -/
theorem dispatch_invalid (E : Env) (t : Table) (buf key : Bytes) (val : F64) (ts : Int) (e : String)
    (hv : E.m20_ValidatePacket buf t.config.Validation_level_legacy.Level t.config.Validation_level_m20.Level = (key, val, ts, some e)) :
    (t.Dispatch E buf).1 = [inc "table.numIn.Inc", Ev.call "table.bad.Add" 0 [arg key, arg buf, arg (some e : Err)], inc "table.numInvalid.Inc"] := by
  rw [table_dispatch_trace]; simp [tableTrace, hv]

/-- C19: with order validation on, a valid point the order validator rejects is counted out-of-order, reported, and goes
nowhere; the blacklist is not even consulted -/
theorem dispatch_out_of_order (E : Env) (t : Table) (buf key : Bytes) (val : F64) (ts : Int) (e : String)
    (hv : E.m20_ValidatePacket buf t.config.Validation_level_legacy.Level t.config.Validation_level_m20.Level = (key, val, ts, none))
    (ho : t.config.Validate_order = true) (hq : E.validate_Ordered key ts = some e) :
    (t.Dispatch E buf).1 = [inc "table.numIn.Inc", Ev.call "table.bad.Add" 0 [arg key, arg buf, arg (some e : Err)], inc "table.numOutOfOrder.Inc"] := by
  rw [table_dispatch_trace]; simp [tableTrace, hv, ho, hq]

/-- C19: with order validation off, `validate.Ordered` has no influence at all -/
theorem dispatch_order_off (E E' : Env) (t : Table) (buf : Bytes) (ho : t.config.Validate_order = false)
    (hE : E'.m20_ValidatePacket = E.m20_ValidatePacket) : (t.Dispatch E' buf).1 = (t.Dispatch E buf).1 := by
  rw [table_dispatch_trace, table_dispatch_trace]; simp [tableTrace, ho, hE]

/-- C01: a valid, in-order line whose first field a blacklist entry accepts is counted blacklisted and goes nowhere -/
theorem dispatch_blacklisted (E : Env) (t : Table) (buf key : Bytes) (val : F64) (ts : Int)
    (hv : E.m20_ValidatePacket buf t.config.Validation_level_legacy.Level t.config.Validation_level_m20.Level = (key, val, ts, none))
    (ho : t.config.Validate_order = false ∨ E.validate_Ordered key ts = none)
    (hb : t.config.blacklist.any (fun m => m.Match (Lib.idx (Lib.bytes_Fields buf) 0)) = true) :
    (t.Dispatch E buf).1 = [inc "table.numIn.Inc", inc "table.numBlacklist.Inc"] := by
  rw [table_dispatch_trace]
  rcases ho with ho | ho <;> simp [tableTrace, hv, ho, hb]

/-- C01 / C04 / C11: an accepted line: aggregators in order until one withholds it; otherwise exactly the routes whose
filter accepts the rewritten first field get the single-space re-joined line, and unroutable is counted iff none does -/
theorem dispatch_accepted (E : Env) (t : Table) (buf key : Bytes) (val : F64) (ts : Int)
    (hv : E.m20_ValidatePacket buf t.config.Validation_level_legacy.Level t.config.Validation_level_m20.Level = (key, val, ts, none))
    (ho : t.config.Validate_order = false ∨ E.validate_Ordered key ts = none)
    (hb : t.config.blacklist.any (fun m => m.Match (Lib.idx (Lib.bytes_Fields buf) 0)) = false) :
    (t.Dispatch E buf).1 =
      inc "table.numIn.Inc" ::
        ((aggTrace (rewriteFields t.config.rewriters (Lib.bytes_Fields buf)) val ts t.config.aggregators).1 ++
          if (aggTrace (rewriteFields t.config.rewriters (Lib.bytes_Fields buf)) val ts t.config.aggregators).2 then []
          else routeStage (Lib.idx (rewriteFields t.config.rewriters (Lib.bytes_Fields buf)) 0)
            (Lib.bytes_Join (rewriteFields t.config.rewriters (Lib.bytes_Fields buf)) [32]) t.config.routes) := by
  rw [table_dispatch_trace]
  rcases ho with ho | ho <;> simp [tableTrace, hv, ho, hb]

/-- the rewriter loop rewrites the first field with the rules in order and leaves the other fields alone -/
theorem rewriteFields_eq (rws : List RewriterI) (f : Bytes) (rest : List Bytes) :
    rewriteFields rws (f :: rest) = rws.foldl (fun n rw => rw.Do n) f :: rest := by
  unfold rewriteFields
  induction rws generalizing f with
  | nil => rfl
  | cons rw rws ih => simp only [List.foldl_cons]; rw [show Lib.set (f :: rest) 0 (rw.Do (Lib.idx (f :: rest) 0)) = rw.Do f :: rest from by simp [Lib.set, Lib.idx]]; exact ih _

/-- a three-field line is re-joined with single spaces -/
theorem join3 (a b c : Bytes) : Lib.bytes_Join [a, b, c] [32] = a ++ [32] ++ b ++ [32] ++ c := by
  simp [Lib.bytes_Join]

/-- the premises of the corollaries are satisfiable: a one-route table forwards `a 1 2` to that route -/
example :
    let E : Env := { (default : Env) with m20_ValidatePacket := fun b _ _ => (b.take 1, 0, 2, none), validate_Ordered := fun _ _ => none }
    let r : RouteI := { id := 7, Key := [], Match := fun _ => true, Dispatch := fun b => ([Ev.call "got" 7 [b]], ()), Shutdown := ([], none) }
    let t : Table := ⟨⟨⟨0⟩, ⟨0⟩, false, [], [], [], [r]⟩⟩
    (t.Dispatch E [97, 32, 49, 32, 50]).1 = [inc "table.numIn.Inc", Ev.call "got" 7 [[97, 32, 49, 32, 50]]] := by decide
end Crng.Tie.CodeTable
