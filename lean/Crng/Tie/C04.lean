import Crng.Tie.Util
import Crng.Gen.Skel
import Crng.Gen.BufUses
/-! regenerated obligations for C04 -/
namespace Crng.Tie.C04
open Crng.Tie

/-- `Table.Dispatch` touches the caller's buffer only to size and fill its private copy -/
theorem bufUses_ok : Crng.Gen.dispatchBufUses = ["buf_copy := make([]byte, len(buf))", "copy(buf_copy, buf)"] := by decide +kernel

/-- everything downstream is derived from the copy: fields of the copy, rewriters on field 0, the aggregators get the
fields, the line handed to routes is the single-space join of the fields -/
theorem flow_ok : isSubseq
    ["0 assign buf_copy := make([]byte, len(buf))", "0 call copy(buf_copy, buf)",
     "0 assign fields := bytes.Fields(buf_copy)",
     "0 range _, rw := range conf.rewriters", "1 assign fields[0] = rw.Do(fields[0])",
     "1 assign dropRaw := aggregator.AddMaybe(fields, val, ts)",
     "0 assign final := bytes.Join(fields, []byte(\" \"))",
     "2 call route.Dispatch(final)"]
    Crng.Gen.skel_table_Table_Dispatch = true := by decide +kernel

/-- `RW.Do`: not-clause (regex, else substring) first, then regex ReplaceAll or bytes.Replace with Max -/
theorem rwDo_ok : Crng.Gen.skel_rewriter_RW_Do =
    ["0 if r.notRe != nil", "1 if r.notRe.Match(buf)", "2 return buf", "0 else ", "1 if len(r.not) > 0",
     "2 if bytes.Contains(buf, r.not)", "3 return buf", "0 if r.re != nil", "1 return (*r.re).ReplaceAll(buf, r.new)",
     "0 return bytes.Replace(buf, r.old, r.new, r.Max)"] := by decide +kernel

end Crng.Tie.C04
