import Crng.Gen.CodeHasher
import Crng.CHashTop
/-! Obligations of the regenerated *code* layer, route/consistent_hashing.go `GetDestinationIndex`: on a non-empty ring
the function returns the destination index stored in the ring entry that the model's `lookupKey` selects (binary search
for the first entry at or after the key's position, modulo the ring length) — and `Crng.Props.C15` proves that this
entry is Carbon's owner of the key, independent of the listing order. -/
namespace Crng.Tie.CodeHasher
open Crng.Code Crng.Gen.Code Crng.Ring Crng.CHash

def absEntry (e : HashRingEntry) : Key := (e.Position.toNat, e.Hostname, e.Instance)

theorem bsearch_congr (f g : Nat → Bool) (n : Nat) (hfg : ∀ k, k < n → f k = g k) :
    ∀ (fuel i j : Nat), j ≤ n → bsearch f fuel i j = bsearch g fuel i j := by
  intro fuel
  induction fuel with
  | zero => intro i j _; rfl
  | succ fuel ih =>
    intro i j hj
    simp only [bsearch]
    by_cases hlt : i < j
    · have hm : (i + j) / 2 < n := by omega
      simp only [hlt, if_true, hfg _ hm]
      rw [ih ((i + j) / 2 + 1) j hj, ih i ((i + j) / 2) (by omega)]
    · simp [hlt]

/-- **GetDestinationIndex (regenerated) = the destination index of the entry `lookupKey` selects** -/
theorem getDestinationIndex_eq (E : Env) (h : ConsistentHasher) (key : Crng.Code.Bytes) (hne : h.Ring ≠ [])
    (hp : ∀ e ∈ h.Ring, 0 ≤ e.Position) (hk : 0 ≤ E.computeRingPosition key) :
    ∃ e ∈ h.Ring, lookupKey (h.Ring.map absEntry) (E.computeRingPosition key).toNat = some (absEntry e) ∧
      h.GetDestinationIndex E key = e.DestinationIndex := by
  have hn : 0 < h.Ring.length := List.length_pos_iff.mpr hne
  unfold ConsistentHasher.GetDestinationIndex lookupKey Lib.sort_Search
  have hemp : (h.Ring.map absEntry).isEmpty = false := by
    cases hr : h.Ring with
    | nil => exact absurd hr hne
    | cons _ _ => rfl
  simp only [hemp, Bool.false_eq_true, if_false, List.length_map, Lib.len, Int.toNat_natCast]
  have hcong : bsearch (fun k => decide ((Lib.idx h.Ring (k : Int)).Position ≥ E.computeRingPosition key)) h.Ring.length 0 h.Ring.length =
      bsearch (geAt (h.Ring.map absEntry) (E.computeRingPosition key).toNat) h.Ring.length 0 h.Ring.length := by
    apply bsearch_congr _ _ h.Ring.length _ _ _ _ (Nat.le_refl _)
    intro k hkl
    have hpos := hp _ (List.getElem_mem hkl)
    simp only [geAt, List.getElem?_map, List.getElem?_eq_getElem hkl, Option.map_some, absEntry, Lib.idx]
    have : ¬ ((k : Int) < 0) := by omega
    simp only [this, if_false, Int.toNat_natCast, List.getD_eq_getElem?_getD, List.getElem?_eq_getElem hkl, Option.getD_some]
    congr 1
    apply propext
    constructor <;> intro hh <;> omega
  rw [hcong]
  generalize bsearch (geAt (h.Ring.map absEntry) (E.computeRingPosition key).toNat) h.Ring.length 0 h.Ring.length = b
  have hmod : b % h.Ring.length < h.Ring.length := Nat.mod_lt _ hn
  refine ⟨h.Ring[b % h.Ring.length], List.getElem_mem hmod, ?_, ?_⟩
  · simp [List.getElem?_map, List.getElem?_eq_getElem hmod]
  · have : Lib.goMod (b : Int) (h.Ring.length : Int) = ((b % h.Ring.length : Nat) : Int) := by
      simp [Lib.goMod, Int.tmod_eq_emod_of_nonneg]
    rw [this]
    have h2 : ¬ (((b % h.Ring.length : Nat) : Int) < 0) := by omega
    have h3 : Lib.idx h.Ring ((b % h.Ring.length : Nat) : Int) = h.Ring[b % h.Ring.length] := by
      unfold Lib.idx
      rw [if_neg h2, Int.toNat_natCast, List.getD_eq_getElem?_getD, List.getElem?_eq_getElem hmod, Option.getD_some]
    rw [h3]

/-- … and on a ring sorted by `Less` that entry is Carbon's owner of the key position (first entry at or after it, else the
first entry), whatever order the destinations were listed in -/
theorem getDestinationIndex_owner (E : Env) (h : ConsistentHasher) (key : Crng.Code.Bytes) (hne : h.Ring ≠ [])
    (hp : ∀ e ∈ h.Ring, 0 ≤ e.Position) (hk : 0 ≤ E.computeRingPosition key)
    (hs : (h.Ring.map absEntry).Pairwise keyOrd.le) :
    ∃ e ∈ h.Ring, IsOwner keyOrd (h.Ring.map absEntry) (E.computeRingPosition key).toNat (absEntry e) ∧
      h.GetDestinationIndex E key = e.DestinationIndex := by
  obtain ⟨e, he, hl, hd⟩ := getDestinationIndex_eq E h key hne hp hk
  have hne' : h.Ring.map absEntry ≠ [] := by simpa using hne
  obtain ⟨e', hl', ho⟩ := lookup_isOwner keyOrd (h.Ring.map absEntry) hs (E.computeRingPosition key).toNat hne'
  rw [lookupKey_eq _ hs] at hl
  rw [hl] at hl'
  cases hl'
  exact ⟨e, he, ho, hd⟩

/-- **ConsistentHashing.Dispatch (regenerated)**: a line with a non-empty name is handed to exactly one destination — the
one at the index `GetDestinationIndex` returns for the name (the text before the first space), chosen by the name only;
a line without a name is handed to nobody -/
theorem ch_dispatch_trace (E : Env) (r : ConsistentHashing) (buf : Crng.Code.Bytes) :
    (r.Dispatch E buf).1 =
      if Lib.bytes_IndexByte buf 32 > 0 then
        [Ev.call "dest.In<-"
          (Lib.idx r.config.Dests (r.config.Hasher.GetDestinationIndex E (Lib.slice buf 0 (Lib.bytes_IndexByte buf 32)))).id [arg buf]]
      else [] := by
  unfold ConsistentHashing.Dispatch
  by_cases h : Lib.bytes_IndexByte buf 32 > 0 <;> simp [h, emit, Res.pure]

/-- the choice depends on the name only: two lines with the same name go to the same destination -/
theorem ch_dispatch_name_only (E : Env) (r : ConsistentHashing) (b1 b2 : Crng.Code.Bytes)
    (h1 : Lib.bytes_IndexByte b1 32 > 0) (h2 : Lib.bytes_IndexByte b2 32 > 0)
    (hn : Lib.slice b1 0 (Lib.bytes_IndexByte b1 32) = Lib.slice b2 0 (Lib.bytes_IndexByte b2 32)) :
    ∃ d, (r.Dispatch E b1).1 = [Ev.call "dest.In<-" d [arg b1]] ∧ (r.Dispatch E b2).1 = [Ev.call "dest.In<-" d [arg b2]] := by
  rw [ch_dispatch_trace, ch_dispatch_trace, if_pos h1, if_pos h2, hn]
  exact ⟨_, rfl, rfl⟩

/-! ### destination.addrInstanceSplit -/
theorem split_go_eq (s cur : Crng.Code.Bytes) : Lib.strings_Split.go 58 s cur = splitColon.go s cur := by
  induction s generalizing cur with
  | nil => rfl
  | cons x t ih =>
    simp only [Lib.strings_Split.go, splitColon.go]
    split <;> simp [ih]

theorem split_eq (s : Crng.Code.Bytes) : Lib.strings_Split s [58] = splitColon s := by
  simp [Lib.strings_Split, splitColon, split_go_eq]

theorem go_length (s cur : Crng.Code.Bytes) : (splitColon.go s cur).length = (s.filter (· == 58)).length + 1 := by
  induction s generalizing cur with
  | nil => rfl
  | cons x t ih =>
    simp only [splitColon.go]
    by_cases h : (x == 58) = true
    · simp [h, ih]
    · simp [h, ih]

theorem count_eq (s : Crng.Code.Bytes) : Lib.strings_Count s [58] = ((splitColon s).length : Int) - 1 := by
  simp [Lib.strings_Count, splitColon, go_length]

theorem split_ne_nil (s : Crng.Code.Bytes) : splitColon s ≠ [] := by
  have := go_length s []
  intro h
  simp [splitColon] at h
  rw [h] at this; simp at this

/-- **addrInstanceSplit (regenerated)**: the instance is the third of exactly three colon-separated parts, else empty — the
`inst` of the model's `nodeOfAddr` — and an address without exactly two colons is left as it is -/
theorem addrInstanceSplit_instance (addr : Crng.Code.Bytes) : (addrInstanceSplit addr).2 = (nodeOfAddr addr).inst := by
  unfold addrInstanceSplit nodeOfAddr
  simp only [split_eq, count_eq]
  have hne := split_ne_nil addr
  rcases hs : splitColon addr with _ | ⟨a, _ | ⟨b, _ | ⟨c, _ | ⟨d, r⟩⟩⟩⟩
  · exact absurd hs hne
  · simp; rfl
  · simp; rfl
  · simp [Lib.idx]
  · have h5 : ¬ (((r.length : Int) + 1 + 1 + 1 + 1 - 1) = 2) := by omega
    simp [h5]; rfl

theorem addrInstanceSplit_addr (addr : Crng.Code.Bytes) (h : (splitColon addr).length ≠ 3) : (addrInstanceSplit addr).1 = addr := by
  unfold addrInstanceSplit
  simp only [count_eq]
  have : ¬ (((splitColon addr).length : Int) - 1 == 2) = true := by simp; omega
  simp [this]

end Crng.Tie.CodeHasher
