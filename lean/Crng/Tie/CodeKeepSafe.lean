import Crng.Gen.CodeKeepSafe
/-! Obligations of the regenerated *code* layer, destination/keepsafe.go: `Add` appends to the recent generation,
`GetAll` hands back old ++ recent in insertion order and empties both (value level; the slice-header level, where the
rotation could alias the generations, is `Crng.KeepSafe`). The rotation itself sits in a `select` loop the translator
does not cover. -/
namespace Crng.Tie.CodeKeepSafe
open Crng.Code Crng.Gen.Code

theorem add_eq (k : keepSafe) (b : Bytes) : k.Add b = { k with safeRecent := k.safeRecent ++ [b] } := rfl
theorem getAll_eq (k : keepSafe) : k.GetAll = (k.safeOld ++ k.safeRecent, { k with safeOld := [], safeRecent := [] }) := rfl

/-- everything added since the last `GetAll` (or rotation) comes back, in order, after what was already held -/
theorem getAll_after_adds (k : keepSafe) (bs : List Bytes) :
    (bs.foldl (fun k b => k.Add b) k).GetAll.1 = k.safeOld ++ k.safeRecent ++ bs := by
  induction bs generalizing k with
  | nil => simp [getAll_eq]
  | cons b bs ih => simp only [List.foldl_cons]; rw [ih]; simp [add_eq]

/-- nothing is handed back twice: a second `GetAll` is empty -/
theorem getAll_twice (k : keepSafe) : k.GetAll.2.GetAll.1 = [] := by simp [getAll_eq]
end Crng.Tie.CodeKeepSafe
