import Crng.Tie.Util
import Crng.Gen.Skel
import Crng.Gen.Levels
import Crng.Validate
/-! regenerated obligations for C02 -/
namespace Crng.Tie.C02
open Crng.Tie

/-- the level names of the configuration file, as `UnmarshalText` maps them today -/
theorem levelLegacy_ok : Crng.Gen.levelLegacy =
    [("strict", "m20.StrictLegacy"), ("medium", "m20.MediumLegacy"), ("none", "m20.NoneLegacy")] := by decide
theorem levelM20_ok : Crng.Gen.levelM20 = [("medium", "m20.MediumM20"), ("none", "m20.NoneM20")] := by decide
theorem defaults_ok : Crng.Gen.cfgValidationDefaults =
    [("Validation_level_legacy", "validate.LevelLegacy{m20.MediumLegacy}"), ("Validation_level_m20", "validate.LevelM20{m20.MediumM20}")] := by decide

/-- name → level of the model, read off the generated table -/
def parseLegacy (s : String) : Option Crng.Val.LegacyLevel :=
  match Crng.Gen.levelLegacy.lookup s with
  | some "m20.StrictLegacy" => some .strict | some "m20.MediumLegacy" => some .medium | some "m20.NoneLegacy" => some .none | _ => none
def parseM20 (s : String) : Option Crng.Val.M20Level :=
  match Crng.Gen.levelM20.lookup s with
  | some "m20.MediumM20" => some .medium | some "m20.NoneM20" => some .none | _ => none

/-- the documented spellings mean the documented levels; anything else is a configuration error -/
theorem level_names :
    parseLegacy "strict" = some .strict ∧ parseLegacy "medium" = some .medium ∧ parseLegacy "none" = some .none ∧
    parseM20 "medium" = some .medium ∧ parseM20 "none" = some .none ∧
    parseLegacy "Strict" = none ∧ parseM20 "strict" = none ∧ parseLegacy "" = none := by decide

/-- the gate: validate with the two configured levels in this order; on error record, count, return -/
theorem gate_ok : isInfix
    ["0 assign key, val, ts, err := m20.ValidatePacket(buf_copy, conf.Validation_level_legacy.Level, conf.Validation_level_m20.Level)",
     "0 if err != nil", "1 call table.bad.Add(key, buf_copy, err)", "1 call table.numInvalid.Inc(1)", "1 return "]
    Crng.Gen.skel_table_Table_Dispatch = true := by decide +kernel

/-- every received line increments the inbound counter exactly once, before anything can return -/
theorem numIn_ok :
    (count "0 call table.numIn.Inc(1)" Crng.Gen.skel_table_Table_Dispatch == 1 &&
     (containing "numIn." Crng.Gen.skel_table_Table_Dispatch).length == 1 &&
     isSubseq ["0 call table.numIn.Inc(1)", "0 assign conf := table.config.Load().(TableConfig)"] Crng.Gen.skel_table_Table_Dispatch) = true := by decide +kernel

/-- nothing is forwarded before the gate: the first AddMaybe / Dispatch come after it -/
theorem gate_first : isSubseq
    ["0 if err != nil", "1 return ", "1 assign dropRaw := aggregator.AddMaybe(fields, val, ts)", "2 call route.Dispatch(final)"]
    Crng.Gen.skel_table_Table_Dispatch = true := by decide +kernel

/-- the bad-metrics goroutine serialises add / clean / get (one select over the three) -/
theorem bad_serialised : isSubseq
    ["1 select ", "2 case in := <-b.In", "3 assign b.seen[in.Metric] = in", "2 case <-clean.C", "2 case oldest := <-b.getReq"]
    Crng.Gen.skel_badmetrics_BadMetrics_manage = true := by decide +kernel

end Crng.Tie.C02
