import Crng.Tie.Util
import Crng.Gen.Skel
import Crng.Gen.TableOps
import Crng.Gen.InPlaceSites
import Crng.Gen.DispatchLoads
import Crng.GoSlice
/-! regenerated obligations for C18 -/
namespace Crng.Tie.C18
open Crng.Tie

def idiomSafe (s : String) : Bool := s == "appendElem" || s == "deleteFull" || s == "fresh"

/-- every assignment to a published slice uses an idiom that is `safe` in the model (`deleteInPlace` and unclassified
right-hand sides are not) -/
theorem tableOps_safe : (Crng.Gen.tableOps.all fun r => idiomSafe r.2.2) = true := by decide

/-- … and all eleven mutator sites were found -/
theorem tableOps_complete : Crng.Gen.tableOps.map (·.1) =
    ["table.Table.AddAggregator", "table.Table.AddBlacklist", "table.Table.AddRewriter", "table.Table.AddRoute",
     "table.Table.DelAggregator", "table.Table.DelBlacklist", "table.Table.DelRewriter", "table.Table.DelRoute",
     "table.Table.Shutdown", "route.baseRoute.addDestination", "route.baseRoute.delDestination"] := by decide

def lockedTable (sk : List String) : Bool :=
  ["0 call table.Lock()", "0 defer table.Unlock()", "0 assign conf := table.config.Load().(TableConfig)"].isPrefixOf sk
def lockedRoute (sk : List String) : Bool :=
  ["0 call route.Lock()", "0 defer route.Unlock()", "0 assign conf := route.config.Load().(Config)"].isPrefixOf sk

/-- mutators are serialised: lock first, unlock deferred, then Load … Store -/
theorem mutators_locked :
    (lockedTable Crng.Gen.skel_table_Table_AddRoute && lockedTable Crng.Gen.skel_table_Table_AddBlacklist &&
     lockedTable Crng.Gen.skel_table_Table_AddAggregator && lockedTable Crng.Gen.skel_table_Table_AddRewriter &&
     lockedTable Crng.Gen.skel_table_Table_DelAggregator && lockedTable Crng.Gen.skel_table_Table_DelBlacklist &&
     lockedTable Crng.Gen.skel_table_Table_DelRewriter && lockedTable Crng.Gen.skel_table_Table_DelRoute &&
     lockedRoute Crng.Gen.skel_route_baseRoute_addDestination && lockedRoute Crng.Gen.skel_route_baseRoute_delDestination &&
     lockedRoute Crng.Gen.skel_route_baseRoute_update) = true := by decide +kernel

/-- the dispatchers load the configuration once and take no lock -/
theorem dispatch_loads_once :
    (Crng.Gen.TableDispatchLoads == 1 && Crng.Gen.TableDispatchLocks == 0 &&
     Crng.Gen.TableDispatchAggregateLoads == 1 && Crng.Gen.TableDispatchAggregateLocks == 0) = true := by decide

/-- index beyond the end is rejected before anything is changed; unknown route key is a no-op -/
theorem guards_ok :
    (isSubseq ["0 if index >= len(conf.blacklist)", "1 return fmt.Errorf(\"Invalid index %d\", index)", "0 call table.config.Store(conf)"] Crng.Gen.skel_table_Table_DelBlacklist &&
     isSubseq ["0 if id >= len(conf.rewriters)", "1 return fmt.Errorf(\"Invalid index %d\", id)", "0 call table.config.Store(conf)"] Crng.Gen.skel_table_Table_DelRewriter &&
     isSubseq ["0 if id >= len(conf.aggregators)", "1 return fmt.Errorf(\"Invalid index %d\", id)", "0 call table.config.Store(conf)"] Crng.Gen.skel_table_Table_DelAggregator &&
     isSubseq ["0 if index >= len(conf.Dests())", "1 return fmt.Errorf(\"Invalid index %d\", index)", "0 call route.config.Store(newConf)"] Crng.Gen.skel_route_baseRoute_delDestination &&
     isSubseq ["0 if toDelete == -1", "1 return nil", "0 call table.config.Store(conf)"] Crng.Gen.skel_table_Table_DelRoute) = true := by decide +kernel

/-- a destination's filter is read and swapped under its own mutex -/
theorem dest_match_locked : Crng.Gen.skel_destination_Destination_Match =
    ["0 call dest.lockMatcher.Lock()", "0 defer dest.lockMatcher.Unlock()", "0 return dest.Matcher.Match(s)"] := by decide +kernel

/-- nowhere in table/ or route/ is the backing array of an existing slice re-used (`x[:0]`, `append(x[:i], …)` without a
capacity bound) — except the two worker-local batch buffers, which no dispatcher can hold. This covers slices the published
configs reach indirectly too (the consistent-hashing ring), whatever function touches them. -/
theorem no_inplace_reuse : Crng.Gen.inPlaceSites =
    ["route.GrafanaNet.retryFlush reslice0 metrics[:0]", "route.KafkaMdm.run reslice0 metrics[:0]"] := by decide +kernel

end Crng.Tie.C18
