import Crng.Tie.Util
import Crng.Gen.Skel
/-! regenerated obligations for C12 -/
namespace Crng.Tie.C12
open Crng.Tie

/-- a default `bufio.Scanner` (no Buffer/Split call), one Dispatch of `scanner.Bytes()` per `Scan()`, the scanner's error returned -/
theorem plain_ok : Crng.Gen.skel_input_Plain_Handle =
    ["0 assign scanner := bufio.NewScanner(c)", "0 for ; scanner.Scan(); ", "1 assign buf := scanner.Bytes()",
     "1 call p.dispatcher.Dispatch(buf)", "0 return scanner.Err()"] := by decide +kernel

/-- every UDP datagram is its own stream -/
theorem udp_ok :
    (isSubseq ["0 assign buffer := make([]byte, 65535)", "1 assign b, src, err := l.udpConn.ReadFrom(buffer)", "1 call l.HandleData(l, buffer[:b], src)"] Crng.Gen.skel_input_Listener_consumeUdp &&
     isSubseq ["0 assign err := l.Handler.Handle(bytes.NewReader(data))"] Crng.Gen.skel_input_handleData) = true := by decide +kernel

/-- AMQP: a 4096-byte reader per body, ReadLine until the first error, isPrefix ignored -/
theorem amqp_ok : isSubseq
    ["2 case m := <-a.delivery", "3 assign r := bufio.NewReaderSize(bytes.NewReader(m.Body), 4096)", "3 for ; ; ",
     "4 assign buf, _, err := r.ReadLine()", "4 if err != nil", "5 branch break", "4 call a.dispatcher.Dispatch(buf)"]
    Crng.Gen.skel_input_Amqp_consumeAMQP = true := by decide +kernel

/-- the read-timeout wrapper sets the deadline and delegates exactly one Read -/
theorem timeoutConn_ok : Crng.Gen.skel_input_TimeoutConn_Read =
    ["0 if t.readTimeout > 0", "1 assign err = t.Conn.SetReadDeadline(time.Now().Add(t.readTimeout))", "1 if err != nil", "2 return 0, err",
     "0 return t.Conn.Read(p)"] := by decide +kernel

/-- one handler call per TCP connection, the connection closed afterwards -/
theorem tcp_ok : isSubseq ["0 call l.HandleConn(l, NewTimeoutConn(c, l.readTimeout))", "0 call c.Close()"]
    Crng.Gen.skel_input_Listener_acceptTcpConn = true := by decide +kernel

end Crng.Tie.C12
