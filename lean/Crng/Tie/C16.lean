import Crng.Tie.Util
import Crng.Gen.Skel
/-! regenerated obligations for C16 -/
namespace Crng.Tie.C16
open Crng.Tie

/-- pickle: `[(name, (time, value))]`, 4-byte big-endian length of the pickle, then the pickle -/
theorem pickle_ok : isSubseq
    ["0 assign point := ogorek.Tuple{string(dp.Name), ogorek.Tuple{dp.Time, dp.Val}}", "0 assign list := []interface{}{point}",
     "0 call pickler.Encode(list)", "0 assign err := binary.Write(messageBuf, binary.BigEndian, uint32(dataBuf.Len()))",
     "0 call messageBuf.Write(dataBuf.Bytes())", "0 return messageBuf.Bytes()"]
    Crng.Gen.skel_destination_Pickle = true := by decide +kernel

theorem parseDataPoint_ok : isSubseq
    ["0 if len(elements) != 3", "0 assign val, err := strconv.ParseFloat(elements[1], 64)", "0 if err != nil", "1 return nil, err",
     "0 assign timestamp, err := strconv.ParseUint(elements[2], 10, 32)", "0 if err != nil", "1 return nil, err",
     "0 return &Datapoint{name, val, uint32(timestamp)}, nil"]
    Crng.Gen.skel_destination_ParseDataPoint = true := by decide +kernel

/-- parseMetric: split on `;`, sort the tags, present the untagged name as itself, match the presented name, first retention -/
theorem parseMetric_ok : isSubseq
    ["0 assign timestamp, err := strconv.ParseUint(elements[2], 10, 32)",
     "0 assign nameWithTags := elements[0]", "0 assign elements = strings.Split(nameWithTags, \";\")", "0 assign name := elements[0]",
     "0 assign tags := elements[1:]", "0 call sort.Strings(tags)", "0 assign nameWithTags = name", "0 if len(tags) > 0",
     "1 assign nameWithTags = fmt.Sprintf(\"%s;%s\", name, strings.Join(tags, \";\"))", "0 assign s, ok := schemas.Match(nameWithTags)",
     "0 assign md := schema.MetricData{ Name: name, Interval: s.Retentions[0].SecondsPerPoint(), Value: val, Unit: \"unknown\", Time: int64(timestamp), Mtype: \"gauge\", Tags: tags, OrgId: orgId, }",
     "0 assign err = md.Validate()", "0 if err != nil", "1 return nil, err"]
    Crng.Gen.skel_route_parseMetric = true := by decide +kernel

/-- rule order: key `p<<32 - i`, sorted by `>=`, first match wins -/
theorem rules_ok :
    (isSubseq ["1 assign schema.Priority = int64(p)<<32 - int64(i)", "0 call sort.Sort(schemas)"] Crng.Gen.skel_persister_ReadWhisperSchemas &&
     Crng.Gen.skel_persister_WhisperSchemas_Less == ["0 return s[i].Priority >= s[j].Priority"] &&
     Crng.Gen.skel_persister_WhisperSchemas_Match == ["0 range _, schema := range s", "1 if schema.Pattern.MatchString(metric)", "2 return schema, true", "0 return Schema{}, false"]) = true := by decide +kernel

end Crng.Tie.C16
