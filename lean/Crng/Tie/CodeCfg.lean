import Crng.Gen.CodeCfg
import Crng.CodeSpec
/-! Obligations of the regenerated *code* layer, cfg/table.go (the TOML side of C20): `InitAggregation`, `InitBlacklist` and
`InitRewrite` as translated from /repo on this run hand each section's options to `matcher.New` / `aggregator.New` /
`rewriter.New` in the documented positions (`sub` wins over `substr`; a blacklist entry `"<method> <pattern>"` sets exactly
that one option), add the resulting objects to the table in file order, and stop at the first section that fails. -/
namespace Crng.Tie.CodeCfg
open Crng.Code Crng.Gen.Code Crng.CodeSpec

/-- the result of an `Init*` function from `tryEach` -/
def initResult (r : List Ev × Option Err) : Res Err := (r.1, match r.2 with | none => none | some e => e)

/-! ### [[aggregation]] -/
/-- what one `[[aggregation]]` section becomes: the arguments of `aggregator.New` -/
def aggOne (E : Env) (a : AggregationCfg) : Except Err AggArgs :=
  match E.matcher_New a.Prefix a.NotPrefix (if Lib.len a.Sub > 0 then a.Sub else a.Substr) a.NotSub a.Regex a.NotRegex with
  | (_, some _) => .error (some "Failed to instantiate matcher: %s")
  | (m, none) =>
    match E.aggregator_New a.Function m a.Format a.Cache a.Interval a.Wait a.DropRaw () with
    | (_, some _) => .error (some "could not add aggregation #%d")
    | (agg, none) => .ok agg

/-- **InitAggregation (regenerated)** -/
theorem initAggregation_eq (E : Env) (table : TableI) (config : Config) :
    InitAggregation E table config =
      initResult (tryEach (aggOne E) (fun agg => Ev.call "table.AddAggregator" table.id [arg agg]) config.Aggregation) := by
  unfold InitAggregation
  rw [forRange_enum _ (tryBody (aggOne E) (fun agg => Ev.call "table.AddAggregator" table.id [arg agg]))]
  · rw [forRange_tryEach]
    simp only [initResult, Res.bind, Res.pure]
    cases (tryEach (aggOne E) (fun agg => Ev.call "table.AddAggregator" table.id [arg agg]) config.Aggregation).2 <;> simp
  · intro i a s
    simp only [tryBody, aggOne]
    by_cases hs : Lib.len a.Sub > 0
    · simp only [hs, decide_true, if_true]
      rcases hm : E.matcher_New a.Prefix a.NotPrefix a.Sub a.NotSub a.Regex a.NotRegex with ⟨m, me⟩
      rcases ha : E.aggregator_New a.Function m a.Format a.Cache a.Interval a.Wait a.DropRaw () with ⟨ag, ae⟩
      cases me <;> cases ae <;> simp [hm, ha, Lib.notNil]
    · simp only [hs, decide_false, Bool.false_eq_true, if_false]
      rcases hm : E.matcher_New a.Prefix a.NotPrefix a.Substr a.NotSub a.Regex a.NotRegex with ⟨m, me⟩
      rcases ha : E.aggregator_New a.Function m a.Format a.Cache a.Interval a.Wait a.DropRaw () with ⟨ag, ae⟩
      cases me <;> cases ae <;> simp [hm, ha, Lib.notNil]

/-! ### [[rewriter]] -/
def rwOne (E : Env) (r : RewriterCfg) : Except Err RW :=
  match E.rewriter_New r.Old r.New r.Not r.Max with
  | (_, some _) => .error (some "could not add rewriter #%d")
  | (rw, none) => .ok rw

/-- **InitRewrite (regenerated)** -/
theorem initRewrite_eq (E : Env) (table : TableI) (config : Config) :
    InitRewrite E table config =
      initResult (tryEach (rwOne E) (fun rw => Ev.call "table.AddRewriter" table.id [arg rw]) config.Rewriter) := by
  unfold InitRewrite
  rw [forRange_enum _ (tryBody (rwOne E) (fun rw => Ev.call "table.AddRewriter" table.id [arg rw]))]
  · rw [forRange_tryEach]
    simp only [initResult, Res.bind, Res.pure]
    cases (tryEach (rwOne E) (fun rw => Ev.call "table.AddRewriter" table.id [arg rw]) config.Rewriter).2 <;> simp
  · intro i a s
    simp only [tryBody, rwOne]
    rcases hm : E.rewriter_New a.Old a.New a.Not a.Max with ⟨m, me⟩
    cases me <;> simp [hm, Lib.notNil]

/-! ### blacklist -/
/-- `"<method> <pattern>"`: the one option the method names is set to the pattern, the other five stay empty -/
def blackArgs (method pat : Bytes) : Option (Bytes × Bytes × Bytes × Bytes × Bytes × Bytes) :=
  if method == ([112, 114, 101, 102, 105, 120] : Bytes) /- "prefix" -/ then some (pat, [], [], [], [], [])
  else if method == ([110, 111, 116, 80, 114, 101, 102, 105, 120] : Bytes) /- "notPrefix" -/ then some ([], pat, [], [], [], [])
  else if method == ([115, 117, 98] : Bytes) /- "sub" -/ then some ([], [], pat, [], [], [])
  else if method == ([110, 111, 116, 83, 117, 98] : Bytes) /- "notSub" -/ then some ([], [], [], pat, [], [])
  else if method == ([114, 101, 103, 101, 120] : Bytes) /- "regex" -/ then some ([], [], [], [], pat, [])
  else if method == ([110, 111, 116, 82, 101, 103, 101, 120] : Bytes) /- "notRegex" -/ then some ([], [], [], [], [], pat)
  else none

def blackOne (E : Env) (entry : Bytes) : Except Err MatcherArgs :=
  let parts := Lib.strings_SplitN entry [32] 2
  if Lib.len parts < 2 then .error (some "invalid blacklist cmd #%d")
  else match blackArgs (Lib.idx parts 0) (Lib.idx parts 1) with
    | none => .error (some "invalid blacklist method for cmd #%d: %s")
    | some (a, b, c, d, e, f) =>
      match E.matcher_New a b c d e f with
      | (_, some _) => .error (some "could not apply blacklist cmd #%d")
      | (m, none) => .ok m


set_option maxRecDepth 4000 in
/-- **InitBlacklist (regenerated)** -/
theorem initBlacklist_eq (E : Env) (table : TableI) (config : Config) :
    InitBlacklist E table config =
      initResult (tryEach (blackOne E) (fun m => Ev.call "table.AddBlacklist" table.id [arg m]) config.BlackList) := by
  unfold InitBlacklist
  rw [forRange_enum _ (tryBody (blackOne E) (fun m => Ev.call "table.AddBlacklist" table.id [arg m]))]
  · rw [forRange_tryEach]
    simp only [initResult, Res.bind, Res.pure]
    cases (tryEach (blackOne E) (fun m => Ev.call "table.AddBlacklist" table.id [arg m]) config.BlackList).2 <;> simp
  · intro i entry s
    simp only [tryBody, blackOne]
    generalize Lib.strings_SplitN entry [32] 2 = parts
    by_cases hl : Lib.len parts < 2
    · simp [hl]
    · simp only [hl, decide_false, Bool.false_eq_true, if_false]
      generalize Lib.idx parts 0 = method
      generalize Lib.idx parts 1 = pat
      simp only [blackArgs]
      by_cases h1 : (method == ([112, 114, 101, 102, 105, 120] : Bytes)) = true
      · rcases hm : E.matcher_New pat [] [] [] [] [] with ⟨m, me⟩
        cases me <;> simp [h1, hm, Lib.notNil]
      · by_cases h2 : (method == ([110, 111, 116, 80, 114, 101, 102, 105, 120] : Bytes)) = true
        · rcases hm : E.matcher_New [] pat [] [] [] [] with ⟨m, me⟩
          cases me <;> simp [h1, h2, hm, Lib.notNil]
        · by_cases h3 : (method == ([115, 117, 98] : Bytes)) = true
          · rcases hm : E.matcher_New [] [] pat [] [] [] with ⟨m, me⟩
            cases me <;> simp [h1, h2, h3, hm, Lib.notNil]
          · by_cases h4 : (method == ([110, 111, 116, 83, 117, 98] : Bytes)) = true
            · rcases hm : E.matcher_New [] [] [] pat [] [] with ⟨m, me⟩
              cases me <;> simp [h1, h2, h3, h4, hm, Lib.notNil]
            · by_cases h5 : (method == ([114, 101, 103, 101, 120] : Bytes)) = true
              · rcases hm : E.matcher_New [] [] [] [] pat [] with ⟨m, me⟩
                cases me <;> simp [h1, h2, h3, h4, h5, hm, Lib.notNil]
              · by_cases h6 : (method == ([110, 111, 116, 82, 101, 103, 101, 120] : Bytes)) = true
                · rcases hm : E.matcher_New [] [] [] [] [] pat with ⟨m, me⟩
                  cases me <;> simp [h1, h2, h3, h4, h5, h6, hm, Lib.notNil]
                · simp [h1, h2, h3, h4, h5, h6]

/-- corollary (C20): a `[[aggregation]]` section with both `sub` and `substr` uses `sub`; with only `substr`, that -/
theorem agg_sub_wins (E : Env) (a : AggregationCfg) (h : a.Sub ≠ []) :
    aggOne E a = aggOne E { a with Substr := [] } := by
  have : Lib.len a.Sub > 0 := by
    cases hs : a.Sub with
    | nil => exact absurd hs h
    | cons _ _ => simp [Lib.len]
  simp [aggOne, this]

end Crng.Tie.CodeCfg
