import Crng.Tie.Util
import Crng.Gen.Skel
/-! regenerated obligations for C19 -/
namespace Crng.Tie.C19
open Crng.Tie

/-- the whole of `Ordered` is one critical section: lock first, unlock deferred, the shared hasher and map touched only
inside; strict comparison; the map is updated only on acceptance -/
theorem ordered_ok : Crng.Gen.skel_validate_Ordered =
    ["0 call lock.Lock()", "0 call h.Write(key)", "0 assign k := h.Sum64()", "0 call h.Reset()", "0 defer lock.Unlock()",
     "0 assign tsOld := m[k]", "0 if ts > tsOld", "1 assign m[k] = ts", "1 return nil", "0 return errNotNewer"] := by decide +kernel

/-- the digest is Go's FNV-1a 64 (`Crng.Fnv.fnv1a64`, compared with `hash/fnv` on every run) and the map starts empty -/
theorem hasher_is_fnv64a : Crng.Gen.skel_validate_init =
    ["0 assign m = make(map[uint64]uint32)", "0 assign h = fnv.New64a()"] := by decide +kernel

/-- the gate in `Dispatch`: after validation, on the validated key; a rejection is recorded, counted and returns -/
theorem gate_ok : isInfix
    ["0 if conf.Validate_order", "1 assign err = validate.Ordered(key, ts)", "1 if err != nil", "2 call table.bad.Add(key, buf_copy, err)",
     "2 call table.numOutOfOrder.Inc(1)", "2 return ", "0 assign fields := bytes.Fields(buf_copy)"]
    Crng.Gen.skel_table_Table_Dispatch = true := by decide +kernel

end Crng.Tie.C19
