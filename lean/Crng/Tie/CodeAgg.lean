import Crng.Gen.CodeAgg
import Crng.CodeSpec
/-! Obligations of the regenerated *code* layer, aggregator/aggregator.go `AddMaybe`: the point enters the aggregator's
queue exactly when the cheap filter passes and, for a drop-raw aggregation, the (cached) regex stage confirms; the raw
metric is withheld (`true`) exactly when it entered a drop-raw aggregation — C11's "exactly those raw metrics the
aggregation consumes". -/
namespace Crng.Tie.CodeAgg
open Crng.Code Crng.Gen.Code Crng.CodeSpec

theorem addMaybe_eq (a : Aggregator) (buf : List Bytes) (val : F64) (ts : Int) :
    a.AddMaybe buf val ts =
      (if a.Matcher.PreMatch (Lib.idx buf 0) && (!a.DropRaw || (a.matchWithCache (Lib.idx buf 0)).2)
        then [Ev.call "a.in<-" a.id [arg (buf, val, ts)]] else [],
       a.Matcher.PreMatch (Lib.idx buf 0) && (!a.DropRaw || (a.matchWithCache (Lib.idx buf 0)).2) && a.DropRaw) := by
  unfold Aggregator.AddMaybe
  cases hp : a.Matcher.PreMatch (Lib.idx buf 0) <;> cases hd : a.DropRaw <;> cases hm : (a.matchWithCache (Lib.idx buf 0)).2 <;>
    simp [Res.pure, emit, hm, hp, hd]

/-- withheld ⇒ consumed: `AddMaybe` never answers drop-raw for a point it did not enqueue -/
theorem withheld_consumed (a : Aggregator) (buf : List Bytes) (val : F64) (ts : Int) (h : (a.AddMaybe buf val ts).2 = true) :
    (a.AddMaybe buf val ts).1 = [Ev.call "a.in<-" a.id [arg (buf, val, ts)]] ∧ a.DropRaw = true := by
  rw [addMaybe_eq] at h ⊢
  cases hp : a.Matcher.PreMatch (Lib.idx buf 0) <;> cases hd : a.DropRaw <;> cases hm : (a.matchWithCache (Lib.idx buf 0)).2 <;>
    simp_all

/-- without drop-raw nothing is ever withheld -/
theorem no_dropraw_never_withholds (a : Aggregator) (buf : List Bytes) (val : F64) (ts : Int) (h : a.DropRaw = false) :
    (a.AddMaybe buf val ts).2 = false := by
  rw [addMaybe_eq]; simp [h]

end Crng.Tie.CodeAgg
