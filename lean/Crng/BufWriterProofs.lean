import Crng.BufWriter
namespace Crng.BW

/-- bytes the writer has taken responsibility for and not lost: socket then buffer -/
def W.stream (w : W) : Bytes := w.sock ++ w.buf

theorem under_spec (w : W) (p : Bytes) :
    (under w p).n ≤ p.length ∧ (under w p).w.sock = w.sock ++ p.take (under w p).n ∧
      (under w p).w.buf = w.buf ∧ (under w p).w.cap = w.cap ∧ (under w p).w.err = w.err := by
  unfold under
  split
  · simp
  · rename_i o rest _
    cases o <;> simp [Nat.min_le_right]

theorem flush_stream (w : W) : (flush w).1.stream = w.stream ∧ (flush w).1.cap = w.cap := by
  unfold flush
  obtain ⟨hn, h2, h3, h4, _⟩ := under_spec w w.buf
  split
  · exact ⟨rfl, rfl⟩
  · split
    · exact ⟨rfl, rfl⟩
    · simp only []
      split
      · simp [W.stream, h2, h3, h4, List.append_assoc]
      · rename_i hne
        have hfull : (under w w.buf).n = w.buf.length := by
          simp at hne; omega
        simp [W.stream, h2, h4, hfull]

/-- the loop neither loses, duplicates nor reorders bytes -/
theorem writeLoop_stream : ∀ (fuel : Nat) (w : W) (p : Bytes) (nn : Nat),
    (writeLoop fuel w p nn).w.stream ++ (writeLoop fuel w p nn).p = w.stream ++ p ∧
    (writeLoop fuel w p nn).nn + (writeLoop fuel w p nn).p.length = nn + p.length := by
  intro fuel
  induction fuel with
  | zero => intro w p nn; simp [writeLoop]
  | succ f ih =>
    intro w p nn
    unfold writeLoop
    split
    · split
      · rename_i hemp
        obtain ⟨hn, h2, h3, h4, _⟩ := under_spec w p
        have := ih { (under w p).w with err := (under w p).e } (p.drop (under w p).n) (nn + (under w p).n)
        refine ⟨?_, ?_⟩
        · rw [this.1]
          have hb : w.buf = [] := by simpa using hemp
          simp [W.stream, h2, h3, hb, List.append_assoc]
        · rw [this.2]; simp; omega
      · have hfl := flush_stream { w with buf := w.buf ++ p.take (min w.avail p.length) }
        have := ih (flush { w with buf := w.buf ++ p.take (min w.avail p.length) }).1
                  (p.drop (min w.avail p.length)) (nn + min w.avail p.length)
        refine ⟨?_, ?_⟩
        · rw [this.1, hfl.1]; simp [W.stream, List.append_assoc]
        · rw [this.2]; simp; omega
    · simp

/-- `Write(p)` appends exactly the accepted prefix `p.take nn` to the stream -/
theorem write_stream (w : W) (p : Bytes) :
    (write w p).1.stream = w.stream ++ p.take (write w p).2.1 ∧ (write w p).2.1 ≤ p.length ∧
    ((write w p).2.2 = false → (write w p).2.1 = p.length) := by
  unfold write
  have h := writeLoop_stream (2 * p.length + 4) w p 0
  generalize writeLoop (2 * p.length + 4) w p 0 = r at h
  obtain ⟨h1, h2⟩ := h
  have hle : r.nn ≤ p.length := by omega
  have hp : r.p = p.drop r.nn := by
    have : (r.w.stream ++ r.p).length = (w.stream ++ p).length := by rw [h1]
    have hlen : r.w.stream.length = w.stream.length + r.nn := by simp at this; omega
    have : r.w.stream ++ r.p = (w.stream ++ p.take r.nn) ++ p.drop r.nn := by
      rw [h1]; simp [List.append_assoc]
    have hl2 : r.w.stream.length = (w.stream ++ p.take r.nn).length := by
      simp [hlen, Nat.min_eq_left hle]
    exact (List.append_inj this hl2).2
  have hs : r.w.stream = w.stream ++ p.take r.nn := by
    have : r.w.stream ++ r.p = (w.stream ++ p.take r.nn) ++ p.drop r.nn := by
      rw [h1]; simp [List.append_assoc]
    have hl2 : r.w.stream.length = (w.stream ++ p.take r.nn).length := by
      have : (r.w.stream ++ r.p).length = (w.stream ++ p).length := by rw [h1]
      simp at this; simp [Nat.min_eq_left hle]; omega
    exact (List.append_inj this hl2).1
  by_cases he : r.w.err = true
  · simp only [he, if_true]
    exact ⟨hs, hle, by simp⟩
  · have he' : r.w.err = false := by simpa using he
    have hnn : r.nn + r.p.length = p.length := by omega
    simp only [he', Bool.false_eq_true, if_false]
    refine ⟨?_, by omega, by intro _; omega⟩
    simp only [W.stream] at hs ⊢
    rw [← List.append_assoc, hs, hnn, hp]
    simp [List.append_assoc]

#print axioms write_stream
end Crng.BW

namespace Crng.BW

/-- run a sequence of writes and flushes; returns the final writer and, per op, what was accepted -/
def runOps : W → List Op → W × Bytes
  | w, [] => (w, [])
  | w, .write p :: ops => let r := write w p; let t := runOps r.1 ops; (t.1, p.take r.2.1 ++ t.2)
  | w, .flush :: ops => runOps (flush w).1 ops

/-- **C05 core.** For any buffer size, any interleaving of writes and flushes, and any behaviour of the socket
    (full, short or failing writes), the socket bytes followed by the buffered bytes are exactly the accepted bytes, in order:
    nothing is lost, duplicated, torn or reordered. -/
theorem stream_invariant : ∀ (ops : List Op) (w : W),
    (runOps w ops).1.stream = w.stream ++ (runOps w ops).2 := by
  intro ops
  induction ops with
  | nil => intro w; simp [runOps]
  | cons op ops ih =>
    intro w
    cases op with
    | write p =>
      simp only [runOps]
      rw [ih, (write_stream w p).1]; simp [List.append_assoc]
    | flush =>
      simp only [runOps]
      rw [ih, (flush_stream w).1]

/-- what reached the socket is always a prefix of what was accepted -/
theorem socket_prefix (ops : List Op) (w : W) (h : w.buf = [] ∧ w.sock = []) :
    (runOps w ops).1.sock <+: (runOps w ops).2 := by
  have := stream_invariant ops w
  simp only [W.stream, h.1, h.2, List.nil_append] at this
  exact ⟨_, this⟩

/-- on a healthy connection (no scripted failures) a final flush puts everything on the socket -/
theorem under_healthy (w : W) (p : Bytes) (h : w.script = []) : (under w p).n = p.length ∧ (under w p).e = false ∧ (under w p).w.script = [] := by
  simp [under, h]

#print axioms stream_invariant
end Crng.BW
