import Crng.SpoolProofs
/-! The backlog of a spooling destination drains: a measure that every internal step decreases, and what a state looks like
    when no internal step is left while the relay holds a live connection. -/
namespace Crng.Spool

/-- the steps the relay, the connection goroutines, the spool and the endpoint take on their own:
    no hand-off, no fault, no reconnect -/
def internal : Act → Bool
  | .take _ | .keepAdd _ | .deliver _ _ | .stop _ | .collect _ | .ingest | .unspoolQueued | .unspoolDropSlow => true
  | _ => false

/-- remaining work of one connection: a line weighs the number of moves it still has to make -/
def wConn (c : Conn) : Nat :=
  (if c.stopped then 0 else 1) + (if c.collected then 0 else 1) +
  (if c.noticed then 9 * c.inQ.length + (if c.hd.isSome then 8 else 0) + 6 * c.keep.length
   else 3 * c.inQ.length + (if c.hd.isSome then 2 else 0)) + c.wire.length

def sumTo (f : Nat → Nat) : Nat → Nat
  | 0 => 0
  | n + 1 => sumTo f n + f n

def mu (s : S) : Nat := 5 * s.redo.length + 4 * s.spoolQ.length + sumTo (fun k => wConn (s.conns k)) s.ngen

theorem sumTo_congr (f g : Nat → Nat) (n : Nat) (h : ∀ j, j < n → f j = g j) : sumTo f n = sumTo g n := by
  induction n with
  | zero => rfl
  | succ n ih =>
    simp only [sumTo]
    rw [ih (fun j hj => h j (by omega)), h n (by omega)]

theorem sumTo_upd (f : Nat → Conn) (k n : Nat) (c' : Conn) (hk : k < n) :
    sumTo (fun j => wConn (upd f k c' j)) n + wConn (f k) = sumTo (fun j => wConn (f j)) n + wConn c' := by
  induction n with
  | zero => omega
  | succ n ih =>
    simp only [sumTo]
    by_cases hkn : k = n
    · subst hkn
      rw [sumTo_congr (fun j => wConn (upd f k c' j)) (fun j => wConn (f j)) k
        (fun j hj => by simp only [upd_other f c' (show j ≠ k by omega)])]
      simp only [upd_same]; omega
    · have := ih (by omega)
      rw [upd_other f c' (show n ≠ k by omega)]
      omega

/-- connection `k` goes from `c` to a strictly lighter `c'`, the queues do not get heavier -/
theorem mu_conn_lt {s s' : S} {k : Nat} {c' : Conn} (hk : k < s.ngen) (hconns : s'.conns = upd s.conns k c')
    (hngen : s'.ngen = s.ngen) (hq : 5 * s'.redo.length + 4 * s'.spoolQ.length + wConn c' < 5 * s.redo.length + 4 * s.spoolQ.length + wConn (s.conns k)) :
    mu s' < mu s := by
  unfold mu
  rw [hconns, hngen]
  have := sumTo_upd s.conns k s.ngen c' hk
  omega

theorem length_erase_mem {l : List Nat} {a : Nat} (h : a ∈ l) : (l.erase a).length + 1 = l.length := by
  rw [List.length_erase_of_mem h]
  have : 0 < l.length := List.length_pos_of_mem h
  omega

/-- every enabled internal step strictly decreases the measure -/
theorem internal_decreases (h1 h2 : Bool) (s : S) (a : Act) (hint : internal a = true) (hen : enabled h1 h2 s a = true) (hi : Inv s) :
    mu (step s a) < mu s := by
  cases a with
  | take k =>
    simp only [enabled, Bool.and_eq_true, Bool.not_eq_true', Option.isNone_iff_eq_none, decide_eq_true_eq] at hen
    obtain ⟨⟨⟨hk, _⟩, hhd⟩, hne⟩ := hen
    cases hq : (s.conns k).inQ with
    | nil => rw [hq] at hne; simp at hne
    | cons y q =>
      simp only [step, hq]
      refine mu_conn_lt (s := s) (k := k) hk rfl rfl ?_
      simp only [wConn, hq, hhd, List.length_cons, Option.isSome_some, Option.isSome_none, if_true]
      cases (s.conns k).noticed <;> cases (s.conns k).stopped <;> cases (s.conns k).collected <;> simp <;> omega
  | keepAdd k =>
    simp only [enabled, Bool.and_eq_true, Bool.not_eq_true', decide_eq_true_eq] at hen
    obtain ⟨⟨hk, _⟩, hsome⟩ := hen
    cases hh : (s.conns k).hd with
    | none => rw [hh] at hsome; cases hsome
    | some y =>
      simp only [step, hh]
      refine mu_conn_lt (s := s) (k := k) hk rfl rfl ?_
      simp only [wConn, hh, Option.isSome_some, Option.isSome_none, if_true, List.length_append, List.length_cons, List.length_nil]
      cases (s.conns k).dead <;> cases (s.conns k).noticed <;> simp <;> omega
  | deliver k id =>
    simp only [enabled, Bool.and_eq_true, Bool.not_eq_true', decide_eq_true_eq, List.contains_eq_mem] at hen
    obtain ⟨⟨hk, _⟩, hmem⟩ := hen
    simp only [step]
    refine mu_conn_lt (s := s) (k := k) hk rfl rfl ?_
    have := length_erase_mem hmem
    simp only [wConn]
    omega
  | stop k =>
    simp only [enabled, Bool.and_eq_true, Bool.not_eq_true', Option.isNone_iff_eq_none, decide_eq_true_eq] at hen
    obtain ⟨⟨⟨hk, _⟩, hns⟩, _⟩ := hen
    simp only [step]
    refine mu_conn_lt (s := s) (k := k) hk rfl rfl ?_
    simp only [wConn, hns]
    simp
  | collect k =>
    simp only [enabled, Bool.and_eq_true, Bool.not_eq_true', decide_eq_true_eq] at hen
    obtain ⟨⟨⟨hk, hn⟩, hnc⟩, _⟩ := hen
    simp only [step]
    refine mu_conn_lt (s := s) (k := k) hk rfl rfl ?_
    simp only [wConn, hn, hnc, List.length_append, List.length_nil]
    simp
    omega
  | ingest =>
    simp only [enabled, Bool.not_eq_true'] at hen
    cases hr : s.redo with
    | nil => rw [hr] at hen; simp at hen
    | cons y r =>
      simp only [step, hr, mu, List.length_cons, List.length_append, List.length_nil]
      omega
  | unspoolQueued =>
    simp only [enabled, Bool.and_eq_true, Bool.not_eq_true'] at hen
    cases hcur : s.cur with
    | none => rw [hcur] at hen; simp at hen
    | some k =>
      cases hq : s.spoolQ with
      | nil => rw [hq] at hen; simp at hen
      | cons y q =>
        simp only [step, hcur, hq]
        refine mu_conn_lt (s := s) (k := k) (hi.cur_lt k hcur) rfl rfl ?_
        have hnn := hi.cur_unnoticed k hcur
        simp only [wConn, hnn, hq, List.length_cons, List.length_append, List.length_nil]
        simp
        omega
  | unspoolDropSlow =>
    simp only [enabled, Bool.and_eq_true, Bool.not_eq_true'] at hen
    cases hq : s.spoolQ with
    | nil => rw [hq] at hen; simp at hen
    | cons y q =>
      simp only [step, hq, mu, List.length_cons]
      omega
  | handoffQueued _ | handoffDropSlow _ | handoffSpooled _ | handoffDropSpool _ | rotate _ _ | die _ | notice | reconnect =>
    simp [internal] at hint

/-- a schedule of internal steps, each enabled when its turn comes -/
def internalRun (h1 h2 : Bool) : S → List Act → Bool
  | _, [] => true
  | s, a :: as => internal a && enabled h1 h2 s a && internalRun h1 h2 (step s a) as

/-- such a schedule is never longer than the measure of the state it starts in: the backlog cannot take for ever -/
theorem internalRun_bounded (h1 h2 : Bool) (acts : List Act) (s : S) (hi : Inv s) (hr : internalRun h1 h2 s acts = true) :
    acts.length ≤ mu s := by
  induction acts generalizing s with
  | nil => simp
  | cons a as ih =>
    simp only [internalRun, Bool.and_eq_true] at hr
    obtain ⟨⟨hint, hen⟩, hrest⟩ := hr
    have h1' := internal_decreases h1 h2 s a hint hen hi
    have h2' := ih (step s a) (step_inv h1 h2 s a hen hi) hrest
    simp only [List.length_cons]
    omega

/-- nothing internal is left to do -/
def Stuck (s : S) : Prop := ∀ a, internal a = true → enabled true true s a = false

/-- when nothing internal is left to do and the relay holds a live connection, every handed-off line has been
    received by the endpoint or counted as dropped -/
theorem stuck_all_accounted (s : S) (hc : Conserved s) (hi : Inv s) (hst : Stuck s) (k : Nat) (hcur : s.cur = some k)
    (halive : (s.conns k).dead = false) : ∀ id ∈ s.handed, id ∈ s.recv ∨ id ∈ s.counted := by
  intro id hid
  have hk := hi.cur_lt k hcur
  have hns : (s.conns k).stopped = false := by
    cases h : (s.conns k).stopped with
    | false => rfl
    | true => have := hi.stopped_dead k h; rw [halive] at this; cases this
  rcases hc id hid with h | h | ⟨j, hcol, h⟩ | h | h
  · exact Or.inl h
  · exact Or.inr h
  · by_cases hjk : j = k
    · subst hjk
      have hhd : (s.conns j).hd = none := by
        cases hh : (s.conns j).hd with
        | none => rfl
        | some y =>
          have := hst (.keepAdd j) rfl
          simp [enabled, hk, hns, hh] at this
      rcases h with h | h | h
      · have := hst (.take j) rfl
        cases hq : (s.conns j).inQ with
        | nil => rw [hq] at h; cases h
        | cons y q => simp [enabled, hk, hns, hhd, hq] at this
      · rw [hhd] at h; cases h
      · rcases hi.wire j halive id h with hw | hr
        · have := hst (.deliver j id) rfl
          simp [enabled, hk, halive, hw] at this
        · exact Or.inl hr
    · by_cases hjn : j < s.ngen
      · have hnot := hi.old_noticed j hjn (by rw [hcur]; intro h; cases h; exact hjk rfl)
        have hdead := hi.noticed_dead j hnot
        cases hs : (s.conns j).stopped with
        | true =>
          have := hst (.collect j) rfl
          simp [enabled, hjn, hnot, hcol, hs] at this
        | false =>
          cases hh : (s.conns j).hd with
          | none =>
            have := hst (.stop j) rfl
            simp [enabled, hjn, hdead, hs, hh] at this
          | some y =>
            have := hst (.keepAdd j) rfl
            simp [enabled, hjn, hs, hh] at this
      · have := hi.fresh j (by omega)
        rw [this] at h
        simp at h
  · have := hst .ingest rfl
    cases hr : s.redo with
    | nil => rw [hr] at h; cases h
    | cons y r => simp [enabled, hr] at this
  · have := hst .unspoolQueued rfl
    cases hq : s.spoolQ with
    | nil => rw [hq] at h; cases h
    | cons y q => simp [enabled, hcur, hq] at this

end Crng.Spool
