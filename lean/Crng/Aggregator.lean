import Crng.FloatFmt
import Crng.AggCore
/-! Scratch prototype of aggregator/aggregator.go + processor.go (C10). -/
namespace Crng.Agg
open Crng.FloatFmt

inductive PS where
  | avg (sum : Float) (cnt : Nat)
  | count (cnt : Nat)
  | delta (mx mn : Float)
  | derive (oldTs newTs : Nat) (oldV newV : Float)
  | last (v : Float)
  | max (v : Float)
  | min (v : Float)
  | stdev (sum : Float) (vals : List Float)   -- vals newest last
  | pct (vals : List Float)
  | sum (v : Float)

def PS.new (fn : String) (v : Float) (ts : Nat) : Option PS :=
  match fn with
  | "avg" => some (.avg v 1)
  | "count" => some (.count 1)
  | "delta" => some (.delta v v)
  | "derive" => some (.derive ts ts v v)
  | "last" => some (.last v)
  | "max" => some (.max v)
  | "min" => some (.min v)
  | "stdev" => some (.stdev v [v])
  | "percentiles" => some (.pct [v])
  | "sum" => some (.sum v)
  | _ => none

def PS.add (p : PS) (v : Float) (ts : Nat) : PS :=
  match p with
  | .avg s c => .avg (s + v) (c + 1)
  | .count c => .count (c + 1)
  | .delta mx mn => .delta (if v > mx then v else mx) (if v < mn then v else mn)
  | .derive ot nt ov nv =>
    let (nt, nv) := if ts > nt then (ts, v) else (nt, nv)
    let (ot, ov) := if ts < ot then (ts, v) else (ot, ov)
    .derive ot nt ov nv
  | .last _ => .last v
  | .max m => .max (if v > m then v else m)
  | .min m => .min (if v < m then v else m)
  | .stdev s vs => .stdev (s + v) (vs ++ [v])
  | .pct vs => .pct (vs ++ [v])
  | .sum s => .sum (s + v)

def insertSorted (x : Float) : List Float → List Float
  | [] => [x]
  | y :: t => if x < y then x :: y :: t else y :: insertSorted x t
def sortF (l : List Float) : List Float := l.foldl (fun acc x => insertSorted x acc) []

def pctTable : List (String × Float) := [("p25", 25), ("p50", 50), ("p75", 75), ("p90", 90), ("p95", 95), ("p99", 99)]

/-- `Flush()`: list of (suffix, value); suffix "" for single-valued functions; `none` = not valid -/
def PS.flush (p : PS) : Option (List (String × Float)) :=
  match p with
  | .avg s c => some [("", s / Float.ofNat c)]
  | .count c => some [("", Float.ofNat c)]
  | .delta mx mn => some [("", mx - mn)]
  | .derive ot nt ov nv => if nt == ot then none else some [("", (nv - ov) / Float.ofNat (nt - ot))]
  | .last v => some [("", v)]
  | .max v => some [("", v)]
  | .min v => some [("", v)]
  | .stdev s vs =>
    let n := Float.ofNat vs.length
    let mean := s / n
    let var := vs.foldl (fun acc t => acc + (t - mean) * (t - mean)) 0.0
    some [("", Float.sqrt (var / n))]
  | .pct vs =>
    let size := vs.length
    if size == 0 then none else
    let sorted := (sortF vs).toArray
    some <| pctTable.map fun (name, percent) =>
      let rank := (percent / 100) * (Float.ofNat size + 1)
      let floor := rank.toUInt64.toNat
      if rank < 1 then (name, sorted[0]!)
      else if floor ≥ size then (name, sorted[size - 1]!)
      else
        let frac := rank - Float.ofNat floor
        (name, sorted[floor - 1]! + frac * (sorted[floor]! - sorted[floor - 1]!))
  | .sum s => some [("", s)]

structure Cfg where
  fn : String
  interval : Nat
  wait : Nat

abbrev St := AggCore.St PS

def u64 (i : Int) : Nat := (i % 18446744073709551616).toNat

/-- `AddOrCreate` (unknown function names cannot occur: the constructor rejected them) -/
def addOrCreate (cfg : Cfg) (s : St) (key : String) (ts quantized : Nat) (v : Float) (now : Int) : St :=
  AggCore.addOrCreate (decide (quantized > u64 (u64 now - cfg.wait))) ((PS.new cfg.fn v ts).getD (.sum v)) (fun p => p.add v ts) s key quantized

abbrev Em := AggCore.Em (List (String × Float))

def Em.render (e : Em) : List String :=
  match e.res with
  | [(_, v)] => [s!"{e.key} {fmt6 v} {e.ts}"]
  | rs => rs.map fun (n, v) => s!"{e.key}.{n} {fmt6 v} {e.ts}"

/-- `Flush(cutoff)` -/
def flush (s : St) (cutoff : Nat) : St × List Em := AggCore.flush PS.flush s cutoff

inductive Ev | point (key : String) (ts : Nat) (v : Float) (now : Int) | tick (now : Int)

def step (cfg : Cfg) (s : St) : Ev → St × List Em
  | .point key ts v now => (addOrCreate cfg s key ts (ts - ts % cfg.interval) v now, [])
  | .tick now => flush s (u64 (now - cfg.wait))

end Crng.Agg
