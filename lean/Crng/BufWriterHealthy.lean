import Crng.BufWriterProofs
/-! healthy connection: the underlying writer takes everything (script exhausted), no sticky error -/
namespace Crng.BW

def Healthy (w : W) : Prop := w.script = [] ∧ w.err = false

theorem under_h (w : W) (p : Bytes) (h : w.script = []) :
    under w p = ⟨{ w with sock := w.sock ++ p }, p.length, false⟩ := by
  simp [under, h]

theorem flush_h (w : W) (h : Healthy w) :
    Healthy (flush w).1 ∧ (flush w).1.buf = [] ∧ (flush w).2 = false := by
  obtain ⟨hs, he⟩ := h
  unfold flush
  simp only [he, Bool.false_eq_true, if_false]
  split
  · rename_i hb
    exact ⟨⟨hs, he⟩, by simpa using hb, rfl⟩
  · rw [under_h w w.buf hs]
    simp [Healthy, hs, he]

theorem writeLoop_h : ∀ (fuel : Nat) (w : W) (p : Bytes) (nn : Nat), Healthy w → Healthy (writeLoop fuel w p nn).w := by
  intro fuel
  induction fuel with
  | zero => intro w p nn h; simpa [writeLoop] using h
  | succ f ih =>
    intro w p nn h
    unfold writeLoop
    split
    · split
      · rw [under_h w p h.1]
        exact ih _ _ _ ⟨h.1, rfl⟩
      · exact ih _ _ _ (flush_h { w with buf := w.buf ++ p.take (min w.avail p.length) } ⟨h.1, h.2⟩).1
    · exact h

theorem write_h (w : W) (p : Bytes) (h : Healthy w) :
    Healthy (write w p).1 ∧ (write w p).2.1 = p.length ∧ (write w p).2.2 = false := by
  have hl := writeLoop_h (2 * p.length + 4) w p 0 h
  have hs := (writeLoop_stream (2 * p.length + 4) w p 0).2
  unfold write
  simp only [hl.2, Bool.false_eq_true, if_false]
  refine ⟨⟨hl.1, ?_⟩, by omega, ?_⟩
  · simp
  · trivial

/-- the write payloads of an op sequence, in order -/
def payloads : List Op → Bytes
  | [] => []
  | .write p :: ops => p ++ payloads ops
  | .flush :: ops => payloads ops

theorem runOps_h : ∀ (ops : List Op) (w : W), Healthy w →
    Healthy (runOps w ops).1 ∧ (runOps w ops).2 = payloads ops := by
  intro ops
  induction ops with
  | nil => intro w h; exact ⟨h, rfl⟩
  | cons op ops ih =>
    intro w h
    cases op with
    | write p =>
      obtain ⟨h1, h2, _⟩ := write_h w p h
      obtain ⟨i1, i2⟩ := ih _ h1
      simp only [runOps, payloads]
      exact ⟨i1, by rw [i2, h2]; simp⟩
    | flush =>
      obtain ⟨i1, i2⟩ := ih _ (flush_h w h).1
      simp only [runOps, payloads]
      exact ⟨i1, i2⟩

/-- **C05, healthy connection.** Whatever the buffer size and however writes and flushes interleave, after a final
    flush the endpoint has received exactly the written payloads, in order, each once, and no error was raised. -/
theorem healthy_stream (ops : List Op) (w : W) (h : Healthy w) (hb : w.buf = []) (hs : w.sock = []) :
    (flush (runOps w ops).1).1.sock = payloads ops ∧ (flush (runOps w ops).1).2 = false := by
  obtain ⟨h1, h2⟩ := runOps_h ops w h
  obtain ⟨_, f2, f3⟩ := flush_h _ h1
  have inv := stream_invariant ops w
  have fs := (flush_stream (runOps w ops).1).1
  simp only [W.stream, hb, hs, List.nil_append, List.append_nil] at inv
  simp only [W.stream, f2, List.append_nil] at fs
  exact ⟨by rw [fs, inv, h2], f3⟩

/-- what `Conn.Write` does per line in plain mode, followed by `k` flush ticks -/
def lineOps : List (Bytes × Nat) → List Op
  | [] => []
  | (l, k) :: t => .write l :: .write [10] :: (List.replicate k .flush ++ lineOps t)

theorem payloads_append (a b : List Op) : payloads (a ++ b) = payloads a ++ payloads b := by
  induction a with
  | nil => rfl
  | cons op a ih => cases op <;> simp [payloads, ih, List.append_assoc]

theorem payloads_flushes (k : Nat) : payloads (List.replicate k .flush) = [] := by
  induction k with
  | zero => rfl
  | succ k ih => simp [List.replicate_succ, payloads, ih]

theorem payloads_lineOps (ls : List (Bytes × Nat)) : payloads (lineOps ls) = ls.flatMap (fun l => l.1 ++ [10]) := by
  induction ls with
  | nil => rfl
  | cons l t ih =>
    obtain ⟨l, k⟩ := l
    simp [lineOps, payloads, payloads_append, payloads_flushes, ih, List.append_assoc]

/-- plain mode: the endpoint receives each line once, in hand-off order, each terminated by one newline -/
theorem healthy_lines (ls : List (Bytes × Nat)) (cap : Nat) :
    (flush (runOps { cap := cap } (lineOps ls)).1).1.sock = ls.flatMap (fun l => l.1 ++ [10]) := by
  rw [(healthy_stream (lineOps ls) { cap := cap } ⟨rfl, rfl⟩ rfl rfl).1, payloads_lineOps]

end Crng.BW
