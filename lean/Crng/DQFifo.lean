import Crng.DQSteps2
import Crng.DQMeta
namespace Crng.DQ

theorem sync_depth (s : St) : (sync s).mem.depth = s.mem.depth := by
  unfold sync persistMeta; split <;> rfl
theorem tickCount_depth (cfg : Cfg) (s : St) : (tickCount cfg s).mem.depth = s.mem.depth := by
  unfold tickCount; simp only []; split <;> split <;> simp [sync_depth]

theorem loopTop_depth {cfg : Cfg} {s : St} {recs : List Rec} (fuel : Nat) (h : Inv cfg s recs) :
    (loopTop cfg (fuel + 1) s).mem.depth = s.mem.depth := by
  unfold loopTop
  have h1 := tickCount_inv (cfg := cfg) h
  have hd1 := tickCount_depth cfg s
  generalize tickCount cfg s = s1 at h1 hd1
  simp only []
  cases recs with
  | nil =>
    have : hasData s1.mem = false := by
      cases hh : hasData s1.mem
      · rfl
      · exact absurd rfl ((hasData_iff cfg s1 [] h1).mp hh)
    simp only [this, Bool.false_and, Bool.false_eq_true, if_false]; exact hd1
  | cons r rs =>
    split
    · obtain ⟨s', hs', _, _⟩ := readOne_inv h1
      rw [hs']
      simp only []
      have : s'.mem.depth = s1.mem.depth := by
        unfold readOne at hs'
        split at hs'
        · cases hs'
        · split at hs'
          · cases hs'
          · split at hs' <;> (cases hs'; rfl)
      rw [this]; exact hd1
    · exact hd1

theorem writeOne_depth (cfg : Cfg) (s : St) (m : Bytes) : (writeOne cfg s m).mem.depth = s.mem.depth + 1 := by
  obtain ⟨_, _, _, _, o5, _⟩ := writeData_mem s m
  unfold writeOne
  simp only []
  split
  · simp [finishRoll, sync_depth, rollState, o5]
  · exact o5

theorem sync_meta (s : St) : ∃ junk, (sync s).disk.metaF = some (renderMeta s.mem ++ junk) ∧ (sync s).disk.segs = s.disk.segs := by
  unfold sync persistMeta
  by_cases hw : s.mem.writeOpen = true <;> simp only [hw, St.crash] <;> exact ⟨_, rfl, rfl⟩

/-- consistent, next message loaded, depth exact -/
structure Full (cfg : Cfg) (s : St) (recs : List Rec) : Prop where
  inv : Inv cfg s recs
  ready : Ready cfg s recs
  depth : s.mem.depth = recs.length

theorem loopTop_full {cfg : Cfg} {s : St} {recs : List Rec} (fuel : Nat) (h : Inv cfg s recs)
    (hd : s.mem.depth = recs.length) : Full cfg (loopTop cfg (fuel + 1) s) recs :=
  ⟨(loopTop_inv fuel h).1, (loopTop_inv fuel h).2, by rw [loopTop_depth fuel h]; exact hd⟩

/-- a clean close followed by a reopen keeps the pending records -/
theorem reopen_full {cfg : Cfg} {s : St} {recs : List Rec} (log : Log) (g : Ghost) (h : Full cfg s recs) :
    Full cfg (openQ cfg (closeQ s).disk log g) recs := by
  obtain ⟨junk, hm, hsegs⟩ := sync_meta { s with mem := { s.mem with readOpen := false, writeOpen := false } }
  have hdep : 0 ≤ s.mem.depth := by rw [h.depth]; exact Int.natCast_nonneg _
  have hparse := parse_render { s.mem with readOpen := false, writeOpen := false } junk hdep
  have hload : loadMem (closeQ s).disk =
      { depth := s.mem.depth, rfn := s.mem.rfn, rpos := s.mem.rpos, wfn := s.mem.wfn, wpos := s.mem.wpos,
        nrfn := s.mem.rfn, nrpos := s.mem.rpos } := by
    unfold loadMem closeQ
    rw [hm]
    simp only [Option.bind_some, hparse]
  have base : Inv cfg { mem := loadMem (closeQ s).disk, disk := (closeQ s).disk, log := log, g := g } recs := by
    rw [hload]
    exact { chain := h.inv.chain
            ondisk := fun r hr => OnDisk_of_segs _ _ (by unfold closeQ; exact hsegs) r (h.inv.ondisk r hr)
            small := h.inv.small
            ahead := Or.inl ⟨rfl, rfl⟩ }
  unfold openQ fuelOf
  exact loopTop_full _ base (by rw [hload]; exact h.depth)

/-- the abstract queue -/
def specOutputs : List Bytes → List Ev → List (Option Bytes)
  | _, [] => []
  | q, .put m :: es => none :: specOutputs (q ++ [m]) es
  | [], .get :: es => none :: specOutputs [] es
  | x :: q, .get :: es => some x :: specOutputs q es
  | q, .reopen :: es => none :: specOutputs q es

def specQueue : List Bytes → List Ev → List Bytes
  | q, [] => q
  | q, .put m :: es => specQueue (q ++ [m]) es
  | [], .get :: es => specQueue [] es
  | _ :: q, .get :: es => specQueue q es
  | q, .reopen :: es => specQueue q es

def outputs (cfg : Cfg) : St → List Ev → List (Option Bytes)
  | _, [] => []
  | s, e :: es => (stepEv cfg s e).2 :: outputs cfg (stepEv cfg s e).1 es

def runEvs (cfg : Cfg) : St → List Ev → St
  | s, [] => s
  | s, e :: es => runEvs cfg (stepEv cfg s e).1 es

def smallEv : Ev → Prop
  | .put m => m.length < 2147483648
  | _ => True

theorem step_full {cfg : Cfg} {s : St} {recs : List Rec} (e : Ev) (h : Full cfg s recs) (hsm : smallEv e) :
    ∃ recs', Full cfg (stepEv cfg s e).1 recs' ∧
      (stepEv cfg s e).2 :: [] = specOutputs (recs.map (·.msg)) [e] ∧
      recs'.map (·.msg) = specQueue (recs.map (·.msg)) [e] := by
  cases e with
  | put m =>
    have h1 := writeOne_inv (cfg := cfg) m hsm h.inv
    refine ⟨_, loopTop_full (s.disk.segs.length + 1001) h1 ?_, rfl, by simp [specQueue]⟩
    rw [writeOne_depth, h.depth]; simp
  | get =>
    cases recs with
    | nil =>
      have : hasData s.mem = false := by
        cases hh : hasData s.mem
        · rfl
        · exact absurd rfl ((hasData_iff cfg s [] h.inv).mp hh)
      refine ⟨[], ?_, ?_, rfl⟩
      · simp only [stepEv, this, Bool.false_eq_true, if_false]; exact h
      · simp only [stepEv, this, Bool.false_eq_true, if_false]; rfl
    | cons r rs =>
      have hd : hasData s.mem = true := (hasData_iff cfg s _ h.inv).mpr (by simp)
      have h1 := moveForward_inv h.inv h.ready
      have hdat := (h.ready r rs rfl).1
      refine ⟨rs, ?_, ?_, rfl⟩
      · simp only [stepEv, hd, if_true, fuelOf]
        exact loopTop_full _ h1.1 (h1.2 h.depth).1
      · simp only [stepEv, hd, if_true, hdat]; rfl
  | reopen =>
    exact ⟨recs, reopen_full _ _ h, rfl, rfl⟩

/-- C09: from any consistent state the queue behaves as the abstract FIFO, through rollovers and clean restarts,
    and its depth counter is the length of the abstract queue -/
theorem fifo_refines (cfg : Cfg) : ∀ (es : List Ev) (s : St) (recs : List Rec),
    Full cfg s recs → (∀ e ∈ es, smallEv e) →
    outputs cfg s es = specOutputs (recs.map (·.msg)) es ∧
    (runEvs cfg s es).mem.depth = (specQueue (recs.map (·.msg)) es).length := by
  intro es
  induction es with
  | nil => intro s recs h _; exact ⟨rfl, by simp [runEvs, specQueue, h.depth]⟩
  | cons e es ih =>
    intro s recs h hsm
    obtain ⟨recs', hf, ho, hq⟩ := step_full e h (hsm e (List.mem_cons_self ..))
    have := ih _ recs' hf (fun e he => hsm e (List.mem_cons_of_mem _ he))
    simp only [outputs, runEvs]
    rw [this.1, this.2, hq]
    cases e with
    | put m => simp [specOutputs, specQueue] at ho ⊢; exact ho
    | get => cases hr : recs.map (·.msg) with
      | nil => rw [hr] at ho; simp [specOutputs, specQueue] at ho ⊢; exact ho
      | cons x q => rw [hr] at ho; simp [specOutputs, specQueue] at ho ⊢; exact ho
    | reopen => simp [specOutputs, specQueue] at ho ⊢; exact ho

/-- a fresh queue (empty directory) is consistent -/
theorem fresh_full (cfg : Cfg) : Full cfg (openQ cfg {} []) [] := by
  have base : Inv cfg { mem := loadMem {}, disk := {}, log := [], g := {} } [] :=
    { chain := rfl, ondisk := (fun r hr => by cases hr), small := (fun r hr => by cases hr), ahead := Or.inl ⟨rfl, rfl⟩ }
  unfold openQ fuelOf
  exact loopTop_full _ base rfl

theorem c09_fifo (cfg : Cfg) (es : List Ev) (hsm : ∀ e ∈ es, smallEv e) :
    outputs cfg (openQ cfg {} []) es = specOutputs [] es ∧
    (runEvs cfg (openQ cfg {} []) es).mem.depth = (specQueue [] es).length :=
  fifo_refines cfg es _ [] (fresh_full cfg) hsm

#print axioms c09_fifo
end Crng.DQ
