import Crng.DQLemmas
namespace Crng.DQ

def Rec.stop (r : Rec) : Nat := r.off + 4 + r.msg.length
def Rec.next (cfg : Cfg) (r : Rec) : Nat × Nat :=
  if r.stop > cfg.maxBytes then (r.file + 1, 0) else (r.file, r.stop)

/-- positions compare lexicographically (file, offset) -/
def Le (a b : Nat × Nat) : Prop := a.1 < b.1 ∨ (a.1 = b.1 ∧ a.2 ≤ b.2)
def Lt (a b : Nat × Nat) : Prop := a.1 < b.1 ∨ (a.1 = b.1 ∧ a.2 < b.2)

theorem Le.refl (a : Nat × Nat) : Le a a := Or.inr ⟨rfl, Nat.le_refl _⟩
theorem Le.trans {a b c : Nat × Nat} (h1 : Le a b) (h2 : Le b c) : Le a c := by
  unfold Le at *; omega
theorem Lt_of_Lt_of_Le {a b c : Nat × Nat} (h1 : Lt a b) (h2 : Le b c) : Lt a c := by
  unfold Le Lt at *; omega

theorem Rec.lt_next (cfg : Cfg) (r : Rec) : Lt (r.file, r.off) (r.next cfg) := by
  unfold Rec.next Lt Rec.stop
  split <;> simp <;> omega

/-- the records lie one after another from `s` to `e`, rolling files exactly like the writer -/
def Chain (cfg : Cfg) : Nat × Nat → List Rec → Nat × Nat → Prop
  | s, [], e => s = e
  | s, r :: rs, e => (r.file, r.off) = s ∧ Chain cfg (r.next cfg) rs e

theorem chain_le (cfg : Cfg) : ∀ (rs : List Rec) (s e : Nat × Nat), Chain cfg s rs e → Le s e := by
  intro rs
  induction rs with
  | nil => intro s e h; simp [Chain] at h; subst h; exact Le.refl _
  | cons r rs ih =>
    intro s e h
    obtain ⟨h1, h2⟩ := h
    have := ih _ _ h2
    have hl := Rec.lt_next cfg r
    rw [h1] at hl
    unfold Le Lt at *; omega

theorem chain_lt (cfg : Cfg) (r : Rec) (rs : List Rec) (s e : Nat × Nat) (h : Chain cfg s (r :: rs) e) : Lt s e := by
  obtain ⟨h1, h2⟩ := h
  have := chain_le cfg _ _ _ h2
  have hl := Rec.lt_next cfg r
  rw [h1] at hl
  exact Lt_of_Lt_of_Le hl this

/-- every record of a chain lies between its ends; in the last file it stops before the end offset -/
theorem chain_bound (cfg : Cfg) : ∀ (rs : List Rec) (s e : Nat × Nat), Chain cfg s rs e →
    ∀ r ∈ rs, s.1 ≤ r.file ∧ (r.file < e.1 ∨ (r.file = e.1 ∧ r.stop ≤ e.2)) := by
  intro rs
  induction rs with
  | nil => intro s e _ r hr; simp at hr
  | cons r0 rs ih =>
    intro s e h r hr
    obtain ⟨h1, h2⟩ := h
    have hle := chain_le cfg _ _ _ h2
    rcases List.mem_cons.mp hr with rfl | hr'
    · constructor
      · rw [← h1]; exact Nat.le_refl _
      · unfold Rec.next at hle
        unfold Le at hle
        split at hle <;> simp at hle <;> omega
    · have := ih _ _ h2 r hr'
      constructor
      · have hs : s.1 ≤ (r0.next cfg).1 := by
          rw [← h1]; unfold Rec.next; split <;> simp
        omega
      · exact this.2

theorem chain_append (cfg : Cfg) : ∀ (rs : List Rec) (s e : Nat × Nat) (r : Rec), Chain cfg s rs e →
    (r.file, r.off) = e → Chain cfg s (rs ++ [r]) (r.next cfg) := by
  intro rs
  induction rs with
  | nil => intro s e r h hr; simp [Chain] at *; subst h; exact hr
  | cons r0 rs ih => intro s e r h hr; exact ⟨h.1, ih _ _ r h.2 hr⟩

/-- the bytes of record `r` are in its segment file at its offset -/
def OnDisk (d : Disk) (r : Rec) : Prop :=
  ∃ c rest, segGet d r.file = some c ∧ c.drop r.off = encode r.msg ++ rest

structure Inv (cfg : Cfg) (s : St) (recs : List Rec) : Prop where
  chain : Chain cfg (s.mem.rfn, s.mem.rpos) recs (s.mem.wfn, s.mem.wpos)
  ondisk : ∀ r ∈ recs, OnDisk s.disk r
  small : ∀ r ∈ recs, r.msg.length < 2147483648
  ahead : (s.mem.nrfn = s.mem.rfn ∧ s.mem.nrpos = s.mem.rpos) ∨
          (∃ r rs, recs = r :: rs ∧ s.mem.dataRead = r.msg ∧ (s.mem.nrfn, s.mem.nrpos) = r.next cfg)

/-- the depth counter equals the number of pending records -/
def DepthOK (s : St) (recs : List Rec) : Prop := s.mem.depth = recs.length

/-- a message is loaded for the consumer whenever there is one -/
def Ready (cfg : Cfg) (s : St) (recs : List Rec) : Prop :=
  ∀ r rs, recs = r :: rs → s.mem.dataRead = r.msg ∧ (s.mem.nrfn, s.mem.nrpos) = r.next cfg

theorem hasData_iff (cfg : Cfg) (s : St) (recs : List Rec) (h : Inv cfg s recs) : hasData s.mem = true ↔ recs ≠ [] := by
  constructor
  · intro hd hn
    subst hn
    have := h.chain
    simp [Chain] at this
    simp [hasData, this.1, this.2] at hd
  · intro hne
    cases recs with
    | nil => exact absurd rfl hne
    | cons r rs =>
      have := chain_lt cfg r rs _ _ h.chain
      unfold Lt at this
      simp [hasData]
      omega

end Crng.DQ
