import Crng.GoSliceSpec
/-! destination/keepsafe.go at the level of Go slice headers over shared backing arrays: `Add` appends to `safeRecent`,
    the rotation makes `safeRecent` the old generation and allocates a *fresh* recent one, `GetAll` returns
    `append(safeOld, safeRecent...)` and starts over with two fresh slices.
    The point of modelling headers and arrays: whether the two generations can ever share an array. -/
namespace Crng.KeepSafe
open Crng.GoSlice

structure KS where
  h : Heap Nat
  old : Hdr
  recent : Hdr
  deriving Repr

inductive Op where
  | add (x : Nat)
  | rotate
  | getAll
  deriving Repr

/-- `make([][]byte, 0, cap)` -/
def fresh (h : Heap Nat) (cap : Nat) : Heap Nat × Hdr := (h ++ [List.replicate cap 0], ⟨h.length, 0, cap⟩)

def appendAll (slack : Nat) (h : Heap Nat) (s : Hdr) (xs : List Nat) : Heap Nat × Hdr :=
  xs.foldl (fun st x => goAppend slack st.1 st.2 x) (h, s)

/-- one operation; the second component is what `GetAll` returned -/
def step (slack cap : Nat) (k : KS) : Op → KS × List Nat
  | .add x => let r := goAppend slack k.h k.recent x; ({ k with h := r.1, recent := r.2 }, [])
  | .rotate => let f := fresh k.h cap; ({ h := f.1, old := k.recent, recent := f.2 }, [])
  | .getAll =>
    let r := appendAll slack k.h k.old (view k.h k.recent)
    let f1 := fresh r.1 cap
    let f2 := fresh f1.1 cap
    ({ h := f2.1, old := f1.2, recent := f2.2 }, view r.1 r.2)

/-- the two generations as plain lists -/
def specStep (a : List Nat × List Nat) : Op → (List Nat × List Nat) × List Nat
  | .add x => ((a.1, a.2 ++ [x]), [])
  | .rotate => ((a.2, []), [])
  | .getAll => (([], []), a.1 ++ a.2)

def init (cap : Nat) : KS :=
  let f1 := fresh [] cap
  let f2 := fresh f1.1 cap
  { h := f2.1, old := f1.2, recent := f2.2 }

/-- representation invariant: both headers well-formed, on different arrays, showing the two generations -/
structure Rep (k : KS) (a : List Nat × List Nat) : Prop where
  wfOld : WF k.h k.old
  wfRecent : WF k.h k.recent
  apart : k.old.arr ≠ k.recent.arr
  vOld : view k.h k.old = a.1
  vRecent : view k.h k.recent = a.2

theorem goAppend_other (slack : Nat) (h : Heap Nat) (s p : Hdr) (x : Nat) (ws : WF h s) (wp : WF h p) (hne : p.arr ≠ s.arr) :
    view (goAppend slack h s x).1 p = view h p ∧ WF (goAppend slack h s x).1 p := by
  unfold goAppend
  split
  · refine ⟨?_, ?_⟩
    · simp only [view, cells_set_ne h s.arr p.arr _ hne]
    · refine ⟨wp.1, ?_, ?_⟩
      · simp only [cells_set_ne h s.arr p.arr _ hne]; exact wp.2.1
      · simp only [List.length_set]; exact wp.2.2
  · refine ⟨view_append_heap h _ p wp.2.2, wp.1, ?_, ?_⟩
    · simp only [cells_append_lt h _ p.arr wp.2.2]; exact wp.2.1
    · simp only [List.length_append, List.length_cons, List.length_nil]; have := wp.2.2; omega

theorem goAppend_self (slack : Nat) (h : Heap Nat) (s : Hdr) (x : Nat) (ws : WF h s) :
    view (goAppend slack h s x).1 (goAppend slack h s x).2 = view h s ++ [x] ∧ WF (goAppend slack h s x).1 (goAppend slack h s x).2 := by
  have := step_view (α := Nat) slack h s ws (.appendElem x) rfl
  simpa [GoSlice.step, specOp] using this

theorem goAppend_arr (slack : Nat) (h : Heap Nat) (s : Hdr) (x : Nat) (ws : WF h s) (p : Hdr) (wp : WF h p) (hne : p.arr ≠ s.arr) :
    p.arr ≠ (goAppend slack h s x).2.arr := by
  unfold goAppend
  split
  · exact hne
  · simp only; have := wp.2.2; omega

theorem goAppend_heap_len (slack : Nat) (h : Heap Nat) (s : Hdr) (x : Nat) : h.length ≤ (goAppend slack h s x).1.length := by
  unfold goAppend
  split
  · simp
  · simp

theorem appendAll_view (slack : Nat) (xs : List Nat) : ∀ (h : Heap Nat) (s : Hdr), WF h s →
    view (appendAll slack h s xs).1 (appendAll slack h s xs).2 = view h s ++ xs := by
  induction xs with
  | nil => intro h s _; simp [appendAll]
  | cons x xs ih =>
    intro h s ws
    have hs := goAppend_self slack h s x ws
    have := ih (goAppend slack h s x).1 (goAppend slack h s x).2 hs.2
    simp only [appendAll, List.foldl_cons] at this ⊢
    rw [this, hs.1]
    simp

theorem wf_fresh (h : Heap Nat) (cap : Nat) : WF (fresh h cap).1 (fresh h cap).2 := by
  simp [fresh, WF, cells, List.getD]

theorem view_fresh (h : Heap Nat) (cap : Nat) : view (fresh h cap).1 (fresh h cap).2 = [] := by
  simp [fresh, view]

theorem wf_after_fresh (h : Heap Nat) (cap : Nat) (p : Hdr) (wp : WF h p) : WF (fresh h cap).1 p ∧ view (fresh h cap).1 p = view h p := by
  refine ⟨⟨wp.1, ?_, ?_⟩, view_append_heap h _ p wp.2.2⟩
  · simp only [fresh, cells_append_lt h _ p.arr wp.2.2]; exact wp.2.1
  · simp only [fresh, List.length_append, List.length_cons, List.length_nil]; have := wp.2.2; omega

theorem rep_init (cap : Nat) : Rep (init cap) ([], []) := by
  refine ⟨?_, ?_, ?_, ?_, ?_⟩ <;> simp [init, fresh, WF, cells, List.getD, view]

/-- every operation of the slice-level keepSafe does what the two-list description says -/
theorem step_refines (slack cap : Nat) (k : KS) (a : List Nat × List Nat) (r : Rep k a) (op : Op) :
    Rep (step slack cap k op).1 (specStep a op).1 ∧ (step slack cap k op).2 = (specStep a op).2 := by
  cases op with
  | add x =>
    have hs := goAppend_self slack k.h k.recent x r.wfRecent
    have ho := goAppend_other slack k.h k.recent k.old x r.wfRecent r.wfOld r.apart
    refine ⟨⟨ho.2, hs.2, goAppend_arr slack k.h k.recent x r.wfRecent k.old r.wfOld r.apart, ?_, ?_⟩, rfl⟩
    · simp only [step, specStep]; rw [ho.1]; exact r.vOld
    · simp only [step, specStep]; rw [hs.1, r.vRecent]
  | rotate =>
    have hw := wf_after_fresh k.h cap k.recent r.wfRecent
    refine ⟨⟨hw.1, wf_fresh k.h cap, ?_, ?_, ?_⟩, rfl⟩
    · simp only [step, fresh]; have := r.wfRecent.2.2; omega
    · simp only [step, specStep]; rw [hw.2]; exact r.vRecent
    · simp only [step, specStep]; exact view_fresh k.h cap
  | getAll =>
    refine ⟨⟨?_, ?_, ?_, ?_, ?_⟩, ?_⟩
    · simp only [step]; exact (wf_after_fresh _ cap _ (wf_fresh _ cap)).1
    · simp only [step]; exact wf_fresh _ cap
    · simp [step, fresh]
    · simp only [step, specStep]; rw [(wf_after_fresh _ cap _ (wf_fresh _ cap)).2]; exact view_fresh _ cap
    · simp only [step, specStep]; exact view_fresh _ cap
    · simp only [step, specStep]
      rw [appendAll_view slack _ k.h k.old r.wfOld, r.vOld, r.vRecent]

/-- run a history; collect what the `GetAll`s returned -/
def run (slack cap : Nat) : KS → List Op → KS × List (List Nat)
  | k, [] => (k, [])
  | k, op :: ops => let r := step slack cap k op
                    let rest := run slack cap r.1 ops
                    (rest.1, (match op with | .getAll => [r.2] | _ => []) ++ rest.2)

def specRun : List Nat × List Nat → List Op → (List Nat × List Nat) × List (List Nat)
  | a, [] => (a, [])
  | a, op :: ops => let r := specStep a op
                    let rest := specRun r.1 ops
                    (rest.1, (match op with | .getAll => [r.2] | _ => []) ++ rest.2)

/-- **keepSafe, all histories**: whatever the interleaving of Add, rotation ticks and GetAll, and whatever the growth policy of
    `append`, every GetAll returns exactly the lines added since the rotation before the last one (old ++ recent) -/
theorem run_refines (slack cap : Nat) (ops : List Op) : ∀ (k : KS) (a : List Nat × List Nat), Rep k a →
    (run slack cap k ops).2 = (specRun a ops).2 ∧ Rep (run slack cap k ops).1 (specRun a ops).1 := by
  induction ops with
  | nil => intro k a r; exact ⟨rfl, r⟩
  | cons op ops ih =>
    intro k a r
    have hs := step_refines slack cap k a r op
    have := ih (step slack cap k op).1 (specStep a op).1 hs.1
    simp only [run, specRun]
    refine ⟨?_, this.2⟩
    rw [this.1]
    cases op <;> simp [hs.2]

/-- the aliasing variant (`safeRecent = safeRecent[:0]` on rotation) loses lines: added 1,2 — tick — added 3 — GetAll returns [3,2,3] -/
def stepAlias (slack cap : Nat) (k : KS) : Op → KS × List Nat
  | .rotate => ({ k with old := k.recent, recent := { k.recent with len := 0 } }, [])
  | op => step slack cap k op

example : let k0 := init 4
    let k1 := (stepAlias 0 4 k0 (.add 1)).1
    let k2 := (stepAlias 0 4 k1 (.add 2)).1
    let k3 := (stepAlias 0 4 k2 .rotate).1
    let k4 := (stepAlias 0 4 k3 (.add 3)).1
    (stepAlias 0 4 k4 .getAll).2 = [3, 2, 3] := by decide

end Crng.KeepSafe
