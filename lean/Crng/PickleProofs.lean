import Crng.Pickle
import Crng.DQMeta
namespace Crng.Pk
open Crng.DQ (natDigits scanNat scanNat_natDigits isDigit)

theorem u8 (n : Nat) (h : n < 256) : (UInt8.ofNat n).toNat = n := by
  rw [UInt8.toNat_ofNat']; omega

theorem rdLE_le16 (n : Nat) (h : n < 65536) : rdLE (le16 n) = n := by
  simp only [le16, rdLE]
  rw [u8 _ (Nat.mod_lt _ (by decide)), u8 _ (Nat.mod_lt _ (by decide))]; omega

theorem rdLE_le32 (n : Nat) (h : n < 4294967296) : rdLE (le32 n) = n := by
  simp only [le32, rdLE]
  rw [u8 _ (Nat.mod_lt _ (by decide)), u8 _ (Nat.mod_lt _ (by decide)), u8 _ (Nat.mod_lt _ (by decide)), u8 _ (Nat.mod_lt _ (by decide))]
  omega

theorem rdBE_be64 (n : Nat) (h : n < 18446744073709551616) : rdBE (be64 n) = n := by
  have e : be64 n = [UInt8.ofNat (n / 72057594037927936 % 256), UInt8.ofNat (n / 281474976710656 % 256), UInt8.ofNat (n / 1099511627776 % 256),
      UInt8.ofNat (n / 4294967296 % 256), UInt8.ofNat (n / 16777216 % 256), UInt8.ofNat (n / 65536 % 256), UInt8.ofNat (n / 256 % 256),
      UInt8.ofNat (n / 1 % 256)] := by
    simp [be64, List.range, List.range.loop]
  rw [e]
  simp only [rdBE, List.foldl]
  rw [u8 _ (Nat.mod_lt _ (by decide)), u8 _ (Nat.mod_lt _ (by decide)), u8 _ (Nat.mod_lt _ (by decide)), u8 _ (Nat.mod_lt _ (by decide)),
      u8 _ (Nat.mod_lt _ (by decide)), u8 _ (Nat.mod_lt _ (by decide)), u8 _ (Nat.mod_lt _ (by decide)), u8 _ (Nat.mod_lt _ (by decide))]
  omega

end Crng.Pk

namespace Crng.Pk
open Crng.DQ (natDigits scanNat scanNat_natDigits isDigit)

/-- one VM iteration for a non-STOP opcode -/
theorem run_step (f : Nat) (op : UInt8) (rest rest' : Bytes) (st st' : List V) (hop : op.toNat ≠ 46)
    (h : stepOp op.toNat rest st = some (rest', st')) : run (f + 1) (op :: rest) st = run f rest' st' := by
  simp only [run, hop, if_false, h]

/-- one VM step over an encoded string -/
theorem run_str (f : Nat) (s rest : Bytes) (st : List V) (h : s.length < 4294967296) :
    run (f + 1) (encStr s ++ rest) st = run f rest (.str s :: st) := by
  unfold encStr
  by_cases hs : s.length < 256
  · simp only [hs, if_true, List.cons_append]
    apply run_step _ _ _ _ _ _ (by decide)
    show stepOp 85 _ _ = _
    have : ¬ ((s ++ rest).length < s.length) := by simp
    simp only [stepOp, u8 _ hs, this, if_false]
    simp
  · simp only [hs, if_false, List.cons_append, List.append_assoc]
    apply run_step _ _ _ _ _ _ (by decide)
    show stepOp 84 _ _ = _
    have hl : (le32 s.length).length = 4 := rfl
    have h1 : ¬ ((le32 s.length ++ (s ++ rest)).length < 4) := by simp [hl]
    have h2 : (le32 s.length ++ (s ++ rest)).take 4 = le32 s.length := by
      rw [List.take_append_of_le_length (Nat.le_of_eq hl.symm)]; exact List.take_of_length_le (Nat.le_of_eq hl)
    have h3 : (le32 s.length ++ (s ++ rest)).drop 4 = s ++ rest := by
      rw [List.drop_append_of_le_length (Nat.le_of_eq hl.symm)]; rw [List.drop_of_length_le (Nat.le_of_eq hl)]; rfl
    have : ¬ ((s ++ rest).length < s.length) := by simp
    simp only [stepOp, h1, if_false, h2, h3, rdLE_le32 _ h, this]
    simp

/-- one VM step over an encoded unsigned 32-bit integer -/
theorem run_int (f : Nat) (i : Nat) (rest : Bytes) (st : List V) (h : i < 4294967296) :
    run (f + 1) (encInt i ++ rest) st = run f rest (.int i :: st) := by
  unfold encInt
  by_cases h1 : 0 < i ∧ i < 255
  · simp only [h1, and_self, if_true, List.cons_append, List.nil_append]
    apply run_step _ _ _ _ _ _ (by decide)
    show stepOp 75 _ _ = _
    simp only [stepOp, u8 _ (by omega : i < 256)]
  · simp only [h1, if_false]
    by_cases h2 : 0 < i ∧ i < 65535
    · simp only [h2, and_self, if_true, List.cons_append]
      apply run_step _ _ _ _ _ _ (by decide)
      show stepOp 77 _ _ = _
      have hl : (le16 i).length = 2 := rfl
      have a1 : ¬ ((le16 i ++ rest).length < 2) := by simp [hl]
      have a2 : (le16 i ++ rest).take 2 = le16 i := by rw [List.take_append_of_le_length (Nat.le_of_eq hl.symm)]; exact List.take_of_length_le (Nat.le_of_eq hl)
      have a3 : (le16 i ++ rest).drop 2 = rest := by rw [List.drop_append_of_le_length (Nat.le_of_eq hl.symm)]; rw [List.drop_of_length_le (Nat.le_of_eq hl)]; rfl
      simp only [stepOp, a1, if_false, a2, a3, rdLE_le16 _ (by omega : i < 65536)]
    · simp only [h2, if_false]
      by_cases h3 : i ≤ 2147483647
      · simp only [h3, if_true, List.cons_append]
        apply run_step _ _ _ _ _ _ (by decide)
        show stepOp 74 _ _ = _
        have hl : (le32 i).length = 4 := rfl
        have a1 : ¬ ((le32 i ++ rest).length < 4) := by simp [hl]
        have a2 : (le32 i ++ rest).take 4 = le32 i := by rw [List.take_append_of_le_length (Nat.le_of_eq hl.symm)]; exact List.take_of_length_le (Nat.le_of_eq hl)
        have a3 : (le32 i ++ rest).drop 4 = rest := by rw [List.drop_append_of_le_length (Nat.le_of_eq hl.symm)]; rw [List.drop_of_length_le (Nat.le_of_eq hl)]; rfl
        simp only [stepOp, a1, if_false, a2, a3, rdLE_le32 _ h]
      · simp only [h3, if_false, List.cons_append, List.append_assoc, List.nil_append]
        apply run_step _ _ _ _ _ _ (by decide)
        show stepOp 73 _ _ = _
        simp only [stepOp, scanNat_natDigits i 10 rest (by decide)]

theorem run_float (f : Nat) (bits : Nat) (rest : Bytes) (st : List V) (hb : bits < 18446744073709551616) :
    run (f + 1) (71 :: (be64 bits ++ rest)) st = run f rest (.float bits :: st) := by
  apply run_step _ _ _ _ _ _ (by decide)
  show stepOp 71 _ _ = _
  have hl : (be64 bits).length = 8 := by simp [be64]
  have a1 : ¬ ((be64 bits ++ rest).length < 8) := by simp [hl]
  have a2 : (be64 bits ++ rest).take 8 = be64 bits := by
    rw [List.take_append_of_le_length (Nat.le_of_eq hl.symm)]; exact List.take_of_length_le (Nat.le_of_eq hl)
  have a3 : (be64 bits ++ rest).drop 8 = rest := by
    rw [List.drop_append_of_le_length (Nat.le_of_eq hl.symm)]; rw [List.drop_of_length_le (Nat.le_of_eq hl)]; rfl
  simp only [stepOp, a1, if_false, a2, a3, rdBE_be64 _ hb]

/-- **C16 (pickle half).** For every name shorter than 4 GiB, every 32-bit timestamp and every 64-bit float pattern,
    the body written by `Pickle` decodes to `[(name, (timestamp, value))]`. -/
theorem unpickle_pickle (name : Bytes) (ts bits : Nat) (hn : name.length < 4294967296) (ht : ts < 4294967296)
    (hb : bits < 18446744073709551616) :
    unpickle (pickleBody name ts bits) = some (.list [.tuple [.str name, .tuple [.int ts, .float bits]]]) := by
  unfold unpickle
  have hlen : ∃ k, (pickleBody name ts bits).length + 1 = k + 12 := by
    refine ⟨(pickleBody name ts bits).length + 1 - 12, ?_⟩
    have : 11 ≤ (pickleBody name ts bits).length := by
      simp [pickleBody, be64]; omega
    omega
  obtain ⟨k, hk⟩ := hlen
  rw [hk]
  unfold pickleBody
  simp only [List.cons_append, List.nil_append, List.append_assoc]
  rw [run_step _ 93 _ _ _ _ (by decide) (by rfl)]
  rw [run_step _ 40 _ _ _ _ (by decide) (by rfl)]
  rw [run_step _ 40 _ _ _ _ (by decide) (by rfl)]
  rw [run_str _ name _ _ hn]
  rw [run_step _ 40 _ _ _ _ (by decide) (by rfl)]
  rw [run_int _ ts _ _ ht]
  rw [run_float _ bits _ _ hb]
  rw [run_step _ 116 _ _ _ _ (by decide) (by rfl)]
  rw [run_step _ 116 _ _ _ _ (by decide) (by rfl)]
  rw [run_step _ 101 _ _ _ _ (by decide) (by rfl)]
  simp [run]

#print axioms unpickle_pickle
end Crng.Pk
