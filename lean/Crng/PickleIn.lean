import Crng.FloatFmt
/-! input/pickle.go (C13): frame loop (4-byte big-endian length, 500 MiB cap, protocol prefix check, payload read) over the
whole delivered stream, and the conversion of the decoded items into plain-text lines. og-rek's decoder is external: its
result for a frame body is a parameter (`decode`). -/
namespace Crng.PkIn
abbrev Bytes := List UInt8

/-- what og-rek hands back, tagged with the Go dynamic type that `pickle.go` switches on -/
inductive V where
  | str (b : Bytes)            -- string
  | int (z : Int)              -- int64 (and the other sized integer types)
  | big (z : Int)              -- *big.Int
  | float (bits : Nat)         -- float64
  | tuple (l : List V)         -- ogorek.Tuple
  | list (l : List V)          -- []interface{}
  | other                      -- None, bool, dict, Call, …
  deriving Repr, Inhabited

def str (s : String) : Bytes := s.toUTF8.toList

/-- one item `(name, (timestamp, value))` → `name value timestamp`, or `none` = counted invalid and skipped -/
def convert : V → Option Bytes
  | item =>
    let pair : V → Option (V × V)
      | .tuple [a, b] => some (a, b)
      | .list [a, b] => some (a, b)
      | _ => none
    match pair item with
    | none => none
    | some (nameV, dataV) =>
      match nameV with
      | .str name =>
        match pair dataV with
        | none => none
        | some (tsV, valV) =>
          let value : Option Bytes := match valV with
            | .str s => some s
            | .int z => some (str (toString z))
            | .big z => some (str (toString z))
            | .float b => some (str (Crng.FloatFmt.fmt6Bits (UInt64.ofNat b)))
            | _ => none
          let ts : Option Bytes := match tsV with
            | .str s => some s
            | .int z => some (str (toString z))
            | .big z => some (str (toString z))
            | .float b => some (str (Crng.FloatFmt.fmt0Bits (UInt64.ofNat b)))
            | _ => none
          match value, ts with
          | some v, some t => some (name ++ [32] ++ v ++ [32] ++ t)
          | _, _ => none
      | _ => none

inductive Dec where
  | ok (v : V)
  | unexpectedEOF        -- og-rek ran out of bytes: the handler returns quietly
  | err                  -- any other decoding error: the handler returns an error

structure Out where
  tokens : List Bytes := []
  invalid : Nat := 0
  err : Bool := false
  deriving Repr

/-- the item loop: a convertible item is dispatched, any other is counted invalid and skipped -/
def frameStep (acc : Out) (it : V) : Out :=
  match convert it with
  | some line => { acc with tokens := acc.tokens ++ [line] }
  | none => { acc with invalid := acc.invalid + 1 }

def be32 (b : Bytes) : Nat := b.foldl (fun a c => a * 256 + c.toNat) 0

/-- `checkProtocol` on the bytes that follow the length: which prefixes are accepted, and how many bytes it needs to see -/
def checkProtocol (rest : Bytes) : Bool :=
  match rest with
  | [] => false
  | 93 :: _ => true                         -- ']'  protocol 1
  | a :: b :: t =>
    if a == 40 && b == 108 then true          -- "(l" protocol 0
    else match t with
      | c :: _ => a == 128 && (c == 93 || c == 149)   -- \x80 v ']' (2, 3) or \x80 v \x95 (4)
      | [] => false
  | [_] => false

/-- the frame loop; `endsClean` = the stream ended with EOF (a read error in the middle of anything is an error) -/
def handle (decode : Bytes → Dec) (maxLen : Nat) (endsClean : Bool) : Nat → Bytes → Out → Out
  | 0, _, o => o
  | fuel + 1, s, o =>
    if s.isEmpty then (if endsClean then o else { o with err := true })
    else if s.length < 4 then { o with err := true }           -- couldn't read payload length
    else
      let len := be32 (s.take 4)
      let rest := s.drop 4
      if len > maxLen then { o with err := true }
      else if !checkProtocol rest then { o with err := true }
      else if rest.length < len then { o with err := true }     -- couldn't read payload
      else
        match decode (rest.take len) with
        | .unexpectedEOF => o
        | .err => { o with err := true }
        | .ok v =>
          match v with
          | .list items =>
            handle decode maxLen endsClean fuel (rest.drop len) (items.foldl frameStep o)
          | _ => { o with err := true }

def run (decode : Bytes → Dec) (endsClean : Bool) (s : Bytes) : Out :=
  handle decode (500 * 1024 * 1024) endsClean (s.length + 1) s {}

end Crng.PkIn
