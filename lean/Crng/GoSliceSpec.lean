import Crng.GoSlice
/-! the slice updates refine the list operations (C18: "the table view reflects exactly the sequence of changes") -/
namespace Crng.GoSlice
variable {α : Type} [Inhabited α]

/-- header well-formed w.r.t. the heap: len ≤ cap ≤ size of its backing array -/
def WF (h : Heap α) (s : Hdr) : Prop := s.len ≤ s.cap ∧ s.cap ≤ (cells h s.arr).length ∧ s.arr < h.length

/-- the list operation an update idiom stands for -/
def specOp (l : List α) : Op α → List α
  | .appendElem x => l ++ [x]
  | .deleteInPlace i => l.eraseIdx i
  | .deleteFull i => l.eraseIdx i
  | .fresh xs => xs

theorem view_length (h : Heap α) (s : Hdr) (wf : WF h s) : (view h s).length = s.len := by
  unfold view; simp; have := wf.1; have := wf.2.1; omega

theorem view_new (h : Heap α) (c : List α) (n cap : Nat) : view (h ++ [c]) ⟨h.length, n, cap⟩ = c.take n := by
  simp [view, cells, List.getD]

theorem step_view (slack : Nat) (h : Heap α) (cur : Hdr) (wf : WF h cur) (op : Op α) (hs : safe op = true) :
    view (step slack (h, cur) op).1 (step slack (h, cur) op).2 = specOp (view h cur) op ∧
    WF (step slack (h, cur) op).1 (step slack (h, cur) op).2 := by
  obtain ⟨w1, w2, w3⟩ := wf
  have hvl := view_length h cur ⟨w1, w2, w3⟩
  cases op with
  | deleteInPlace i => simp [safe] at hs
  | fresh xs =>
    simp only [step, specOp]
    refine ⟨?_, ?_⟩
    · simp [view, cells, List.getD]
    · simp [WF, cells, List.getD]
  | appendElem x =>
    simp only [step, goAppend, specOp]
    split
    · rename_i hroom
      have hlt : cur.len < (cells h cur.arr).length := by omega
      refine ⟨?_, ?_⟩
      · simp only [view, cells_set_eq h cur.arr _ w3]
        rw [List.take_succ]
        simp [List.take_set_of_le (Nat.le_refl _), List.getElem?_set_self hlt]
      · simp only [WF, cells_set_eq h cur.arr _ w3]
        simp; omega
    · refine ⟨?_, ?_⟩
      · rw [view_new, ← hvl]
        have : (view h cur ++ [x]).length = (view h cur).length + 1 := by simp
        rw [← this, List.take_append_of_le_length (Nat.le_refl _), List.take_length]
      · simp [WF, cells, List.getD, hvl]; omega
  | deleteFull i =>
    simp only [step, specOp]
    split
    · rename_i hle
      refine ⟨?_, ?_⟩
      · simp only [view]
        by_cases hi : cur.len ≤ i
        · rw [Nat.min_eq_right hi, List.eraseIdx_of_length_le (by simp; omega)]
        · have : i + 1 = cur.len := by omega
          rw [Nat.min_eq_left (by omega), List.eraseIdx_eq_take_drop_succ]
          rw [List.drop_of_length_le (by simp; omega)]
          simp [List.take_take]; omega
      · refine ⟨Nat.le_refl _, ?_, w3⟩
        simp only []
        have := Nat.min_le_right i cur.len
        omega
    · refine ⟨?_, ?_⟩
      · rw [view_new, List.take_append_of_le_length (Nat.le_refl _), List.take_length, List.eraseIdx_eq_take_drop_succ]
      · simp [WF, cells, List.getD]; omega

/-- the published view after any history of safe updates is the list obtained by the corresponding list operations -/
theorem run_view (slack : Nat) : ∀ (ops : List (Op α)) (h : Heap α) (cur : Hdr) (pubs : List Hdr), WF h cur →
    (∀ op ∈ ops, safe op = true) →
    view (run slack (h, cur) pubs ops).1 (run slack (h, cur) pubs ops).2.1 = ops.foldl specOp (view h cur) := by
  intro ops
  induction ops with
  | nil => intro h cur pubs _ _; rfl
  | cons op ops ih =>
    intro h cur pubs wf hs
    obtain ⟨hv, hwf⟩ := step_view slack h cur wf op (hs op (List.mem_cons_self ..))
    simp only [run, List.foldl_cons]
    rw [ih _ _ _ hwf (fun o ho => hs o (List.mem_cons_of_mem _ ho)), hv]

end Crng.GoSlice
