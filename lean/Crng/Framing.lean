/-! Scratch prototype: line framing of the plain-text input (C12). -/
namespace Crng.Fr
abbrev Bytes := List UInt8

def dropCR (l : Bytes) : Bytes := if l.getLast? = some 13 then l.dropLast else l

/-- result of scanning a complete stream -/
structure Out where
  tokens : List Bytes
  err : Bool
  deriving Repr, DecidableEq

/-- specification: newline-delimited lines of the whole stream, one trailing CR dropped, a final unterminated line kept;
    the first line of `max` bytes or more (terminator excluded) ends everything with an error -/
def specLines (max : Nat) : Nat → Bytes → Out
  | 0, _ => ⟨[], false⟩
  | fuel + 1, s =>
    if s.isEmpty then ⟨[], false⟩ else
    let line := s.takeWhile (· != 10)
    if line.length ≥ max then ⟨[], true⟩
    else if line.length < s.length then   -- a newline follows
      let r := specLines max fuel (s.drop (line.length + 1))
      ⟨dropCR line :: r.tokens, r.err⟩
    else ⟨[dropCR line], false⟩

def spec (max : Nat) (s : Bytes) : Out := specLines max (s.length + 1) s

/-- incremental scanner state: bytes received since the last emitted token -/
structure Sc where
  pend : Bytes := []
  err : Bool := false
  deriving Repr

/-- cut as many complete lines as possible out of `data` -/
def cut (max : Nat) : Nat → Bytes → List Bytes × Sc
  | 0, data => ([], ⟨data, false⟩)
  | fuel + 1, data =>
    let line := data.takeWhile (· != 10)
    if line.length ≥ max then ([], ⟨[], true⟩)
    else if line.length < data.length then
      let r := cut max fuel (data.drop (line.length + 1))
      (dropCR line :: r.1, r.2)
    else ([], ⟨data, false⟩)

def feed (max : Nat) (st : Sc) (chunk : Bytes) : List Bytes × Sc :=
  if st.err then ([], st) else cut max (st.pend.length + chunk.length + 1) (st.pend ++ chunk)

/-- end of stream (EOF or read error): the pending bytes are the final unterminated line -/
def finish (st : Sc) : List Bytes := if st.err || st.pend.isEmpty then [] else [dropCR st.pend]

def run (max : Nat) : Sc → List Bytes → List Bytes → Out
  | st, [], acc => ⟨acc ++ finish st, st.err⟩
  | st, c :: cs, acc => let r := feed max st c; run max r.2 cs (acc ++ r.1)

end Crng.Fr
