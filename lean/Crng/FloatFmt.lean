/-! `%f` (six decimals) of an IEEE binary64 given by its bit pattern — exact arithmetic, round half to even. -/
namespace Crng.FloatFmt

def pad (n : Nat) (s : String) : String := String.ofList (List.replicate (n - s.length) '0') ++ s

/-- round-half-even of num/den -/
def roundDiv (num den : Nat) : Nat :=
  let q := num / den
  let r := num % den
  if 2 * r > den then q + 1 else if 2 * r < den then q else (if q % 2 == 0 then q else q + 1)

def fmt6Bits (bits : UInt64) : String :=
  let b := bits.toNat
  let sign : Nat := b / 2^63
  let e : Nat := b / 2^52 % 2048
  let m : Nat := b % 2^52
  let s := if sign == 1 then "-" else ""
  if e == 2047 then (if m == 0 then (if sign == 1 then "-Inf" else "+Inf") else "NaN")
  else
    -- value = mant * 2^(ex)
    let mant : Nat := if e == 0 then m else m + 2^52
    let ex : Int := (if e == 0 then 1 else (e : Int)) - 1075
    let n := if ex ≥ 0 then mant * 2^ex.toNat * 1000000 else roundDiv (mant * 1000000) (2^(-ex).toNat)
    s ++ toString (n / 1000000) ++ "." ++ pad 6 (toString (n % 1000000))

def fmt6 (f : Float) : String := fmt6Bits f.toBits

/-- `%.0f`: the nearest integer, ties to even, of the exact binary value -/
def fmt0Bits (bits : UInt64) : String :=
  let b := bits.toNat
  let sign : Nat := b / 2^63
  let e : Nat := b / 2^52 % 2048
  let m : Nat := b % 2^52
  let s := if sign == 1 then "-" else ""
  if e == 2047 then (if m == 0 then (if sign == 1 then "-Inf" else "+Inf") else "NaN")
  else
    let mant : Nat := if e == 0 then m else m + 2^52
    let ex : Int := (if e == 0 then 1 else (e : Int)) - 1075
    let n := if ex ≥ 0 then mant * 2^ex.toNat else roundDiv mant (2^(-ex).toNat)
    s ++ toString n
end Crng.FloatFmt
