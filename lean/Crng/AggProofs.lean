import Crng.AggCore
namespace Crng.AggCore
variable {P R : Type}

/-! ### sorting -/
theorem mem_insertNat (x y : Nat) (l : List Nat) : y ∈ insertNat x l ↔ y = x ∨ y ∈ l := by
  induction l with
  | nil => simp [insertNat]
  | cons a t ih =>
    simp only [insertNat]
    split
    · simp [ih]; constructor <;> (intro h; rcases h with h | h | h <;> simp [h])
    · simp

theorem insertNat_sorted (x : Nat) (l : List Nat) (h : l.Pairwise (· ≤ ·)) : (insertNat x l).Pairwise (· ≤ ·) := by
  induction l with
  | nil => simp [insertNat]
  | cons a t ih =>
    simp only [insertNat]
    have ht := (List.pairwise_cons.mp h)
    split
    · rename_i hax
      refine List.pairwise_cons.mpr ⟨?_, ih ht.2⟩
      intro y hy
      rcases (mem_insertNat x y t).mp hy with rfl | hy
      · exact hax
      · exact ht.1 y hy
    · rename_i hax
      refine List.pairwise_cons.mpr ⟨?_, h⟩
      intro y hy
      rcases List.mem_cons.mp hy with rfl | hy
      · omega
      · have := ht.1 y hy; omega

theorem sortNat_spec (l : List Nat) : (∀ y, y ∈ sortNat l ↔ y ∈ l) ∧ (sortNat l).Pairwise (· ≤ ·) := by
  unfold sortNat
  suffices h : ∀ (l acc : List Nat), acc.Pairwise (· ≤ ·) →
      (∀ y, y ∈ l.foldl (fun acc x => insertNat x acc) acc ↔ y ∈ l ∨ y ∈ acc) ∧
      (l.foldl (fun acc x => insertNat x acc) acc).Pairwise (· ≤ ·) by
    have := h l [] List.Pairwise.nil
    exact ⟨fun y => by simpa using this.1 y, this.2⟩
  intro l
  induction l with
  | nil => intro acc h; simp [h]
  | cons a t ih =>
    intro acc h
    simp only [List.foldl_cons]
    obtain ⟨i1, i2⟩ := ih (insertNat a acc) (insertNat_sorted a acc h)
    refine ⟨fun y => ?_, i2⟩
    rw [i1 y, mem_insertNat, List.mem_cons]
    constructor
    · intro h; rcases h with h | h | h
      · exact Or.inl (Or.inr h)
      · exact Or.inl (Or.inl h)
      · exact Or.inr h
    · intro h; rcases h with (h | h) | h
      · exact Or.inr (Or.inl h)
      · exact Or.inl h
      · exact Or.inr (Or.inr h)

theorem insertNat_perm (x : Nat) (l : List Nat) : (insertNat x l).Perm (x :: l) := by
  induction l with
  | nil => exact List.Perm.refl _
  | cons a t ih =>
    simp only [insertNat]
    split
    · exact (List.Perm.cons a ih).trans (List.Perm.swap x a t)
    · exact List.Perm.refl _

theorem sortNat_perm (l : List Nat) : (sortNat l).Perm l := by
  unfold sortNat
  suffices h : ∀ (l acc : List Nat), (l.foldl (fun acc x => insertNat x acc) acc).Perm (l.reverse ++ acc) by
    have := h l []
    simp at this
    exact this.trans (List.reverse_perm l)
  intro l
  induction l with
  | nil => intro acc; exact List.Perm.refl _
  | cons a t ih =>
    intro acc
    simp only [List.foldl_cons, List.reverse_cons, List.append_assoc, List.singleton_append]
    exact (ih (insertNat a acc)).trans (List.Perm.append_left _ (insertNat_perm a acc))

/-! ### the bucket map -/
def keysOf (aggs : Aggs P) : List Nat := aggs.map (·.1)

theorem lookupB_some_mem (aggs : Aggs P) (b : Nat) (ks : List (String × P)) (h : lookupB aggs b = some ks) : (b, ks) ∈ aggs := by
  unfold lookupB at h
  cases hf : aggs.find? (·.1 == b) with
  | none => simp [hf] at h
  | some e =>
    simp [hf] at h
    have h1 := List.find?_some hf
    have h2 := List.mem_of_find?_eq_some hf
    simp at h1
    obtain ⟨e1, e2⟩ := e
    simp at h h1; subst h; subst h1; exact h2

theorem lookupB_none_iff (aggs : Aggs P) (b : Nat) : lookupB aggs b = none ↔ b ∉ keysOf aggs := by
  unfold lookupB keysOf
  induction aggs with
  | nil => simp
  | cons e t ih =>
    by_cases h : e.1 = b
    · simp [List.find?_cons, h]
    · have : (e.1 == b) = false := by simpa using h
      simp only [List.find?_cons, this, List.map_cons, List.mem_cons]
      rw [ih]; constructor
      · intro h1 h2; rcases h2 with h2 | h2
        · exact h h2.symm
        · exact h1 h2
      · intro h1 h2; exact h1 (Or.inr h2)

end Crng.AggCore

namespace Crng.AggCore
variable {P R : Type}

theorem lookupB_of_mem (aggs : Aggs P) (b : Nat) (ks : List (String × P)) (hn : (keysOf aggs).Nodup) (h : (b, ks) ∈ aggs) :
    lookupB aggs b = some ks := by
  unfold lookupB keysOf at *
  induction aggs with
  | nil => cases h
  | cons e t ih =>
    simp only [List.map_cons, List.nodup_cons] at hn
    rcases List.mem_cons.mp h with rfl | h
    · simp [List.find?_cons]
    · have hne : e.1 ≠ b := by
        intro heq; apply hn.1; rw [heq]; exact List.mem_map.mpr ⟨(b, ks), h, rfl⟩
      have : (e.1 == b) = false := by simpa using hne
      simp only [List.find?_cons, this]
      exact ih hn.2 h

theorem any_key_iff (aggs : Aggs P) (b : Nat) : aggs.any (·.1 == b) = true ↔ b ∈ keysOf aggs := by
  unfold keysOf
  induction aggs with
  | nil => simp
  | cons e t ih =>
    simp only [List.any_cons, Bool.or_eq_true, List.map_cons, List.mem_cons, ih, beq_iff_eq]
    constructor
    · intro h; rcases h with h | h
      · exact Or.inl h.symm
      · exact Or.inr h
    · intro h; rcases h with h | h
      · exact Or.inl h.symm
      · exact Or.inr h

theorem keysOf_setB (aggs : Aggs P) (b : Nat) (ks : List (String × P)) :
    keysOf (setB aggs b ks) = if b ∈ keysOf aggs then keysOf aggs else keysOf aggs ++ [b] := by
  unfold setB
  by_cases h : b ∈ keysOf aggs
  · have := (any_key_iff aggs b).mpr h
    simp only [this, if_true, h]
    unfold keysOf
    rw [List.map_map]
    apply List.map_congr_left
    intro e _
    simp only [Function.comp]
    split
    · rename_i he; have : e.1 = b := by simpa using he
      exact this.symm
    · rfl
  · have : aggs.any (·.1 == b) = false := by
      cases hh : aggs.any (·.1 == b)
      · rfl
      · exact absurd ((any_key_iff aggs b).mp hh) h
    have h' : ¬ b ∈ List.map (fun x => x.fst) aggs := h
    simp [this, h', keysOf]

theorem mem_setB (aggs : Aggs P) (b : Nat) (ks : List (String × P)) (b' : Nat) (ks' : List (String × P)) :
    (b', ks') ∈ setB aggs b ks ↔ (b' = b ∧ ks' = ks ∧ (b ∈ keysOf aggs ∨ True)) ∨ (b' ≠ b ∧ (b', ks') ∈ aggs) ∨
      (b' = b ∧ ks' = ks) := by
  unfold setB
  by_cases h : b ∈ keysOf aggs
  · have := (any_key_iff aggs b).mpr h
    simp only [this, if_true, List.mem_map]
    constructor
    · intro ⟨e, he, heq⟩
      split at heq
      · simp at heq; exact Or.inr (Or.inr ⟨heq.1.symm, heq.2.symm⟩)
      · rename_i hne
        subst heq
        exact Or.inr (Or.inl ⟨by simpa using hne, he⟩)
    · intro hh
      rcases hh with ⟨h1, h2, _⟩ | ⟨h1, h2⟩ | ⟨h1, h2⟩
      · subst h1; subst h2
        obtain ⟨x, hx⟩ := List.mem_map.mp h
        exact ⟨x, hx.1, by simp [hx.2]⟩
      · exact ⟨(b', ks'), h2, by simp [h1]⟩
      · subst h1; subst h2
        obtain ⟨x, hx⟩ := List.mem_map.mp h
        exact ⟨x, hx.1, by simp [hx.2]⟩
  · have : aggs.any (·.1 == b) = false := by
      cases hh : aggs.any (·.1 == b)
      · rfl
      · exact absurd ((any_key_iff aggs b).mp hh) h
    simp only [this, Bool.false_eq_true, if_false, List.mem_append, List.mem_singleton, Prod.mk.injEq]
    constructor
    · intro hh
      rcases hh with hh | ⟨h1, h2⟩
      · refine Or.inr (Or.inl ⟨?_, hh⟩)
        intro heq; apply h; rw [← heq]; exact List.mem_map.mpr ⟨(b', ks'), hh, rfl⟩
      · exact Or.inr (Or.inr ⟨h1, h2⟩)
    · intro hh
      rcases hh with ⟨h1, h2, _⟩ | ⟨_, h2⟩ | ⟨h1, h2⟩
      · exact Or.inr ⟨h1, h2⟩
      · exact Or.inl h2
      · exact Or.inr ⟨h1, h2⟩

/-- cleaner form -/
theorem mem_setB' (aggs : Aggs P) (b : Nat) (ks : List (String × P)) (b' : Nat) (ks' : List (String × P)) :
    (b', ks') ∈ setB aggs b ks ↔ (b' = b ∧ ks' = ks) ∨ (b' ≠ b ∧ (b', ks') ∈ aggs) := by
  rw [mem_setB]
  constructor
  · intro h; rcases h with ⟨a, b, _⟩ | h | h
    · exact Or.inl ⟨a, b⟩
    · exact Or.inr h
    · exact Or.inl h
  · intro h; rcases h with h | h
    · exact Or.inr (Or.inr h)
    · exact Or.inr (Or.inl h)

end Crng.AggCore

namespace Crng.AggCore
variable {P R : Type}

/-- bookkeeping invariant; `L` = largest cutoff flushed so far -/
structure AInv (s : St P) (L : Nat) : Prop where
  sorted : s.tsList.Pairwise (· ≤ ·)
  tsNodup : s.tsList.Nodup
  kNodup : (keysOf s.aggs).Nodup
  same : ∀ b, b ∈ s.tsList ↔ b ∈ keysOf s.aggs
  opened : ∀ b ks, (b, ks) ∈ s.aggs → ks ≠ [] → L < b
  inner : ∀ b ks, (b, ks) ∈ s.aggs → (ks.map (·.1)).Nodup

theorem sorted_append_of_last (l : List Nat) (q : Nat) (h : l.Pairwise (· ≤ ·))
    (hl : ∀ x, l.getLast? = some x → x ≤ q) : (l ++ [q]).Pairwise (· ≤ ·) := by
  rw [List.pairwise_append]
  refine ⟨h, by simp, ?_⟩
  intro a ha b hb
  simp at hb; subst hb
  -- a ≤ last ≤ q
  cases hlast : l.getLast? with
  | none => simp [List.getLast?_eq_none_iff] at hlast; subst hlast; cases ha
  | some x =>
    have hx := hl x hlast
    have hmem : x ∈ l := List.mem_of_getLast? hlast
    have : a ≤ x := by
      obtain ⟨pre, rfl⟩ : ∃ pre, l = pre ++ [x] := by
        have := List.getLast?_eq_some_iff.mp hlast
        obtain ⟨ys, hys⟩ := this
        exact ⟨ys, hys⟩
      rw [List.pairwise_append] at h
      rcases List.mem_append.mp ha with ha | ha
      · exact h.2.2 a ha x (by simp)
      · simp at ha; omega
    omega

theorem addOrCreate_inv (isOpen : Bool) (mk : P) (upd : P → P) (s : St P) (key : String) (q L : Nat)
    (h : AInv s L) (hopen : isOpen = true → L < q) : AInv (addOrCreate isOpen mk upd s key q) L := by
  unfold addOrCreate
  cases hl : lookupB s.aggs q with
  | some ks =>
    have hmem := lookupB_some_mem _ _ _ hl
    have hq : q ∈ keysOf s.aggs := List.mem_map.mpr ⟨(q, ks), hmem, rfl⟩
    simp only []
    cases hf : ks.find? (·.1 == key) with
    | some e =>
      obtain ⟨k0, p⟩ := e
      simp only []
      have hkne : ks ≠ [] := by intro h0; subst h0; simp at hf
      refine { sorted := h.sorted, tsNodup := h.tsNodup, kNodup := ?_, same := ?_, opened := ?_, inner := ?_ }
      · rw [keysOf_setB]; simp [hq]; exact h.kNodup
      · intro b; rw [keysOf_setB]; simp [hq]; exact h.same b
      · intro b ks' hm hne
        rcases (mem_setB' _ _ _ _ _).mp hm with ⟨rfl, _⟩ | ⟨_, hm'⟩
        · exact h.opened _ ks hmem hkne
        · exact h.opened b ks' hm' hne
      · intro b ks' hm
        rcases (mem_setB' _ _ _ _ _).mp hm with ⟨rfl, rfl⟩ | ⟨_, hm'⟩
        · have : (ks.map fun e => if e.1 == key then (key, upd p) else e).map (·.1) = ks.map (·.1) := by
            rw [List.map_map]; apply List.map_congr_left; intro e _
            simp only [Function.comp]; split
            · rename_i he; have : e.1 = key := by simpa using he
              exact this.symm
            · rfl
          rw [this]; exact h.inner _ ks hmem
        · exact h.inner b ks' hm'
    | none =>
      simp only []
      cases isOpen with
      | false => exact { sorted := h.sorted, tsNodup := h.tsNodup, kNodup := h.kNodup, same := h.same, opened := h.opened, inner := h.inner }
      | true =>
        simp only [if_true]
        refine { sorted := h.sorted, tsNodup := h.tsNodup, kNodup := ?_, same := ?_, opened := ?_, inner := ?_ }
        · rw [keysOf_setB]; simp [hq]; exact h.kNodup
        · intro b; rw [keysOf_setB]; simp [hq]; exact h.same b
        · intro b ks' hm hne
          rcases (mem_setB' _ _ _ _ _).mp hm with ⟨rfl, _⟩ | ⟨_, hm'⟩
          · exact hopen rfl
          · exact h.opened b ks' hm' hne
        · intro b ks' hm
          rcases (mem_setB' _ _ _ _ _).mp hm with ⟨rfl, rfl⟩ | ⟨_, hm'⟩
          · simp only [List.map_append, List.map_cons, List.map_nil]
            rw [List.nodup_append]
            refine ⟨h.inner _ ks hmem, by simp, ?_⟩
            intro a ha b hb
            simp at hb; subst hb
            intro heq; subst heq
            obtain ⟨e, he, hek⟩ := List.mem_map.mp ha
            have := List.find?_eq_none.mp hf e he
            simp [hek] at this
          · exact h.inner b ks' hm'
  | none =>
    have hq : q ∉ keysOf s.aggs := (lookupB_none_iff _ _).mp hl
    have hqt : q ∉ s.tsList := fun hh => hq ((h.same q).mp hh)
    simp only []
    -- the new timestamp list
    have htl : ∀ tl, tl = (match s.tsList.getLast? with
        | some l => if l > q then sortNat (s.tsList ++ [q]) else s.tsList ++ [q]
        | none => s.tsList ++ [q]) →
        tl.Pairwise (· ≤ ·) ∧ (∀ b, b ∈ tl ↔ b ∈ s.tsList ∨ b = q) := by
      intro tl htl
      subst htl
      cases hlast : s.tsList.getLast? with
      | none =>
        simp only []
        exact ⟨sorted_append_of_last _ _ h.sorted (by intro x hx; rw [hlast] at hx; cases hx), by intro b; simp⟩
      | some l =>
        simp only []
        split
        · obtain ⟨m1, m2⟩ := sortNat_spec (s.tsList ++ [q])
          exact ⟨m2, by intro b; rw [m1]; simp⟩
        · rename_i hgt
          exact ⟨sorted_append_of_last _ _ h.sorted (by intro x hx; rw [hlast] at hx; cases hx; omega), by intro b; simp⟩
    obtain ⟨t1, t2⟩ := htl _ rfl
    have hnd : (match s.tsList.getLast? with
        | some l => if l > q then sortNat (s.tsList ++ [q]) else s.tsList ++ [q]
        | none => s.tsList ++ [q]).Nodup := by
      have hbase : (s.tsList ++ [q]).Nodup := by
        rw [List.nodup_append]; exact ⟨h.tsNodup, by simp, by intro a ha b hb; simp at hb; subst hb; intro he; subst he; exact hqt ha⟩
      cases s.tsList.getLast? with
      | none => exact hbase
      | some l =>
        simp only []
        split
        · exact (sortNat_perm _).nodup_iff.mpr hbase
        · exact hbase
    have hk1 : ∀ x, (keysOf (s.aggs ++ [(q, x)])).Nodup := by
      intro x
      simp only [keysOf, List.map_append, List.map_cons, List.map_nil]
      rw [List.nodup_append]
      exact ⟨h.kNodup, by simp, by intro a ha b hb; simp at hb; subst hb; intro he; subst he; exact hq ha⟩
    have hsame : ∀ x b, b ∈ (match s.tsList.getLast? with
        | some l => if l > q then sortNat (s.tsList ++ [q]) else s.tsList ++ [q]
        | none => s.tsList ++ [q]) ↔ b ∈ keysOf (s.aggs ++ [(q, x)]) := by
      intro x b
      rw [t2 b]
      simp only [keysOf, List.map_append, List.map_cons, List.map_nil, List.mem_append, List.mem_singleton]
      rw [h.same b]; rfl
    cases isOpen with
    | true =>
      simp only [if_true]
      exact { sorted := t1, tsNodup := hnd, kNodup := hk1 _, same := hsame _
              opened := by
                intro b ks' hm hne
                rcases List.mem_append.mp hm with hm | hm
                · exact h.opened b ks' hm hne
                · simp at hm; rw [hm.1]; exact hopen rfl
              inner := by
                intro b ks' hm
                rcases List.mem_append.mp hm with hm | hm
                · exact h.inner b ks' hm
                · simp at hm; rw [hm.2]; simp }
    | false =>
      simp only [Bool.false_eq_true, if_false]
      exact { sorted := t1, tsNodup := hnd, kNodup := hk1 _, same := hsame _
              opened := by
                intro b ks' hm hne
                rcases List.mem_append.mp hm with hm | hm
                · exact h.opened b ks' hm hne
                · simp at hm; exact absurd hm.2 hne
              inner := by
                intro b ks' hm
                rcases List.mem_append.mp hm with hm | hm
                · exact h.inner b ks' hm
                · simp at hm; rw [hm.2]; simp }

end Crng.AggCore

namespace Crng.AggCore
variable {P R : Type}

/-- on a sorted list, `takeWhile (≤ C)` takes exactly the elements `≤ C`, and what is left is `> C` -/
theorem takeWhile_sorted (C : Nat) : ∀ (l : List Nat), l.Pairwise (· ≤ ·) →
    (∀ b ∈ l, (b ∈ l.takeWhile (· ≤ C) ↔ b ≤ C)) ∧ (∀ b ∈ l.drop (l.takeWhile (· ≤ C)).length, C < b) ∧
    (∀ b, b ∈ l.drop (l.takeWhile (· ≤ C)).length ↔ b ∈ l ∧ C < b) := by
  intro l
  induction l with
  | nil => intro _; simp
  | cons a t ih =>
    intro h
    obtain ⟨h1, h2⟩ := List.pairwise_cons.mp h
    obtain ⟨i1, i2, i3⟩ := ih h2
    by_cases ha : a ≤ C
    · simp only [List.takeWhile_cons, ha, decide_true, if_true, List.length_cons, List.drop_succ_cons]
      refine ⟨?_, i2, ?_⟩
      · intro b hb
        rcases List.mem_cons.mp hb with rfl | hb
        · simp [ha]
        · simp only [List.mem_cons]
          constructor
          · intro hh; rcases hh with rfl | hh
            · exact ha
            · exact (i1 b hb).mp hh
          · intro hh; exact Or.inr ((i1 b hb).mpr hh)
      · intro b; rw [i3 b]; simp only [List.mem_cons]
        constructor
        · intro ⟨x, y⟩; exact ⟨Or.inr x, y⟩
        · intro ⟨x, y⟩; rcases x with rfl | x
          · omega
          · exact ⟨x, y⟩
    · simp only [List.takeWhile_cons, ha, decide_false, Bool.false_eq_true, if_false, List.length_nil, List.drop_zero]
      have hall : ∀ b ∈ a :: t, C < b := by
        intro b hb; rcases List.mem_cons.mp hb with rfl | hb
        · omega
        · have := h1 b hb; omega
      refine ⟨?_, hall, ?_⟩
      · intro b hb; have := hall b hb; simp; omega
      · intro b; constructor
        · intro hb; exact ⟨hb, hall b hb⟩
        · intro hb; exact hb.1

theorem mem_emitBucket (fl : P → Option R) (ts : Nat) (ks : List (String × P)) (e : Em R) :
    e ∈ emitBucket fl ts ks → e.ts = ts ∧ e.key ∈ ks.map (·.1) := by
  unfold emitBucket
  rw [List.mem_filterMap]
  intro ⟨⟨k, p⟩, hm, he⟩
  simp only [Option.map_eq_some_iff] at he
  obtain ⟨r, _, rfl⟩ := he
  exact ⟨rfl, List.mem_map.mpr ⟨(k, p), hm, rfl⟩⟩

theorem emitBucket_pairwise (fl : P → Option R) (ts : Nat) (ks : List (String × P)) (h : (ks.map (·.1)).Nodup) :
    (emitBucket fl ts ks).Pairwise (fun a b => a.key ≠ b.key) := by
  unfold emitBucket
  rw [List.pairwise_filterMap]
  have : ks.Pairwise (fun a b => a.1 ≠ b.1) := by
    rw [List.Nodup, List.pairwise_map] at h; exact h
  refine this.imp ?_
  intro a b hab x hx y hy
  simp only [Option.map_eq_some_iff] at hx hy
  obtain ⟨_, _, rfl⟩ := hx
  obtain ⟨_, _, rfl⟩ := hy
  exact hab

/-- what a flush emits, and what it leaves -/
theorem flush_spec (fl : P → Option R) (s : St P) (L C : Nat) (h : AInv s L) :
    AInv (flush fl s C).1 (max L C) ∧
    (∀ e ∈ (flush fl s C).2, L < e.ts ∧ e.ts ≤ C) ∧
    (flush fl s C).2.Pairwise (fun a b => ¬ (a.ts = b.ts ∧ a.key = b.key)) := by
  obtain ⟨tw1, tw2, tw3⟩ := takeWhile_sorted C s.tsList h.sorted
  have hdue_sub : (s.tsList.takeWhile (· ≤ C)).Sublist s.tsList := List.takeWhile_sublist _
  have hdue_mem : ∀ b, b ∈ s.tsList.takeWhile (· ≤ C) ↔ b ∈ s.tsList ∧ b ≤ C := by
    intro b; constructor
    · intro hb; have hm := hdue_sub.subset hb; exact ⟨hm, (tw1 b hm).mp hb⟩
    · intro ⟨hm, hc⟩; exact (tw1 b hm).mpr hc
  unfold flush
  simp only []
  refine ⟨?_, ?_, ?_⟩
  · -- invariant afterwards
    refine { sorted := ?_, tsNodup := ?_, kNodup := ?_, same := ?_, opened := ?_, inner := ?_ }
    · exact h.sorted.sublist (List.drop_sublist _ _)
    · exact (List.drop_sublist _ _).nodup h.tsNodup
    · exact (List.Sublist.map _ List.filter_sublist).nodup h.kNodup
    · intro b
      rw [tw3 b]
      simp only [keysOf, List.mem_map, List.mem_filter]
      constructor
      · intro ⟨hb, hc⟩
        obtain ⟨e, he, hek⟩ := List.mem_map.mp ((h.same b).mp hb)
        refine ⟨e, ⟨he, ?_⟩, hek⟩
        simp only [Bool.not_eq_true', List.contains_eq_mem, decide_eq_false_iff_not]
        rw [hek, hdue_mem]; omega
      · intro ⟨e, ⟨he, hnc⟩, hek⟩
        simp only [Bool.not_eq_true', List.contains_eq_mem, decide_eq_false_iff_not] at hnc
        rw [hek, hdue_mem] at hnc
        have hb : b ∈ s.tsList := (h.same b).mpr (List.mem_map.mpr ⟨e, he, hek⟩)
        exact ⟨hb, by
          by_cases hc : b ≤ C
          · exact absurd ⟨hb, hc⟩ hnc
          · omega⟩
    · intro b ks hm hne
      simp only [List.mem_filter, Bool.not_eq_true', List.contains_eq_mem, decide_eq_false_iff_not] at hm
      have h1 := h.opened b ks hm.1 hne
      have hb : b ∈ s.tsList := (h.same b).mpr (List.mem_map.mpr ⟨(b, ks), hm.1, rfl⟩)
      have h2 : ¬ b ≤ C := fun hc => hm.2 ((hdue_mem b).mpr ⟨hb, hc⟩)
      omega
    · intro b ks hm
      exact h.inner b ks (List.mem_filter.mp hm).1
  · intro e he
    rw [List.mem_flatMap] at he
    obtain ⟨b, hb, heb⟩ := he
    obtain ⟨e1, e2⟩ := mem_emitBucket fl b _ e heb
    have hbc := ((hdue_mem b).mp hb).2
    cases hl : lookupB s.aggs b with
    | none => rw [hl] at e2; simp at e2
    | some ks =>
      rw [hl] at e2
      have hne : ks ≠ [] := by intro h0; subst h0; simp at e2
      have := h.opened b ks (lookupB_some_mem _ _ _ hl) hne
      rw [e1]; exact ⟨this, hbc⟩
  · rw [List.pairwise_flatMap]
    refine ⟨?_, ?_⟩
    · intro b _
      cases hl : lookupB s.aggs b with
      | none => simp [emitBucket]
      | some ks =>
        have := emitBucket_pairwise fl b ks (h.inner b ks (lookupB_some_mem _ _ _ hl))
        exact this.imp (fun hab hc => hab hc.2)
    · have hnd : (s.tsList.takeWhile (· ≤ C)).Pairwise (· ≠ ·) := hdue_sub.nodup h.tsNodup
      refine hnd.imp ?_
      intro b1 b2 hne x hx y hy hc
      have := (mem_emitBucket fl b1 _ x hx).1
      have := (mem_emitBucket fl b2 _ y hy).1
      omega

end Crng.AggCore

namespace Crng.AggCore
variable {P R : Type}

/-- events as the `run()` loop sees them: a matched point (with the threshold `now - wait` read at processing time),
    or a tick (with its cutoff `tick - wait`) -/
inductive Ev (P : Type) where
  | point (mk : P) (upd : P → P) (key : String) (q : Nat) (thr : Nat)
  | tick (cutoff : Nat)

def stepG (fl : P → Option R) (s : St P) : Ev P → St P × List (Em R)
  | .point mk upd key q thr => (addOrCreate (decide (q > thr)) mk upd s key q, [])
  | .tick C => flush fl s C

def runG (fl : P → Option R) : St P → List (Em R) → List (Ev P) → List (Em R)
  | _, acc, [] => acc
  | s, acc, e :: es => runG fl (stepG fl s e).1 (acc ++ (stepG fl s e).2) es

/-- the clock never runs backwards: a point is processed no earlier than any tick before it -/
def ClockOK : Nat → List (Ev P) → Prop
  | _, [] => True
  | L, .point _ _ _ _ thr :: es => L ≤ thr ∧ ClockOK L es
  | L, .tick C :: es => ClockOK (max L C) es

def Distinct (l : List (Em R)) : Prop := l.Pairwise (fun a b => ¬ (a.ts = b.ts ∧ a.key = b.key))

theorem runG_distinct (fl : P → Option R) : ∀ (es : List (Ev P)) (s : St P) (acc : List (Em R)) (L : Nat),
    AInv s L → (∀ e ∈ acc, e.ts ≤ L) → Distinct acc → ClockOK L es → Distinct (runG fl s acc es) := by
  intro es
  induction es with
  | nil => intro s acc L _ _ hd _; exact hd
  | cons e es ih =>
    intro s acc L hinv hacc hd hck
    cases e with
    | point mk upd key q thr =>
      obtain ⟨h1, h2⟩ := hck
      simp only [runG, stepG, List.append_nil]
      exact ih _ acc L (addOrCreate_inv _ mk upd s key q L hinv (by intro ho; simp at ho; omega)) hacc hd h2
    | tick C =>
      obtain ⟨f1, f2, f3⟩ := flush_spec fl s L C hinv
      simp only [runG, stepG]
      refine ih _ _ (max L C) f1 ?_ ?_ hck
      · intro e he
        rcases List.mem_append.mp he with he | he
        · have := hacc e he; omega
        · have := (f2 e he).2; omega
      · unfold Distinct
        rw [List.pairwise_append]
        refine ⟨hd, f3, ?_⟩
        intro a ha b hb hc
        have := hacc a ha
        have := (f2 b hb).1
        omega

/-- **C10 core (no double emission).** Starting empty, under a clock that does not run backwards, no `(bucket, key)` is
    ever emitted twice, over any history of points and ticks, for any processor. -/
theorem emit_once (fl : P → Option R) (es : List (Ev P)) (h : ClockOK 0 es) : Distinct (runG fl {} [] es) :=
  runG_distinct fl es {} [] 0
    { sorted := List.Pairwise.nil, tsNodup := List.Pairwise.nil, kNodup := List.Pairwise.nil, same := (by intro b; simp [keysOf])
      opened := (by intro b ks hm; cases hm)
      inner := (by intro b ks hm; cases hm) }
    (by intro e he; cases he) List.Pairwise.nil h

#print axioms emit_once
end Crng.AggCore

namespace Crng.AggCore
variable {P R : Type}

/-- within one flush the buckets come out in ascending order -/
theorem flush_ascending (fl : P → Option R) (s : St P) (L C : Nat) (h : AInv s L) :
    (flush fl s C).2.Pairwise (fun a b => a.ts ≤ b.ts) := by
  unfold flush
  simp only []
  rw [List.pairwise_flatMap]
  refine ⟨?_, ?_⟩
  · intro b _
    have : ∀ x ∈ emitBucket fl b ((lookupB s.aggs b).getD []), x.ts = b := fun x hx => (mem_emitBucket fl b _ x hx).1
    exact List.pairwise_of_forall_mem_list (fun x hx y hy => by rw [this x hx, this y hy]; exact Nat.le_refl _)
  · have hs : (s.tsList.takeWhile (· ≤ C)).Pairwise (· ≤ ·) := h.sorted.sublist (List.takeWhile_sublist _)
    refine hs.imp ?_
    intro b1 b2 hle x hx y hy
    rw [(mem_emitBucket fl b1 _ x hx).1, (mem_emitBucket fl b2 _ y hy).1]; exact hle

theorem runG_ascending (fl : P → Option R) : ∀ (es : List (Ev P)) (s : St P) (acc : List (Em R)) (L : Nat),
    AInv s L → (∀ e ∈ acc, e.ts ≤ L) → acc.Pairwise (fun a b => a.ts ≤ b.ts) → ClockOK L es →
    (runG fl s acc es).Pairwise (fun a b => a.ts ≤ b.ts) := by
  intro es
  induction es with
  | nil => intro s acc L _ _ hd _; exact hd
  | cons e es ih =>
    intro s acc L hinv hacc hd hck
    cases e with
    | point mk upd key q thr =>
      obtain ⟨h1, h2⟩ := hck
      simp only [runG, stepG, List.append_nil]
      exact ih _ acc L (addOrCreate_inv _ mk upd s key q L hinv (by intro ho; simp at ho; omega)) hacc hd h2
    | tick C =>
      obtain ⟨f1, f2, _⟩ := flush_spec fl s L C hinv
      simp only [runG, stepG]
      refine ih _ _ (max L C) f1 ?_ ?_ hck
      · intro e he
        rcases List.mem_append.mp he with he | he
        · have := hacc e he; omega
        · have := (f2 e he).2; omega
      · rw [List.pairwise_append]
        refine ⟨hd, flush_ascending fl s L C hinv, ?_⟩
        intro a ha b hb
        have := hacc a ha
        have := (f2 b hb).1
        omega

/-- **C10 (order).** Over the whole run the emitted bucket starts never decrease. -/
theorem emit_ascending (fl : P → Option R) (es : List (Ev P)) (h : ClockOK 0 es) :
    (runG fl {} [] es).Pairwise (fun a b => a.ts ≤ b.ts) :=
  runG_ascending fl es {} [] 0
    { sorted := List.Pairwise.nil, tsNodup := List.Pairwise.nil, kNodup := List.Pairwise.nil, same := (by intro b; simp [keysOf])
      opened := (by intro b ks hm; cases hm)
      inner := (by intro b ks hm; cases hm) }
    (by intro e he; cases he) List.Pairwise.nil h

end Crng.AggCore
