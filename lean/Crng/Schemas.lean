/-! storage-schemas rule selection and the metric record (C16): persister/whisper_schema.go `ReadWhisperSchemas`
(priority key `p<<32 - i`, `sort.Sort` by `Less = ≥`), `WhisperSchemas.Match` (first match in sorted order),
route/schemas.go `parseMetric` (name / sorted tags / presented name / interval of the first retention). -/
namespace Crng.Sch
abbrev Bytes := List UInt8

/-- one section of the file: `accepts` is its compiled pattern, `idx` its position in the file -/
structure Rule where
  accepts : Bytes → Bool
  prio : Int
  idx : Nat
  interval : Nat      -- seconds per point of the first retention

/-- `int64(p)<<32 - int64(i)` -/
def key (r : Rule) : Int := r.prio * 4294967296 - r.idx

/-- descending insertion by key (`Less(i,j) = key i ≥ key j`) -/
def insertRule (x : Rule) : List Rule → List Rule
  | [] => [x]
  | y :: t => if key y ≥ key x then y :: insertRule x t else x :: y :: t
def sortRules (l : List Rule) : List Rule := l.foldl (fun acc x => insertRule x acc) []

/-- `schemas.Match(presentedName)` on the sorted rules -/
def select (rules : List Rule) (name : Bytes) : Option Rule := (sortRules rules).find? (·.accepts name)

/-! ### presented name -/
def splitOn (sep : UInt8) (b : Bytes) : List Bytes :=
  let rec go : Bytes → Bytes → List Bytes
    | [], cur => [cur.reverse]
    | c :: t, cur => if c == sep then cur.reverse :: go t [] else go t (c :: cur)
  go b []

def insertTag (x : Bytes) : List Bytes → List Bytes
  | [] => [x]
  | y :: t => if y ≤ x then y :: insertTag x t else x :: y :: t
/-- `sort.Strings(tags)` -/
def sortTags (l : List Bytes) : List Bytes := l.foldl (fun acc x => insertTag x acc) []

def joinWith (sep : UInt8) : List Bytes → Bytes
  | [] => []
  | [x] => x
  | x :: t => x ++ [sep] ++ joinWith sep t

/-- the series name as Graphite presents it to storage-schemas: `name` when untagged, `name;t1;…;tn` (tags sorted) otherwise -/
def presented (name : Bytes) (tags : List Bytes) : Bytes :=
  if tags.isEmpty then name else name ++ [59] ++ joinWith 59 (sortTags tags)

/-- metrictank `EatDots`: leading, trailing and repeated dots disappear -/
def eatDots (name : Bytes) : Bytes := joinWith 46 ((splitOn 46 name).filter (· ≠ []))

/-- metrictank `ValidateTag` for ASCII tags -/
def validTag (t : Bytes) : Bool :=
  t.length ≥ 3 &&
  (match t.findIdx? (· == 61) with
   | none => false
   | some e =>
     e != 0 && e != t.length - 1 &&
     let k := t.take e
     let v := t.drop (e + 1)
     !k.any (fun c => c == 59 || c == 33 || c == 94 || c == 61) && v.head? != some 126 && !v.any (· == 59))

structure MD where
  name : Bytes
  tags : List Bytes
  bits : Nat
  time : Nat
  org : Nat
  interval : Nat

/-- `parseMetric` after the three tokens have been parsed (`bits` = float64 of the value token, `ts` < 2³²) -/
def buildMetric (rules : List Rule) (org : Nat) (nameWithTags : Bytes) (bits ts : Nat) : Option MD :=
  match splitOn 59 nameWithTags with
  | [] => none
  | name :: tags =>
    match select rules (presented name tags) with
    | none => none           -- impossible when a `.*` rule exists (getSchemas insists on one)
    | some r =>
      let md : MD := { name := eatDots name, tags := sortTags tags, bits, time := ts, org, interval := r.interval }
      if org == 0 || r.interval == 0 || md.name.isEmpty || !(md.tags.all validTag) then none else some md

end Crng.Sch
