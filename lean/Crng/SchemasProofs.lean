import Crng.Schemas
namespace Crng.Sch

theorem mem_insertRule (x y : Rule) (l : List Rule) : y ∈ insertRule x l ↔ y = x ∨ y ∈ l := by
  induction l with
  | nil => simp [insertRule]
  | cons a t ih =>
    simp only [insertRule]
    split
    · simp only [List.mem_cons, ih]
      constructor
      · rintro (h | h | h) <;> simp [h]
      · rintro (h | h | h) <;> simp [h]
    · simp [List.mem_cons]

theorem insertRule_sorted (x : Rule) (l : List Rule) (h : l.Pairwise (fun a b => key a ≥ key b)) :
    (insertRule x l).Pairwise (fun a b => key a ≥ key b) := by
  induction l with
  | nil => simp [insertRule]
  | cons a t ih =>
    obtain ⟨h1, h2⟩ := List.pairwise_cons.mp h
    simp only [insertRule]
    split
    · rename_i hle
      refine List.pairwise_cons.mpr ⟨?_, ih h2⟩
      intro y hy
      rcases (mem_insertRule x y t).mp hy with rfl | hy
      · exact hle
      · exact h1 y hy
    · rename_i hnle
      refine List.pairwise_cons.mpr ⟨?_, h⟩
      intro y hy
      rcases List.mem_cons.mp hy with rfl | hy
      · omega
      · have := h1 y hy; omega

theorem sortRules_spec (l : List Rule) :
    (∀ y, y ∈ sortRules l ↔ y ∈ l) ∧ (sortRules l).Pairwise (fun a b => key a ≥ key b) := by
  unfold sortRules
  have keyl : ∀ (l acc : List Rule), acc.Pairwise (fun a b => key a ≥ key b) →
      (∀ y, y ∈ l.foldl (fun acc x => insertRule x acc) acc ↔ y ∈ l ∨ y ∈ acc) ∧
      (l.foldl (fun acc x => insertRule x acc) acc).Pairwise (fun a b => key a ≥ key b) := by
    intro l
    induction l with
    | nil => intro acc h; simp [h]
    | cons a t ih =>
      intro acc h
      obtain ⟨m, s⟩ := ih (insertRule a acc) (insertRule_sorted a acc h)
      refine ⟨?_, s⟩
      intro y
      simp only [List.foldl_cons, m, mem_insertRule, List.mem_cons]
      constructor
      · rintro (h | h | h) <;> simp [h]
      · rintro ((h | h) | h) <;> simp [h]
  obtain ⟨m, s⟩ := keyl l [] List.Pairwise.nil
  exact ⟨fun y => by simpa using m y, s⟩

/-- the priority key orders rules by (priority descending, then file position ascending), as long as positions fit 32 bits -/
theorem key_order (a b : Rule) (ha : a.idx < 4294967296) (hb : b.idx < 4294967296) :
    key a ≥ key b ↔ a.prio > b.prio ∨ (a.prio = b.prio ∧ a.idx ≤ b.idx) := by
  unfold key
  constructor
  · intro h
    by_cases hp : a.prio > b.prio
    · exact Or.inl hp
    · right
      have : a.prio ≤ b.prio := by omega
      constructor <;> omega
  · rintro (h | ⟨h1, h2⟩) <;> omega

/-- **rule selection**: the selected rule matches the presented name and every other matching rule comes later in
(priority descending, file order ascending) -/
theorem select_spec (rules : List Rule) (name : Bytes) (r : Rule) (h : select rules name = some r)
    (hidx : ∀ x ∈ rules, x.idx < 4294967296) :
    r ∈ rules ∧ r.accepts name = true ∧
    ∀ r' ∈ rules, r'.accepts name = true → r.prio > r'.prio ∨ (r.prio = r'.prio ∧ r.idx ≤ r'.idx) := by
  unfold select at h
  obtain ⟨hm, hs⟩ := sortRules_spec rules
  have hacc := List.find?_some h
  have hmem := List.mem_of_find?_eq_some h
  refine ⟨(hm r).mp hmem, hacc, ?_⟩
  intro r' hr' ha'
  have hr'm : r' ∈ sortRules rules := (hm r').mpr hr'
  rw [← key_order r r' (hidx r ((hm r).mp hmem)) (hidx r' hr')]
  -- r is the first accepting element of a list sorted by key descending
  generalize sortRules rules = l at h hs hr'm
  induction l with
  | nil => cases hr'm
  | cons a t ih =>
    obtain ⟨h1, h2⟩ := List.pairwise_cons.mp hs
    simp only [List.find?_cons] at h
    by_cases haa : a.accepts name = true
    · simp only [haa] at h
      cases h
      rcases List.mem_cons.mp hr'm with rfl | hr't
      · omega
      · exact h1 r' hr't
    · have haf : a.accepts name = false := by simpa using haa
      simp only [haf] at h
      rcases List.mem_cons.mp hr'm with rfl | hr't
      · rw [ha'] at haf; cases haf
      · exact ih h h2 hr't

/-- with a catch-all rule (getSchemas requires `.*`) some rule is always selected -/
theorem select_total (rules : List Rule) (name : Bytes) (h : ∃ r ∈ rules, r.accepts name = true) : (select rules name).isSome := by
  unfold select
  obtain ⟨r, hr, ha⟩ := h
  rw [List.find?_isSome]
  exact ⟨r, ((sortRules_spec rules).1 r).mpr hr, ha⟩

/-- an untagged name is presented as itself (no trailing `;`) -/
theorem presented_untagged (name : Bytes) : presented name [] = name := rfl

/-- the record carries what the line said: the interval is that of the selected rule, the value/time/org are passed through -/
theorem record_fields (rules : List Rule) (org : Nat) (nwt : Bytes) (bits ts : Nat) (md : MD)
    (h : buildMetric rules org nwt bits ts = some md) :
    md.bits = bits ∧ md.time = ts ∧ md.org = org ∧ org ≠ 0 ∧ md.interval ≠ 0 ∧ md.tags.all validTag = true ∧
    ∃ name tags r, splitOn 59 nwt = name :: tags ∧ select rules (presented name tags) = some r ∧
      md.interval = r.interval ∧ md.name = eatDots name ∧ md.tags = sortTags tags := by
  unfold buildMetric at h
  split at h
  · cases h
  · rename_i name tags hsp
    split at h
    · cases h
    · rename_i r hsel
      simp only [] at h
      split at h
      · cases h
      · rename_i hc
        cases h
        simp only [Bool.or_eq_true, not_or, Bool.not_eq_true] at hc
        refine ⟨rfl, rfl, rfl, ?_, ?_, ?_, name, tags, r, hsp, hsel, rfl, rfl, rfl⟩
        · intro h0; simp [h0] at hc
        · intro h0
          have := hc.1.1.2
          have h0' : r.interval = 0 := h0
          simp [h0'] at this
        · have := hc.2; simpa using this

end Crng.Sch
