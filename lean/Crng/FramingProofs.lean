import Crng.Framing
namespace Crng.Fr

theorem takeWhile_length_le (p : UInt8 → Bool) (l : Bytes) : (l.takeWhile p).length ≤ l.length := by
  induction l with
  | nil => simp
  | cons a t ih => simp only [List.takeWhile_cons]; split <;> simp <;> omega

/-- enough fuel makes no difference -/
theorem specLines_fuel (max : Nat) : ∀ (f f' : Nat) (s : Bytes), s.length < f → s.length < f' →
    specLines max f s = specLines max f' s := by
  intro f
  induction f with
  | zero => intro f' s h; omega
  | succ f ih =>
    intro f' s h h'
    cases f' with
    | zero => omega
    | succ f' =>
      simp only [specLines]
      split
      · rfl
      · split
        · rfl
        · split
          · rename_i hlt
            have hlen : (s.drop ((s.takeWhile (· != 10)).length + 1)).length < f := by simp; omega
            have hlen' : (s.drop ((s.takeWhile (· != 10)).length + 1)).length < f' := by simp; omega
            rw [ih f' _ hlen hlen']
          · rfl

theorem spec_unfold (max : Nat) (s : Bytes) (f : Nat) (h : s.length < f) : spec max s = specLines max f s :=
  specLines_fuel max _ _ s (Nat.lt_succ_self _) h

theorem takeWhile_append_of_lt (p : UInt8 → Bool) (a b : Bytes) (h : (a.takeWhile p).length < a.length) :
    (a ++ b).takeWhile p = a.takeWhile p := by
  induction a with
  | nil => simp at h
  | cons x t ih =>
    simp only [List.cons_append, List.takeWhile_cons] at h ⊢
    split
    · rename_i hp
      simp only [hp, if_true, List.length_cons] at h
      rw [ih (by omega)]
    · rfl

theorem takeWhile_append_ge (p : UInt8 → Bool) (a b : Bytes) : (a.takeWhile p).length ≤ ((a ++ b).takeWhile p).length := by
  induction a with
  | nil => simp
  | cons x t ih =>
    simp only [List.cons_append, List.takeWhile_cons]
    split <;> simp; omega

/-- what `cut` leaves pending is a short piece without newline -/
def Short (max : Nat) (st : Sc) : Prop := st.err = false → (st.pend.takeWhile (· != 10)).length = st.pend.length ∧ st.pend.length < max

/-- `cut` agrees with the specification on any continuation of the stream -/
theorem cut_spec (max : Nat) (hmax : 0 < max) : ∀ (fuel : Nat) (data rest : Bytes), data.length < fuel →
    Short max (cut max fuel data).2 ∧
    spec max (data ++ rest) =
      (if (cut max fuel data).2.err then ⟨(cut max fuel data).1, true⟩
       else ⟨(cut max fuel data).1 ++ (spec max ((cut max fuel data).2.pend ++ rest)).tokens,
             (spec max ((cut max fuel data).2.pend ++ rest)).err⟩) := by
  intro fuel
  induction fuel with
  | zero => intro data rest h; omega
  | succ f ih =>
    intro data rest h
    simp only [cut]
    by_cases hlong : (data.takeWhile (· != 10)).length ≥ max
    · simp only [hlong, if_true]
      refine ⟨(by intro h; cases h), ?_⟩
      have hge := takeWhile_append_ge (· != 10) data rest
      by_cases hemp : (data ++ rest).isEmpty = true
      · have : data = [] := by simp at hemp; exact hemp.1
        subst this; simp at hlong; omega
      · rw [spec_unfold max _ ((data ++ rest).length + 1) (Nat.lt_succ_self _)]
        simp only [specLines, hemp, Bool.false_eq_true, if_false]
        have : ((data ++ rest).takeWhile (· != 10)).length ≥ max := by omega
        simp [this]
    · simp only [hlong, if_false]
      by_cases hnl : (data.takeWhile (· != 10)).length < data.length
      · simp only [hnl, if_true]
        have hlen : (data.drop ((data.takeWhile (· != 10)).length + 1)).length < f := by simp; omega
        obtain ⟨ih1, ih2⟩ := ih (data.drop ((data.takeWhile (· != 10)).length + 1)) rest hlen
        refine ⟨ih1, ?_⟩
        have htw := takeWhile_append_of_lt (· != 10) data rest hnl
        have hne : (data ++ rest).isEmpty = false := by
          cases data with
          | nil => simp at hnl
          | cons _ _ => rfl
        rw [spec_unfold max _ ((data ++ rest).length + 1) (Nat.lt_succ_self _)]
        simp only [specLines, hne, Bool.false_eq_true, if_false, htw, hlong]
        have hlt2 : (data.takeWhile (· != 10)).length < (data ++ rest).length := by simp; omega
        simp only [hlt2, if_true]
        have hdrop : (data ++ rest).drop ((data.takeWhile (· != 10)).length + 1) =
            data.drop ((data.takeWhile (· != 10)).length + 1) ++ rest := by
          rw [List.drop_append_of_le_length (by omega)]
        rw [hdrop, ← spec_unfold max _ _ (by simp; omega), ih2]
        split <;> simp
      · simp only [hnl, if_false]
        have hle := takeWhile_length_le (· != 10) data
        refine ⟨?_, by simp⟩
        intro _
        show (data.takeWhile (· != 10)).length = data.length ∧ data.length < max
        omega

end Crng.Fr

namespace Crng.Fr

theorem spec_pending (max : Nat) (p : Bytes) (h1 : (p.takeWhile (· != 10)).length = p.length) (h2 : p.length < max) :
    spec max p = ⟨if p.isEmpty then [] else [dropCR p], false⟩ := by
  unfold spec
  simp only [specLines]
  by_cases he : p.isEmpty = true
  · simp [he]
  · have hne : p.isEmpty = false := by simpa using he
    have h3 : ¬ ((p.takeWhile (· != 10)).length ≥ max) := by omega
    have h4 : ¬ ((p.takeWhile (· != 10)).length < p.length) := by omega
    simp only [hne, Bool.false_eq_true, if_false, h3, h4]
    have : p.takeWhile (· != 10) = p := List.Sublist.eq_of_length (List.takeWhile_sublist _) h1
    rw [this]

theorem run_from (max : Nat) (hmax : 0 < max) : ∀ (cs : List Bytes) (st : Sc) (acc : List Bytes), Short max st →
    run max st cs acc =
      (if st.err then ⟨acc, true⟩
       else ⟨acc ++ (spec max (st.pend ++ cs.flatten)).tokens, (spec max (st.pend ++ cs.flatten)).err⟩) := by
  intro cs
  induction cs with
  | nil =>
    intro st acc hs
    simp only [run, List.flatten_nil, List.append_nil]
    by_cases he : st.err = true
    · simp [he, finish]
    · have he' : st.err = false := by simpa using he
      obtain ⟨h1, h2⟩ := hs he'
      rw [spec_pending max st.pend h1 h2]
      simp [he', finish]
  | cons c cs ih =>
    intro st acc hs
    simp only [run, feed]
    by_cases he : st.err = true
    · simp only [he, if_true]
      rw [ih st _ hs]; simp [he]
    · have he' : st.err = false := by simpa using he
      simp only [he', Bool.false_eq_true, if_false]
      obtain ⟨c1, c2⟩ := cut_spec max hmax (st.pend.length + c.length + 1) (st.pend ++ c) cs.flatten (by simp)
      rw [ih _ _ c1]
      have : st.pend ++ (c :: cs).flatten = (st.pend ++ c) ++ cs.flatten := by simp
      rw [this, c2]
      split <;> simp [List.append_assoc]

/-- **C12 core.** However the stream is cut into reads (including empty ones), the scanner yields exactly the lines of the
    whole stream; the only error is a line of `max` bytes or more, after which nothing further is delivered. -/
theorem chunk_invariance (max : Nat) (hmax : 0 < max) (chunks : List Bytes) :
    run max {} chunks [] = spec max chunks.flatten := by
  have := run_from max hmax chunks {} [] (fun _ => ⟨rfl, hmax⟩)
  simpa using this

#print axioms chunk_invariance
end Crng.Fr
