import Crng.Ring
import Crng.Rewriter
/-! Prelude of the regenerated code layer (`Crng.Gen.Code`, written by `extract/translate.go` from /repo's Go source on
every run). It fixes, by hand:

* the value domain the translator maps Go types to (`[]byte`, `string` ↦ `Bytes`; every Go integer type ↦ `Int`,
  unbounded — wrap-around is *not* modelled in this layer; `float64` ↦ its bit pattern; `error`, pointers ↦ `Option`);
* the library functions the translated functions call (`bytes.HasPrefix`, `bytes.Contains`, `bytes.IndexByte`,
  `bytes.Fields`, `bytes.Join`, `copy`, `make`, `sort.Search`, indexing and slicing), with Go's semantics on the values the
  guards of the translated code allow (an out-of-range index yields the type's default here; index safety is C14's topic);
* the *interfaces* of the objects a translated function calls into but does not contain (a compiled regexp, a route, an
  aggregator, …) as records of functions, and the Go structs whose fields the translated code reads, field for field;
* effects: a call that changes something outside the function (a counter, a channel send, a hand-off to another
  component) is an event in a trace; a translated function with effects returns `Res α = trace × value`.

If /repo's code starts to use a field, a library function or a method that is not declared here, the regenerated module
no longer elaborates and the check reports the obligation as failed: the declaration below is the complete list of what
the translated functions may depend on. -/
set_option autoImplicit false
namespace Crng.Code

abbrev Bytes := List UInt8
/-- bit pattern of a float64 that is only passed along -/
abbrev F64 := UInt64
/-- Go `error`: nil or a message -/
abbrev Err := Option String

/-! ### effects -/
inductive Ev where
  /-- `name` = the callee as written (`table.numIn.Inc`, `route.Dispatch`, `dest.In<-`), `recv` = the `id` of the object when
  the receiver is a variable ranging over objects (0 otherwise), `args` = the arguments rendered as bytes -/
  | call (name : String) (recv : Nat) (args : List Bytes)
  deriving DecidableEq, Repr

abbrev Res (α : Type) := List Ev × α
@[inline] def Res.pure {α} (a : α) : Res α := ([], a)
@[inline] def Res.bind {α β} (r : Res α) (f : α → Res β) : Res β := ((r.1 ++ (f r.2).1), (f r.2).2)
@[inline] def emit {α} (e : Ev) (r : Res α) : Res α := (e :: r.1, r.2)

@[simp] theorem Res.bind_pure {α β} (a : α) (f : α → Res β) : Res.bind (Res.pure a) f = f a := by
  simp [Res.bind, Res.pure]
@[simp] theorem emit_fst {α} (e : Ev) (r : Res α) : (emit e r).1 = e :: r.1 := rfl
@[simp] theorem emit_snd {α} (e : Ev) (r : Res α) : (emit e r).2 = r.2 := rfl

class ToArg (α : Type) where arg : α → Bytes
export ToArg (arg)
instance : ToArg Bytes := ⟨id⟩
def digits (n : Nat) : Bytes := (Nat.toDigits 10 n).map fun c => c.toNat.toUInt8
instance : ToArg Int := ⟨fun i => if i < 0 then 45 :: digits i.natAbs else digits i.natAbs⟩
instance : ToArg Nat := ⟨digits⟩
instance : ToArg Bool := ⟨fun b => if b then [1] else [0]⟩
instance : ToArg Err := ⟨fun e => match e with | none => [] | some s => 1 :: s.toUTF8.toList⟩
instance : ToArg F64 := ⟨fun f => digits f.toNat⟩
instance {α β} [ToArg α] [ToArg β] : ToArg (α × β) := ⟨fun p => arg p.1 ++ 254 :: arg p.2⟩
instance : ToArg (List Bytes) := ⟨fun l => l.foldr (fun a acc => a ++ 255 :: acc) []⟩

/-! ### loops: `for _, x := range xs { body }` with `return`, `break`, `continue` and assignments to outer variables -/
inductive Step (σ ρ : Type) where
  | next (s : σ) | brk (s : σ) | ret (r : ρ)
inductive Out (σ ρ : Type) where
  | done (s : σ) | ret (r : ρ)

/-- effectful loop -/
def forRange {α σ ρ : Type} (body : α → σ → Res (Step σ ρ)) : List α → σ → Res (Out σ ρ)
  | [], s => Res.pure (.done s)
  | x :: xs, s => Res.bind (body x s) fun
    | .next s' => forRange body xs s'
    | .brk s' => Res.pure (.done s')
    | .ret r => Res.pure (.ret r)

/-- pure loop -/
def forRangeP {α σ ρ : Type} (body : α → σ → Step σ ρ) : List α → σ → Out σ ρ
  | [], s => .done s
  | x :: xs, s => match body x s with
    | .next s' => forRangeP body xs s'
    | .brk s' => .done s'
    | .ret r => .ret r

/-- `for cond { body }`, effect-free: at most `fuel` iterations (a translated function declares a bound; the tie theorems
show that the loop ends by its condition or a `break`/`return` before the fuel runs out) -/
def whileP {σ ρ : Type} : Nat → (σ → Bool) → (σ → Step σ ρ) → σ → Out σ ρ
  | 0, _, _, s => .done s
  | fuel + 1, cond, body, s =>
    if cond s then
      match body s with
      | .next s' => whileP fuel cond body s'
      | .brk s' => .done s'
      | .ret r => .ret r
    else .done s

/-- `for cond { body }` with effects -/
def whileR {σ ρ : Type} : Nat → (σ → Bool) → (σ → Res (Step σ ρ)) → σ → Res (Out σ ρ)
  | 0, _, _, s => Res.pure (.done s)
  | fuel + 1, cond, body, s =>
    if cond s then
      Res.bind (body s) fun
        | .next s' => whileR fuel cond body s'
        | .brk s' => Res.pure (.done s')
        | .ret r => Res.pure (.ret r)
    else Res.pure (.done s)

namespace Lib
def len {α} (l : List α) : Int := l.length
def notNil {α} (o : Option α) : Bool := o.isSome
def isNil {α} (o : Option α) : Bool := o.isNone
def bytes_HasPrefix (s p : Bytes) : Bool := s.take p.length == p
def bytes_Contains (s sub : Bytes) : Bool :=
  (List.range (s.length + 1)).any fun i => (s.drop i).take sub.length == sub
def bytes_IndexByte : Bytes → UInt8 → Int
  | [], _ => -1
  | b :: bs, c => if b == c then 0 else if bytes_IndexByte bs c < 0 then -1 else bytes_IndexByte bs c + 1
def isSpace (c : UInt8) : Bool := c == 32 || c == 9 || c == 10 || c == 11 || c == 12 || c == 13 || c == 0x85 || c == 0xA0
/-- `bytes.Fields` on input whose non-ASCII bytes are not Unicode spaces in UTF-8 form is splitting around ASCII white
space; the table hands it a line that `ValidatePacket` accepted, and the byte-exact version (with U+0085, U+00A0, U+1680,
U+2000.. in UTF-8) is `Crng.Validate.fields`, validated against the real function. Here: ASCII white space. -/
def bytes_Fields (s : Bytes) : List Bytes :=
  let rec go : Bytes → Bytes → List Bytes
    | [], cur => if cur.isEmpty then [] else [cur.reverse]
    | c :: cs, cur =>
      if c == 32 || (9 ≤ c && c ≤ 13) then (if cur.isEmpty then go cs [] else cur.reverse :: go cs [])
      else go cs (c :: cur)
  go s []
def bytes_Join (parts : List Bytes) (sep : Bytes) : Bytes :=
  match parts with
  | [] => []
  | p :: ps => ps.foldl (fun acc q => acc ++ sep ++ q) p
def makeBytes (n : Int) : Bytes := List.replicate n.toNat 0
/-- `copy(dst, src)`: the first `min(len dst, len src)` elements of `dst` are overwritten -/
def copy {α} (dst src : List α) : List α := src.take dst.length ++ dst.drop src.length
def idx {α} [Inhabited α] (l : List α) (i : Int) : α := if i < 0 then default else l.getD i.toNat default
def set {α} (l : List α) (i : Int) (v : α) : List α := if i < 0 then l else l.set i.toNat v
def sliceTo {α} (l : List α) (hi : Int) : List α := l.take hi.toNat
def sliceFrom {α} (l : List α) (lo : Int) : List α := l.drop lo.toNat
def slice {α} (l : List α) (lo hi : Int) : List α := (l.take hi.toNat).drop lo.toNat
def enum {α} (l : List α) : List (Int × α) := ((List.range l.length).zip l).map fun p => ((p.1 : Int), p.2)
def goMod (a b : Int) : Int := Int.tmod a b
def goDiv (a b : Int) : Int := Int.tdiv a b
/-- `sort.Search(n, f)`: Go's binary search (`Crng.Ring.bsearch` is the statement-for-statement model, with its
specification theorem `bsearch_spec`) -/
def sort_Search (n : Int) (f : Int → Bool) : Int :=
  (Crng.Ring.bsearch (fun k => f k) n.toNat 0 n.toNat : Nat)
/-- `bytes.Replace(s, old, new, n)` for non-empty `old` (`n < 0`: all); `Crng.Rw.replaceN` is the model C04's theorems
are about -/
def bytes_Replace (s old new : Bytes) (n : Int) : Bytes :=
  Crng.Rw.replaceN old new (s.length + 1) (if n < 0 then none else some n.toNat) s
/-- `strings.SplitN(s, sep, 2)` for a one-byte separator: cut at the first occurrence (other `n` are not modelled) -/
def strings_SplitN (s sep : Bytes) (_n : Int) : List Bytes :=
  match sep with
  | [c] => if s.contains c then [s.takeWhile (· != c), (s.dropWhile (· != c)).drop 1] else [s]
  | _ => [s]
/-- `strings.Split(s, sep)` / `strings.Count(s, sep)` / `strings.Join(parts, sep)` for a one-byte separator -/
def strings_Split (s sep : Bytes) : List Bytes :=
  match sep with
  | [c] =>
    let rec go : Bytes → Bytes → List Bytes
      | [], cur => [cur.reverse]
      | x :: t, cur => if x == c then cur.reverse :: go t [] else go t (x :: cur)
    go s []
  | _ => [s]
def strings_Count (s sep : Bytes) : Int :=
  match sep with
  | [c] => (s.filter (· == c)).length
  | _ => 0
def strings_Join (parts : List Bytes) (sep : Bytes) : Bytes := bytes_Join parts sep
/-- a Go `map[K]V` with integer keys and values: a missing key reads as the zero value -/
def mapGet (m : List (Int × Int)) (k : Int) : Int := ((m.find? (·.1 == k)).map (·.2)).getD 0
def mapSet (m : List (Int × Int)) (k v : Int) : List (Int × Int) := (k, v) :: m.filter (·.1 != k)
@[simp] theorem copy_make (b : Bytes) : copy (makeBytes (len b)) b = b := by
  simp [copy, makeBytes, len]
end Lib

/-! ### interfaces of the objects translated code calls into -/
abbrev MapII := List (Int × Int)
/-- a `hash.Hash64` (fnv-1a in validate/ordered.go): what was written since the last `Reset`, and the digest function -/
structure Hasher64 where
  sum : Bytes → Int
  data : Bytes
def Hasher64.Write (h : Hasher64) (b : Bytes) : Hasher64 := { h with data := h.data ++ b }
def Hasher64.Sum64 (h : Hasher64) : Int := h.sum h.data
def Hasher64.Reset (h : Hasher64) : Hasher64 := { h with data := [] }
/-- validate/ordered.go `errNotNewer` -/
def errNotNewer : Err := some "point is not newer than previous"

/-- `*regexp.Regexp` as far as the matcher and the rewriter use it -/
structure RegexpI where
  Match : Bytes → Bool
  /-- `ReplaceAll(src, repl)` -/
  ReplaceAll : Bytes → Bytes → Bytes
  /-- `FindSubmatchIndex(key)`: nil or the index list -/
  FindSubmatchIndex : Bytes → Option (List Int)
  /-- `Expand(dst, template, src, match)` -/
  Expand : Bytes → Bytes → Bytes → Option (List Int) → Bytes
instance : Inhabited RegexpI := ⟨⟨fun _ => false, fun s _ => s, fun _ => none, fun _ _ _ _ => []⟩⟩
/-- a method called through a nil-able pointer: the translated code guards these calls with `!= nil`; without the
guard Go panics, here the type's default answers (C14 is about the panics) -/
def _root_.Option.Match (r : Option RegexpI) (s : Bytes) : Bool := match r with | some r => r.Match s | none => false
def _root_.Option.FindSubmatchIndex (r : Option RegexpI) (s : Bytes) : Option (List Int) :=
  match r with | some r => r.FindSubmatchIndex s | none => none
def _root_.Option.Expand (r : Option RegexpI) (dst t s : Bytes) (m : Option (List Int)) : Bytes :=
  match r with | some r => r.Expand dst t s m | none => []

def _root_.Option.ReplaceAll (r : Option RegexpI) (s repl : Bytes) : Bytes :=
  match r with | some r => r.ReplaceAll s repl | none => s

/-- destination/keepsafe.go `type keepSafe struct` (the two generations) -/
structure keepSafe where
  initialCap : Int
  safeOld : List Bytes
  safeRecent : List Bytes

/-- rewriter/rewriter.go `type RW struct` -/
structure RW where
  Old : Bytes
  New : Bytes
  Not : Bytes
  Max : Int
  old : Bytes
  new : Bytes
  not : Bytes
  re : Option RegexpI
  notRe : Option RegexpI
  deriving Inhabited
instance : ToArg RW := ⟨fun r => arg (r.Old, r.New, r.Not, r.Max)⟩
/-- rewriter/rewriter.go error values -/
def errEmptyOld : Err := some "Rewriter must have non-empty 'old' specification"
def errMaxTooLow : Err := some "max must be >= -1. use -1 to mean no restriction"
def errInvalidRegexp : Err := some "Invalid rewriter regular expression"
def errInvalidNotRegexp : Err := some "Invalid rewriter 'not' regular expression"
def errInvalidRegexpMax : Err := some "Regular expression rewriters require max to be -1"

/-- matcher/matcher.go `type Matcher struct` (the fields `Match`, `PreMatch`, `MatchRegexAndExpand` read) -/
structure Matcher where
  prefix_ : Bytes
  notPrefix : Bytes
  sub : Bytes
  notSub : Bytes
  regex : Option RegexpI
  notRegex : Option RegexpI
  prefixFromRegex : Bytes
  prefixFromNotRegex : Bytes

/-- aggregator/aggregator.go `type Aggregator struct`, the fields `AddMaybe` reads; `matchWithCache` (the per-aggregator
cache in front of `MatchRegexAndExpand`, stateful) is a parameter here: `Crng.AggCache.cache_transparent` is the theorem
that it answers like `MatchRegexAndExpand` for every cache history -/
structure Aggregator where
  id : Nat
  Matcher : Matcher
  DropRaw : Bool
  matchWithCache : Bytes → Bytes × Bool

/-- destination/destination.go `type Destination struct`: the filter (`lockMatcher` guards it) -/
structure Destination where
  Matcher : Matcher
/-- `*destination.Destination` seen from a route -/
structure DestI where
  id : Nat
  Match : Bytes → Bool
  Shutdown : Res Unit := ([], ())
  deriving Inhabited
/-- route/route.go `baseConfig` / `baseRoute`: the route's filter and destinations inside its published config -/
structure BaseConfig where
  Matcher : Matcher
  Dests : List DestI := []
structure baseRoute where
  config : BaseConfig

/-- a `matcher.Matcher` seen from the table (blacklist entry) -/
structure MatcherI where
  id : Nat
  Match : Bytes → Bool
/-- `rewriter.RW` seen from the table -/
structure RewriterI where
  Do : Bytes → Bytes
/-- `*aggregator.Aggregator` seen from the table: `AddMaybe` returns dropRaw (its own effect, the hand-off into the
aggregator's queue, is the event the translator emits at the call) -/
structure AggregatorI where
  id : Nat
  AddMaybe : List Bytes → F64 → Int → Res Bool
  Shutdown : Res Unit
  deriving Inhabited
/-- `route.Route` seen from the table -/
structure RouteI where
  id : Nat
  Key : Bytes
  Match : Bytes → Bool
  Dispatch : Bytes → Res Unit
  Shutdown : Res Err
  deriving Inhabited
structure LevelI where
  Level : Int
/-- table/table.go `type TableConfig struct` -/
structure TableConfig where
  Validation_level_legacy : LevelI
  Validation_level_m20 : LevelI
  Validate_order : Bool
  blacklist : List MatcherI
  rewriters : List RewriterI
  aggregators : List AggregatorI
  routes : List RouteI
structure Table where
  config : TableConfig
structure RouteConfig where
  Dests : List DestI
structure SendAllMatch where
  config : RouteConfig
structure SendFirstMatch where
  config : RouteConfig
/-- route/consistent_hashing.go `type hashRingEntry struct` / `type ConsistentHasher struct` -/
structure HashRingEntry where
  Position : Int
  Hostname : Bytes
  Instance : Bytes
  DestinationIndex : Int
  deriving Inhabited
structure ConsistentHasher where
  Ring : List HashRingEntry
/-- route/route.go `consistentHashingConfig` -/
structure CHConfig where
  Dests : List DestI
  Hasher : ConsistentHasher
structure ConsistentHashing where
  config : CHConfig


/-! ### the admin-command scanner as the readers see it (imperatives/imperatives.go) -/
/-- the token kinds of imperatives.go's `const` block, plus toki's `EOF` and `Error` -/
inductive Token where
  | addBlack | addAgg | addRouteSendAllMatch | addRouteSendFirstMatch | addRouteConsistentHashing | addRouteGrafanaNet | addRouteKafkaMdm | addRoutePubSub | addDest | addRewriter | delRoute | modDest | modRoute | str | sep | avgFn | countFn | deltaFn | deriveFn | lastFn | maxFn | minFn | stdevFn | sumFn | num | optPrefix | optNotPrefix | optAddr | optCache | optDropRaw | optBlocking | optSub | optNotSub | optRegex | optNotRegex | optFlush | optReconn | optConnBufSize | optIoBufSize | optSpoolBufSize | optSpoolMaxBytesPerFile | optSpoolSyncEvery | optSpoolSyncPeriod | optSpoolSleep | optTLSEnabled | optTLSSkipVerify | optTLSClientCert | optTLSClientKey | optSASLEnabled | optSASLMechanism | optSASLUsername | optSASLPassword | optUnspoolSleep | optPickle | optSpool | optTrue | optFalse | optBufSize | optFlushMaxNum | optFlushMaxWait | optTimeout | optSSLVerify | optErrBackoffMin | optErrBackoffFactor | word | optConcurrency | optOrgId | optPubSubProject | optPubSubTopic | optPubSubFormat | optPubSubCodec | optPubSubFlushMaxSize | EOF | Error
  deriving DecidableEq, Repr, Inhabited
export Token (addBlack addAgg addRouteSendAllMatch addRouteSendFirstMatch addRouteConsistentHashing addRouteGrafanaNet addRouteKafkaMdm addRoutePubSub addDest addRewriter delRoute modDest modRoute str sep avgFn countFn deltaFn deriveFn lastFn maxFn minFn stdevFn sumFn num optPrefix optNotPrefix optAddr optCache optDropRaw optBlocking optSub optNotSub optRegex optNotRegex optFlush optReconn optConnBufSize optIoBufSize optSpoolBufSize optSpoolMaxBytesPerFile optSpoolSyncEvery optSpoolSyncPeriod optSpoolSleep optTLSEnabled optTLSSkipVerify optTLSClientCert optTLSClientKey optSASLEnabled optSASLMechanism optSASLUsername optSASLPassword optUnspoolSleep optPickle optSpool optTrue optFalse optBufSize optFlushMaxNum optFlushMaxWait optTimeout optSSLVerify optErrBackoffMin optErrBackoffFactor word optConcurrency optOrgId optPubSubProject optPubSubTopic optPubSubFormat optPubSubCodec optPubSubFlushMaxSize)
def toki_EOF : Token := Token.EOF
def toki_Error : Token := Token.Error
/-- a scanned token: kind and text -/
structure TokV where
  Token : Token
  Value : Bytes
  deriving Inhabited
/-- `*toki.Scanner` after tokenisation: the tokens still to come (`Crng.Tk.scan` is the byte-level model of the tokeniser) -/
structure Scanner where
  toks : List TokV
/-- `Next()`: the next token; at the end of the input `EOF`, again and again -/
def Scanner.Next (s : Scanner) : TokV × Scanner :=
  match s.toks with
  | [] => (⟨Token.EOF, []⟩, s)
  | t :: r => (t, ⟨r⟩)
def math_MaxInt32 : Int := 2147483647
/-- route/grafananet.go `type GrafanaNetConfig struct`, the fields the constructor validates -/
structure GrafanaNetConfig where
  Concurrency : Int
  BufSize : Int
  FlushMaxNum : Int
  FlushMaxWait : Int
def time_Second : Int := 1000000000
def time_Millisecond : Int := 1000000
def time_Microsecond : Int := 1000
instance : Add Bytes := ⟨List.append⟩
/-- `table.Interface` as the readers and the TOML `Init*` functions use it -/
structure TableI where
  GetSpoolDir : Bytes
  GetIn : Unit := ()
  id : Nat := 0
/-- the six filter options handed to `matcher.New` -/
structure MatcherArgs where
  prefix_ : Bytes
  notPrefix : Bytes
  sub : Bytes
  notSub : Bytes
  regex : Bytes
  notRegex : Bytes
  deriving DecidableEq, Inhabited
/-- the arguments of `destination.New`, in its parameter order -/
structure DestArgs where
  routeName : Bytes
  matcher : MatcherArgs
  addr : Bytes
  spoolDir : Bytes
  spool : Bool
  pickle : Bool
  periodFlush : Int
  periodReConn : Int
  connBufSize : Int
  ioBufSize : Int
  spoolBufSize : Int
  spoolMaxBytesPerFile : Int
  spoolSyncEvery : Int
  spoolSyncPeriod : Int
  spoolSleep : Int
  unspoolSleep : Int
  deriving DecidableEq, Inhabited
abbrev DestP := Option DestArgs
/-- the arguments of `aggregator.New`, in its parameter order (the output channel aside) -/
structure AggArgs where
  fn : Bytes
  matcher : MatcherArgs
  outFmt : Bytes
  cache : Bool
  interval : Int
  wait : Int
  dropRaw : Bool
  deriving DecidableEq, Inhabited
instance : ToArg MatcherArgs := ⟨fun m => arg [m.prefix_, m.notPrefix, m.sub, m.notSub, m.regex, m.notRegex]⟩
instance : ToArg AggArgs := ⟨fun a => arg (a.fn, a.matcher, a.outFmt, a.cache, a.interval, a.wait, a.dropRaw)⟩
/-- cfg/cfg.go `type Aggregation struct`, `type Rewriter struct`, and the parts of `type Config struct` the `Init*`
functions read -/
structure AggregationCfg where
  Function : Bytes
  Regex : Bytes
  NotRegex : Bytes
  Prefix : Bytes
  NotPrefix : Bytes
  Substr : Bytes
  Sub : Bytes
  NotSub : Bytes
  Format : Bytes
  Cache : Bool
  Interval : Int
  Wait : Int
  DropRaw : Bool
structure RewriterCfg where
  Old : Bytes
  New : Bytes
  Not : Bytes
  Max : Int
structure Config where
  Aggregation : List AggregationCfg
  BlackList : List Bytes
  Rewriter : List RewriterCfg
/-- imperatives.go `errFmtAddBlack`, `errFmtAddRewriter` -/
def errFmtAddBlack : Err := some "addBlack <prefix|sub|regex> <pattern>"
def errFmtAddRewriter : Err := some "addRewriter <old> <new> <max>"
/-- imperatives.go `errFmtAddAgg` -/
def errFmtAddAgg : Err := some "addAgg <avg|count|delta|derive|last|max|min|stdev|sum> [prefix/sub/regex=,..] <fmt> <interval> <wait> [cache=true/false] [dropRaw=true/false]"
/-- imperatives.go `errFmtAddRoute` -/
def errFmtAddRoute : Err := some "addRoute <type> <key> [prefix/sub/regex=,..]  <dest>  [<dest>[...]]"

/-! ### what og-rek hands to input/pickle.go -/
/-- a decoded pickle value, tagged with the Go dynamic type the handler switches on (all sized integer types are `int`, both
float widths `float`; anything else — None, bool, dict, … — is `other`) -/
inductive PyVal where
  | str (b : Bytes)
  | int (z : Int)
  | big (z : Int)
  | float (bits : F64)
  | tuple (l : List PyVal)
  | list (l : List PyVal)
  | other
  deriving Inhabited
namespace Lib
/-- `v, ok := x.(string)` etc. -/
def asString : PyVal → Bytes × Bool | .str b => (b, true) | _ => ([], false)
def asTuple : PyVal → List PyVal × Bool | .tuple l => (l, true) | _ => ([], false)
def asList : PyVal → List PyVal × Bool | .list l => (l, true) | _ => ([], false)
end Lib
/-- `fmt.Sprintf("%d" / "%f" / "%.0f", v)` on a decoded value: Go's formatting is external; `Crng.FloatFmt` is its validated model -/
structure Fmt where
  d : PyVal → Bytes
  f : PyVal → Bytes
  f0 : PyVal → Bytes
/-- `input.Dispatcher` -/
structure DispatcherI where
  Dispatch : Bytes → Res Unit
  id : Nat := 0
/-- `*input.Pickle` (with the formatting functions it uses) -/
structure PickleP where
  dispatcher : DispatcherI
  fmt : Fmt

/-- package-level functions of other packages that translated code calls and that are modelled elsewhere -/
structure Env where
  /-- `m20.ValidatePacket(buf, legacyLevel, m20Level)` = (key, val, ts, err) -/
  m20_ValidatePacket : Bytes → Int → Int → Bytes × F64 × Int × Err
  /-- `validate.Ordered(key, ts)` (stateful: the answer is a parameter here, the state machine is `Crng.Ordered`) -/
  validate_Ordered : Bytes → Int → Err
  /-- `computeRingPosition(key)`: first two MD5 bytes (modelled in `Crng.MD5` / `Crng.CHash`) -/
  computeRingPosition : Bytes → Int
  /-- `strconv.Atoi`, `strconv.ParseBool`, `strings.TrimSpace` -/
  strconv_Atoi : Bytes → Int × Err
  strconv_ParseBool : Bytes → Bool × Err
  strings_TrimSpace : Bytes → Bytes
  /-- `matcher.New(prefix, notPrefix, sub, notSub, regex, notRegex)`: the matcher (here: its options) or an error -/
  matcher_New : Bytes → Bytes → Bytes → Bytes → Bytes → Bytes → MatcherArgs × Err
  /-- `regexp.Compile` -/
  regexp_Compile : Bytes → Option RegexpI × Err
  /-- `aggregator.New(fun, matcher, outFmt, cache, interval, wait, dropRaw, out)` -/
  aggregator_New : Bytes → MatcherArgs → Bytes → Bool → Int → Int → Bool → Unit → AggArgs × Err
  /-- `rewriter.New(old, new, not, max)` (translated itself: `Crng.Gen.Code.rewriter_New`) -/
  rewriter_New : Bytes → Bytes → Bytes → Int → RW × Err
  /-- `destination.New(...)`: the destination (here: the arguments it was built from) or an error -/
  destination_New : Bytes → MatcherArgs → Bytes → Bytes → Bool → Bool → Int → Int → Int → Int → Int → Int → Int → Int → Int → Int → DestP × Err
instance : Inhabited Env := ⟨⟨fun _ _ _ => default, fun _ _ => default, fun _ => default, fun _ => default, fun _ => default, fun b => b,
  fun _ _ _ _ _ _ => default, fun _ => default, fun _ _ _ _ _ _ _ _ => default, fun _ _ _ _ => default,
  fun _ _ _ _ _ _ _ _ _ _ _ _ _ _ _ _ => default⟩⟩

end Crng.Code
