/-! config-file interpolation (cmd/carbon-relay-ng `readConfigFile`, C20): only `$NAME` / `${NAME}` for the four documented
names are substituted; every other `$` sequence is copied verbatim. -/
namespace Crng.Interp
abbrev Bytes := List UInt8
def str (s : String) : Bytes := s.toUTF8.toList

/-- the documented variables, in the order of the alternation in `configVar` -/
/- "HOST", "GRAFANA_NET_ADDR", "GRAFANA_NET_API_KEY", "GRAFANA_NET_USER_ID" as bytes (kept literal so that the kernel can compute with them) -/
def names : List Bytes := [[72, 79, 83, 84], [71, 82, 65, 70, 65, 78, 65, 95, 78, 69, 84, 95, 65, 68, 68, 82], [71, 82, 65, 70, 65, 78, 65, 95, 78, 69, 84, 95, 65, 80, 73, 95, 75, 69, 89], [71, 82, 65, 70, 65, 78, 65, 95, 78, 69, 84, 95, 85, 83, 69, 82, 95, 73, 68]]

def hasPrefix (s p : Bytes) : Bool := s.take p.length == p
def isWord (c : UInt8) : Bool := (48 ≤ c && c ≤ 57) || (65 ≤ c && c ≤ 90) || (97 ≤ c && c ≤ 122) || c == 95

/-- does a variable reference start here (`s` begins right after the `$`)? returns (name, bytes consumed after the `$`) -/
def refAt (s : Bytes) : Option (Bytes × Nat) :=
  match s with
  | 123 :: t =>      -- `${NAME}`
    (names.find? fun n => hasPrefix t (n ++ [125])).map fun n => (n, n.length + 2)
  | _ =>             -- `$NAME\b` (leftmost-first alternation: the first name that matches with a word boundary after it)
    (names.find? fun n => hasPrefix s n && (match s.drop n.length with | [] => true | c :: _ => !isWord c)).map fun n => (n, n.length)

/-- `configVar.ReplaceAllStringFunc(data, expand)` -/
def interp (env : Bytes → Bytes) : Nat → Bytes → Bytes
  | 0, s => s
  | _, [] => []
  | fuel + 1, c :: t =>
    if c == 36 then
      match refAt t with
      | some (n, k) => env n ++ interp env fuel (t.drop k)
      | none => c :: interp env fuel t
    else c :: interp env fuel t

def expand (env : Bytes → Bytes) (s : Bytes) : Bytes := interp env (s.length + 1) s

/-- no reference to a documented variable starts anywhere in `s` -/
def noRef : Bytes → Bool
  | [] => true
  | c :: t => (c != 36 || (refAt t).isNone) && noRef t
def NoRef (s : Bytes) : Prop := noRef s = true

theorem interp_noRef (env : Bytes → Bytes) : ∀ (fuel : Nat) (s : Bytes), NoRef s → interp env fuel s = s := by
  intro fuel
  induction fuel with
  | zero => intro s _; rfl
  | succ f ih =>
    intro s h
    cases s with
    | nil => rfl
    | cons c t =>
      unfold NoRef noRef at h
      simp only [Bool.and_eq_true, Bool.or_eq_true] at h
      obtain ⟨h1, h2⟩ := h
      simp only [interp]
      by_cases hc : c = 36
      · subst hc
        have hr : refAt t = none := by
          rcases h1 with h1 | h1
          · simp at h1
          · simpa using h1
        simp [hr, ih t h2]
      · have : (c == 36) = false := by simpa using hc
        simp [this, ih t h2]

end Crng.Interp
