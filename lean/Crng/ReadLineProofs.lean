import Crng.ReadLine
namespace Crng.RL

theorem window_eq (size : Nat) (pend src : Bytes) (h : pend.length ≤ size) :
    pend ++ src.take (size - pend.length) = (pend ++ src).take size := by
  rw [List.take_append]
  have : pend.take size = pend := List.take_of_length_le h
  rw [this]

theorem rest_eq (size : Nat) (pend src : Bytes) (h : pend.length ≤ size) :
    src.drop (size - pend.length) = (pend ++ src).drop size := by
  rw [List.drop_append]
  have : pend.drop size = [] := List.drop_of_length_le h
  rw [this]; rfl

theorem takeWhile_take (s : Bytes) (n : Nat) (h : (s.takeWhile (· != 10)).length < n) :
    (s.take n).takeWhile (· != 10) = s.takeWhile (· != 10) := by
  induction s generalizing n with
  | nil => simp
  | cons c t ih =>
    cases n with
    | zero => simp at h
    | succ n =>
      simp only [List.take_succ_cons, List.takeWhile_cons]
      split
      · rename_i hc
        simp only [List.takeWhile_cons, hc, if_true, List.length_cons] at h
        rw [ih n (by omega)]
      · rfl

theorem takeWhile_length_le (s : Bytes) : (s.takeWhile (· != 10)).length ≤ s.length :=
  (List.takeWhile_sublist _).length_le

/-- **AMQP**: when every line of the body fits the buffer, the consume loop dispatches exactly the newline-delimited lines
of the body (CR of terminated lines removed, a final unterminated line included), each once, in order -/
theorem readLines_spec (size : Nat) : ∀ (f : Nat) (pend src : Bytes), pend.length ≤ size → (pend ++ src).length < f →
    Fits size f (pend ++ src) → readLines size f pend src = specLines f (pend ++ src) := by
  intro f
  induction f with
  | zero => intro pend src _ hl _; omega
  | succ f ih =>
    intro pend src hp hl hfit
    obtain ⟨hline, hrest⟩ := hfit
    simp only [readLines, specLines]
    rw [window_eq size pend src hp, rest_eq size pend src hp]
    generalize hs : pend ++ src = s at *
    have htw : (s.take size).takeWhile (· != 10) = s.takeWhile (· != 10) := takeWhile_take s size hline
    rw [htw]
    by_cases hnl : (s.takeWhile (· != 10)).length < s.length
    · -- a newline in the stream: it lies inside the window
      have hin : (s.takeWhile (· != 10)).length < (s.take size).length := by simp; omega
      have hne : s.isEmpty = false := by cases s <;> simp_all
      simp only [hin, hnl, if_true, hne, Bool.false_eq_true, if_false]
      congr 1
      have hpl : ((s.take size).drop ((s.takeWhile (· != 10)).length + 1)).length ≤ size := by simp; omega
      have hcat : (s.take size).drop ((s.takeWhile (· != 10)).length + 1) ++ s.drop size = s.drop ((s.takeWhile (· != 10)).length + 1) := by
        have : s.drop ((s.takeWhile (· != 10)).length + 1) = (s.take size ++ s.drop size).drop ((s.takeWhile (· != 10)).length + 1) := by
          rw [List.take_append_drop]
        rw [this, List.drop_append]
        have hz : (s.takeWhile (· != 10)).length + 1 - (s.take size).length = 0 := by simp; omega
        rw [hz]; simp
      rw [ih _ _ hpl (by rw [hcat]; simp; omega) (by rw [hcat]; exact hrest), hcat]
    · -- no newline: the whole stream is shorter than the buffer
      have hall : (s.takeWhile (· != 10)).length = s.length := by have := takeWhile_length_le s; omega
      have hshort : s.length < size := by omega
      have htk : s.take size = s := List.take_of_length_le (by omega)
      rw [htk]
      simp only [hnl, if_false]
      have h2 : ¬ (s.length ≥ size) := by omega
      simp only [h2, if_false]

theorem amqp_whole_lines (size : Nat) (body : Bytes) (hfit : Fits size (body.length + 2) body) :
    amqpTokens size body = spec body := by
  unfold amqpTokens spec
  have := readLines_spec size (body.length + 2) [] body (Nat.zero_le _) (by simp) (by simpa using hfit)
  simpa using this

end Crng.RL
