import Crng.DQGet
namespace Crng.DQ

theorem reopen_bd {cfg : Cfg} {s : St} (h : Bd cfg s) :
    Bd cfg (openQ cfg (closeQ s).disk (closeQ s).log (closeQ s).g) := by
  have h0 : Mid cfg { s with mem := { s.mem with readOpen := false, writeOpen := false } } :=
    h.mid.congrMem rfl rfl rfl rfl rfl rfl rfl rfl rfl rfl rfl (Or.inr rfl)
  obtain ⟨hm, hns, _, hp, hsy, hload⟩ := sync_core h0.inv h0.depth h0.recG h0.logok
  obtain ⟨_, hod⟩ := hm.same_of_nosync hns
  have hcl : closeQ s = sync { s with mem := { s.mem with readOpen := false, writeOpen := false } } := rfl
  rw [← hcl] at hm hns hp hsy hload hod
  have hsp : (closeQ s).g.synced = (closeQ s).g.pend := by rw [hsy, hp]
  have base : Mid cfg { mem := loadMem (closeQ s).disk, disk := (closeQ s).disk, log := (closeQ s).log, g := (closeQ s).g } :=
    { inv := { chain := by rw [← hsp]; exact hm.recov.chain
               ondisk := hm.inv.ondisk
               small := hm.inv.small
               ahead := Or.inl (loadMem_ahead _) }
      depth := by rw [hload, hp]; exact h.mid.depth
      recov := hm.recov
      pre := hm.pre
      status := .same rfl hod
      w2 := hm.w2
      mle := Le.refl _
      logok := hm.logok }
  unfold openQ fuelOf
  exact (loopTop_bd _ base).1

/-- every event keeps the boundary invariant; in particular every crash snapshot logged so far is recoverable -/
theorem step_bd {cfg : Cfg} {s : St} (e : Ev) (h : Bd cfg s) (hsm : smallEv e) : Bd cfg (stepEv cfg s e).1 := by
  cases e with
  | put m =>
    obtain ⟨hm, _⟩ := writeOne_mid (cfg := cfg) m hsm h
    simp only [stepEv, fuelOf]
    exact (loopTop_bd _ hm).1
  | get =>
    cases hp : s.g.pend with
    | nil =>
      have : hasData s.mem = false := by
        cases hh : hasData s.mem
        · rfl
        · exact absurd rfl ((hasData_iff cfg s [] (by rw [← hp]; exact h.mid.inv)).mp hh)
      simp only [stepEv, this, Bool.false_eq_true, if_false]; exact h
    | cons r rs =>
      have hd : hasData s.mem = true := (hasData_iff cfg s (r :: rs) (by rw [← hp]; exact h.mid.inv)).mpr (by simp)
      obtain ⟨hm, _⟩ := moveForward_mid h hp
      simp only [stepEv, hd, if_true, fuelOf]
      exact (loopTop_bd _ hm).1
  | reopen => exact reopen_bd h

theorem fresh_bd (cfg : Cfg) : Bd cfg (openQ cfg {} []) := by
  have base : Mid cfg { mem := loadMem {}, disk := {}, log := [], g := {} } :=
    { inv := { chain := rfl, ondisk := (fun r hr => by cases hr), small := (fun r hr => by cases hr), ahead := Or.inl ⟨rfl, rfl⟩ }
      depth := rfl
      recov := ⟨rfl, fun r hr => by cases hr⟩
      pre := by simp
      status := .same rfl (fun r hr => by cases hr)
      w2 := fun r hr => by cases hr
      mle := Le.refl _
      logok := fun e he => by cases he }
  unfold openQ fuelOf
  exact (loopTop_bd _ base).1

theorem run_bd (cfg : Cfg) : ∀ (es : List Ev) (s : St), Bd cfg s → (∀ e ∈ es, smallEv e) → Bd cfg (runEvs cfg s es) := by
  intro es
  induction es with
  | nil => intro s h _; exact h
  | cons e es ih =>
    intro s h hsm
    exact ih _ (step_bd e h (hsm e (List.mem_cons_self ..))) (fun e he => hsm e (List.mem_cons_of_mem _ he))

/-- **C08.** Start from an empty directory, run any history of enqueue / dequeue / clean-restart events with any segment
    size and sync frequency, and stop the process after any filesystem mutation (= any entry of the crash log).
    Reopening the directory as it was at that instant terminates and delivers exactly the records that were pending at
    the last completed metadata rename (`synced`), in order and byte-for-byte, except that at most the `k ≤ dsince`
    oldest of them — records already handed to the consumer since that rename — may be skipped. -/
theorem c08_crash_recovery (cfg : Cfg) (es : List Ev) (hsm : ∀ e ∈ es, smallEv e) :
    ∀ e ∈ (runEvs cfg (openQ cfg {} []) es).log,
      ∃ k fuel, k ≤ e.g.dsince ∧ drain cfg fuel (openQ cfg e.disk []) = ((e.g.synced.drop k).map (·.msg), true) :=
  (run_bd cfg es _ (fresh_bd cfg) hsm).mid.logok

#print axioms c08_crash_recovery
end Crng.DQ
