import Crng.CodePrelude
/-! Closed forms (hand-written) of what the regenerated functions of `Crng.Gen.Code` compute: the trace of
`Table.Dispatch`, `Table.DispatchAggregate`, the carbon routes' `Dispatch` and `Aggregator.AddMaybe` as plain list
expressions, and loop lemmas for `forRange`. `Crng.Tie.Code` proves the regenerated definitions equal to these;
the statements of C01 / C02 / C11 / C19 about the order of the stages are then read off the closed forms. -/
namespace Crng.CodeSpec
open Crng.Code

def inc (name : String) : Ev := Ev.call name 0 [arg (1 : Int)]

/-! ### loop lemmas -/
theorem forRange_cons_next {α σ ρ : Type} {body : α → σ → Res (Step σ ρ)} {x : α} {xs : List α} {s s' : σ} {t : List Ev}
    (h : body x s = (t, Step.next s')) :
    forRange body (x :: xs) s = (t ++ (forRange body xs s').1, (forRange body xs s').2) := by
  simp [forRange, h, Res.bind]
theorem forRange_cons_ret {α σ ρ : Type} {body : α → σ → Res (Step σ ρ)} {x : α} {xs : List α} {s : σ} {r : ρ} {t : List Ev}
    (h : body x s = (t, Step.ret r)) : forRange body (x :: xs) s = (t, Out.ret r) := by
  simp [forRange, h, Res.bind, Res.pure]
theorem forRange_cons_brk {α σ ρ : Type} {body : α → σ → Res (Step σ ρ)} {x : α} {xs : List α} {s s' : σ} {t : List Ev}
    (h : body x s = (t, Step.brk s')) : forRange (ρ := ρ) body (x :: xs) s = (t, Out.done s') := by
  simp [forRange, h, Res.bind, Res.pure]

/-- a loop that returns at the first element satisfying `p`, after emitting `e` -/
theorem forRange_find {α ρ : Type} (p : α → Bool) (e : Ev) (r : ρ) (xs : List α) :
    forRange (fun x (_ : Unit) => if p x = true then emit e (Res.pure (Step.ret r)) else Res.pure (Step.next ())) xs () =
      if xs.any p then ([e], Out.ret r) else ([], Out.done ()) := by
  induction xs with
  | nil => rfl
  | cons x xs ih =>
    cases hp : p x
    · rw [forRange_cons_next (t := []) (s' := ()) (by simp [hp, Res.pure]), ih]; simp [hp]
    · rw [forRange_cons_ret (t := [e]) (r := r) (by simp [hp, Res.pure, emit])]; simp [hp]

/-- a loop that only updates its state -/
theorem forRange_fold {α σ ρ : Type} (g : α → σ → σ) (xs : List α) (s : σ) :
    forRange (ρ := ρ) (fun x s => Res.pure (Step.next (g x s))) xs s = ([], Out.done (xs.foldl (fun s x => g x s) s)) := by
  induction xs generalizing s with
  | nil => rfl
  | cons x xs ih => rw [forRange_cons_next (t := []) (s' := g x s) (by simp [Res.pure]), ih]; simp

/-- a loop over `for i, x := range xs` whose body does not use the index -/
theorem forRange_enum {α σ ρ : Type} (b : Int × α → σ → Res (Step σ ρ)) (g : α → σ → Res (Step σ ρ))
    (h : ∀ i x s, b (i, x) s = g x s) (xs : List α) (s : σ) : forRange b (Lib.enum xs) s = forRange g xs s := by
  have key : ∀ (ps : List (Int × α)) (s : σ), forRange b ps s = forRange g (ps.map (·.2)) s := by
    intro ps
    induction ps with
    | nil => intro s; rfl
    | cons p ps ih =>
      intro s
      obtain ⟨i, x⟩ := p
      simp only [forRange, List.map_cons, h]
      congr 1
      funext r
      cases r <;> simp [ih]
  rw [key]
  congr 1
  simp [Lib.enum, List.map_map]
  induction xs with
  | nil => rfl
  | cons x xs ih => simp [List.range_succ_eq_map, List.zip_map_left, List.map_map] at ih ⊢; exact ih

/-- "add each section in file order, stop at the first that fails": the events of the successes before the first failure,
and that failure -/
def tryEach {α β : Type} (f : α → Except Err β) (ev : β → Ev) : List α → List Ev × Option Err
  | [] => ([], none)
  | a :: as => match f a with
    | .error e => ([], some e)
    | .ok b => (ev b :: (tryEach f ev as).1, (tryEach f ev as).2)

/-- the loop body of that shape -/
def tryBody {α β : Type} (f : α → Except Err β) (ev : β → Ev) (a : α) (_ : Unit) : Res (Step Unit Err) :=
  match f a with
  | .error e => Res.pure (Step.ret e)
  | .ok b => emit (ev b) (Res.pure (Step.next ()))

theorem forRange_tryEach {α β : Type} (f : α → Except Err β) (ev : β → Ev) (xs : List α) :
    forRange (tryBody f ev) xs () =
      ((tryEach f ev xs).1, match (tryEach f ev xs).2 with | none => Out.done () | some e => Out.ret e) := by
  induction xs with
  | nil => rfl
  | cons a as ih =>
    cases hf : f a with
    | error e => rw [forRange_cons_ret (t := []) (r := e) (by simp [tryBody, hf, Res.pure])]; simp [tryEach, hf]
    | ok b => rw [forRange_cons_next (t := [ev b]) (s' := ()) (by simp [tryBody, hf, Res.pure, emit]), ih]; simp [tryEach, hf]

/-- the aggregator loop of `Table.Dispatch`: every aggregator is offered the point, in order, until one consumes it -/
def aggTrace (fields : List Bytes) (val : F64) (ts : Int) : List AggregatorI → List Ev × Bool
  | [] => ([], false)
  | a :: as =>
    if (a.AddMaybe fields val ts).2 then ((a.AddMaybe fields val ts).1, true)
    else ((a.AddMaybe fields val ts).1 ++ (aggTrace fields val ts as).1, (aggTrace fields val ts as).2)

theorem forRange_agg (fields : List Bytes) (val : F64) (ts : Int) (as : List AggregatorI) :
    forRange (fun (a : AggregatorI) (_ : Unit) => Res.bind (a.AddMaybe fields val ts) fun dropRaw =>
        if dropRaw = true then Res.pure (Step.ret ()) else Res.pure (Step.next ())) as () =
      ((aggTrace fields val ts as).1, if (aggTrace fields val ts as).2 then Out.ret () else Out.done ()) := by
  induction as with
  | nil => rfl
  | cons a as ih =>
    cases h : (a.AddMaybe fields val ts).2
    · rw [forRange_cons_next (t := (a.AddMaybe fields val ts).1) (s' := ()) (by simp [h, Res.bind, Res.pure]), ih]
      simp [aggTrace, h]
    · rw [forRange_cons_ret (t := (a.AddMaybe fields val ts).1) (r := ()) (by simp [h, Res.bind, Res.pure])]
      simp [aggTrace, h]

/-- what the routes do with a line: each route whose filter accepts `name` gets `final`, in table order -/
def routeTrace (name final : Bytes) (rs : List RouteI) : List Ev :=
  (rs.filter (·.Match name)).flatMap fun r => (r.Dispatch final).1

theorem forRange_routes {ρ : Type} (name final : Bytes) (rs : List RouteI) (b : Bool) :
    forRange (ρ := ρ) (fun (r : RouteI) (routed : Bool) =>
        if r.Match name = true then Res.bind (r.Dispatch final) fun _ => Res.pure (Step.next true)
        else Res.pure (Step.next routed)) rs b =
      (routeTrace name final rs, Out.done (b || rs.any (·.Match name))) := by
  induction rs generalizing b with
  | nil => simp [forRange, routeTrace, Res.pure]
  | cons r rs ih =>
    cases h : r.Match name
    · rw [forRange_cons_next (t := []) (s' := b) (by simp [h, Res.pure]), ih]; simp [routeTrace, h]
    · rw [forRange_cons_next (t := (r.Dispatch final).1) (s' := true) (by simp [h, Res.bind, Res.pure]), ih]
      simp [routeTrace, h]

/-- the route loop and the unroutable counter -/
def routeStage (name final : Bytes) (rs : List RouteI) : List Ev :=
  routeTrace name final rs ++ if rs.any (·.Match name) then [] else [inc "table.numUnroutable.Inc"]

/-- the rewriter loop on the field list -/
def rewriteFields (rws : List RewriterI) (fields : List Bytes) : List Bytes :=
  rws.foldl (fun f rw => Lib.set f 0 (rw.Do (Lib.idx f 0))) fields

/-- closed form of `Table.Dispatch` -/
def tableTrace (E : Env) (t : Table) (buf : Bytes) : List Ev :=
  let conf := t.config
  let v := E.m20_ValidatePacket buf conf.Validation_level_legacy.Level conf.Validation_level_m20.Level
  inc "table.numIn.Inc" ::
  if v.2.2.2.isSome then
    [Ev.call "table.bad.Add" 0 [arg v.1, arg buf, arg v.2.2.2], inc "table.numInvalid.Inc"]
  else if conf.Validate_order && (E.validate_Ordered v.1 v.2.2.1).isSome then
    [Ev.call "table.bad.Add" 0 [arg v.1, arg buf, arg (E.validate_Ordered v.1 v.2.2.1)], inc "table.numOutOfOrder.Inc"]
  else
    let fields := Lib.bytes_Fields buf
    if conf.blacklist.any (fun m => m.Match (Lib.idx fields 0)) then [inc "table.numBlacklist.Inc"]
    else
      let fields' := rewriteFields conf.rewriters fields
      let ag := aggTrace fields' v.2.1 v.2.2.1 conf.aggregators
      ag.1 ++ if ag.2 then [] else routeStage (Lib.idx fields' 0) (Lib.bytes_Join fields' [32]) conf.routes

/-- closed form of `Table.DispatchAggregate` -/
def aggregateTrace (t : Table) (buf : Bytes) : List Ev :=
  let name := if Lib.bytes_IndexByte buf 32 ≥ 0 then Lib.sliceTo buf (Lib.bytes_IndexByte buf 32) else buf
  routeStage name buf t.config.routes

end Crng.CodeSpec
