import Crng.CodePrelude
/-! Closed forms (hand-written) of what the regenerated functions of `Crng.Gen.Code` compute: the trace of
`Table.Dispatch`, `Table.DispatchAggregate`, the carbon routes' `Dispatch` and `Aggregator.AddMaybe` as plain list
expressions, and loop lemmas for `forRange`. `Crng.Tie.Code` proves the regenerated definitions equal to these;
the statements of C01 / C02 / C11 / C19 about the order of the stages are then read off the closed forms. -/
namespace Crng.CodeSpec
open Crng.Code

def inc (name : String) : Ev := Ev.call name 0 [arg (1 : Int)]

/-! ### loop lemmas -/
theorem forRange_cons_next {α σ ρ : Type} {body : α → σ → Res (Step σ ρ)} {x : α} {xs : List α} {s s' : σ} {t : List Ev}
    (h : body x s = (t, Step.next s')) :
    forRange body (x :: xs) s = (t ++ (forRange body xs s').1, (forRange body xs s').2) := by
  simp [forRange, h, Res.bind]
theorem forRange_cons_ret {α σ ρ : Type} {body : α → σ → Res (Step σ ρ)} {x : α} {xs : List α} {s : σ} {r : ρ} {t : List Ev}
    (h : body x s = (t, Step.ret r)) : forRange body (x :: xs) s = (t, Out.ret r) := by
  simp [forRange, h, Res.bind, Res.pure]
theorem forRange_cons_brk {α σ ρ : Type} {body : α → σ → Res (Step σ ρ)} {x : α} {xs : List α} {s s' : σ} {t : List Ev}
    (h : body x s = (t, Step.brk s')) : forRange (ρ := ρ) body (x :: xs) s = (t, Out.done s') := by
  simp [forRange, h, Res.bind, Res.pure]

/-- a loop that returns at the first element satisfying `p`, after emitting `e` -/
theorem forRange_find {α ρ : Type} (p : α → Bool) (e : Ev) (r : ρ) (xs : List α) :
    forRange (fun x (_ : Unit) => if p x = true then emit e (Res.pure (Step.ret r)) else Res.pure (Step.next ())) xs () =
      if xs.any p then ([e], Out.ret r) else ([], Out.done ()) := by
  induction xs with
  | nil => rfl
  | cons x xs ih =>
    cases hp : p x
    · rw [forRange_cons_next (t := []) (s' := ()) (by simp [hp, Res.pure]), ih]; simp [hp]
    · rw [forRange_cons_ret (t := [e]) (r := r) (by simp [hp, Res.pure, emit])]; simp [hp]

/-- a loop that only updates its state -/
theorem forRange_fold {α σ ρ : Type} (g : α → σ → σ) (xs : List α) (s : σ) :
    forRange (ρ := ρ) (fun x s => Res.pure (Step.next (g x s))) xs s = ([], Out.done (xs.foldl (fun s x => g x s) s)) := by
  induction xs generalizing s with
  | nil => rfl
  | cons x xs ih => rw [forRange_cons_next (t := []) (s' := g x s) (by simp [Res.pure]), ih]; simp

/-- the aggregator loop of `Table.Dispatch`: every aggregator is offered the point, in order, until one consumes it -/
def aggTrace (fields : List Bytes) (val : F64) (ts : Int) : List AggregatorI → List Ev × Bool
  | [] => ([], false)
  | a :: as =>
    if (a.AddMaybe fields val ts).2 then ((a.AddMaybe fields val ts).1, true)
    else ((a.AddMaybe fields val ts).1 ++ (aggTrace fields val ts as).1, (aggTrace fields val ts as).2)

theorem forRange_agg (fields : List Bytes) (val : F64) (ts : Int) (as : List AggregatorI) :
    forRange (fun (a : AggregatorI) (_ : Unit) => Res.bind (a.AddMaybe fields val ts) fun dropRaw =>
        if dropRaw = true then Res.pure (Step.ret ()) else Res.pure (Step.next ())) as () =
      ((aggTrace fields val ts as).1, if (aggTrace fields val ts as).2 then Out.ret () else Out.done ()) := by
  induction as with
  | nil => rfl
  | cons a as ih =>
    cases h : (a.AddMaybe fields val ts).2
    · rw [forRange_cons_next (t := (a.AddMaybe fields val ts).1) (s' := ()) (by simp [h, Res.bind, Res.pure]), ih]
      simp [aggTrace, h]
    · rw [forRange_cons_ret (t := (a.AddMaybe fields val ts).1) (r := ()) (by simp [h, Res.bind, Res.pure])]
      simp [aggTrace, h]

/-- what the routes do with a line: each route whose filter accepts `name` gets `final`, in table order -/
def routeTrace (name final : Bytes) (rs : List RouteI) : List Ev :=
  (rs.filter (·.Match name)).flatMap fun r => (r.Dispatch final).1

theorem forRange_routes {ρ : Type} (name final : Bytes) (rs : List RouteI) (b : Bool) :
    forRange (ρ := ρ) (fun (r : RouteI) (routed : Bool) =>
        if r.Match name = true then Res.bind (r.Dispatch final) fun _ => Res.pure (Step.next true)
        else Res.pure (Step.next routed)) rs b =
      (routeTrace name final rs, Out.done (b || rs.any (·.Match name))) := by
  induction rs generalizing b with
  | nil => simp [forRange, routeTrace, Res.pure]
  | cons r rs ih =>
    cases h : r.Match name
    · rw [forRange_cons_next (t := []) (s' := b) (by simp [h, Res.pure]), ih]; simp [routeTrace, h]
    · rw [forRange_cons_next (t := (r.Dispatch final).1) (s' := true) (by simp [h, Res.bind, Res.pure]), ih]
      simp [routeTrace, h]

/-- the route loop and the unroutable counter -/
def routeStage (name final : Bytes) (rs : List RouteI) : List Ev :=
  routeTrace name final rs ++ if rs.any (·.Match name) then [] else [inc "table.numUnroutable.Inc"]

/-- the rewriter loop on the field list -/
def rewriteFields (rws : List RewriterI) (fields : List Bytes) : List Bytes :=
  rws.foldl (fun f rw => Lib.set f 0 (rw.Do (Lib.idx f 0))) fields

/-- closed form of `Table.Dispatch` -/
def tableTrace (E : Env) (t : Table) (buf : Bytes) : List Ev :=
  let conf := t.config
  let v := E.m20_ValidatePacket buf conf.Validation_level_legacy.Level conf.Validation_level_m20.Level
  inc "table.numIn.Inc" ::
  if v.2.2.2.isSome then
    [Ev.call "table.bad.Add" 0 [arg v.1, arg buf, arg v.2.2.2], inc "table.numInvalid.Inc"]
  else if conf.Validate_order && (E.validate_Ordered v.1 v.2.2.1).isSome then
    [Ev.call "table.bad.Add" 0 [arg v.1, arg buf, arg (E.validate_Ordered v.1 v.2.2.1)], inc "table.numOutOfOrder.Inc"]
  else
    let fields := Lib.bytes_Fields buf
    if conf.blacklist.any (fun m => m.Match (Lib.idx fields 0)) then [inc "table.numBlacklist.Inc"]
    else
      let fields' := rewriteFields conf.rewriters fields
      let ag := aggTrace fields' v.2.1 v.2.2.1 conf.aggregators
      ag.1 ++ if ag.2 then [] else routeStage (Lib.idx fields' 0) (Lib.bytes_Join fields' [32]) conf.routes

/-- closed form of `Table.DispatchAggregate` -/
def aggregateTrace (t : Table) (buf : Bytes) : List Ev :=
  let name := if Lib.bytes_IndexByte buf 32 ≥ 0 then Lib.sliceTo buf (Lib.bytes_IndexByte buf 32) else buf
  routeStage name buf t.config.routes

end Crng.CodeSpec
