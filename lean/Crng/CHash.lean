import Crng.MD5
import Crng.Ring
/-! route/consistent_hashing.go, executable (C15): replica keys as Carbon builds them (`repr((server, instance)) + ":" + n`),
16-bit positions from the first two MD5 bytes, ring sorted by (position, host, instance), lookup by binary search
(`sort.Search`) modulo the ring length. -/
namespace Crng.CHash
abbrev Bytes := List UInt8

/-- ring key: (position, hostname, instance); instance `[]` stands for Carbon's `None` -/
abbrev Key := Nat × Bytes × Bytes

structure Node where
  host : Bytes          -- server, without port
  inst : Bytes
  deriving Repr, DecidableEq

def str (s : String) : Bytes := s.toUTF8.toList
def natStr (n : Nat) : Bytes := str (toString n)

/-- `"('host', 'inst'):n"` / `"('host', None):n"` -/
def replicaKey (n : Node) (i : Nat) : Bytes :=
  [40, 39] ++ n.host ++ [39, 44, 32] ++ (if n.inst.isEmpty then [78, 111, 110, 101] else [39] ++ n.inst ++ [39]) ++ [41, 58] ++ natStr i

def entriesOf (pos : Bytes → Nat) (replicas : Nat) (n : Node) : List Key :=
  (List.range replicas).map fun i => (pos (replicaKey n i), n.host, n.inst)

def entries (pos : Bytes → Nat) (replicas : Nat) (nodes : List Node) : List Key := nodes.flatMap (entriesOf pos replicas)

/-- `hashRing.Less` as a non-strict order -/
def keyLe (a b : Key) : Bool :=
  decide (a.1 < b.1) || (a.1 == b.1 && ((decide (a.2.1 ≤ b.2.1) && a.2.1 != b.2.1) || (a.2.1 == b.2.1 && decide (a.2.2 ≤ b.2.2))))

def insertKey (x : Key) : List Key → List Key
  | [] => [x]
  | y :: t => if keyLe y x then y :: insertKey x t else x :: y :: t
/-- `sort.Sort(h.Ring)`: modelled as *a* sort by `Less` (insertion sort); the theorems only use that the result is
sorted and a permutation -/
def sortKeys (l : List Key) : List Key := l.foldl (fun acc x => insertKey x acc) []

def ring (pos : Bytes → Nat) (replicas : Nat) (nodes : List Node) : List Key := sortKeys (entries pos replicas nodes)

/-- `GetDestinationIndex`: `sort.Search(len, ring[i].Position >= position) % len` -/
def geAt (r : List Key) (p : Nat) (i : Nat) : Bool := match r[i]? with | some e => decide (p ≤ e.1) | none => true

def lookupKey (r : List Key) (p : Nat) : Option Key :=
  if r.isEmpty then none else r[(Crng.Ring.bsearch (geAt r p) r.length 0 r.length) % r.length]?

/-- the destination a metric name is sent to: index (in configured order) of the node owning the ring entry -/
def destIndex (pos : Bytes → Nat) (replicas : Nat) (nodes : List Node) (name : Bytes) : Option Nat :=
  match lookupKey (ring pos replicas nodes) (pos name) with
  | some k => nodes.findIdx? (fun n => n.host == k.2.1 && n.inst == k.2.2)
  | none => none

/-- `addrInstanceSplit` + `strings.Split(d.Addr, ":")[0]`: host, (port), instance from `h`, `h:p`, `h:p:i` -/
def splitColon (b : Bytes) : List Bytes :=
  let rec go : Bytes → Bytes → List Bytes
    | [], cur => [cur.reverse]
    | c :: t, cur => if c == 58 then cur.reverse :: go t [] else go t (c :: cur)
  go b []

def nodeOfAddr (addr : Bytes) : Node :=
  match splitColon addr with
  | [h, _, i] => { host := h, inst := i }
  | h :: _ => { host := h, inst := [] }
  | [] => { host := [], inst := [] }

end Crng.CHash
