/-! badmetrics/badMetrics.go as a sequential map: one goroutine serialises `Add`, the periodic clean and `Get`
through channels, so every history is a sequence of these three operations. Time is a logical clock (Nat). -/
namespace Crng.Bad
abbrev Bytes := List UInt8

structure Rec where
  key : Bytes        -- Metric: the parsed key, or empty on a parse failure
  msg : Bytes        -- LastMsg: the rejected line
  err : String       -- LastErr
  seen : Nat         -- LastSeen
  deriving DecidableEq, Repr

abbrev St := List Rec

inductive Op where
  | add (r : Rec)          -- `b.seen[in.Metric] = in`
  | clean (cutoff : Nat)   -- delete every record with `LastSeen.Before(cutoff)`
  | get (oldest : Nat)     -- records with `LastSeen.After(oldest)`

def step (s : St) : Op → St × Option (List Rec)
  | .add r => (r :: s.filter (fun x => x.key != r.key), none)
  | .clean c => (s.filter (fun x => !(x.seen < c)), none)
  | .get o => (s, some (s.filter (fun x => x.seen > o)))

def run : St → List Op → St
  | s, [] => s
  | s, op :: ops => run (step s op).1 ops

/-- nothing in `ops` overwrites or expires `r`: no add for the same key, every clean has a cutoff not after `r.seen` -/
def Quiet (r : Rec) : List Op → Prop
  | [] => True
  | .add r' :: ops => r'.key ≠ r.key ∧ Quiet r ops
  | .clean c :: ops => c ≤ r.seen ∧ Quiet r ops
  | .get _ :: ops => Quiet r ops

theorem mem_run (r : Rec) : ∀ (ops : List Op) (s : St), r ∈ s → Quiet r ops → r ∈ run s ops := by
  intro ops
  induction ops with
  | nil => intro s h _; exact h
  | cons op ops ih =>
    intro s h hq
    cases op with
    | add r' =>
      obtain ⟨hk, hq⟩ := hq
      apply ih _ _ hq
      simp only [step, List.mem_cons, List.mem_filter]
      exact Or.inr ⟨h, by simpa using fun e => hk e.symm⟩
    | clean c =>
      obtain ⟨hc, hq⟩ := hq
      apply ih _ _ hq
      simp only [step, List.mem_filter]
      exact ⟨h, by simp; omega⟩
    | get o => exact ih _ h hq

/-- **the rejection stays visible**: after `add r`, as long as `r` is neither overwritten by a later rejection of the same
name nor older than a clean's cutoff, every `Get` whose window starts before `r.seen` reports `r` itself
(the rejected text and the reason of the **last** rejection under that name) -/
theorem last_add_visible (s : St) (r : Rec) (ops : List Op) (hq : Quiet r ops) (o : Nat) (ho : o < r.seen) :
    ∃ l, (step (run (step s (.add r)).1 ops) (.get o)).2 = some l ∧ r ∈ l := by
  refine ⟨_, rfl, ?_⟩
  have : r ∈ run (step s (.add r)).1 ops := mem_run r ops _ (by simp [step]) hq
  simp only [List.mem_filter]
  exact ⟨this, by simpa using ho⟩

/-- one record per name: after any history no two records share a key -/
theorem keys_nodup : ∀ (ops : List Op) (s : St), (s.map (·.key)).Nodup → ((run s ops).map (·.key)).Nodup := by
  intro ops
  induction ops with
  | nil => intro s h; exact h
  | cons op ops ih =>
    intro s h
    apply ih
    cases op with
    | add r =>
      simp only [step, List.map_cons, List.nodup_cons]
      refine ⟨?_, ?_⟩
      · simp [List.mem_map, List.mem_filter]
      · exact (List.Nodup.sublist ((List.filter_sublist).map _) h)
    | clean c => exact (List.Nodup.sublist ((List.filter_sublist).map _) h)
    | get o => exact h

end Crng.Bad
