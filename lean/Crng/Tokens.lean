/-! Scratch prototype: toki tokenisation of admin commands and `readDestination` (C20). -/
namespace Crng.Tk
abbrev Bytes := List UInt8
def str (x : String) : Bytes := x.toUTF8.toList

/-- how a token definition matches at the start of the input -/
inductive Pat where
  | lit (s : Bytes)      -- literal text
  | quoted               -- `".*"`  (greedy up to the last quote before a newline)
  | num                  -- `[0-9]+( |$)`
  | word                 -- `[^ ]+`
  deriving Repr

structure TokDef where
  name : String
  pat : Pat
  deriving Repr

/-- imperatives.go `tokens`, in order (first match wins). In the real machinery this table is generated from the source. -/
def tokenTable : List TokDef :=
  ([("addBlack","addBlack"),("addAgg","addAgg"),("addRouteSendAllMatch","addRoute sendAllMatch"),("addRouteSendFirstMatch","addRoute sendFirstMatch"),
    ("addRouteConsistentHashing","addRoute consistentHashing"),("addRouteGrafanaNet","addRoute grafanaNet"),("addRouteKafkaMdm","addRoute kafkaMdm"),
    ("addRoutePubSub","addRoute pubsub"),("addDest","addDest"),("addRewriter","addRewriter"),("delRoute","delRoute"),("modDest","modDest"),("modRoute","modRoute"),
    ("optPrefix","prefix="),("optNotPrefix","notPrefix="),("optAddr","addr="),("optCache","cache="),("optDropRaw","dropRaw="),("optBlocking","blocking="),
    ("optSub","sub="),("optNotSub","notSub="),("optRegex","regex="),("optNotRegex","notRegex="),("optFlush","flush="),("optReconn","reconn="),
    ("optConnBufSize","connbuf="),("optIoBufSize","iobuf="),("optSpoolBufSize","spoolbuf="),("optSpoolMaxBytesPerFile","spoolmaxbytesperfile="),
    ("optSpoolSyncEvery","spoolsyncevery="),("optSpoolSyncPeriod","spoolsyncperiod="),("optSpoolSleep","spoolsleep="),("optTLSEnabled","tlsEnabled="),
    ("optTLSSkipVerify","tlsSkipVerify="),("optTLSClientCert","tlsClientCert="),("optTLSClientKey","tlsClientKey="),("optSASLEnabled","saslEnabled="),
    ("optSASLMechanism","saslMechanism="),("optSASLUsername","saslUsername="),("optSASLPassword","saslPassword="),("optUnspoolSleep","unspoolsleep="),
    ("optPickle","pickle="),("optSpool","spool="),("optTrue","true"),("optFalse","false"),("optBufSize","bufSize="),("optFlushMaxNum","flushMaxNum="),
    ("optFlushMaxWait","flushMaxWait="),("optTimeout","timeout="),("optSSLVerify","sslverify="),("optErrBackoffMin","errBackoffMin="),
    ("optErrBackoffFactor","errBackoffFactor="),("optConcurrency","concurrency="),("optOrgId","orgId="),("optPubSubProject","project="),
    ("optPubSubTopic","topic="),("optPubSubFormat","format="),("optPubSubCodec","codec="),("optPubSubFlushMaxSize","flushMaxSize=")].map
      fun (n, p) => ⟨n, .lit (str p)⟩) ++
  [⟨"str", .quoted⟩, ⟨"sep", .lit (str "##")⟩] ++
  (["avg","max","min","sum","last","count","delta","derive","stdev"].map fun f => ⟨f ++ "Fn", .lit (str (f ++ " "))⟩) ++
  [⟨"num", .num⟩, ⟨"word", .word⟩]

def isSpace (b : UInt8) : Bool := b == 9 || b == 10 || b == 12 || b == 13 || b == 32   -- Go regexp `\s`
def isDig (b : UInt8) : Bool := 48 ≤ b && b ≤ 57
def hasPrefix (s p : Bytes) : Bool := s.take p.length == p

/-- length of the match of one pattern at the start of `s`, if any -/
def matchLen (p : Pat) (s : Bytes) : Option Nat :=
  match p with
  | .lit l => if hasPrefix s l then some l.length else none
  | .quoted =>
    match s with
    | 34 :: t =>
      let line := t.takeWhile (· != 10)
      -- last quote on the line
      let idxs := (List.range line.length).filter fun i => line[i]! == 34
      match idxs.getLast? with
      | some i => some (i + 2)
      | none => none
    | _ => none
  | .num =>
    let ds := s.takeWhile isDig
    if ds.isEmpty then none
    else match s.drop ds.length with
      | [] => some ds.length
      | c :: _ => if c == 32 then some (ds.length + 1) else none
  | .word =>
    let w := s.takeWhile (· != 32)
    if w.isEmpty then none else some w.length

structure Tok where
  name : String        -- "EOF", "Error" or a definition name
  value : Bytes
  deriving Repr

def skipSpace (s : Bytes) : Bytes := s.dropWhile isSpace

/-- toki `scan`: skip whitespace, first definition that matches -/
def scan (defs : List TokDef) (input : Bytes) : Tok × Bytes :=
  let s := skipSpace input
  if s.isEmpty then (⟨"EOF", []⟩, s) else
  match defs.findSome? (fun d => (matchLen d.pat s).map fun n => (d.name, n)) with
  | some (name, n) => (⟨name, s.take n⟩, s.drop n)
  | none => (⟨"Error", []⟩, s)

/-- `Next()`: EOF and Error do not consume -/
def next (defs : List TokDef) (input : Bytes) : Tok × Bytes := scan defs input
def peek (defs : List TokDef) (input : Bytes) : Tok := (scan defs input).1

/-! ### readDestination -/
structure Dest where
  addr : Bytes := []
  prefix_ : Bytes := []
  notPrefix : Bytes := []
  sub : Bytes := []
  notSub : Bytes := []
  regex : Bytes := []
  notRegex : Bytes := []
  spool : Bool := false
  pickle : Bool := false
  flush : Nat := 1000            -- ms
  reconn : Nat := 10000          -- ms
  connBufSize : Nat := 30000
  ioBufSize : Nat := 2000000
  spoolBufSize : Nat := 10000
  spoolMaxBytesPerFile : Nat := 200 * 1024 * 1024
  spoolSyncEvery : Nat := 10000
  spoolSyncPeriodMs : Nat := 1000
  spoolSleepUs : Nat := 500
  unspoolSleepUs : Nat := 10
  deriving Repr

def toNat? (b : Bytes) : Option Nat :=
  let t := (b.dropWhile isSpace).reverse.dropWhile isSpace |>.reverse
  if t.isEmpty || !t.all isDig then none else some (t.foldl (fun a d => a * 10 + (d.toNat - 48)) 0)

/-- the destination options of docs/config.md ("carbon destination") -/
inductive DOpt where
  | prefix_ | notPrefix | sub | notSub | regex | notRegex | flush | reconn | pickle | spool | connbuf | iobuf
  | spoolbuf | maxbytes | syncevery | syncperiod | spoolsleep | unspoolsleep
  deriving DecidableEq, Repr

inductive DKind | word | num | bool deriving DecidableEq, Repr
inductive DVal | w (b : Bytes) | n (k : Nat) | b (x : Bool)

/-- which option a token introduces (imperatives.go `readDestination`'s switch) -/
def DOpt.ofTok : String → Option DOpt
  | "optPrefix" => some .prefix_ | "optNotPrefix" => some .notPrefix | "optSub" => some .sub | "optNotSub" => some .notSub
  | "optRegex" => some .regex | "optNotRegex" => some .notRegex | "optFlush" => some .flush | "optReconn" => some .reconn
  | "optPickle" => some .pickle | "optSpool" => some .spool | "optConnBufSize" => some .connbuf | "optIoBufSize" => some .iobuf
  | "optSpoolBufSize" => some .spoolbuf | "optSpoolMaxBytesPerFile" => some .maxbytes | "optSpoolSyncEvery" => some .syncevery
  | "optSpoolSyncPeriod" => some .syncperiod | "optSpoolSleep" => some .spoolsleep | "optUnspoolSleep" => some .unspoolsleep
  | _ => none

def DOpt.kind : DOpt → DKind
  | .prefix_ | .notPrefix | .sub | .notSub | .regex | .notRegex => .word
  | .pickle | .spool => .bool
  | _ => .num

/-- the token that must follow an option token: a word, a number, or true/false -/
def parseVal (k : DKind) (v : Tok) : Option DVal :=
  match k with
  | .word => if v.name == "word" then some (.w v.value) else none
  | .num => if v.name == "num" then (toNat? v.value).map .n else none
  | .bool => if v.name == "optTrue" then some (.b true) else if v.name == "optFalse" then some (.b false) else none

/-- the field an option sets (units as documented: ms for flush/reconn/spoolsyncperiod, µs for the two sleeps) -/
def DOpt.apply (o : DOpt) (x : DVal) (d : Dest) : Dest :=
  match o, x with
  | .prefix_, .w v => { d with prefix_ := v } | .notPrefix, .w v => { d with notPrefix := v }
  | .sub, .w v => { d with sub := v } | .notSub, .w v => { d with notSub := v }
  | .regex, .w v => { d with regex := v } | .notRegex, .w v => { d with notRegex := v }
  | .flush, .n k => { d with flush := k } | .reconn, .n k => { d with reconn := k }
  | .pickle, .b x => { d with pickle := x } | .spool, .b x => { d with spool := x }
  | .connbuf, .n k => { d with connBufSize := k } | .iobuf, .n k => { d with ioBufSize := k }
  | .spoolbuf, .n k => { d with spoolBufSize := k } | .maxbytes, .n k => { d with spoolMaxBytesPerFile := k }
  | .syncevery, .n k => { d with spoolSyncEvery := k } | .syncperiod, .n k => { d with spoolSyncPeriodMs := k }
  | .spoolsleep, .n k => { d with spoolSleepUs := k } | .unspoolsleep, .n k => { d with unspoolSleepUs := k }
  | _, _ => d

/-- one `option value` pair of a destination string -/
def destStep (opt : String) (v : Tok) (d : Dest) : Option Dest :=
  (DOpt.ofTok opt).bind fun o => (parseVal o.kind v).map fun x => o.apply x d

/-- the option loop of `readDestination`; `none` = error -/
def destOpts (defs : List TokDef) : Nat → Bytes → Dest → Option (Dest × Bytes)
  | 0, _, _ => none
  | fuel + 1, input, d =>
    let (t, rest) := next defs input
    if t.name == "EOF" || t.name == "sep" then some (d, rest)
    else
      let (v, rest2) := next defs rest
      match destStep t.name v d with
      | some d' => destOpts defs fuel rest2 d'
      | none => none

/-- `readDestination(s, table, allowMatcher, routeKey)` on one destination string -/
def readDestination (defs : List TokDef) (allowMatcher : Bool) (input : Bytes) : Option (Dest × Bytes) :=
  let (t, rest) := next defs input
  if t.name != "word" then none else
  match destOpts defs (input.length + 2) rest { addr := t.value } with
  | some (d, rest') =>
    if !allowMatcher && !(d.prefix_ ++ d.notPrefix ++ d.sub ++ d.notSub ++ d.regex ++ d.notRegex).isEmpty then none
    else some (d, rest')
  | none => none

end Crng.Tk
