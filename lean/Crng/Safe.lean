/-! "Accepted ⇒ safe": the checks of the constructors that admin commands and TOML sections go through, next to the Go
    operations that panic on the parameters those constructors hand on (C14). Integers are Go's: `int`/`uint`/`time.Duration`
    are 64 bit and arithmetic wraps — the conversion of an interval in seconds to a `time.Duration` is where that matters. -/
namespace Crng.Safe

def two63 : Int := 9223372036854775808
def two64 : Int := 18446744073709551616
def maxInt32 : Int := 2147483647
/-- what a Go allocation can be asked for at most (linux/amd64: 2^47 bytes); beyond it `make` panics, below it memory may run out -/
def maxAlloc : Int := 140737488355328

/-- wrap an integer to int64 -/
def wrap64 (n : Int) : Int := let m := n % two64; if m < two63 then m else m - two64

/-! ### Go operations that panic -/
/-- `time.NewTicker(d)` panics unless d > 0 -/
def tickerOk (d : Int) : Bool := decide (0 < d)
/-- `make(chan T, n)` / `make([]T, n)` with elements of `elem` bytes -/
def makeOk (n elem : Int) : Bool := decide (0 ≤ n) && decide (n * elem ≤ maxAlloc)
/-- integer `a % b` and `a / b` panic when b = 0 -/
def divOk (b : Int) : Bool := decide (b ≠ 0)
/-- `xs[i]` -/
def indexOk (i len : Int) : Bool := decide (0 ≤ i) && decide (i < len)

/-! ### aggregator.New → clock.AlignedTick, Aggregator.run -/
/-- `time.Duration(interval) * time.Second` for a `uint` interval -/
def periodNs (interval : Nat) : Int := wrap64 ((interval : Int) * 1000000000)

/-- aggregator.New + NewMocked: known function, regex present, interval ≠ 0, and its duration is positive and converts back -/
def aggAccept (interval : Nat) (knownFun hasRegex : Bool) : Bool :=
  knownFun && hasRegex && decide (interval ≠ 0) && decide (0 < periodNs interval) &&
  decide ((periodNs interval).tdiv 1000000000 = wrap64 interval)

/-- one round of AlignedTick's loop: `diff := period - adjusted % period` (none = divide by zero), then `time.Sleep(diff)` -/
def tickDiff (period adjusted : Int) : Option Int := if period = 0 then none else some (period - adjusted.tmod period)

/-- the acceptance test of the tree before the fix: interval ≠ 0 only -/
def aggAcceptOld (interval : Nat) (knownFun hasRegex : Bool) : Bool := knownFun && hasRegex && decide (interval ≠ 0)

/-! ### destination.New → NewConn, NewWriter, NewSpool, relay -/
structure DestP where
  flush : Int
  reconn : Int
  connBuf : Int
  ioBuf : Int
  spool : Bool
  spoolBuf : Int
  syncPeriod : Int
  deriving Repr

def destAccept (p : DestP) : Bool :=
  !(decide (p.flush ≤ 0) || decide (p.reconn ≤ 0)) &&
  !(decide (p.connBuf < 0) || decide (p.ioBuf ≤ 0)) &&
  !(p.spool && (decide (p.spoolBuf < 0) || decide (p.syncPeriod ≤ 0))) &&
  !(decide (p.connBuf > maxInt32) || decide (p.ioBuf > maxInt32) || (p.spool && decide (p.spoolBuf > maxInt32)))

/-- everything a started destination does with those parameters: two tickers, the conn channel ([]byte = 24 bytes), the io
buffer, and with spooling the spool channel and the disk queue's sync ticker -/
def destUses (p : DestP) : Bool :=
  tickerOk p.flush && tickerOk p.reconn && makeOk p.connBuf 24 && makeOk p.ioBuf 1 && decide (0 < p.ioBuf) &&
  (!p.spool || (makeOk p.spoolBuf 24 && tickerOk p.syncPeriod))

/-! ### route.NewGrafanaNet → Dispatch -/
structure GnP where
  concurrency : Int
  bufSize : Int
  flushMaxNum : Int
  flushMaxWait : Int
  deriving Repr

def gnAccept (p : GnP) : Bool :=
  !(decide (p.concurrency < 1) || decide (p.bufSize < 0) || decide (p.flushMaxNum < 1) || decide (p.flushMaxWait ≤ 0)) &&
  !(decide (p.concurrency > maxInt32) || decide (p.bufSize > maxInt32) || decide (p.flushMaxNum > maxInt32))

/-- `make([]chan []byte, Concurrency)`, `BufSize / Concurrency`, `make(chan []byte, BufSize/Concurrency)`, `wg.Add(Concurrency)` (panics
when the counter goes negative), `% uint32(Concurrency)` in Dispatch, the flush ticker -/
def gnUses (p : GnP) : Bool :=
  makeOk p.concurrency 8 && divOk p.concurrency && makeOk (p.bufSize.tdiv p.concurrency) 24 && decide (0 ≤ p.concurrency) &&
  divOk (p.concurrency % 4294967296) && tickerOk p.flushMaxWait

/-! ### consistent hashing: destinations are only removed while at least two are left -/
inductive ChOp where
  | add
  | del (idx : Nat)
  deriving Repr

/-- number of destinations after an operation; a removal is refused below two destinations or with a bad index -/
def chStep (n : Nat) : ChOp → Nat
  | .add => n + 1
  | .del idx => if n < 2 then n else if idx ≥ n then n else n - 1

/-- GetDestinationIndex: `sort.Search(len(Ring), …) % len(Ring)`, the ring holding `replicas` entries per destination -/
def ringIndex (n replicas pos : Nat) : Option Nat := if n * replicas = 0 then none else some (pos % (n * replicas))

/-! ### modDest / DelDestination: the index guard -/
/-- `if index >= len(dests) { return error }; dests[index]` — none = index out of range panic -/
def guardedIndex (index len : Int) : Option Bool := if index ≥ len then some false else if indexOk index len then some true else none

end Crng.Safe
