/-! Scratch prototype: validate/ordered.go (C19). -/
namespace Crng.Ord
abbrev Bytes := List UInt8

/-- the global map `hash(name) ↦ newest accepted timestamp`; a missing key reads as 0 -/
abbrev M := List (Nat × Nat)
def get (m : M) (k : Nat) : Nat := ((m.find? (·.1 == k)).map (·.2)).getD 0
def set (m : M) (k v : Nat) : M := (k, v) :: m.filter (·.1 != k)

/-- `Ordered(key, ts)`: accept iff strictly newer -/
def ordered (hash : Bytes → Nat) (m : M) (key : Bytes) (ts : Nat) : M × Bool :=
  if ts > get m (hash key) then (set m (hash key) ts, true) else (m, false)

theorem get_set_same (m : M) (k v : Nat) : get (set m k v) k = v := by simp [get, set]
theorem get_set_other (m : M) (k k' v : Nat) (h : k' ≠ k) : get (set m k v) k' = get m k' := by
  have h1 : ((k == k') = false) := by simp; omega
  simp only [get, set, List.find?_cons, h1]
  congr 2
  induction m with
  | nil => rfl
  | cons a t ih =>
    by_cases ha : a.1 = k
    · have : (a.1 == k') = false := by simp; omega
      simp [List.filter_cons, ha, List.find?_cons, ih]
      subst ha; simp [this]
    · simp [List.filter_cons, ha, List.find?_cons, ih]

/-- run a history; returns the accept/reject decisions -/
def run (hash : Bytes → Nat) : M → List (Bytes × Nat) → List Bool
  | _, [] => []
  | m, (k, ts) :: es => (ordered hash m k ts).2 :: run hash (ordered hash m k ts).1 es

/-- timestamps accepted for `name`, in acceptance order -/
def accepted (hash : Bytes → Nat) (name : Bytes) : M → List (Bytes × Nat) → List Nat
  | _, [] => []
  | m, (k, ts) :: es =>
    if k = name ∧ (ordered hash m k ts).2 = true then ts :: accepted hash name (ordered hash m k ts).1 es
    else accepted hash name (ordered hash m k ts).1 es

/-- everything accepted later for a name is above the stored value, and strictly increasing -/
theorem accepted_above (hash : Bytes → Nat) (name : Bytes) (hinj : ∀ k, hash k = hash name → k = name) :
    ∀ (es : List (Bytes × Nat)) (m : M),
      (∀ t ∈ accepted hash name m es, get m (hash name) < t) ∧ (accepted hash name m es).Pairwise (· < ·) := by
  intro es
  induction es with
  | nil => intro m; simp [accepted]
  | cons e es ih =>
    intro m
    obtain ⟨k, ts⟩ := e
    simp only [accepted, ordered]
    by_cases hgt : ts > get m (hash k)
    · simp only [hgt, if_true]
      obtain ⟨ih1, ih2⟩ := ih (set m (hash k) ts)
      by_cases hk : k = name
      · subst hk
        simp only [true_and, if_true]
        rw [get_set_same] at ih1
        refine ⟨?_, List.pairwise_cons.mpr ⟨ih1, ih2⟩⟩
        intro t ht
        rcases List.mem_cons.mp ht with rfl | ht
        · exact hgt
        · have := ih1 t ht; omega
      · have hne : hash name ≠ hash k := fun h => hk (hinj k h.symm)
        simp only [hk, false_and, if_false]
        rw [get_set_other _ _ _ _ hne] at ih1
        exact ⟨ih1, ih2⟩
    · simp only [hgt, if_false]
      have := ih m
      simp only [Bool.false_eq_true, and_false, if_false]
      exact this

/-- **C19 core.** If the hash is injective on the names of the history, the timestamps accepted for each name are
    strictly increasing, whatever the interleaving of names. -/
theorem accepted_strictly_increasing (hash : Bytes → Nat) (name : Bytes) (hinj : ∀ k, hash k = hash name → k = name)
    (es : List (Bytes × Nat)) : (accepted hash name [] es).Pairwise (· < ·) :=
  (accepted_above hash name hinj es []).2

/-- a point strictly newer than what is stored for its name is accepted -/
theorem newer_accepted (hash : Bytes → Nat) (m : M) (key : Bytes) (ts : Nat) (h : get m (hash key) < ts) :
    (ordered hash m key ts).2 = true := by simp [ordered, h]

/-- the hypothesis is needed: with a collision a newer point of one name is rejected because of another name -/
example : (run (fun _ => 0) [] [([1], 10), ([2], 5)]) = [true, false] := by decide
end Crng.Ord
