import Crng.FramingProofs
import Crng.ReadLineProofs
/-! # C12 — input framing is independent of how the network chops the stream
`Crng/Framing.lean`: the incremental scanner (`bufio.Scanner` with `ScanLines`, 64 KiB token limit) as `feed`/`finish` over
a carry buffer; `spec` = the newline-delimited lines of the whole stream. `Crng/ReadLine.lean`: `bufio.Reader.ReadLine`
with a 4096-byte buffer as the AMQP consumer uses it. UDP datagrams and AMQP bodies are each their own stream. -/
namespace Crng.Props.C12
open Crng.Fr

/-- **segmentation invariance**: however the stream is cut into reads — any cut positions, one-byte reads, empty reads, the
last data arriving together with EOF or a read error — the handler processes exactly the newline-delimited lines of the
concatenation (one trailing CR removed, a final unterminated line included), in order, each once. A metric split across
segments is never processed as two fragments. The only error is a line of `max` bytes or more (see `limit_exact`),
after which nothing further is delivered. -/
theorem chunk_invariance (max : Nat) (hmax : 0 < max) (chunks : List Bytes) :
    run max {} chunks [] = spec max chunks.flatten :=
  Crng.Fr.chunk_invariance max hmax chunks

/-- the supported limit, stated explicitly: a line of `max - 1` bytes is processed whole, a line of `max` bytes ends the
stream with an error (TCP/UDP: max = 65536) -/
theorem limit_exact (max : Nat) (hmax : 1 < max) :
    spec max (List.replicate (max - 1) 120 ++ [10]) = ⟨[List.replicate (max - 1) 120], false⟩ ∧
    spec max (List.replicate max 120 ++ [10]) = ⟨[], true⟩ := by
  have tw : ∀ n, (List.replicate n (120 : UInt8) ++ [10]).takeWhile (· != 10) = List.replicate n 120 := by
    intro n
    induction n with
    | zero => simp
    | succ n ih => simp [List.replicate_succ, ih]
  constructor
  · unfold spec
    simp only [specLines, tw]
    have h1 : (List.replicate (max - 1) (120 : UInt8) ++ [10]).isEmpty = false := by simp
    have h2 : ¬ ((List.replicate (max - 1) (120 : UInt8)).length ≥ max) := by simp; omega
    have h3 : (List.replicate (max - 1) (120 : UInt8)).length < (List.replicate (max - 1) (120 : UInt8) ++ [10]).length := by simp
    simp only [h1, Bool.false_eq_true, if_false, h2, h3, if_true]
    have hd : (List.replicate (max - 1) (120 : UInt8) ++ [10]).drop ((List.replicate (max - 1) (120 : UInt8)).length + 1) = [] := by simp
    rw [hd]
    have hcr : dropCR (List.replicate (max - 1) (120 : UInt8)) = List.replicate (max - 1) 120 := by
      unfold dropCR
      have : (List.replicate (max - 1) (120 : UInt8)).getLast? ≠ some 13 := by
        rw [List.getLast?_replicate]; split <;> simp
      simp [this]
    rw [hcr]
    cases hm : (List.replicate (max - 1) (120 : UInt8) ++ [10]).length with
    | zero => simp at hm
    | succ k => simp [specLines]
  · unfold spec
    simp only [specLines, tw]
    have h1 : (List.replicate max (120 : UInt8) ++ [10]).isEmpty = false := by simp
    simp [h1]

/-- **AMQP**: a message body whose lines are each shorter than the 4096-byte buffer is processed as exactly its
newline-delimited lines (CR of terminated lines removed, a final unterminated line included as received) -/
theorem amqp_whole_lines (body : Bytes) (hfit : Crng.RL.Fits 4096 (body.length + 2) body) :
    Crng.RL.amqpTokens 4096 body = Crng.RL.spec body :=
  Crng.RL.amqp_whole_lines 4096 body hfit

/-- non-vacuity: "ab\r\nc" delivered as "a", "", "b\r", "\nc" -/
example : run 65536 {} [[97], [], [98, 13], [10, 99]] [] = ⟨[[97, 98], [99]], false⟩ := by decide

end Crng.Props.C12
