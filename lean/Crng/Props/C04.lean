import Crng.Table
import Crng.RewriterProofs
/-! # C04 — forwarded line = rewritten name + untouched value/timestamp; buffers isolated -/
namespace Crng.Props.C04
open Crng.Tb

/-- the delivered line is exactly three fields separated by single spaces: the name after folding the rewriters over it
in table order, then the value and timestamp tokens as `fields` returned them (byte-for-byte) — whatever the whitespace
layout and numeric spelling of the received line -/
theorem final_shape (c : Cfg) (line name val ts : Bytes) (hv : c.validate line = some (name, val, ts))
    (hb : c.blacklist.any (·.match name) = false)
    (hc : (aggLoop c.useNot (c.rewriters.foldl (fun n f => f n) name) c.aggs 0).2 = false) :
    (dispatch c line).final = (c.rewriters.foldl (fun n f => f n) name) ++ [32] ++ val ++ [32] ++ ts :=
  (Crng.Tb.routes_exact c line name val ts hv hb hc).2.2.1

/-- every route and destination that receives the metric receives that one line (there is one `final` per dispatch) and
the aggregations receive the same rewritten name -/
theorem same_copy (c : Cfg) (line : Bytes) :
    ∀ h ∈ (dispatch c line).hits, ∃ r, c.routes[h.1]? = some r := by
  intro h hh
  unfold dispatch at hh
  cases hv : c.validate line with
  | none => simp [hv] at hh
  | some t =>
    obtain ⟨name, val, ts⟩ := t
    simp only [hv] at hh
    split at hh
    · simp at hh
    · generalize hal : aggLoop c.useNot (c.rewriters.foldl (fun n f => f n) name) c.aggs 0 = al at hh
      obtain ⟨a1, a2⟩ := al
      cases a2
      · simp only [Bool.false_eq_true, if_false] at hh
        have key : ∀ (rs : List Route) (i : Nat) (x : Nat × List Nat), x ∈ routeLoop (c.rewriters.foldl (fun n f => f n) name)
            (join3 (c.rewriters.foldl (fun n f => f n) name) val ts) c.destArg rs i → ∃ r, rs[x.1 - i]? = some r ∧ i ≤ x.1 := by
          intro rs
          induction rs with
          | nil => intro i x hx; simp [routeLoop] at hx
          | cons r rs ih =>
            intro i x hx
            simp only [routeLoop] at hx
            split at hx
            · rcases List.mem_cons.mp hx with rfl | hx
              · exact ⟨r, by simp, Nat.le_refl _⟩
              · obtain ⟨r', h1, h2⟩ := ih (i + 1) x hx
                refine ⟨r', ?_, by omega⟩
                have : x.1 - i = (x.1 - (i + 1)) + 1 := by omega
                rw [this]; simpa using h1
            · obtain ⟨r', h1, h2⟩ := ih (i + 1) x hx
              refine ⟨r', ?_, by omega⟩
              have : x.1 - i = (x.1 - (i + 1)) + 1 := by omega
              rw [this]; simpa using h1
        obtain ⟨r, h1, _⟩ := key c.routes 0 h hh
        exact ⟨r, by simpa using h1⟩
      · simp at hh

/-- literal rule, `max = 0`: identity -/
theorem literal_max_zero (old new s : Bytes) (fuel : Nat) : Crng.Rw.replaceN old new fuel (some 0) s = s :=
  Crng.Rw.replaceN_zero old new s fuel

/-- literal rule whose `old` does not occur: identity -/
theorem literal_absent (old new : Bytes) (hold : old ≠ []) (fuel : Nat) (n : Option Nat) (s : Bytes)
    (h : ∀ i, Crng.Rw.hasPrefix (s.drop i) old = false) : Crng.Rw.replaceN old new fuel n s = s :=
  Crng.Rw.replaceN_absent old new hold fuel n s h

/-- literal rule: occurrences are replaced left to right, non-overlapping, at most `max` of them (`none` = -1 = all) -/
theorem literal_first (old new : Bytes) (hold : old ≠ []) (post : Bytes) (f : Nat) (n : Option Nat) (hn : n ≠ some 0) (pre : Bytes)
    (hno : ∀ i, i < pre.length → Crng.Rw.hasPrefix ((pre ++ old ++ post).drop i) old = false) :
    Crng.Rw.replaceN old new (pre.length + f + 1) n (pre ++ old ++ post) = pre ++ new ++ Crng.Rw.replaceN old new f (n.map (· - 1)) post :=
  Crng.Rw.replaceN_first old new hold post f n hn pre hno

/-- a rule is skipped when its not-clause substring occurs in the name -/
theorem not_clause_skips (old new not : Bytes) (max : Option Nat) (s : Bytes) (hn : not ≠ []) (hc : Crng.Rw.contains s not = true) :
    Crng.Rw.rwDo old new not max s = s :=
  Crng.Rw.rwDo_not_skips old new not max s hn hc

/-- non-vacuity: "a.a.a" with rule a→bb max 2 gives "bb.bb.a" -/
example : Crng.Rw.rwDo [97] [98, 98] [] (some 2) [97, 46, 97, 46, 97] = [98, 98, 46, 98, 98, 46, 97] := by decide

end Crng.Props.C04
