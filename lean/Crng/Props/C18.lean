import Crng.GoSliceSpec
/-! # C18 — runtime table changes are atomic with respect to traffic
`Crng/GoSlice.lean`: Go slice headers over shared backing arrays with Go's `append` (in place when len < cap, else a
fresh array with arbitrary spare capacity). The published configuration holds slice headers; `Dispatch` loads it once
(regenerated fact) and then reads elements through the header it holds, interleaved arbitrarily with mutators; mutators
are serialised by the table/route mutex (regenerated fact). -/
namespace Crng.Props.C18
open Crng.GoSlice
variable {α : Type} [Inhabited α]

/-- **snapshot isolation**: if every update idiom used by the mutators is `safe` (never writes a cell that a published
header can see) then, for every history of updates and every spare-capacity behaviour of `append`, a header loaded at any
earlier point still shows exactly the elements it showed when it was loaded. A dispatcher therefore processes each metric
against the table as it was at its `Load` — entirely before or entirely after each change; nothing present both before and
after a change is skipped or visited twice. -/
theorem isolation (slack : Nat) (ops : List (Op α)) (h : Heap α) (cur : Hdr) (pubs : List Hdr)
    (inv : Inv h cur pubs) (hs : ∀ op ∈ ops, safe op = true) :
    ∀ p ∈ cur :: pubs, view (run slack (h, cur) pubs ops).1 p = view h p :=
  Crng.GoSlice.isolation slack ops h cur pubs inv hs

/-- **the table view reflects exactly the sequence of changes**: the published list after any history is the fold of the
list operations (append at the end, erase exactly the indexed entry; an index beyond the end erases nothing) -/
theorem ops_refine_list (slack : Nat) (ops : List (Op α)) (h : Heap α) (cur : Hdr) (pubs : List Hdr) (wf : WF h cur)
    (hs : ∀ op ∈ ops, safe op = true) :
    view (run slack (h, cur) pubs ops).1 (run slack (h, cur) pubs ops).2.1 = ops.foldl specOp (view h cur) :=
  Crng.GoSlice.run_view slack ops h cur pubs wf hs

/-- the in-place delete idiom is *not* safe: the witness the unrepaired code exhibited -/
theorem deleteInPlace_breaks :
    view (step (α := Nat) 0 ([[1, 2, 3]], ⟨0, 3, 3⟩) (.deleteInPlace 0)).1 ⟨0, 3, 3⟩ = [2, 3, 3] := by decide

/-- non-vacuity: from the empty table, add three entries, delete the first (repaired idiom), add one more: the header held
before the delete still shows the three original entries, the current one shows the expected list -/
example :
    let ops : List (Op Nat) := [.appendElem 1, .appendElem 2, .appendElem 3]
    let st := run 1 ([[]], ⟨0, 0, 0⟩) [] ops
    let st2 := run 1 (st.1, st.2.1) st.2.2 [.deleteFull 0, .appendElem 4]
    view st2.1 st.2.1 = [1, 2, 3] ∧ view st2.1 st2.2.1 = [2, 3, 4] := by decide

end Crng.Props.C18
