import Crng.BufWriterHealthy
import Crng.PickleProofs
/-! # C05 — a healthy carbon connection carries the lines in order, once, unbroken
Model: `Crng/BufWriter.lean` (destination/bufwriter.go, statement by statement, over a scripted socket),
`Conn.Write` = `Write(line); Write("\n")` or `Write(pickle dp)`. -/
namespace Crng.Props.C05
open Crng.BW

/-- For any sequence of writes and flushes, any buffer size and **any** behaviour of the socket (complete, short or
failing writes): socket bytes ++ buffered bytes = the accepted bytes, in order. Nothing is lost, duplicated, torn or
reordered, even at the failure point. -/
theorem stream_invariant (ops : List Op) (w : W) :
    (runOps w ops).1.stream = w.stream ++ (runOps w ops).2 :=
  Crng.BW.stream_invariant ops w

/-- what reached the socket is always a prefix of what `Write` reported as accepted -/
theorem socket_prefix (ops : List Op) (w : W) (h : w.buf = [] ∧ w.sock = []) :
    (runOps w ops).1.sock <+: (runOps w ops).2 :=
  Crng.BW.socket_prefix ops w h

/-- healthy connection, any interleaving of writes with (periodic or manual) flushes, any buffer size:
after a final flush the endpoint has exactly the payloads in hand-off order, and no error occurred -/
theorem healthy_stream (ops : List Op) (w : W) (h : Healthy w) (hb : w.buf = []) (hs : w.sock = []) :
    (flush (runOps w ops).1).1.sock = payloads ops ∧ (flush (runOps w ops).1).2 = false :=
  Crng.BW.healthy_stream ops w h hb hs

/-- plain mode: each line once, in order, each terminated by a single newline, for every I/O buffer size
(from 1 byte) and every placement of flush ticks between lines -/
theorem healthy_lines (ls : List (Bytes × Nat)) (cap : Nat) :
    (flush (runOps { cap := cap } (lineOps ls)).1).1.sock = ls.flatMap (fun l => l.1 ++ [10]) :=
  Crng.BW.healthy_lines ls cap

/-- pickle mode: what is written per line is a 4-byte big-endian length followed by exactly that many bytes -/
theorem pickle_frame (name : Bytes) (ts bits : Nat) :
    Crng.Pk.pickleOut name ts bits = Crng.Pk.be32 (Crng.Pk.pickleBody name ts bits).length ++ Crng.Pk.pickleBody name ts bits := rfl

/-- non-vacuity: a 3-byte buffer, lines longer than the buffer, a tick in between -/
example : (flush (runOps { cap := 3 } (lineOps [([97,46,98,32,49,32,50], 1), ([99], 0)])).1).1.sock
    = [97,46,98,32,49,32,50,10,99,10] := by decide

end Crng.Props.C05
