import Crng.DQFifo
/-! # C09 — the disk spool queue is an exact persistent FIFO across clean restarts
Property theorems only; the model is `Crng/DiskQueue.lean`, the invariants are in `Crng/DQ*.lean`. -/
namespace Crng.Props.C09
open Crng.DQ

/-- For every configuration (segment size limit, sync-every count) and every history of
`put m | get | reopen` from an empty directory (message sizes below the 2³¹ limit the code enforces):
the values handed to the consumer are exactly those of the abstract list queue (`specOutputs`: a `get`
returns the oldest enqueued message not yet delivered, in order, each once), and the depth counter at rest
equals the number of messages enqueued and not yet delivered. -/
theorem fifo (cfg : Cfg) (es : List Ev) (hsm : ∀ e ∈ es, smallEv e) :
    outputs cfg (openQ cfg {} []) es = specOutputs [] es ∧
    (runEvs cfg (openQ cfg {} []) es).mem.depth = (specQueue [] es).length :=
  c09_fifo cfg es hsm

/-- the same from any consistent state (e.g. after any earlier history) -/
theorem fifo_from (cfg : Cfg) (es : List Ev) (s : St) (recs : List Rec)
    (h : Full cfg s recs) (hsm : ∀ e ∈ es, smallEv e) :
    outputs cfg s es = specOutputs (recs.map (·.msg)) es ∧
    (runEvs cfg s es).mem.depth = (specQueue (recs.map (·.msg)) es).length :=
  fifo_refines cfg es s recs h hsm

/-- non-vacuity: a history with a rollover (segment limit 8), a message larger than a segment, an empty
message and a clean restart satisfies the hypothesis and delivers in FIFO order -/
example :
    let cfg : Cfg := { maxBytes := 8, syncEvery := 2 }
    let es : List Ev := [.put [1,2,3], .put [4,5,6,7,8,9,10,11,12,13], .put [], .reopen, .get, .get, .get, .get]
    (∀ e ∈ es, smallEv e) ∧
    outputs cfg (openQ cfg {} []) es =
      [none, none, none, none, some [1,2,3], some [4,5,6,7,8,9,10,11,12,13], some [], none] := by
  refine ⟨?_, by decide⟩
  intro e he
  simp only [List.mem_cons, List.not_mem_nil, or_false] at he
  rcases he with rfl | rfl | rfl | rfl | rfl | rfl | rfl | rfl <;> simp [smallEv]

end Crng.Props.C09
