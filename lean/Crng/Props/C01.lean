import Crng.Table
/-! # C01 — every accepted metric reaches exactly the matching routes and destinations
Model: `Crng/Table.lean` — `dispatch` follows `Table.Dispatch` (validate → blacklist loop with return → rewriter fold →
aggregator loop with return on drop-raw → join → route loop with the `routed` flag), `Route.dispatch` follows
`SendAllMatch/SendFirstMatch.Dispatch` (loop, loop with `break`). Filters are arbitrary decision procedures. -/
namespace Crng.Props.C01
open Crng.Tb

/-- Every line that is valid, not blacklisted and not consumed by a drop-raw aggregation is handed to exactly the routes
whose filter accepts its **rewritten** name — each once, in table order, no other route; it is counted unroutable
exactly when there is no such route; the line delivered is the rewritten name followed by the received value and
timestamp tokens; and none of the rejection flags is raised. -/
theorem routes_exact (c : Cfg) (line name val ts : Bytes) (hv : c.validate line = some (name, val, ts))
    (hb : c.blacklist.any (·.match name) = false)
    (hc : (aggLoop c.useNot (c.rewriters.foldl (fun n f => f n) name) c.aggs 0).2 = false) :
    ((dispatch c line).hits.map (·.1) = idxFilter (·.matcher.match (c.rewriters.foldl (fun n f => f n) name)) c.routes 0) ∧
    ((dispatch c line).unroutable = (idxFilter (·.matcher.match (c.rewriters.foldl (fun n f => f n) name)) c.routes 0).isEmpty) ∧
    (dispatch c line).final = join3 (c.rewriters.foldl (fun n f => f n) name) val ts ∧
    (dispatch c line).invalid = false ∧ (dispatch c line).blacklisted = false :=
  Crng.Tb.routes_exact c line name val ts hv hb hc

/-- unroutable ⇔ no route accepts (same hypotheses) -/
theorem unroutable_iff (c : Cfg) (line name val ts : Bytes) (hv : c.validate line = some (name, val, ts))
    (hb : c.blacklist.any (·.match name) = false)
    (hc : (aggLoop c.useNot (c.rewriters.foldl (fun n f => f n) name) c.aggs 0).2 = false) :
    (dispatch c line).unroutable = true ↔ ∀ r ∈ c.routes, r.matcher.match (c.rewriters.foldl (fun n f => f n) name) = false := by
  rw [(routes_exact c line name val ts hv hb hc).2.1]
  generalize c.rewriters.foldl (fun n f => f n) name = nm
  have key : ∀ (rs : List Route) (i : Nat), (idxFilter (·.matcher.match nm) rs i).isEmpty = true ↔ ∀ r ∈ rs, r.matcher.match nm = false := by
    intro rs
    induction rs with
    | nil => intro i; simp [idxFilter]
    | cons r rs ih =>
      intro i
      simp only [idxFilter]
      by_cases h : r.matcher.match nm = true
      · simp [h]
      · have h' : r.matcher.match nm = false := by simpa using h
        simp [h', ih (i + 1)]
  exact key c.routes 0

/-- send-all-match forwards to every destination whose filter accepts, in configured order -/
theorem sendAll_exact (x : Bytes) (ds : List Matcher) : sendAllLoop x ds 0 = idxFilter (·.match x) ds 0 :=
  Crng.Tb.sendAll_exact x ds 0

/-- send-first-match forwards only to the first such destination -/
theorem sendFirst_exact (x : Bytes) (ds : List Matcher) : sendFirstLoop x ds 0 = (idxFilter (·.match x) ds 0).take 1 :=
  Crng.Tb.sendFirst_exact x ds 0

/-- a blacklisted metric is counted as blacklisted and forwarded nowhere (no route, no aggregation, not unroutable) -/
theorem blacklisted_nowhere (c : Cfg) (line name val ts : Bytes) (hv : c.validate line = some (name, val, ts))
    (hb : c.blacklist.any (·.match name) = true) :
    (dispatch c line).blacklisted = true ∧ (dispatch c line).hits = [] ∧ (dispatch c line).aggIn = [] ∧
    (dispatch c line).unroutable = false :=
  Crng.Tb.blacklisted_nowhere c line name val ts hv hb

/-- the outcomes partition: at most one of invalid / blacklisted / consumed / unroutable holds, and when none holds
the line was handed to at least one route -/
theorem outcome_partition (c : Cfg) (line : Bytes) :
    let r := dispatch c line
    (r.invalid → ¬ r.blacklisted ∧ ¬ r.consumed ∧ ¬ r.unroutable ∧ r.hits = []) ∧
    (r.blacklisted → ¬ r.consumed ∧ ¬ r.unroutable ∧ r.hits = []) ∧
    (r.consumed → ¬ r.unroutable ∧ r.hits = []) ∧
    (r.unroutable = true ↔ (¬ r.invalid ∧ ¬ r.blacklisted ∧ ¬ r.consumed ∧ r.hits = [])) := by
  unfold dispatch
  cases hv : c.validate line with
  | none => simp
  | some t =>
    obtain ⟨name, val, ts⟩ := t
    simp only []
    cases hb : c.blacklist.any (·.match name)
    · simp only [Bool.false_eq_true, if_false]
      generalize aggLoop c.useNot (c.rewriters.foldl (fun n f => f n) name) c.aggs 0 = al
      obtain ⟨a1, a2⟩ := al
      cases a2 <;> simp
    · simp

/-- non-vacuity: a three-route table with overlapping filters, a blacklist entry and a rewriter -/
example :
    let any : Rx := { accepts := fun _ => true, pre := [] }
    let c : Cfg := {
      validate := fun l => some (l, [49], [50]),
      blacklist := [{ prefix_ := [120] }],
      rewriters := [fun n => 97 :: n],
      aggs := [],
      routes := [{ matcher := { prefix_ := [97] }, kind := .sendAll, dests := [{}, { notPrefix := [97] }, { regex := some any }] },
                 { matcher := { prefix_ := [98] }, kind := .sendFirst, dests := [{}] },
                 { matcher := {}, kind := .sendFirst, dests := [{ notPrefix := [97] }, {}, {}] }] }
    (dispatch c [98]).hits = [(0, [0, 2]), (2, [1])] ∧ (dispatch c [120]).blacklisted = true := by
  decide

end Crng.Props.C01
