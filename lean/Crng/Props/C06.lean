import Crng.Relay
/-! # C06 — a bad endpoint never stalls ingestion; steady-state losses are all counted
`Crng/Relay.lean`: the destination's relay loop as a total step function over its select cases. "Returns within a bounded
time" is, in the model, the fact that a hand-off is consumed by one step whose effect depends on the endpoint only through
two flags that are read, never awaited (connection present, queue full); that the real sends are `select … default` and
that dialing only happens in a separate goroutine are regenerated facts (`Crng.Tie.C06`). Real time, the Go scheduler and
the kernel are outside the model: the property is claimed as partial. -/
namespace Crng.Props.C06
open Crng.Relay

/-- every hand-off is consumed by one step (the step function is total) and lands in exactly one place: the connection
queue, the spool, or one of the three drop counters — for every sequence of events (any endpoint behaviour, any traffic) -/
theorem every_handoff_accounted (es : List Ev) : Acct (run {} es) :=
  run_acct es {} (by simp [Acct])

/-- one hand-off, whatever the state: exactly one of the five destinations of a line is incremented -/
theorem handoff_progress (s : St) :
    let s' := step s .handoff
    s'.handoffs = s.handoffs + 1 ∧
    (s'.enq + s'.spooled + s'.slowConn + s'.slowSpool + s'.downNoSpool = s.enq + s.spooled + s.slowConn + s.slowSpool + s.downNoSpool + 1) := by
  simp only [step]
  split
  · split <;> simp <;> omega
  · split
    · split <;> simp <;> omega
    · simp; omega

/-- **healthy steady state**: while the connection stays up every hand-off is put on the connection queue or counted as a
slow-connection drop; nothing is counted as connection-down, nothing is diverted -/
theorem steady_healthy (es : List Ev) (s : St) (hu : s.connUp = true) (hs : Steady true es) (ha : Acct s) :
    (run s es).handoffs - s.handoffs = ((run s es).enq - s.enq) + ((run s es).slowConn - s.slowConn) := by
  have h1 := steady_up es s hu hs
  have h2 := run_acct es s ha
  unfold Acct at ha h2
  have m1 : s.enq ≤ (run s es).enq ∧ s.slowConn ≤ (run s es).slowConn := by
    clear h1 h2 ha hu
    induction es generalizing s with
    | nil => exact ⟨Nat.le_refl _, Nat.le_refl _⟩
    | cons e es ih =>
      have hst : Steady true es := by cases e <;> simp_all [Steady]
      have := ih (step s e) hst
      have stepmono : s.enq ≤ (step s e).enq ∧ s.slowConn ≤ (step s e).slowConn := by
        cases e with
        | handoff => simp only [step]; split
                     · split <;> simp
                     · split
                       · split <;> simp
                       · simp
        | connTake => simp only [step]; split <;> simp
        | connUp c => simp [step]
        | connDie => simp [step]
        | spoolRoom b => simp [step]
        | tick => simp [step]
      simp only [run]; omega
  omega

/-- **down without spooling**: while there is no connection and spooling is off, every hand-off increments the
connection-down drop counter (and nothing is enqueued) -/
theorem steady_down_nospool (es : List Ev) (s : St) (hu : s.connUp = false) (hsp : s.spool = false) (hs : Steady false es) :
    (run s es).downNoSpool + s.handoffs = (run s es).handoffs + s.downNoSpool ∧ (run s es).enq = s.enq :=
  Crng.Relay.steady_down_nospool es s hu hsp hs

/-- non-vacuity: queue of 2, three hand-offs while nobody reads, then the connection dies and two more arrive -/
example :
    let r := run {} [.connUp 2, .handoff, .handoff, .handoff, .connDie, .handoff, .handoff]
    r.handoffs = 5 ∧ r.enq = 2 ∧ r.slowConn = 1 ∧ r.downNoSpool = 2 := by decide

end Crng.Props.C06
