import Crng.Table
import Crng.Validate
import Crng.BadMetrics
/-! # C02 — only valid metrics are forwarded; every rejection is counted and reported
`Crng/Validate.lean` is a byte-level transcription of go-metrics20 `ValidatePacket` (three fields under
`bytes.Fields`, version detection, legacy / metrics2.0 key rules incl. the tag appendix, Go's float grammar);
`Crng/Table.lean` is the gate in `Table.Dispatch`; `Crng/BadMetrics.lean` the report. -/
namespace Crng.Props.C02
open Crng.Tb

/-- the table's validator instantiated with the transcription of `ValidatePacket` at the configured levels -/
def validateAt (ll : Crng.Val.LegacyLevel) (ml : Crng.Val.M20Level) (line : Bytes) : Option (Bytes × Bytes × Bytes) :=
  match (Crng.Val.validatePacket line ll ml).2, Crng.Val.fields line with
  | none, [n, v, t] => some (n, v, t)
  | _, _ => none

/-- a line passes the gate iff `ValidatePacket` reports no error (for each of the 3×2 level combinations) -/
theorem gate_iff (ll : Crng.Val.LegacyLevel) (ml : Crng.Val.M20Level) (line : Bytes) :
    (validateAt ll ml line).isSome = ((Crng.Val.validatePacket line ll ml).2 == none) := by
  have bad : ∀ l, Crng.Val.fields line = l → (∀ a b c, l ≠ [a, b, c]) → (Crng.Val.validatePacket line ll ml).2 = some .fields := by
    intro l hl hne
    unfold Crng.Val.validatePacket
    rw [hl]
    match l, hne with
    | [], _ => rfl
    | [_], _ => rfl
    | [_, _], _ => rfl
    | [a, b, c], hne => exact absurd rfl (hne a b c)
    | _ :: _ :: _ :: _ :: _, _ => rfl
  unfold validateAt
  cases hf : Crng.Val.fields line with
  | nil => rw [bad [] hf (by intro a b c h; cases h)]; rfl
  | cons a t =>
    cases t with
    | nil => rw [bad [a] hf (by intro a b c h; cases h)]; rfl
    | cons b t =>
      cases t with
      | nil => rw [bad [a, b] hf (by intro a b c h; cases h)]; rfl
      | cons c t =>
        cases t with
        | nil => cases (Crng.Val.validatePacket line ll ml).2 <;> rfl
        | cons d t => rw [bad (a :: b :: c :: d :: t) hf (by intro a b c h; cases h)]; rfl

/-- **forwarded only if valid**: an invalid line is counted invalid and reaches no aggregation and no route,
is not counted blacklisted or unroutable -/
theorem invalid_effects (c : Cfg) (line : Bytes) (hv : c.validate line = none) :
    (dispatch c line).invalid = true ∧ (dispatch c line).hits = [] ∧ (dispatch c line).aggIn = [] ∧
    (dispatch c line).unroutable = false ∧ (dispatch c line).blacklisted = false :=
  Crng.Tb.invalid_nowhere c line hv

/-- **valid lines proceed**: a valid line is never counted invalid; what happens next is decided by blacklist,
aggregations and routes only (C01) -/
theorem valid_proceeds (c : Cfg) (line : Bytes) (t : Bytes × Bytes × Bytes) (hv : c.validate line = some t) :
    (dispatch c line).invalid = false := by
  obtain ⟨n, v, ts⟩ := t
  unfold dispatch
  simp only [hv]
  split
  · rfl
  · generalize aggLoop c.useNot (c.rewriters.foldl (fun n f => f n) n) c.aggs 0 = al
    obtain ⟨a1, a2⟩ := al
    cases a2 <;> rfl

/-- anything forwarded (a route hit or an aggregation input) implies the line was valid -/
theorem forwarded_only_if_valid (c : Cfg) (line : Bytes)
    (h : (dispatch c line).hits ≠ [] ∨ (dispatch c line).aggIn ≠ []) : (c.validate line).isSome := by
  cases hv : c.validate line with
  | some _ => rfl
  | none =>
    have := invalid_effects c line hv
    rcases h with h | h
    · exact absurd this.2.1 h
    · exact absurd this.2.2.1 h

/-- the bad-metrics report: the last rejection under a name stays visible to every `Get` whose window reaches back
to it, until it is overwritten by a newer rejection of that name or expires -/
theorem bad_report (s : Crng.Bad.St) (r : Crng.Bad.Rec) (ops : List Crng.Bad.Op) (hq : Crng.Bad.Quiet r ops) (o : Nat) (ho : o < r.seen) :
    ∃ l, (Crng.Bad.step (Crng.Bad.run (Crng.Bad.step s (.add r)).1 ops) (.get o)).2 = some l ∧ r ∈ l :=
  Crng.Bad.last_add_visible s r ops hq o ho

/-- non-vacuity: a table whose validator rejects one line and accepts another; both theorems' hypotheses are met.
(What the concrete `ValidatePacket` transcription accepts is not decidable by kernel reduction — it uses `String`
literals and loops — and is exercised by the correspondence stream `validator` instead.) -/
example :
    let c : Cfg := { validate := fun l => if l = [120] then none else some (l, [49], [50]), blacklist := [], rewriters := [],
                     aggs := [], routes := [{ matcher := {}, kind := .other, dests := [] }] }
    c.validate [120] = none ∧ (dispatch c [120]).invalid = true ∧ (dispatch c [120]).hits = [] ∧
    (c.validate [97]).isSome = true ∧ (dispatch c [97]).hits = [(0, [])] := by decide

end Crng.Props.C02
