import Crng.Table
import Crng.Props.C03
/-! # C11 — aggregation output bypasses the pipeline and cannot loop; drop-raw is exact -/
namespace Crng.Props.C11
open Crng.Tb

/-- aggregation output is only routed: never validated, blacklisted, rewritten, and never fed to any aggregation
(no aggregation input results from it), whatever the rule set — a rule whose output name matches its own filter included -/
theorem aggregate_only_routes (c : Cfg) (nameOf : Bytes → Bytes) (buf : Bytes) :
    (dispatchAggregate c nameOf buf).aggIn = [] ∧ (dispatchAggregate c nameOf buf).invalid = false ∧
    (dispatchAggregate c nameOf buf).blacklisted = false ∧ (dispatchAggregate c nameOf buf).consumed = false ∧
    (dispatchAggregate c nameOf buf).final = buf :=
  Crng.Tb.aggregate_only_routes c nameOf buf

/-- it goes to every route matching its name, each once, in table order (no other), and is unroutable iff there is none -/
theorem aggregate_routes_exact (c : Cfg) (nameOf : Bytes → Bytes) (buf : Bytes) :
    (dispatchAggregate c nameOf buf).hits.map (·.1) = idxFilter (·.matcher.match (nameOf buf)) c.routes 0 ∧
    (dispatchAggregate c nameOf buf).unroutable = (idxFilter (·.matcher.match (nameOf buf)) c.routes 0).isEmpty := by
  unfold dispatchAggregate
  have := routeLoop_exact (nameOf buf) buf c.destArg c.routes 0
  exact ⟨this, by simp only []; rw [← this]; simp⟩

/-- **no amplification**: one received line reaches each aggregation at most once (strictly increasing indices),
so the causal chain raw → aggregate → routes has length two for every rule set -/
theorem no_amplification (useNot : Bool) (name : Bytes) (as : List Agg) :
    (aggLoop useNot name as 0).1.length ≤ as.length ∧ (aggLoop useNot name as 0).1.Pairwise (· < ·) :=
  ⟨(Crng.Tb.aggLoop_bounded useNot name as 0).1, (Crng.Tb.aggLoop_bounded useNot name as 0).2.1⟩

/-- **drop-raw is exact**: the raw metric is withheld (from later aggregations and all routes) iff some drop-raw
aggregation's *complete* six-condition filter accepts its name -/
theorem dropraw_exact (name : Bytes) (as : List Agg) (h : ∀ a ∈ as, a.matcher.PrefixOK) :
    (aggLoop true name as 0).2 = as.any (fun a => a.dropRaw && a.matcher.spec name) := by
  rw [Crng.Tb.aggLoop_consumed_iff]
  induction as with
  | nil => rfl
  | cons a as ih =>
    simp only [List.any_cons]
    rw [ih (fun b hb => h b (List.mem_cons_of_mem _ hb))]
    have := Crng.Props.C03.agg_filter_complete a.matcher (h a (List.mem_cons_self ..)) name
    rw [← this]
    cases a.dropRaw <;> simp [Bool.and_assoc]

/-- a consumed line reaches no route and is not counted unroutable -/
theorem consumed_withheld (c : Cfg) (line name val ts : Bytes) (hv : c.validate line = some (name, val, ts))
    (hb : c.blacklist.any (·.match name) = false)
    (hc : (aggLoop c.useNot (c.rewriters.foldl (fun n f => f n) name) c.aggs 0).2 = true) :
    (dispatch c line).hits = [] ∧ (dispatch c line).unroutable = false ∧ (dispatch c line).consumed = true := by
  unfold dispatch
  simp only [hv, hb, Bool.false_eq_true, if_false]
  generalize hal : aggLoop c.useNot (c.rewriters.foldl (fun n f => f n) name) c.aggs 0 = al at hc
  obtain ⟨a1, a2⟩ := al
  simp only at hc; subst hc
  simp

/-- **every other metric is unaffected**: a line that no drop-raw aggregation consumes is routed exactly as it would be in
the same table without any aggregations -/
theorem others_unaffected (c : Cfg) (line name val ts : Bytes) (hv : c.validate line = some (name, val, ts))
    (hc : (aggLoop c.useNot (c.rewriters.foldl (fun n f => f n) name) c.aggs 0).2 = false) :
    (dispatch c line).hits = (dispatch { c with aggs := [] } line).hits ∧
    (dispatch c line).unroutable = (dispatch { c with aggs := [] } line).unroutable ∧
    (dispatch c line).final = (dispatch { c with aggs := [] } line).final := by
  unfold dispatch
  simp only [hv]
  split
  · simp
  · generalize hal : aggLoop c.useNot (c.rewriters.foldl (fun n f => f n) name) c.aggs 0 = al at hc
    obtain ⟨a1, a2⟩ := al
    simp only at hc; subst hc
    simp [aggLoop]

/-- non-vacuity: a drop-raw rule (prefix "a") followed by a plain one: "ab" is consumed by the first and withheld from the
second; "b" reaches the second only and is routed -/
example :
    let as : List Agg := [{ matcher := { prefix_ := [97] }, dropRaw := true }, { matcher := {}, dropRaw := false }]
    aggLoop true [97, 98] as 0 = ([0], true) ∧ aggLoop true [98] as 0 = ([1], false) := by decide

end Crng.Props.C11
