import Crng.CHashTop
/-! # C15 — consistent hashing agrees with Carbon and moves only the keys it must
`Crng/CHash.lean` is route/consistent_hashing.go (replica keys, 16-bit positions, ring sorted by (position, host, instance),
binary search modulo the ring length); `Crng/Ring.lean` states Carbon 0.9.x's rule on the *set* of ring entries.
All theorems hold for an arbitrary position function, hence independently of MD5 (which is executable in `Crng/MD5.lean`
and compared with Go's crypto/md5 by the correspondence run). -/
namespace Crng.Props.C15
open Crng.CHash Crng.Ring

/-- the Go lookup returns the entry Carbon's rule designates: the least entry (position, host, instance) at or after the
key's position among all ring entries, wrapping around to the least entry of the ring -/
theorem lookup_eq_carbon (pos : Bytes → Nat) (replicas : Nat) (nodes : List Node) (hn : nodes ≠ []) (hr : 0 < replicas) (p : Nat) :
    ∃ e, lookupKey (ring pos replicas nodes) p = some e ∧ IsOwner keyOrd (entries pos replicas nodes) p e :=
  Crng.CHash.lookup_eq_carbon pos replicas nodes hn hr p

/-- Carbon's rule determines the owner uniquely, so agreement with it is agreement with carbon-relay.py -/
theorem owner_unique (S : List Key) (k : Nat) (a b : Key) (ha : IsOwner keyOrd S k a) (hb : IsOwner keyOrd S k b) : a = b :=
  Crng.Ring.owner_unique keyOrd S k a b ha hb

/-- the same destinations listed in any order (and, since only membership matters, with any duplicates) give the same owner -/
theorem order_independent (pos : Bytes → Nat) (replicas : Nat) (ns1 ns2 : List Node) (h : ∀ n, n ∈ ns1 ↔ n ∈ ns2)
    (hn : ns1 ≠ []) (hr : 0 < replicas) (p : Nat) :
    lookupKey (ring pos replicas ns1) p = lookupKey (ring pos replicas ns2) p :=
  Crng.CHash.order_independent pos replicas ns1 ns2 h hn hr p

/-- each metric goes to exactly one configured destination -/
theorem one_destination (pos : Bytes → Nat) (replicas : Nat) (nodes : List Node) (hn : nodes ≠ []) (hr : 0 < replicas) (name : Bytes) :
    ∃ i, destIndex pos replicas nodes name = some i ∧ i < nodes.length :=
  Crng.CHash.one_destination pos replicas nodes hn hr name

/-- adding a destination moves only keys that land on the new destination -/
theorem add_minimal (pos : Bytes → Nat) (replicas : Nat) (ns : List Node) (n : Node) (hn : ns ≠ []) (hr : 0 < replicas) (p : Nat)
    (e e' : Key) (h : lookupKey (ring pos replicas ns) p = some e) (h' : lookupKey (ring pos replicas (ns ++ [n])) p = some e') :
    e' = e ∨ (e'.2.1 = n.host ∧ e'.2.2 = n.inst) :=
  Crng.CHash.add_minimal pos replicas ns n hn hr p e e' h h'

/-- removing a destination moves only the keys it owned -/
theorem remove_minimal (pos : Bytes → Nat) (replicas : Nat) (ns : List Node) (n : Node) (hn : ns ≠ []) (hr : 0 < replicas) (p : Nat)
    (e : Key) (h : lookupKey (ring pos replicas (ns ++ [n])) p = some e) (hnot : e ∈ entries pos replicas ns) :
    lookupKey (ring pos replicas ns) p = some e :=
  Crng.CHash.remove_minimal pos replicas ns n hn hr p e h hnot

/-- host, port and instance from `h`, `h:p`, `h:p:i` ("a", "a:1", "a:1:b") -/
theorem addr_split :
    nodeOfAddr [97] = ⟨[97], []⟩ ∧ nodeOfAddr [97, 58, 49] = ⟨[97], []⟩ ∧ nodeOfAddr [97, 58, 49, 58, 98] = ⟨[97], [98]⟩ := by decide

/-- non-vacuity: the hypotheses are met by any non-empty destination list with Carbon's 100 replicas; the theorems then
apply to the real position function -/
example (nodes : List Node) (n : Node) (name : Bytes) :
    ∃ i, destIndex Crng.MD5.ringPos 100 (n :: nodes) name = some i ∧ i < (n :: nodes).length :=
  one_destination Crng.MD5.ringPos 100 (n :: nodes) (by simp) (by omega) name

end Crng.Props.C15
