import Crng.SchemasProofs
import Crng.PickleProofs
/-! # C16 — re-encoding a line for pickle, grafana.net or Kafka preserves the datapoint -/
namespace Crng.Props.C16
open Crng.Sch

/-- **pickle**: Python's unpickler (the pickle VM of `Crng/Pickle.lean`) decodes what a pickle-mode destination emits for
`(name, ts, value)` to `[(name, (ts, value))]`, for every name shorter than 4 GiB, every 32-bit timestamp and every
float64 bit pattern -/
theorem unpickle_pickle (name : Bytes) (ts bits : Nat) (hn : name.length < 4294967296) (ht : ts < 4294967296)
    (hb : bits < 18446744073709551616) :
    Crng.Pk.unpickle (Crng.Pk.pickleBody name ts bits) = some (.list [.tuple [.str name, .tuple [.int ts, .float bits]]]) :=
  Crng.Pk.unpickle_pickle name ts bits hn ht hb

/-- the frame is the 4-byte big-endian length followed by the pickle -/
theorem length_prefix (name : Bytes) (ts bits : Nat) :
    Crng.Pk.pickleOut name ts bits = Crng.Pk.be32 (Crng.Pk.pickleBody name ts bits).length ++ Crng.Pk.pickleBody name ts bits := rfl

/-- **rule selection**: the storage-schemas rule used is the first — by priority descending, then file order — whose
pattern matches the series name as Graphite presents it -/
theorem rule_selection (rules : List Rule) (name : Bytes) (r : Rule) (h : select rules name = some r)
    (hidx : ∀ x ∈ rules, x.idx < 4294967296) :
    r ∈ rules ∧ r.accepts name = true ∧
    ∀ r' ∈ rules, r'.accepts name = true → r.prio > r'.prio ∨ (r.prio = r'.prio ∧ r.idx ≤ r'.idx) :=
  select_spec rules name r h hidx

/-- the presented name of an untagged series is the name itself -/
theorem presented_untagged (name : Bytes) : presented name [] = name := rfl

/-- the presented name of a tagged series is `name;t1;…;tn` with the tags sorted -/
theorem presented_tagged (name : Bytes) (t : Bytes) (ts : List Bytes) :
    presented name (t :: ts) = name ++ [59] ++ joinWith 59 (sortTags (t :: ts)) := rfl

/-- **record fields**: value, time and organisation id are those of the line/route; the interval is the first
retention of the selected rule; the name is the text before the first `;` (dots normalised), the tags are sorted and valid;
a line whose tags are invalid, whose interval or org id is zero, or whose name is empty yields no record -/
theorem record_fields (rules : List Rule) (org : Nat) (nwt : Bytes) (bits ts : Nat) (md : MD)
    (h : buildMetric rules org nwt bits ts = some md) :
    md.bits = bits ∧ md.time = ts ∧ md.org = org ∧ org ≠ 0 ∧ md.interval ≠ 0 ∧ md.tags.all validTag = true ∧
    ∃ name tags r, splitOn 59 nwt = name :: tags ∧ select rules (presented name tags) = some r ∧
      md.interval = r.interval ∧ md.name = eatDots name ∧ md.tags = sortTags tags :=
  Crng.Sch.record_fields rules org nwt bits ts md h

/-- non-vacuity (the defect that was repaired): rules `^a\.b\.c$` (1 s) before the catch-all (60 s); the untagged name `a.b.c`
is presented as `a.b.c`, selects the first rule and gets interval 1 -/
example :
    let abc : Bytes := [97, 46, 98, 46, 99]
    let rules : List Rule := [{ accepts := fun s => s == abc, prio := 0, idx := 0, interval := 1 }, { accepts := fun _ => true, prio := 0, idx := 1, interval := 60 }]
    (buildMetric rules 1 abc 0 15).map (·.interval) = some 1 ∧ (buildMetric rules 1 (abc ++ [59, 120, 61, 49]) 0 15).map (·.interval) = some 60 := by
  decide

end Crng.Props.C16
