import Crng.SpoolDrain
import Crng.KeepSafe
/-! # C07 — with spooling on, an endpoint outage loses nothing that is not counted

`Crng/Spool.lean` follows a line through every place it can be between the hand-off to a spooling destination and its
reception by the endpoint, for every schedule of the goroutines' atomic steps, every fault (a connection may die at any
moment, any number of times, also while its predecessor is still being collected) and every traffic placement.

Two hypotheses are explicit switches of the model:
* **H1** — keepSafe forgets a line only after the endpoint has it. The code forgets by age (two generations of 10 s):
  H1 is the timing assumption "what was written at least 10 s ago on a connection still believed alive has arrived"
  (the code comment at `keepsafe_keep_duration` states it). `h1_needed` shows the loss without it.
* **H2** — getRedo collects only after HandleData has stopped. At the pinned commit the code did not establish this
  (`h2_needed` is the schedule, replayed on the real code through the verif schedule point); `c.wg.Wait()` in getRedo
  (fix aca0098, obligation `Crng.Tie.C07.getredo_ok`) establishes it.

What is outside: real time (the 10 s), the Go scheduler's fairness (every enabled step is eventually taken — needed to turn
`backlog_bounded` + `drained_all_accounted` into "drains completely"), the kernel's TCP buffers (the `wire`), the disk queue
behind the spool (C08/C09). -/
namespace Crng.Props.C07
open Crng.Spool

theorem init_ok : Conserved {} ∧ Inv {} := by
  refine ⟨fun id h => (by cases h), ⟨?_, ?_, ?_, ?_, ?_, ?_, ?_, ?_, rfl, ?_⟩⟩ <;> intros <;> simp_all

/-- **conservation, all schedules**: after any schedule of hand-offs, goroutine steps, connection deaths, rotations (H1),
collections (H2) and reconnects, every line ever handed to the destination has been received, has been counted as dropped,
or sits in a place from which it is written, collected or unspooled: a connection's In/keepSafe, a redo list, the spool -/
theorem conservation (acts : List Act) (s : S) (hc : Conserved s) (hi : Inv s) :
    Conserved (run true true s acts) ∧ Inv (run true true s acts) := by
  induction acts generalizing s with
  | nil => exact ⟨hc, hi⟩
  | cons a as ih =>
    simp only [run]
    split
    · rename_i hen
      exact ih _ (step_conserved s a hen hc hi) (step_inv true true s a hen hi)
    · exact ih s hc hi

theorem conservation_from_start (acts : List Act) : Conserved (run true true {} acts) ∧ Inv (run true true {} acts) :=
  conservation acts {} init_ok.1 init_ok.2

/-- the drop counters count exactly the lines recorded as dropped -/
theorem counters_exact (acts : List Act) : (run true true {} acts).counted.length = (run true true {} acts).slowConn + (run true true {} acts).slowSpool :=
  (conservation_from_start acts).2.counters

/-- **the backlog drains**: once the endpoint stays up (only internal steps happen) the number of steps that can still be
taken is bounded by the measure of the state — whatever is spooled, being collected or queued is finite work -/
theorem backlog_bounded (acts : List Act) (s : S) (hi : Inv s) (hr : internalRun true true s acts = true) : acts.length ≤ mu s :=
  internalRun_bounded true true acts s hi hr

/-- … and when no internal step is left while the relay holds a live connection, every handed-off line has been received or
counted — nothing is left behind in a dead connection, a redo list or the spool -/
theorem drained_all_accounted (acts : List Act) (k : Nat) (hst : Stuck (run true true {} acts))
    (hcur : (run true true {} acts).cur = some k) (halive : ((run true true {} acts).conns k).dead = false) :
    ∀ id ∈ (run true true {} acts).handed, id ∈ (run true true {} acts).recv ∨ id ∈ (run true true {} acts).counted :=
  stuck_all_accounted _ (conservation_from_start acts).1 (conservation_from_start acts).2 hst k hcur halive

/-- **the bound of the property statement**: at such a point the number of distinct lines never received is at most
slow_conn + slow_spool -/
theorem never_received_bound (acts : List Act) (k : Nat) (hst : Stuck (run true true {} acts))
    (hcur : (run true true {} acts).cur = some k) (halive : ((run true true {} acts).conns k).dead = false)
    (miss : List Nat) (hnd : miss.Nodup)
    (hm : ∀ id ∈ miss, id ∈ (run true true {} acts).handed ∧ id ∉ (run true true {} acts).recv) :
    miss.length ≤ (run true true {} acts).slowConn + (run true true {} acts).slowSpool := by
  rw [← counters_exact acts]
  apply List.Nodup.length_le_of_subset hnd
  intro id hid
  have := hm id hid
  exact (drained_all_accounted acts k hst hcur halive id this.1).elim (fun h => absurd h this.2) (fun h => h)

/-- **in-flight lines are replayed**: when a dead connection is collected, everything in its In queue and its keepSafe
(written but possibly not arrived) goes to the redo list, hence to the spool, hence — by conservation — to the endpoint or a counter -/
theorem inflight_replayed (s : S) (k : Nat) : ∀ id, id ∈ (s.conns k).inQ ∨ id ∈ (s.conns k).keep → id ∈ (step s (.collect k)).redo := by
  intro id h
  simp only [step, List.mem_append]
  rcases h with h | h
  · exact Or.inr (Or.inr h)
  · exact Or.inr (Or.inl h)

/-- the duplicates the property allows really occur: a line that arrived and is still in keepSafe when the connection dies is sent again -/
example : let s := run true true {} [.reconnect, .handoffQueued 7, .take 0, .keepAdd 0, .deliver 0 7, .die 0, .stop 0, .notice, .collect 0, .ingest,
                                      .reconnect, .unspoolQueued, .take 1, .keepAdd 1, .deliver 1 7]
    s.recv = [7, 7] ∧ s.counted = [] := by decide

/-- an outage with traffic before, during and after it, drained: all four lines arrive, nothing is counted (the premises of
`drained_all_accounted` are met by a real run: no internal step is enabled at the end) -/
example : let s := run true true {} [.reconnect, .handoffQueued 1, .take 0, .keepAdd 0, .handoffQueued 2, .die 0, .handoffQueued 3, .notice,
                                      .handoffSpooled 4, .take 0, .keepAdd 0, .take 0, .keepAdd 0, .stop 0, .collect 0, .reconnect,
                                      .ingest, .ingest, .ingest, .unspoolQueued, .unspoolQueued, .unspoolQueued, .unspoolQueued,
                                      .take 1, .keepAdd 1, .deliver 1 4, .take 1, .keepAdd 1, .deliver 1 1, .take 1, .keepAdd 1, .deliver 1 2,
                                      .take 1, .keepAdd 1, .deliver 1 3]
    s.handed = [4, 3, 2, 1] ∧ s.recv = [3, 2, 1, 4] ∧ s.counted = [] ∧ s.cur = some 1 ∧ (s.conns 1).dead = false ∧
    s.redo = [] ∧ s.spoolQ = [] ∧ (s.conns 1).inQ = [] ∧ (s.conns 1).wire = [] ∧ (s.conns 0).collected = true := by decide

/-- **H2 is needed** (the defect repaired by aca0098): HandleData has taken line 7, the connection dies, the relay notices and
getRedo collects, only then HandleData adds 7 to a keepSafe nobody reads again: 7 is handed off, never received, not counted,
and in no place from which it could still be sent -/
theorem h2_needed : let s := run true false {} [.reconnect, .handoffQueued 7, .take 0, .die 0, .notice, .collect 0, .keepAdd 0, .stop 0, .reconnect]
    7 ∈ s.handed ∧ 7 ∉ s.recv ∧ 7 ∉ s.counted ∧ s.redo = [] ∧ s.spoolQ = [] ∧ (s.conns 0).collected = true ∧ (s.conns 1).inQ = [] := by decide

/-- **H1 is needed**: a line written to a connection whose endpoint never reads, forgotten by keepSafe before the connection dies -/
theorem h1_needed : let s := run false true {} [.reconnect, .handoffQueued 7, .take 0, .keepAdd 0, .rotate 0 7, .die 0, .stop 0, .notice, .collect 0, .reconnect]
    7 ∈ s.handed ∧ 7 ∉ s.recv ∧ 7 ∉ s.counted ∧ s.redo = [] ∧ s.spoolQ = [] ∧ (s.conns 0).collected = true := by decide

/-- **keepSafe, slice level**: for every history of Add / rotation / GetAll and every growth policy of `append`, each GetAll
returns exactly old ++ recent — the two generations never share a backing array (`Crng.KeepSafe.Rep.apart`) -/
theorem keepsafe_getall (slack cap : Nat) (ops : List Crng.KeepSafe.Op) :
    (Crng.KeepSafe.run slack cap (Crng.KeepSafe.init cap) ops).2 = (Crng.KeepSafe.specRun ([], []) ops).2 :=
  (Crng.KeepSafe.run_refines slack cap ops _ _ (Crng.KeepSafe.rep_init cap)).1

end Crng.Props.C07
