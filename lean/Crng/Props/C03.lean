import Crng.Table
import Crng.Regex
import Crng.AggCache
/-! # C03 — filters mean exactly the documented conjunction, evaluated on the metric name
`Matcher.match` / `preMatch` are `matcher.go` statement by statement, including the two prefix shortcuts;
`soundPrefix` is the prefix derivation on a regex AST with an over-approximating match relation `M`
(`Crng/Regex.lean`); `Crng/AggCache.lean` is `matchWithCache`. -/
namespace Crng.Props.C03
open Crng.Tb

/-- every string matched (unanchored search) by a regex starts with the prefix derived from its AST — for all regex ASTs
(alternation, optional/starred atoms, groups, anchors) and all names -/
theorem soundPrefix_sound (r : Crng.Re) (s : Crng.Bytes) (h : Crng.Search r s) : Crng.soundPrefix r <+: s :=
  Crng.soundPrefix_sound r s h

theorem hasPrefix_iff (s p : Bytes) : hasPrefix s p = true ↔ p <+: s := by
  unfold hasPrefix
  constructor
  · intro h
    have : s.take p.length = p := by simpa using h
    exact ⟨s.drop p.length, by conv => lhs; arg 1; rw [← this]
                               exact List.take_append_drop _ _⟩
  · rintro ⟨t, rfl⟩
    simp

/-- any derived prefix that is itself a prefix of the sound one is safe: it can only be shorter -/
theorem prefixOK_of_le (r : Rx) (ast : Crng.Re) (hsem : ∀ s, r.accepts s = true → Crng.Search ast s)
    (hle : r.pre <+: Crng.soundPrefix ast) : r.PrefixOK := by
  intro s hs
  rw [hasPrefix_iff]
  exact List.IsPrefix.trans hle (Crng.soundPrefix_sound ast s (hsem s hs))

/-- **the shortcuts never change the decision**: with sound derived prefixes, `Match` is exactly
prefix ∧ ¬notPrefix ∧ sub ∧ ¬notSub ∧ regex ∧ ¬notRegex, an empty option imposing no constraint -/
theorem match_eq_conj6 (m : Matcher) (h : m.PrefixOK) (s : Bytes) : m.match s = m.spec s :=
  Crng.Tb.match_eq_spec m h s

/-- the decision is a function of the bytes passed alone (it is a pure function of `s`); the call sites pass the name
(regenerated fact `Crng.Tie.C03.matchArgs_ok`) -/
theorem name_only (m : Matcher) (s₁ s₂ : Bytes) (h : s₁ = s₂) : m.match s₁ = m.match s₂ := by rw [h]

/-- an aggregation consumes a name (pre-match, then the regex stage that also consults notRegex) iff the complete
six-condition filter accepts it -/
theorem agg_filter_complete (m : Matcher) (h : m.PrefixOK) (s : Bytes) :
    (m.preMatch s && m.regexStage true s) = m.spec s := by
  unfold Matcher.preMatch Matcher.regexStage Matcher.spec
  simp only [len_pos_eq, ite_false']
  have c1 : ∀ a b : Bool, (!(!a && !b)) = (a || b) := by intro a b; cases a <;> cases b <;> rfl
  have c2 : ∀ a b : Bool, (!(!a && b)) = (a || !b) := by intro a b; cases a <;> cases b <;> rfl
  rw [c1, c2, c1, c2]
  cases hre : m.regex with
  | none => simp [Bool.and_assoc]
  | some r =>
    have hp := h.1 r hre s
    simp only []
    cases ha : r.accepts s
    · simp
    · simp [hp ha, Bool.and_assoc]

/-- the per-aggregator match cache is transparent: for every history of lookups and arbitrary expiries the cached
answers are those of the uncached function -/
theorem cache_transparent {K V : Type} [DecidableEq K] (f : K → V) (ops : List (Crng.AC.Op K)) :
    Crng.AC.run f [] ops = Crng.AC.spec f ops :=
  Crng.AC.cache_transparent f ops [] (by intro e he; cases he)

/-- non-vacuity: the regex `^ab?c` (AST below) matches "ac"; its sound prefix is "a", which "ac" starts with -/
example :
    let ast : Crng.Re := .cat .beginText (.cat (.litA 97) (.cat (.opt (.litA 98)) (.litA 99)))
    Crng.soundPrefix ast = [97] ∧ Crng.Search ast [97, 99] := by
  refine ⟨rfl, 0, 2, ?_⟩
  exact .cat .beginText (.cat (.litA rfl) (.cat .optNone (.litA rfl)))

end Crng.Props.C03
