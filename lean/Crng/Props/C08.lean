import Crng.DQCrashMain
/-! # C08 — the disk spool queue recovers consistently from a crash at any point -/
namespace Crng.Props.C08
open Crng.DQ

/-- Start from an empty directory, run any history of enqueue / dequeue / clean-restart events with any
segment size limit and sync frequency, and stop the process after any filesystem mutation (= any entry of the
crash log; the entries carry the labels of the `verifCrashPoint` hooks). Reopening the directory as it was at
that instant terminates (`drain … = (_, true)`) and delivers exactly the records that were pending at the last
completed metadata rename (`synced`, a contiguous run of the enqueued messages in order, byte-for-byte), except
that at most the `k ≤ dsince` oldest of them — records already handed to the consumer since that rename — are
skipped. So nothing undelivered is skipped, the run extends to the last message written before the last completed
sync, and only messages consumed since that sync can be delivered again. -/
theorem crash_recovery (cfg : Cfg) (es : List Ev) (hsm : ∀ e ∈ es, smallEv e) :
    ∀ e ∈ (runEvs cfg (openQ cfg {} []) es).log,
      ∃ k fuel, k ≤ e.g.dsince ∧
        drain cfg fuel (openQ cfg e.disk []) = ((e.g.synced.drop k).map (·.msg), true) :=
  c08_crash_recovery cfg es hsm

end Crng.Props.C08
