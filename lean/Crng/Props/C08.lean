import Crng.DQHist
/-! # C08 — the disk spool queue recovers consistently from a crash at any point -/
namespace Crng.Props.C08
open Crng.DQ

/-- Start from an empty directory, run any history of enqueue / dequeue / clean-restart events with any
segment size limit and sync frequency, and stop the process after any filesystem mutation (= any entry of the
crash log; the entries carry the labels of the `verifCrashPoint` hooks). Reopening the directory as it was at
that instant terminates (`drain … = (_, true)`) and delivers exactly the records that were pending at the last
completed metadata rename (`synced`, a contiguous run of the enqueued messages in order, byte-for-byte), except
that at most the `k ≤ dsince` oldest of them — records already handed to the consumer since that rename — are
skipped. So nothing undelivered is skipped, the run extends to the last message written before the last completed
sync, and only messages consumed since that sync can be delivered again. -/
theorem crash_recovery (cfg : Cfg) (es : List Ev) (hsm : ∀ e ∈ es, smallEv e) :
    ∀ e ∈ (runEvs cfg (openQ cfg {} []) es).log,
      ∃ k fuel, k ≤ e.g.dsince ∧
        drain cfg fuel (openQ cfg e.disk []) = ((e.g.synced.drop k).map (·.msg), true) :=
  c08_crash_recovery cfg es hsm

/-- **C08 in terms of the history.** Let `P` be the messages of the `put` events of the history, in order. At every crash
point there are numbers `n` (messages written by then), `d ≤ n` (messages handed to the consumer by then), `b ≤ n`
(messages written when the last metadata rename completed) and `a ≤ d` (messages handed over when it completed) — fixed by the
model's ghost fields: `pend = P[d:n]`, `synced = P[a:b]` — such that reopening the directory terminates and delivers exactly

  `P[j:b]`  for some `a ≤ j ≤ d`:

one contiguous run of the enqueued messages, byte-for-byte and in order; it starts no later than the first message not yet
handed to the consumer (`j ≤ d`: nothing undelivered is skipped), it extends to the last message written before the last
completed sync (`b`), so only the un-synced tail `P[b:n]` is lost, and only messages consumed since that sync (`P[a:d]`) can be
delivered again (`a ≤ j`). -/
theorem crash_recovery_history (cfg : Cfg) (es : List Ev) (hsm : ∀ e ∈ es, smallEv e) :
    ∀ e ∈ (runEvs cfg (openQ cfg {} []) es).log,
      ∃ n d b a j fuel, n ≤ (putsOf es).length ∧ d ≤ n ∧ b ≤ n ∧ a ≤ j ∧ j ≤ d ∧
        e.g.pend.map (·.msg) = ((putsOf es).take n).drop d ∧
        e.g.synced.map (·.msg) = ((putsOf es).take b).drop a ∧
        drain cfg fuel (openQ cfg e.disk []) = (((putsOf es).take b).drop j, true) := by
  intro e he
  obtain ⟨E, hE, hmsg⟩ := hinv_run es _ [] (fresh_bd cfg) hsm (hinv_fresh cfg)
  simp only [List.map_nil, List.nil_append] at hmsg
  obtain ⟨E', hpre, d, a, b, had, hd, hab, hb, hp, hs, hds⟩ := hE.2 e he
  obtain ⟨k, fuel, hk, hdr⟩ := crash_recovery cfg es hsm e he
  have hpm : E'.map (·.msg) <+: putsOf es := by rw [← hmsg]; exact List.IsPrefix.map _ hpre
  have hlen : E'.length ≤ (putsOf es).length := by have := hpm.length_le; simpa using this
  have htake : ∀ m, m ≤ E'.length → (E'.map (·.msg)).take m = (putsOf es).take m := by
    intro m hm
    obtain ⟨t, ht⟩ := hpm
    rw [← ht, List.take_append_of_le_length (by simpa using hm)]
  refine ⟨E'.length, d, b, a, a + k, fuel, hlen, hd, hb, Nat.le_add_right _ _, by omega, ?_, ?_, ?_⟩
  · rw [hp, List.map_drop, ← htake _ (Nat.le_refl _), List.take_of_length_le (by simp)]
  · rw [hs, List.map_drop, List.map_take, htake _ hb]
  · rw [hdr, hs, List.drop_drop, List.map_drop, List.map_take, htake _ hb]

/-- the premises are met by a real history: two messages, one consumed, a crash between the data write and the next sync -/
example : ∃ e ∈ (runEvs { maxBytes := 100, syncEvery := 2 } (openQ { maxBytes := 100, syncEvery := 2 } {} []) [.put [1], .put [2], .get, .put [3]]).log,
    e.label = "write.data" ∧ e.g.pend.map (·.msg) = [[2], [3]] := by
  refine ⟨_, List.mem_cons_self .., ?_⟩
  decide

end Crng.Props.C08
