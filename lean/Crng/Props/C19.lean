import Crng.Ordered
import Crng.Table
import Crng.Fnv
/-! # C19 — order validation accepts a point only if it is newer than all accepted before
`Crng/Ordered.lean` is `validate.Ordered` (a map from the name's hash to the newest accepted timestamp; the whole body
runs under one mutex — regenerated fact — so every concurrent execution is a sequential history in lock order). -/
namespace Crng.Props.C19
open Crng.Ord

/-- the map after a history -/
def runMap (hash : Bytes → Nat) : M → List (Bytes × Nat) → M
  | m, [] => m
  | m, (k, ts) :: es => runMap hash (ordered hash m k ts).1 es

/-- under hash injectivity on the names of the history: timestamps accepted for one name are strictly increasing in
acceptance order (so they never repeat), whatever other names are interleaved -/
theorem accepted_strictly_increasing (hash : Bytes → Nat) (name : Bytes) (hinj : ∀ k, hash k = hash name → k = name)
    (es : List (Bytes × Nat)) : (accepted hash name [] es).Pairwise (· < ·) :=
  Crng.Ord.accepted_strictly_increasing hash name hinj es

/-- a point is accepted iff it is strictly newer than what is stored for its hash bucket -/
theorem accept_iff_newer (hash : Bytes → Nat) (m : M) (key : Bytes) (ts : Nat) :
    (ordered hash m key ts).2 = true ↔ get m (hash key) < ts := by
  unfold ordered
  by_cases h : ts > get m (hash key)
  · simp [h]
  · simp [h]

theorem stored_bound (hash : Bytes → Nat) (name : Bytes) (hinj : ∀ k, hash k = hash name → k = name) (B : Nat) :
    ∀ (es : List (Bytes × Nat)) (m : M), get m (hash name) ≤ B → (∀ e ∈ es, e.1 = name → e.2 ≤ B) →
      get (runMap hash m es) (hash name) ≤ B := by
  intro es
  induction es with
  | nil => intro m h _; exact h
  | cons e es ih =>
    intro m h hb
    obtain ⟨k, ts⟩ := e
    simp only [runMap]
    apply ih _ _ (fun e he => hb e (List.mem_cons_of_mem _ he))
    unfold ordered
    by_cases hgt : ts > get m (hash k)
    · simp only [hgt, if_true]
      by_cases hk : k = name
      · subst hk; rw [get_set_same]; exact hb (k, ts) (List.mem_cons_self ..) rfl
      · have hne : hash name ≠ hash k := fun he => hk (hinj k he.symm)
        rw [get_set_other _ _ _ _ hne]; exact h
    · simp only [hgt, if_false]; exact h

/-- a point with a positive timestamp newer than every earlier point of its name is never rejected -/
theorem newer_positive_accepted (hash : Bytes → Nat) (name : Bytes) (hinj : ∀ k, hash k = hash name → k = name)
    (es : List (Bytes × Nat)) (ts : Nat) (hpos : 0 < ts) (hnew : ∀ e ∈ es, e.1 = name → e.2 < ts) :
    (ordered hash (runMap hash [] es) name ts).2 = true := by
  rw [accept_iff_newer]
  have := stored_bound hash name hinj (ts - 1) es [] (by simp [Crng.Ord.get]) (fun e he hn => by have := hnew e he hn; omega)
  omega

/-- a rejected point is counted out-of-order and forwarded nowhere: in the table model it never reaches `dispatch`
(the gate sits between validation and the blacklist — regenerated fact `Crng.Tie.C19.gate_ok`); a point with an equal or
older timestamp is rejected -/
theorem not_newer_rejected (hash : Bytes → Nat) (m : M) (key : Bytes) (ts : Nat) (h : ts ≤ get m (hash key)) :
    (ordered hash m key ts).2 = false ∧ (ordered hash m key ts).1 = m := by
  unfold ordered
  have : ¬ ts > get m (hash key) := by omega
  simp [this]

/-- the hypothesis is needed: with a hash collision a newer point of one name is rejected because of another name -/
theorem collision_counterexample : run (fun _ => 0) [] [([1], 10), ([2], 5)] = [true, false] := by decide

/-- the counterexample in general: whatever the hash, if two different names collide then the second one's first point — a
name never seen, positive timestamp — is rejected whenever its timestamp is not above the first name's. So the property as
stated holds for a history iff the hash is injective on its names; nothing weaker will do. -/
theorem collision_breaks_newer_positive (hash : Bytes → Nat) (a b : Bytes) (hcol : hash a = hash b) (t1 t2 : Nat)
    (h1 : 0 < t2) (h2 : t2 ≤ t1) : run hash [] [(a, t1), (b, t2)] = [true, false] := by
  have ht1 : 0 < t1 := by omega
  simp only [run]
  have ha : ordered hash [] a t1 = (set [] (hash a) t1, true) := by
    unfold ordered; simp [Crng.Ord.get, ht1]
  rw [ha]
  have hb : (ordered hash (set [] (hash a) t1) b t2).2 = false := by
    unfold ordered; rw [← hcol, get_set_same]
    have : ¬ t2 > t1 := by omega
    simp [this]
  simp [hb]

/-- … and the digest the code uses does collide: two pairs of 20-character names with equal FNV-1a 64 digests (kernel-evaluated;
the Lean definition of the digest is compared with Go's `hash/fnv` on every run) -/
theorem fnv_collision_1 : Crng.Fnv.fnv1a64 Crng.Fnv.pair1a = Crng.Fnv.fnv1a64 Crng.Fnv.pair1b ∧ Crng.Fnv.pair1a ≠ Crng.Fnv.pair1b := by
  decide +kernel
theorem fnv_collision_2 : Crng.Fnv.fnv1a64 Crng.Fnv.pair2a = Crng.Fnv.fnv1a64 Crng.Fnv.pair2b ∧ Crng.Fnv.pair2a ≠ Crng.Fnv.pair2b := by
  decide +kernel

/-- hence the model of `validate.Ordered` *with the digest the code uses* violates the property on a concrete history: the
known finding C19-fnv-collision, replayed on the real table by stream `ordered-hash-collision` -/
theorem fnv_history_violates :
    run Crng.Fnv.fnv1a64 [] [(Crng.Fnv.pair1a, 1500000100), (Crng.Fnv.pair1b, 1500000050)] = [true, false] :=
  collision_breaks_newer_positive _ _ _ fnv_collision_1.1 _ _ (by decide) (by decide)

/-- non-vacuity: interleaved names, repeated and decreasing timestamps -/
example : accepted (fun b => b.foldl (fun a c => a * 256 + c.toNat) 0) [1] []
    [([1], 5), ([2], 9), ([1], 5), ([1], 4), ([1], 7), ([2], 9), ([1], 6), ([1], 8)] = [5, 7, 8] := by decide

end Crng.Props.C19
