import Crng.PickleIn
/-! # C13 — pickle input is equivalent to the plain-text input for the same datapoints
`Crng/PickleIn.lean`: the frame loop of `Pickle.Handle` over the delivered stream and the item conversion; og-rek's decoder
is a parameter. What og-rek returns for CPython's pickles is external (observed by the correspondence run). -/
namespace Crng.Props.C13
open Crng.PkIn

/-- the effect of one decoded frame (`frameStep` is the item loop of the model): every item that converts is dispatched,
in order; every other item is counted invalid once; items do not affect one another -/
theorem item_independence (items : List V) (o : Out) :
    (items.foldl frameStep o).tokens = o.tokens ++ items.filterMap convert ∧
    (items.foldl frameStep o).invalid = o.invalid + (items.filter (fun it => (convert it).isNone)).length ∧
    (items.foldl frameStep o).err = o.err := by
  induction items generalizing o with
  | nil => simp
  | cons it items ih =>
    obtain ⟨h1, h2, h3⟩ := ih (frameStep o it)
    simp only [List.foldl_cons]
    rw [h1, h2, h3]
    unfold frameStep
    cases hc : convert it with
    | some line => simp [hc, List.append_assoc]
    | none => simp [hc]; omega

/-- a well-formed item `(name, (ts, value))` with integer fields becomes `name value ts`, integers verbatim -/
theorem convert_spec (name : Bytes) (ts v : Int) :
    convert (.tuple [.str name, .tuple [.int ts, .int v]]) = some (name ++ [32] ++ str (toString v) ++ [32] ++ str (toString ts)) := rfl

/-- the same with lists instead of tuples, string fields verbatim, a long timestamp verbatim, floats through %f / %.0f -/
theorem convert_spec_list (name s : Bytes) (z : Int) (b : Nat) :
    convert (.list [.str name, .list [.big z, .str s]]) = some (name ++ [32] ++ s ++ [32] ++ str (toString z)) ∧
    convert (.tuple [.str name, .tuple [.float b, .float b]]) =
      some (name ++ [32] ++ str (Crng.FloatFmt.fmt6Bits (UInt64.ofNat b)) ++ [32] ++ str (Crng.FloatFmt.fmt0Bits (UInt64.ofNat b))) := ⟨rfl, rfl⟩

/-- structurally invalid items are skipped (counted by `item_independence`): wrong arity, a name that is not a string,
data that is not a pair, unrepresentable scalars -/
theorem invalid_item_skipped (a b c : V) (name : Bytes) :
    convert (.tuple [a]) = none ∧ convert (.tuple [a, b, c]) = none ∧ convert (.tuple [.other, b]) = none ∧
    convert (.tuple [.int 1, b]) = none ∧ convert (.tuple [.str name, .int 5]) = none ∧
    convert (.tuple [.str name, .tuple [.other, .int 1]]) = none ∧ convert (.tuple [.str name, .tuple [.int 1, .other]]) = none ∧
    convert .other = none := by
  refine ⟨rfl, rfl, rfl, rfl, rfl, rfl, rfl, rfl⟩

/-- a malformed frame ends the connection with an error and nothing of it is dispatched: oversized length, unknown
protocol prefix, a payload shorter than announced, a length cut short -/
theorem malformed_ends_connection (decode : Bytes → Dec) (maxLen : Nat) (clean : Bool) (fuel : Nat) (s : Bytes) (o : Out)
    (hne : s ≠ [])
    (h : s.length < 4 ∨ be32 (s.take 4) > maxLen ∨ checkProtocol (s.drop 4) = false ∨ (s.drop 4).length < be32 (s.take 4)) :
    handle decode maxLen clean (fuel + 1) s o = { o with err := true } := by
  unfold handle
  have he : s.isEmpty = false := by cases s <;> simp_all
  simp only [he, Bool.false_eq_true, if_false]
  by_cases h1 : s.length < 4
  · simp [h1]
  · simp only [h1, if_false]
    by_cases h2 : be32 (s.take 4) > maxLen
    · simp [h2]
    · simp only [h2, if_false]
      by_cases h3 : checkProtocol (s.drop 4) = false
      · simp [h3]
      · have h3' : checkProtocol (s.drop 4) = true := by simpa using h3
        simp only [h3', Bool.not_true, Bool.false_eq_true, if_false]
        have h4 : (s.drop 4).length < be32 (s.take 4) := by
          rcases h with h | h | h | h
          · exact absurd h h1
          · exact absurd h h2
          · exact absurd h h3
          · exact h
        simp only [h4, if_true]

/-- a clean end of stream between frames is not an error -/
theorem clean_end (decode : Bytes → Dec) (maxLen : Nat) (fuel : Nat) (o : Out) :
    handle decode maxLen true (fuel + 1) [] o = o := by simp [handle]

/-- non-vacuity: one frame "]…" of length 3 whose decoded list holds a good and a bad item -/
example :
    let dec : Bytes → Dec := fun _ => .ok (.list [.tuple [.str [97], .tuple [.int 15, .int 1]], .tuple [.other, .other]])
    (run dec true [0, 0, 0, 3, 93, 113, 0]).tokens.length = 1 ∧ (run dec true [0, 0, 0, 3, 93, 113, 0]).invalid = 1 ∧
    (run dec true [0, 0, 0, 3, 93, 113, 0]).err = false ∧ (run dec true [0, 0, 0, 9, 93]).err = true := by
  refine ⟨by decide, by decide, by decide, by decide⟩

end Crng.Props.C13
