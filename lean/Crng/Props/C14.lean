import Crng.Safe
/-! # C14 — nothing received from the network or the admin port can crash the relay

What is *proved* here is the decision logic of the second half of the statement: a configuration or admin command whose
parameters cannot work is rejected, never accepted and crashed on later. Each constructor's acceptance test is stated next
to the Go operations that panic on what it hands on (`Crng/Safe.lean`, 64-bit wrap-around included), and acceptance is shown
to imply that none of them panics. The acceptance tests and the uses are tied to the source by `Crng.Tie.C14`
(regenerated skeletons of the constructors and of every guarded use, plus the inventory of every panic-capable construct
in the code that inputs and admin commands reach).

What is *not* proved: that no byte sequence on the inputs makes the Go runtime panic somewhere in that code. The parsers'
models (C12, C13, C02, C16) are total functions whose agreement with the real code is checked on every run, and the real
code is searched for crashes (random, grammar-generated and mutated inputs, and the full table of boundary
configurations, in a process that dies on any panic). That part is a search, and is labelled as such. -/
namespace Crng.Props.C14
open Crng.Safe

/-- an accepted aggregation has a strictly positive ticker period that is the interval itself: AlignedTick never divides by
zero and always sleeps a positive time (no busy loop), for every clock reading — and `ts % Interval` in the run loop is defined -/
theorem agg_accept_safe (interval : Nat) (f r : Bool) (h : aggAccept interval f r = true) :
    f = true ∧ r = true ∧ divOk interval = true ∧
    ∀ adjusted : Int, ∃ d, tickDiff (periodNs interval) adjusted = some d ∧ 0 < d := by
  simp only [aggAccept, Bool.and_eq_true, decide_eq_true_eq] at h
  obtain ⟨⟨⟨⟨hf, hr⟩, hi⟩, hp⟩, _⟩ := h
  refine ⟨hf, hr, by simp [divOk]; omega, ?_⟩
  intro adjusted
  have hne : periodNs interval ≠ 0 := by omega
  refine ⟨periodNs interval - adjusted.tmod (periodNs interval), by simp [tickDiff, hne], ?_⟩
  have := Int.tmod_lt_of_pos adjusted hp
  omega

/-- the acceptance test of the pinned tree (interval ≠ 0) was not enough: 2^55 seconds is a zero `time.Duration` -/
theorem agg_old_accept_unsafe : aggAcceptOld (2 ^ 55) true true = true ∧ tickDiff (periodNs (2 ^ 55)) 0 = none := by decide

/-- non-vacuity: ordinary intervals are accepted -/
example : aggAccept 10 true true = true ∧ aggAccept 86400 true true = true ∧ aggAccept 9223372036 true true = true ∧
    aggAccept 9223372037 true true = false ∧ aggAccept 0 true true = false ∧ aggAccept (2 ^ 55) true true = false := by decide

/-- an accepted destination starts: both tickers, the connection channel, the io buffer, and with spooling the spool channel and the sync ticker -/
theorem dest_accept_safe (p : DestP) (h : destAccept p = true) : destUses p = true := by
  simp only [destAccept, Bool.and_eq_true, Bool.not_eq_true', Bool.or_eq_false_iff, decide_eq_false_iff_not, Bool.and_eq_false_iff] at h
  obtain ⟨⟨⟨⟨h1, h2⟩, ⟨h3, h4⟩⟩, h5⟩, ⟨⟨h6, h7⟩, h8⟩⟩ := h
  have hA : maxAlloc = 140737488355328 := rfl
  have hI : maxInt32 = 2147483647 := rfl
  simp only [destUses, tickerOk, makeOk, Bool.and_eq_true, decide_eq_true_eq, Bool.or_eq_true, Bool.not_eq_true'] at *
  refine ⟨⟨⟨⟨⟨by omega, by omega⟩, ⟨by omega, by omega⟩⟩, ⟨by omega, by omega⟩⟩, by omega⟩, ?_⟩
  cases hs : p.spool with
  | false => exact Or.inl rfl
  | true =>
    refine Or.inr ?_
    rw [hs] at h5 h8
    simp only [Bool.true_eq_false, false_or] at h5 h8
    refine ⟨⟨by omega, by omega⟩, by omega⟩

example : destAccept ⟨1000, 10000, 30000, 2000000, true, 10000, 1000⟩ = true ∧ destAccept ⟨0, 10000, 30000, 2000000, false, 0, 0⟩ = false ∧
    destAccept ⟨1000, 10000, 9223372036854775807, 2000000, false, 0, 0⟩ = false := by decide

/-- an accepted grafanaNet route starts and dispatches: the shard arithmetic never divides by zero, the allocations are in range -/
theorem gn_accept_safe (p : GnP) (h : gnAccept p = true) : gnUses p = true := by
  simp only [gnAccept, Bool.and_eq_true, Bool.not_eq_true', Bool.or_eq_false_iff, decide_eq_false_iff_not] at h
  obtain ⟨⟨⟨⟨h1, h2⟩, h3⟩, h4⟩, ⟨⟨h5, h6⟩, h7⟩⟩ := h
  have hq : 0 ≤ p.bufSize.tdiv p.concurrency ∧ p.bufSize.tdiv p.concurrency ≤ p.bufSize := by
    have hb : 0 ≤ p.bufSize := by omega
    have hc : 0 < p.concurrency := by omega
    rw [Int.tdiv_eq_ediv_of_nonneg hb]
    exact ⟨Int.ediv_nonneg hb (by omega), Int.ediv_le_self _ hb⟩
  have hA : maxAlloc = 140737488355328 := rfl
  have hI : maxInt32 = 2147483647 := rfl
  have hm : p.concurrency % 4294967296 = p.concurrency := Int.emod_eq_of_lt (by omega) (by omega)
  simp only [gnUses, tickerOk, makeOk, divOk, Bool.and_eq_true, decide_eq_true_eq, hm] at *
  refine ⟨⟨⟨⟨⟨⟨by omega, by omega⟩, by omega⟩, ⟨by omega, by omega⟩⟩, by omega⟩, by omega⟩, by omega⟩

example : gnAccept ⟨100, 10000000, 5000, 500⟩ = true ∧ gnAccept ⟨0, 10000000, 5000, 500⟩ = false ∧ gnAccept ⟨4294967296, 1, 1, 1⟩ = false := by decide

/-- a consistent-hashing route that starts with at least one destination keeps at least one through every sequence of
additions and (accepted or refused) removals, so GetDestinationIndex's modulo by the ring length is always defined -/
theorem ch_ring_nonempty (ops : List ChOp) (n replicas : Nat) (hn : 1 ≤ n) (hr : 1 ≤ replicas) :
    1 ≤ ops.foldl chStep n ∧ ∀ pos, ringIndex (ops.foldl chStep n) replicas pos ≠ none := by
  have key : 1 ≤ ops.foldl chStep n := by
    induction ops generalizing n with
    | nil => exact hn
    | cons op ops ih =>
      apply ih
      cases op with
      | add => simp [chStep]
      | del idx => simp only [chStep]; split <;> (try split) <;> omega
  refine ⟨key, fun pos => ?_⟩
  have : 0 < List.foldl chStep n ops * replicas := Nat.mul_pos (by omega) (by omega)
  simp [ringIndex]; omega

example : [ChOp.del 0, .del 0, .del 0].foldl chStep 2 = 1 := by decide

/-- the index guard of modDest / DelDestination: an index the command grammar can produce (`[0-9]+`, so never negative) is either
refused or in range — never an out-of-range panic -/
theorem index_guard_safe (index len : Int) (h : 0 ≤ index) : guardedIndex index len ≠ none := by
  simp only [guardedIndex, indexOk]
  by_cases h1 : index ≥ len
  · simp [h1]
  · have h2 : index < len := by omega
    simp [h1, h, h2]

/-- … and that is all the guard gives: a negative index would panic, so the grammar's restriction is needed -/
example : guardedIndex (-1) 3 = none := by decide

end Crng.Props.C14
