import Crng.GNet
/-! # C17 — grafana.net route: retry until acknowledged, series order kept, shutdown drains
`Crng/GNet.lean`: one worker of the route (`run` / `retryFlush`) over an outcome stream, and the shutdown protocol
(N workers, one signal channel, one WaitGroup). Sharding by series name and the two dispatch modes are regenerated facts. -/
namespace Crng.Props.C17
open Crng.GN

/-- everything a worker has accepted, in arrival order, after a whole history of events -/
def runEvs (maxNum : Nat) : Wk → List Ev → Wk
  | w, [] => w
  | w, e :: es => runEvs maxNum (step maxNum w e) es

/-- **retry never skips or reorders**: over any history of receives, timer flushes, shutdown and any sequence of server
answers, acknowledged batches ++ current batch ++ queued metrics is exactly what the worker accepted, in arrival order:
a failed batch is retried unchanged; per-series order follows because one series always goes to one worker -/
theorem retry_never_skips (maxNum : Nat) (w : Wk) (es : List Ev) : (runEvs maxNum w es).all = w.all := by
  induction es generalizing w with
  | nil => rfl
  | cons e es ih => simp only [runEvs]; rw [ih, step_all]

/-- the acknowledged metrics are always a prefix of the accepted ones, in arrival order -/
theorem acked_prefix (maxNum : Nat) (w : Wk) (es : List Ev) (h : w.acked = [] ∧ w.batch = []) :
    (runEvs maxNum w es).acked.flatten <+: good w.queue := by
  have := retry_never_skips maxNum w es
  simp only [Wk.all, h.1, h.2, List.flatten_nil, List.nil_append] at this
  exact ⟨(runEvs maxNum w es).batch ++ good (runEvs maxNum w es).queue, by rw [← List.append_assoc]; exact this⟩

/-- with finitely many failures before the next success, a flush ends with the batch acknowledged -/
theorem flush_acks (w : Wk) : (flushNow w).batch = [] :=
  retryFlush_acks (w.outcomes.length + 1) w (Nat.lt_succ_self _)

/-- **shutdown drains**: after the shutdown event (drain the shard queue, then flush) nothing is left buffered: every
accepted metric that parses is in an acknowledged batch -/
theorem shutdown_drains (maxNum : Nat) (w : Wk) :
    (step maxNum w (.shutdown true)).batch = [] := by
  simp only [step]
  exact flush_acks _

/-- `Shutdown()` returns for every number of workers when the signal reaches all of them and each calls `Done` on exit -/
theorem shutdown_returns (n : Nat) (p : Proto) (hb : p.broadcast = true) (hd : p.doneOnExit = true) : shutdownReturns p n = true :=
  shutdown_ok p n hb hd

/-- the protocol that was repaired (one send, `Done` unreachable) never returns -/
theorem old_shutdown_hangs (n : Nat) (hn : 0 < n) : shutdownReturns ⟨false, false, false⟩ n = false := shutdown_hangs n hn

/-- non-vacuity: batches of two, a failed first attempt: everything is acknowledged, in order, one error counted -/
example :
    let w : Wk := { queue := [(0, true), (1, true), (2, false), (3, true)], outcomes := [.fail, .ok] }
    let r := runEvs 2 w [.recv, .recv, .recv, .recv, .shutdown true]
    r.acked = [[0, 1], [3]] ∧ r.errs = 1 ∧ r.batch = [] ∧ r.queue = [] := by decide

end Crng.Props.C17
