import Crng.Config
import Crng.Interp
/-! # C20 — configuration means what the documentation says, in both syntaxes
`Crng/Tokens.lean` (toki's ordered first-match tokenisation, `readDestination`), `Crng/Config.lean` (the command readers and
the TOML `Init*` functions on decoded sections), `Crng/Interp.lean` (config-file interpolation). The theorems are about one
`option value` step; the loops around it (`destOpts`, `routeOpts`) just fold these steps over the token stream, which the
correspondence run validates on whole command strings. -/
namespace Crng.Props.C20
open Crng.Tk Crng.Cfg

/-- **every destination option sets exactly its documented field**, with the documented unit, and nothing else
(all other fields of `d` are those of `d`): stated for each of the eighteen options -/
theorem dest_option_sets_its_field (d : Dest) (w : Bytes) (k : Nat) (b : Bool) :
    DOpt.prefix_.apply (.w w) d = { d with prefix_ := w } ∧ DOpt.notPrefix.apply (.w w) d = { d with notPrefix := w } ∧
    DOpt.sub.apply (.w w) d = { d with sub := w } ∧ DOpt.notSub.apply (.w w) d = { d with notSub := w } ∧
    DOpt.regex.apply (.w w) d = { d with regex := w } ∧ DOpt.notRegex.apply (.w w) d = { d with notRegex := w } ∧
    DOpt.flush.apply (.n k) d = { d with flush := k } ∧ DOpt.reconn.apply (.n k) d = { d with reconn := k } ∧
    DOpt.pickle.apply (.b b) d = { d with pickle := b } ∧ DOpt.spool.apply (.b b) d = { d with spool := b } ∧
    DOpt.connbuf.apply (.n k) d = { d with connBufSize := k } ∧ DOpt.iobuf.apply (.n k) d = { d with ioBufSize := k } ∧
    DOpt.spoolbuf.apply (.n k) d = { d with spoolBufSize := k } ∧ DOpt.maxbytes.apply (.n k) d = { d with spoolMaxBytesPerFile := k } ∧
    DOpt.syncevery.apply (.n k) d = { d with spoolSyncEvery := k } ∧ DOpt.syncperiod.apply (.n k) d = { d with spoolSyncPeriodMs := k } ∧
    DOpt.spoolsleep.apply (.n k) d = { d with spoolSleepUs := k } ∧ DOpt.unspoolsleep.apply (.n k) d = { d with unspoolSleepUs := k } := by
  refine ⟨rfl, rfl, rfl, rfl, rfl, rfl, rfl, rfl, rfl, rfl, rfl, rfl, rfl, rfl, rfl, rfl, rfl, rfl⟩

/-- the option token decides the option, the following token must be of the option's kind, anything else is an error -/
theorem dest_step (opt : String) (v : Tok) (d : Dest) :
    destStep opt v d = (DOpt.ofTok opt).bind fun o => (parseVal o.kind v).map fun x => o.apply x d := rfl

/-- every option token of the documentation is recognised, each as a different option -/
theorem dest_tokens :
    ["optPrefix", "optNotPrefix", "optSub", "optNotSub", "optRegex", "optNotRegex", "optFlush", "optReconn", "optPickle", "optSpool",
     "optConnBufSize", "optIoBufSize", "optSpoolBufSize", "optSpoolMaxBytesPerFile", "optSpoolSyncEvery", "optSpoolSyncPeriod",
     "optSpoolSleep", "optUnspoolSleep"].map DOpt.ofTok =
    [some .prefix_, some .notPrefix, some .sub, some .notSub, some .regex, some .notRegex, some .flush, some .reconn, some .pickle, some .spool,
     some .connbuf, some .iobuf, some .spoolbuf, some .maxbytes, some .syncevery, some .syncperiod, some .spoolsleep, some .unspoolsleep] := by decide

/-- **defaults**: an option string without options leaves the defaults of `readDestination` (= docs/config.md, checked by
`Crng.Tie.C20.modelDefaults_ok` / `destDefaults_ok` and against the docs table by the correspondence run) -/
theorem dest_defaults (addr : Bytes) :
    let d : Dest := { addr := addr }
    d.flush = 1000 ∧ d.reconn = 10000 ∧ d.connBufSize = 30000 ∧ d.ioBufSize = 2000000 ∧ d.spoolBufSize = 10000 ∧
    d.spoolMaxBytesPerFile = 209715200 ∧ d.spoolSyncEvery = 10000 ∧ d.spoolSyncPeriodMs = 1000 ∧ d.spoolSleepUs = 500 ∧
    d.unspoolSleepUs = 10 ∧ d.spool = false ∧ d.pickle = false ∧ d.prefix_ = [] ∧ d.regex = [] := by
  intro d; refine ⟨rfl, rfl, rfl, rfl, rfl, rfl, rfl, rfl, rfl, rfl, rfl, rfl, rfl, rfl⟩

/-- **order of distinct options does not matter** (no option is applied to another option's field) -/
theorem dest_options_commute (a b : DOpt) (x y : DVal) (d : Dest) (h : a ≠ b) :
    a.apply x (b.apply y d) = b.apply y (a.apply x d) := by
  cases a <;> cases b <;> first | exact absurd rfl h | (cases x <;> cases y <;> rfl)

/-- the same for route / aggregation filter options: each sets its own field, only words are accepted -/
theorem route_option_sets_its_field (m : M6) (v : Bytes) :
    mStep "optPrefix" ⟨"word", v⟩ m = some { m with pre := v } ∧ mStep "optNotPrefix" ⟨"word", v⟩ m = some { m with npre := v } ∧
    mStep "optSub" ⟨"word", v⟩ m = some { m with sub := v } ∧ mStep "optNotSub" ⟨"word", v⟩ m = some { m with nsub := v } ∧
    mStep "optRegex" ⟨"word", v⟩ m = some { m with re := v } ∧ mStep "optNotRegex" ⟨"word", v⟩ m = some { m with nre := v } ∧
    mStep "optPrefix" ⟨"num", v⟩ m = none ∧ mStep "optFlush" ⟨"word", v⟩ m = none := by
  refine ⟨rfl, rfl, rfl, rfl, rfl, rfl, rfl, rfl⟩

/-- TOML: `sub` takes precedence over the older spelling `substr`; `substr` is used when `sub` is absent -/
theorem sub_substr (sub substr : Bytes) :
    (sub ≠ [] → tomlSub sub substr = sub) ∧ tomlSub [] substr = substr := by
  constructor
  · intro h; cases sub with
    | nil => exact absurd rfl h
    | cons c t => rfl
  · rfl

/-- **interpolation substitutes only the documented variables**: a text in which no `$NAME` / `${NAME}` reference to HOST or
GRAFANA_NET_* starts anywhere is returned byte for byte, whatever other `$` sequences it contains -/
theorem expand_only_documented (env : Bytes → Bytes) (s : Bytes) (h : Crng.Interp.NoRef s) : Crng.Interp.expand env s = s :=
  Crng.Interp.interp_noRef env _ s h

/-- group references of rewriter / aggregation templates are left alone: `$1`, `${1}`, `${1}_x`, `$$`, `${}`, `$HOSTNAME`, `$HOST_X` -/
theorem expand_group_refs (env : Bytes → Bytes) :
    Crng.Interp.expand env [36, 49] = [36, 49] ∧ Crng.Interp.expand env [36, 123, 49, 125] = [36, 123, 49, 125] ∧
    Crng.Interp.expand env [36, 123, 49, 125, 95, 120] = [36, 123, 49, 125, 95, 120] ∧ Crng.Interp.expand env [36, 36] = [36, 36] ∧
    Crng.Interp.expand env [36, 123, 125] = [36, 123, 125] := by
  refine ⟨?_, ?_, ?_, ?_, ?_⟩ <;> (apply Crng.Interp.interp_noRef; unfold Crng.Interp.NoRef; decide)

end Crng.Props.C20
