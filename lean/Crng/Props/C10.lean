import Crng.AggProofs
import Crng.Aggregator
/-! # C10 — aggregations emit exactly one point per bucket, once, in order
Model: `Crng/AggCore.lean` (bucket bookkeeping of `AddOrCreate`/`Flush`, generic in the processor) instantiated by
`Crng/Aggregator.lean` (the ten processors over IEEE doubles, `%f` output) — the latter is what the driver runs. -/
namespace Crng.Props.C10
open Crng.Agg Crng.AggCore

/-- an event of the executable aggregator, as the generic bookkeeping sees it -/
def toG (cfg : Cfg) : Crng.Agg.Ev → Crng.AggCore.Ev PS
  | .point key ts v now =>
      .point ((PS.new cfg.fn v ts).getD (.sum v)) (fun p => p.add v ts) key (ts - ts % cfg.interval) (u64 (u64 now - cfg.wait))
  | .tick now => .tick (u64 (now - cfg.wait))

theorem step_eq (cfg : Cfg) (s : Crng.Agg.St) (e : Crng.Agg.Ev) :
    Crng.Agg.step cfg s e = stepG PS.flush s (toG cfg e) := by
  cases e <;> rfl

/-- everything the executable aggregator emits over a history -/
def emitted (cfg : Cfg) : Crng.Agg.St → List Crng.Agg.Ev → List Crng.Agg.Em
  | _, [] => []
  | s, e :: es => (Crng.Agg.step cfg s e).2 ++ emitted cfg (Crng.Agg.step cfg s e).1 es

theorem runG_acc (fl : PS → Option (List (String × Float))) : ∀ (es : List (Crng.AggCore.Ev PS)) (s : Crng.AggCore.St PS) (acc : List Crng.Agg.Em),
    runG fl s acc es = acc ++ runG fl s [] es := by
  intro es
  induction es with
  | nil => intro s acc; simp [runG]
  | cons e es ih => intro s acc; simp only [runG]; rw [ih, ih _ ([] ++ _)]; simp [List.append_assoc]

theorem emitted_eq (cfg : Cfg) : ∀ (es : List Crng.Agg.Ev) (s : Crng.Agg.St),
    emitted cfg s es = runG PS.flush s [] (es.map (toG cfg)) := by
  intro es
  induction es with
  | nil => intro s; rfl
  | cons e es ih =>
    intro s
    simp only [emitted, List.map_cons, runG, step_eq, ih]
    rw [runG_acc PS.flush _ _ ([] ++ _)]; simp

/-- the clock hypothesis of the property ("non-decreasing clock"): a point's threshold `now - wait` is never below the
cutoff of an earlier tick -/
def ClockOK (cfg : Cfg) (es : List Crng.Agg.Ev) : Prop := Crng.AggCore.ClockOK 0 (es.map (toG cfg))

/-- **No bucket is emitted twice.** For every rule (function, interval, wait) and every history of points and ticks
under a clock that does not run backwards, no `(bucket start, output key)` pair occurs twice in the emitted lines
(percentiles: one emission record carrying one line per percentile). -/
theorem emit_once (cfg : Cfg) (es : List Crng.Agg.Ev) (h : ClockOK cfg es) :
    Distinct (emitted cfg {} es) := by
  rw [emitted_eq]; exact Crng.AggCore.emit_once PS.flush _ h

/-- **Ascending order.** Over the whole run emitted bucket starts never decrease. -/
theorem emit_ascending (cfg : Cfg) (es : List Crng.Agg.Ev) (h : ClockOK cfg es) :
    (emitted cfg {} es).Pairwise (fun a b => a.ts ≤ b.ts) := by
  rw [emitted_eq]; exact Crng.AggCore.emit_ascending PS.flush _ h

/-- **Late points are counted, not aggregated.** A point whose bucket is not open any more (`quantized ≤ now - wait`)
and for which no state exists creates no processor state and increments the too-old counter. -/
theorem late_is_counted {P : Type} (mk : P) (upd : P → P) (s : Crng.AggCore.St P) (key : String) (q : Nat)
    (hnew : ∀ ks, lookupB s.aggs q = some ks → ks.find? (·.1 == key) = none) :
    (Crng.AggCore.addOrCreate false mk upd s key q).tooOld = s.tooOld + 1 ∧
    ∀ ks, lookupB (Crng.AggCore.addOrCreate false mk upd s key q).aggs q = some ks → ks.find? (·.1 == key) = none := by
  unfold Crng.AggCore.addOrCreate
  cases hl : lookupB s.aggs q with
  | some ks =>
    have hk := hnew ks hl
    simp only [hk]
    refine ⟨rfl, ?_⟩
    intro ks' h'; simp only [Bool.false_eq_true, if_false] at h'; rw [hl] at h'; cases h'; exact hk
  | none =>
    refine ⟨by simp, ?_⟩
    intro ks' h'
    simp only [Bool.false_eq_true, if_false] at h'
    have : lookupB (s.aggs ++ [(q, ([] : List (String × P)))]) q = some [] := by
      unfold lookupB at hl ⊢
      simp only [Option.map_eq_none_iff] at hl
      simp [List.find?_append, hl]
    rw [this] at h'; cases h'; rfl

/-- non-vacuity: interval 10, wait 20 — two points of one bucket, one late point after the flush; clock hypothesis holds
and exactly one line comes out -/
example :
    let cfg : Cfg := { fn := "sum", interval := 10, wait := 20 }
    let es : List Crng.Agg.Ev := [.point "a" 1003 1.0 1005, .point "a" 1007 2.0 1008, .tick 1030, .point "a" 1004 5.0 1031, .tick 1040]
    ClockOK cfg es ∧ ((emitted cfg {} es).map (·.ts)) = [1000] := by
  refine ⟨?_, by decide⟩
  simp [ClockOK, Crng.AggCore.ClockOK, toG, u64]

end Crng.Props.C10
