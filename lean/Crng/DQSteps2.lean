import Crng.DQSteps
namespace Crng.DQ

/-- the tail check never touches positions, read-ahead or files of a consistent state; at most `depth`/`needSync` -/
theorem checkTail_inv {cfg : Cfg} {s : St} {recs : List Rec} (h : Inv cfg s recs) :
    Inv cfg (checkTail s) recs ∧ (recs ≠ [] → checkTail s = s) ∧ (s.mem.depth = recs.length → checkTail s = s) ∧
    (checkTail s).disk = s.disk ∧ (checkTail s).log = s.log ∧ (checkTail s).g = s.g := by
  unfold checkTail
  cases hd : hasData s.mem
  · have hnil : recs = [] := by
      cases recs with
      | nil => rfl
      | cons r rs => have := (hasData_iff cfg s _ h).mpr (by simp); rw [hd] at this; cases this
    subst hnil
    have hc := h.chain
    simp [Chain] at hc
    simp only [Bool.false_eq_true, if_false]
    have hpos : ∀ (m : Mem), m.rfn = s.mem.rfn → m.wfn = s.mem.wfn → m.rpos = s.mem.rpos → m.wpos = s.mem.wpos →
        (m.rfn != m.wfn || m.rpos != m.wpos) = false := by
      intro m e1 e2 e3 e4; rw [e1, e2, e3, e4, hc.1, hc.2]; simp
    by_cases hdep : s.mem.depth = 0
    · have hne : (s.mem.depth != 0) = false := by simp [hdep]
      simp only [hne, Bool.false_eq_true, if_false, hpos s.mem rfl rfl rfl rfl]
      exact ⟨h, by simp, by simp, by simp, by simp, by simp⟩
    · have hne : (s.mem.depth != 0) = true := by simpa using hdep
      simp only [hne, if_true, hpos _ rfl rfl rfl rfl, Bool.false_eq_true, if_false]
      refine ⟨h.congr rfl rfl rfl rfl rfl rfl rfl rfl, by simp, ?_, by simp, by simp, by simp⟩
      intro hh; simp at hh; exact absurd hh hdep
  · simp only [if_true]; exact ⟨h, by simp, by simp, by simp, by simp, by simp⟩

/-- `moveForward` when the read file changes: the old segment is removed and a sync is requested -/
def mfRemoved (s : St) : St :=
  ({ { s with mem := { s.mem with rfn := s.mem.nrfn, rpos := s.mem.nrpos, depth := s.mem.depth - 1 },
              g := { s.g with pend := s.g.pend.tail, dsince := s.g.dsince + 1 } } with
      mem := { { s.mem with rfn := s.mem.nrfn, rpos := s.mem.nrpos, depth := s.mem.depth - 1 } with needSync := true },
      disk := segRemove s.disk s.mem.rfn } : St).crash "read.remove"
/-- `moveForward` inside one file -/
def mfKept (s : St) : St :=
  { s with mem := { s.mem with rfn := s.mem.nrfn, rpos := s.mem.nrpos, depth := s.mem.depth - 1 },
           g := { s.g with pend := s.g.pend.tail, dsince := s.g.dsince + 1 } }
/-- the state after `moveForward`, before the tail check -/
def mfState (s : St) : St := if s.mem.rfn != s.mem.nrfn then mfRemoved s else mfKept s

theorem moveForward_eq_checkTail (s : St) : moveForward s = checkTail (mfState s) := by
  unfold moveForward mfState mfRemoved mfKept; rfl

theorem mfState_inv {cfg : Cfg} {s : St} {r : Rec} {rs : List Rec} (h : Inv cfg s (r :: rs))
    (hr : Ready cfg s (r :: rs)) : Inv cfg (mfState s) rs := by
  obtain ⟨hdat, hnext⟩ := hr r rs rfl
  have hpos := h.chain.1
  have hf : r.file = s.mem.rfn := by have := congrArg Prod.fst hpos; simpa using this
  have hnf : s.mem.nrfn = (r.next cfg).1 := by have := congrArg Prod.fst hnext; simpa using this
  have hlow := chain_bound cfg rs _ _ h.chain.2
  have hchain : Chain cfg (s.mem.nrfn, s.mem.nrpos) rs (s.mem.wfn, s.mem.wpos) := by
    rw [hnext]; exact h.chain.2
  unfold mfState mfRemoved mfKept
  split
  · exact { chain := hchain
            ondisk := by
              intro r' hr'
              obtain ⟨c, rest, h1, h2⟩ := h.ondisk r' (List.mem_cons_of_mem _ hr')
              have hge := (hlow r' hr').1
              have : r'.file ≠ s.mem.rfn := by
                have hroll : (r.next cfg).1 = r.file + 1 := by
                  rename_i hne
                  have hne' : s.mem.rfn ≠ s.mem.nrfn := by simpa using hne
                  unfold Rec.next at hnf ⊢
                  split
                  · rfl
                  · rename_i hno; simp [hno] at hnf; omega
                omega
              exact ⟨c, rest, by simp only [St.crash]; rw [segGet_segRemove_other _ _ _ this]; exact h1, h2⟩
            small := fun r' hr' => h.small r' (List.mem_cons_of_mem _ hr')
            ahead := Or.inl ⟨rfl, rfl⟩ }
  · exact { chain := hchain
            ondisk := fun r' hr' => h.ondisk r' (List.mem_cons_of_mem _ hr')
            small := fun r' hr' => h.small r' (List.mem_cons_of_mem _ hr')
            ahead := Or.inl ⟨rfl, rfl⟩ }

theorem mfState_depth (s : St) : (mfState s).mem.depth = s.mem.depth - 1 := by
  unfold mfState mfRemoved mfKept; split <;> simp [St.crash]

theorem moveForward_inv {cfg : Cfg} {s : St} {r : Rec} {rs : List Rec} (h : Inv cfg s (r :: rs))
    (hr : Ready cfg s (r :: rs)) : Inv cfg (moveForward s) rs ∧
      (s.mem.depth = (r :: rs).length → (moveForward s).mem.depth = rs.length ∧ moveForward s = mfState s) := by
  have pre := mfState_inv h hr
  obtain ⟨c1, _, c3, _⟩ := checkTail_inv pre
  rw [moveForward_eq_checkTail]
  refine ⟨c1, ?_⟩
  intro hdep
  have hd1 : (mfState s).mem.depth = (rs.length : Int) := by rw [mfState_depth]; simp at hdep; omega
  rw [c3 hd1]
  exact ⟨hd1, rfl⟩

end Crng.DQ
