namespace Crng.MD5
abbrev Bytes := List UInt8

def sTab : Array UInt32 := #[7,12,17,22,7,12,17,22,7,12,17,22,7,12,17,22, 5,9,14,20,5,9,14,20,5,9,14,20,5,9,14,20,
  4,11,16,23,4,11,16,23,4,11,16,23,4,11,16,23, 6,10,15,21,6,10,15,21,6,10,15,21,6,10,15,21]
def kTab : Array UInt32 := #[
  0xd76aa478,0xe8c7b756,0x242070db,0xc1bdceee,0xf57c0faf,0x4787c62a,0xa8304613,0xfd469501,
  0x698098d8,0x8b44f7af,0xffff5bb1,0x895cd7be,0x6b901122,0xfd987193,0xa679438e,0x49b40821,
  0xf61e2562,0xc040b340,0x265e5a51,0xe9b6c7aa,0xd62f105d,0x02441453,0xd8a1e681,0xe7d3fbc8,
  0x21e1cde6,0xc33707d6,0xf4d50d87,0x455a14ed,0xa9e3e905,0xfcefa3f8,0x676f02d9,0x8d2a4c8a,
  0xfffa3942,0x8771f681,0x6d9d6122,0xfde5380c,0xa4beea44,0x4bdecfa9,0xf6bb4b60,0xbebfbc70,
  0x289b7ec6,0xeaa127fa,0xd4ef3085,0x04881d05,0xd9d4d039,0xe6db99e5,0x1fa27cf8,0xc4ac5665,
  0xf4292244,0x432aff97,0xab9423a7,0xfc93a039,0x655b59c3,0x8f0ccc92,0xffeff47d,0x85845dd1,
  0x6fa87e4f,0xfe2ce6e0,0xa3014314,0x4e0811a1,0xf7537e82,0xbd3af235,0x2ad7d2bb,0xeb86d391]

def rotl (x : UInt32) (c : UInt32) : UInt32 := (x <<< c) ||| (x >>> (32 - c))

def le32 (b : Array UInt8) (i : Nat) : UInt32 :=
  b[i]!.toUInt32 ||| (b[i+1]!.toUInt32 <<< 8) ||| (b[i+2]!.toUInt32 <<< 16) ||| (b[i+3]!.toUInt32 <<< 24)

def pad (msg : Bytes) : Array UInt8 :=
  let n := msg.length
  let zeros := (119 - n % 64) % 64   -- after 0x80, pad to 56 mod 64
  let bitlen := n * 8
  (msg ++ [0x80] ++ List.replicate zeros 0 ++ (List.range 8).map (fun i => UInt8.ofNat (bitlen / 2^(8*i) % 256))).toArray

def block (st : UInt32 × UInt32 × UInt32 × UInt32) (m : Array UInt8) (off : Nat) : UInt32 × UInt32 × UInt32 × UInt32 := Id.run do
  let (a0, b0, c0, d0) := st
  let mut a := a0; let mut b := b0; let mut c := c0; let mut d := d0
  for i in [0:64] do
    let (f, g) :=
      if i < 16 then ((b &&& c) ||| ((~~~ b) &&& d), i)
      else if i < 32 then ((d &&& b) ||| ((~~~ d) &&& c), (5*i + 1) % 16)
      else if i < 48 then (b ^^^ c ^^^ d, (3*i + 5) % 16)
      else (c ^^^ (b ||| (~~~ d)), (7*i) % 16)
    let f2 := f + a + kTab[i]! + le32 m (off + 4*g)
    a := d; d := c; c := b
    b := b + rotl f2 sTab[i]!
  (a0 + a, b0 + b, c0 + c, d0 + d)

def sum (msg : Bytes) : Bytes :=
  let m := pad msg
  let st := (List.range (m.size / 64)).foldl (fun st k => block st m (64*k)) ((0x67452301 : UInt32), (0xefcdab89 : UInt32), (0x98badcfe : UInt32), (0x10325476 : UInt32))
  let (a, b, c, d) := st
  [a, b, c, d].flatMap fun (w : UInt32) => [w.toUInt8, (w >>> 8).toUInt8, (w >>> 16).toUInt8, (w >>> 24).toUInt8]

/-- carbon ring position: first two digest bytes, big endian -/
def ringPos (key : Bytes) : Nat := match sum key with | a :: b :: _ => a.toNat * 256 + b.toNat | _ => 0
end Crng.MD5
