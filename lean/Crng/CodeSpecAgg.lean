import Crng.CodePrelude
/-! Hand-written closed form of imperatives.go `readAddAgg` on a token list (`addAgg <fn> [regex | option…] <fmt> <interval>
<wait> [cache=…] [dropRaw=…]`): the function token, the optional bare regex of the old syntax, the filter options in any
order, the three positional arguments, the two trailing options with their defaults (cache on, dropRaw off), and the calls of
`matcher.New`, `aggregator.New`, `table.AddAggregator`. `Crng.Tie.CodeReadAgg` proves the function regenerated from /repo
equal to this for every token list. -/
namespace Crng.CodeSpecAgg
open Crng.Code

structure M6 where
  prefix_ : Bytes := []
  notPrefix : Bytes := []
  sub : Bytes := []
  notSub : Bytes := []
  regex : Bytes := []
  notRegex : Bytes := []

/-- which token sets which filter option -/
def mSet : Token → Option (Bytes → M6 → M6)
  | .optPrefix => some fun v m => { m with prefix_ := v }
  | .optNotPrefix => some fun v m => { m with notPrefix := v }
  | .optSub => some fun v m => { m with sub := v }
  | .optNotSub => some fun v m => { m with notSub := v }
  | .optRegex => some fun v m => { m with regex := v }
  | .optNotRegex => some fun v m => { m with notRegex := v }
  | _ => none

abbrev T1 := Bytes × Bytes × Bytes × Bytes × Bytes × Scanner × Bytes × TokV
def M6.toTuple (m : M6) (s : Scanner) (t : TokV) : T1 := (m.notPrefix, m.notRegex, m.notSub, m.prefix_, m.regex, s, m.sub, t)
abbrev R := Err × Scanner

def stepMap {σ τ ρ : Type} (f : σ → τ) : Step σ ρ → Step τ ρ
  | .next s => .next (f s)
  | .brk s => .brk (f s)
  | .ret r => .ret r
@[simp] theorem stepMap_next {σ τ ρ : Type} (f : σ → τ) (s : σ) : stepMap (ρ := ρ) f (.next s) = .next (f s) := rfl
@[simp] theorem stepMap_ret {σ τ ρ : Type} (f : σ → τ) (r : ρ) : stepMap (σ := σ) f (.ret r) = .ret r := rfl
@[simp] theorem stepMap_ite {σ τ ρ : Type} (f : σ → τ) (c : Prop) [Decidable c] (a b : Step σ ρ) :
    stepMap f (if c then a else b) = if c then stepMap f a else stepMap f b := by split <;> rfl

/-- one iteration of the filter-option loop (the current token is an option token) -/
def step1 (m : M6) (s : Scanner) (t : TokV) : Step (M6 × Scanner × TokV) R :=
  match mSet t.Token with
  | none => .ret (some "unexpected token %d %q", s)
  | some f =>
    if s.Next.1.Token != Token.word then .ret (errFmtAddAgg, s.Next.2)
    else .next (f s.Next.1.Value m, s.Next.2.Next.2, s.Next.2.Next.1)

def tupleStep1 (st : T1) : Step T1 R :=
  match st with
  | (notPrefix, notRegex, notSub, prefix_, regex, s, sub, t) =>
    stepMap (fun (x : M6 × Scanner × TokV) => x.1.toTuple x.2.1 x.2.2) (step1 { prefix_, notPrefix, sub, notSub, regex, notRegex } s t)
def tupleCond1 (st : T1) : Bool :=
  match st with
  | (_, _, _, _, _, _, _, t) => (t.Token != toki_EOF) && (t.Token != Token.word)

/-- the filter-option loop as recursion over the remaining tokens, `t` being the token already read -/
def optLoop1 : TokV → List TokV → M6 → Except R (M6 × TokV × Scanner)
  | t, toks, m =>
    if t.Token = Token.EOF ∨ t.Token = Token.word then .ok (m, t, ⟨toks⟩)
    else match mSet t.Token with
      | none => .error (some "unexpected token %d %q", ⟨toks⟩)
      | some f =>
        match toks with
        | [] => .error (errFmtAddAgg, ⟨[]⟩)
        | v :: r =>
          if v.Token != Token.word then .error (errFmtAddAgg, ⟨r⟩)
          else match r with
            | [] => .ok (f v.Value m, ⟨Token.EOF, []⟩, ⟨[]⟩)
            | t' :: r' => optLoop1 t' r' (f v.Value m)
termination_by _ toks _ => toks.length
decreasing_by simp_wf; omega

/-- one iteration of the trailing-option loop on (cache, dropRaw) -/
abbrev T2 := Bool × Bool × Err × Scanner × TokV
def tupleStep2 (E : Env) (st : T2) : Step T2 R :=
  match st with
  | (cache, dropRaw, err, s, t) =>
    if t.Token = Token.optCache ∨ t.Token = Token.optDropRaw then
      if s.Next.1.Token = Token.optTrue ∨ s.Next.1.Token = Token.optFalse then
        match E.strconv_ParseBool s.Next.1.Value with
        | (_, some e) => .ret (some e, s.Next.2)
        | (b, none) =>
          if t.Token = Token.optCache then .next (b, dropRaw, none, s.Next.2.Next.2, s.Next.2.Next.1)
          else .next (cache, b, none, s.Next.2.Next.2, s.Next.2.Next.1)
      else .ret (errFmtAddAgg, s.Next.2)
    else .ret (some "unexpected token %d %q", s)
def tupleCond2 (st : T2) : Bool :=
  match st with
  | (_, _, _, _, t) => t.Token != toki_EOF

/-- the trailing options as recursion over the remaining tokens -/
def optLoop2 (E : Env) : TokV → List TokV → Bool → Bool → Except R (Bool × Bool × Scanner)
  | t, toks, cache, dropRaw =>
    if t.Token = Token.EOF then .ok (cache, dropRaw, ⟨toks⟩)
    else if t.Token = Token.optCache ∨ t.Token = Token.optDropRaw then
      match toks with
      | [] => .error (errFmtAddAgg, ⟨[]⟩)
      | v :: r =>
        if v.Token = Token.optTrue ∨ v.Token = Token.optFalse then
          match E.strconv_ParseBool v.Value with
          | (_, some e) => .error (some e, ⟨r⟩)
          | (b, none) =>
            match r with
            | [] => .ok (if t.Token = Token.optCache then b else cache, if t.Token = Token.optCache then dropRaw else b, ⟨[]⟩)
            | t' :: r' => optLoop2 E t' r' (if t.Token = Token.optCache then b else cache) (if t.Token = Token.optCache then dropRaw else b)
        else .error (errFmtAddAgg, ⟨r⟩)
    else .error (some "unexpected token %d %q", ⟨toks⟩)
termination_by _ toks _ _ => toks.length
decreasing_by simp_wf; omega

/-- loop state of `readRouteOpts`: its (named) results and the scanner -/
abbrev T3 := Err × Bytes × Bytes × Bytes × Bytes × Bytes × Scanner × Bytes

def M6.toT3 (m : M6) (e : Err) (s : Scanner) : T3 := (e, m.notPrefix, m.notRegex, m.notSub, m.prefix_, m.regex, s, m.sub)
abbrev R3 := Bytes × Bytes × Bytes × Bytes × Bytes × Bytes × Err × Scanner
def M6.result (m : M6) (e : Err) (s : Scanner) : R3 := (m.prefix_, m.notPrefix, m.sub, m.notSub, m.regex, m.notRegex, e, s)
def badMsg : Token → String
  | .optPrefix => "bad prefix option" | .optNotPrefix => "bad notPrefix option" | .optSub => "bad sub option"
  | .optNotSub => "bad notSub option" | .optRegex => "bad regex option" | .optNotRegex => "bad notRegex option"
  | _ => ""

/-- one iteration of `readRouteOpts`' loop -/
def step3 (m : M6) (e : Err) (s : Scanner) : Step (M6 × Err × Scanner) R3 :=
  let t := s.Next.1
  let s1 := s.Next.2
  if t.Token = Token.EOF ∨ t.Token = Token.sep then .ret (m.result e s1)
  else if t.Token = Token.Error then .ret (({} : M6).result (some "read the error token instead of one i recognize") s1)
  else match mSet t.Token with
    | none => .ret (({} : M6).result (some "unrecognized option '%s'") s1)
    | some f =>
      if s1.Next.1.Token != Token.word then .ret (({} : M6).result (some (badMsg t.Token)) s1.Next.2)
      else .next (f s1.Next.1.Value m, e, s1.Next.2)
def tupleStep3 (st : T3) : Step T3 R3 :=
  match st with
  | (err, notPrefix, notRegex, notSub, prefix_, regex, s, sub) =>
    stepMap (fun (x : M6 × Err × Scanner) => x.1.toT3 x.2.1 x.2.2) (step3 { prefix_, notPrefix, sub, notSub, regex, notRegex } err s)

/-- the route options (`addRoute <type> <key> [option…]  <dest>…`, `modRoute`): read until the double-blank separator or the end -/
def routeOpts : List TokV → M6 → R3
  | [], m => m.result none ⟨[]⟩
  | t :: r, m =>
    if t.Token = Token.EOF ∨ t.Token = Token.sep then m.result none ⟨r⟩
    else if t.Token = Token.Error then ({} : M6).result (some "read the error token instead of one i recognize") ⟨r⟩
    else match mSet t.Token with
      | none => ({} : M6).result (some "unrecognized option '%s'") ⟨r⟩
      | some f =>
        match r with
        | [] => ({} : M6).result (some (badMsg t.Token)) ⟨[]⟩
        | v :: r2 =>
          if v.Token != Token.word then ({} : M6).result (some (badMsg t.Token)) ⟨r2⟩
          else routeOpts r2 (f v.Value m)
termination_by toks => toks.length
decreasing_by simp_wf; omega

def isFn (t : Token) : Bool :=
  t == Token.sumFn || t == Token.avgFn || t == Token.minFn || t == Token.maxFn || t == Token.lastFn || t == Token.deltaFn ||
  t == Token.countFn || t == Token.deriveFn || t == Token.stdevFn

/-- after the filter options: regex required, format word, interval, wait, trailing options, constructors, registration -/
def finishAgg (E : Env) (table : TableI) (fn : Bytes) (m : M6) (t : TokV) (s : Scanner) : Res R :=
  if m.regex == [] then ([], some "need a regex string", s)
  else if t.Token != Token.word then ([], some "need a format string", s)
  else
    let iv := s.Next.1
    if iv.Token != Token.num then ([], some "need an interval number", s.Next.2)
    else match E.strconv_Atoi (E.strings_TrimSpace iv.Value) with
      | (_, some e) => ([], some e, s.Next.2)
      | (interval, none) =>
        let w := s.Next.2.Next.1
        let s2 := s.Next.2.Next.2
        if w.Token != Token.num then ([], some "need a wait number", s2)
        else match E.strconv_Atoi (E.strings_TrimSpace w.Value) with
          | (_, some e) => ([], some e, s2)
          | (wait, none) =>
            match optLoop2 E s2.Next.1 s2.Next.2.toks true false with
            | .error (e, s3) => ([], e, s3)
            | .ok (cache, dropRaw, s3) =>
              match E.matcher_New m.prefix_ m.notPrefix m.sub m.notSub m.regex m.notRegex with
              | (_, some e) => ([], some e, s3)
              | (mm, none) =>
                match E.aggregator_New fn mm t.Value cache interval wait dropRaw () with
                | (_, some e) => ([], some e, s3)
                | (agg, none) => ([Ev.call "table.AddAggregator" table.id [arg agg]], none, s3)

/-- closed form of `readAddAgg` -/
def readAddAggSpec (E : Env) (toks : List TokV) (table : TableI) : Res R :=
  let f := (Scanner.mk toks).Next.1
  let s0 := (Scanner.mk toks).Next.2
  if isFn f.Token = false then ([], some "invalid function. need avg/max/min/sum/last/count/delta/derive/stdev", s0)
  else
    let fn := Lib.sliceTo f.Value (Lib.len f.Value - 1)
    let t1 := s0.Next.1
    let s1 := s0.Next.2
    -- old syntax: a bare word right after the function is the regex
    let m0 : M6 := if t1.Token == Token.word then { regex := t1.Value } else {}
    let t2 := if t1.Token == Token.word then s1.Next.1 else t1
    let s2 := if t1.Token == Token.word then s1.Next.2 else s1
    match optLoop1 t2 s2.toks m0 with
    | .error (e, s) => ([], e, s)
    | .ok (m, t, s) => finishAgg E table fn m t s

end Crng.CodeSpecAgg
