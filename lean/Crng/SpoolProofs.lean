import Crng.Spool
namespace Crng.Spool

theorem mem_erase_ne {l : List Nat} {a b : Nat} (h : a ∈ l) (hne : a ≠ b) : a ∈ l.erase b :=
  (List.mem_erase_of_ne hne).mpr h

/-- `Covered` carries over when every holding place's content stays covered -/
theorem covered_mono {s s' : S}
    (hrecv : ∀ id, id ∈ s.recv → Covered s' id)
    (hcnt : ∀ id, id ∈ s.counted → Covered s' id)
    (hconn : ∀ k id, inConn (s.conns k) id → Covered s' id)
    (hredo : ∀ id, id ∈ s.redo → Covered s' id)
    (hsp : ∀ id, id ∈ s.spoolQ → Covered s' id) : ∀ id, Covered s id → Covered s' id := by
  intro id h
  rcases h with h | h | ⟨k, h⟩ | h | h
  · exact hrecv id h
  · exact hcnt id h
  · exact hconn k id h
  · exact hredo id h
  · exact hsp id h

theorem cov_recv {s : S} {id : Nat} (h : id ∈ s.recv) : Covered s id := Or.inl h
theorem cov_cnt {s : S} {id : Nat} (h : id ∈ s.counted) : Covered s id := Or.inr (Or.inl h)
theorem cov_conn {s : S} {id : Nat} (k : Nat) (h : inConn (s.conns k) id) : Covered s id := Or.inr (Or.inr (Or.inl ⟨k, h⟩))
theorem cov_redo {s : S} {id : Nat} (h : id ∈ s.redo) : Covered s id := Or.inr (Or.inr (Or.inr (Or.inl h)))
theorem cov_sp {s : S} {id : Nat} (h : id ∈ s.spoolQ) : Covered s id := Or.inr (Or.inr (Or.inr (Or.inr h)))

/-- only connection `k` changed, to `c'`, and whatever `k` held is still covered -/
theorem covered_conn_change {s s' : S} {k : Nat} {c' : Conn}
    (hconns : s'.conns = upd s.conns k c')
    (hrecv : ∀ id, id ∈ s.recv → id ∈ s'.recv) (hcnt : ∀ id, id ∈ s.counted → id ∈ s'.counted)
    (hredo : ∀ id, id ∈ s.redo → id ∈ s'.redo) (hsp : ∀ id, id ∈ s.spoolQ → id ∈ s'.spoolQ)
    (hk : ∀ id, inConn (s.conns k) id → Covered s' id) : ∀ id, Covered s id → Covered s' id := by
  apply covered_mono
  · exact fun id h => cov_recv (hrecv id h)
  · exact fun id h => cov_cnt (hcnt id h)
  · intro j id h
    by_cases hj : j = k
    · subst hj; exact hk id h
    · exact cov_conn j (by rw [hconns, upd_other _ _ hj]; exact h)
  · exact fun id h => cov_redo (hredo id h)
  · exact fun id h => cov_sp (hsp id h)

theorem conserved_of {s s' : S} (hc : Conserved s) (hh : s'.handed = s.handed) (hm : ∀ id, Covered s id → Covered s' id) :
    Conserved s' := by
  intro id hid; rw [hh] at hid; exact hm id (hc id hid)

theorem conserved_cons {s s' : S} {x : Nat} (hc : Conserved s) (hh : s'.handed = x :: s.handed) (hx : Covered s' x)
    (hm : ∀ id, Covered s id → Covered s' id) : Conserved s' := by
  intro id hid; rw [hh] at hid
  rcases List.mem_cons.mp hid with rfl | h
  · exact hx
  · exact hm id (hc id h)

theorem cur_open {s : S} (hi : Inv s) {k : Nat} (hcur : s.cur = some k) : (s.conns k).collected = false := by
  cases h : (s.conns k).collected with
  | false => rfl
  | true => have := hi.collected_noticed k h; rw [hi.cur_unnoticed k hcur] at this; cases this

/-- one enabled step keeps the conservation property — under H1 and H2 -/
theorem step_conserved (s : S) (a : Act) (hen : enabled true true s a = true) (hc : Conserved s) (hi : Inv s) :
    Conserved (step s a) := by
  cases a with
  | handoffQueued id =>
    simp only [enabled] at hen
    cases hcur : s.cur with
    | none => rw [hcur] at hen; cases hen
    | some k =>
      simp only [step, hcur]
      refine conserved_cons hc rfl (cov_conn k ?_) ?_
      · simp only [upd_same]
        exact ⟨cur_open hi hcur, Or.inl (by simp)⟩
      · refine covered_conn_change (s := s) (k := k) rfl (fun _ h => h) (fun _ h => h) (fun _ h => h) (fun _ h => h) ?_
        intro x hx
        exact cov_conn k (by simp only [upd_same]; exact ⟨hx.1, hx.2.elim (fun h => Or.inl (by simp [h])) (fun h => Or.inr h)⟩)
  | handoffDropSlow id =>
    refine conserved_cons hc rfl (cov_cnt (by simp [step])) ?_
    exact covered_mono (fun _ h => cov_recv h) (fun _ h => cov_cnt (by simp [step, h])) (fun k _ h => cov_conn k h)
      (fun _ h => cov_redo h) (fun _ h => cov_sp h)
  | handoffDropSpool id =>
    refine conserved_cons hc rfl (cov_cnt (by simp [step])) ?_
    exact covered_mono (fun _ h => cov_recv h) (fun _ h => cov_cnt (by simp [step, h])) (fun k _ h => cov_conn k h)
      (fun _ h => cov_redo h) (fun _ h => cov_sp h)
  | handoffSpooled id =>
    refine conserved_cons hc rfl (cov_sp (by simp [step])) ?_
    exact covered_mono (fun _ h => cov_recv h) (fun _ h => cov_cnt h) (fun k _ h => cov_conn k h)
      (fun _ h => cov_redo h) (fun _ h => cov_sp (by simp [step, h]))
  | take k =>
    simp only [enabled, Bool.and_eq_true, Bool.not_eq_true', Option.isNone_iff_eq_none, decide_eq_true_eq] at hen
    obtain ⟨⟨⟨_, _⟩, hhd⟩, _⟩ := hen
    cases hq : (s.conns k).inQ with
    | nil => simp only [step, hq]; exact hc
    | cons y q =>
      simp only [step, hq]
      refine conserved_of hc rfl ?_
      refine covered_conn_change (s := s) (k := k) rfl (fun _ h => h) (fun _ h => h) (fun _ h => h) (fun _ h => h) ?_
      intro x hx
      refine cov_conn k ?_
      simp only [upd_same]
      refine ⟨hx.1, ?_⟩
      rcases hx.2 with h | h | h
      · rw [hq] at h
        rcases List.mem_cons.mp h with rfl | h
        · exact Or.inr (Or.inl rfl)
        · exact Or.inl h
      · rw [hhd] at h; cases h
      · exact Or.inr (Or.inr h)
  | keepAdd k =>
    cases hh : (s.conns k).hd with
    | none => simp only [step, hh]; exact hc
    | some y =>
      simp only [step, hh]
      refine conserved_of hc rfl ?_
      refine covered_conn_change (s := s) (k := k) rfl (fun _ h => h) (fun _ h => h) (fun _ h => h) (fun _ h => h) ?_
      intro x hx
      refine cov_conn k ?_
      simp only [upd_same]
      refine ⟨hx.1, ?_⟩
      rcases hx.2 with h | h | h
      · exact Or.inl h
      · rw [hh] at h; cases h; exact Or.inr (Or.inr (by simp))
      · exact Or.inr (Or.inr (by simp [h]))
  | deliver k id =>
    simp only [step]
    refine conserved_of hc rfl ?_
    refine covered_conn_change (s := s) (k := k) rfl (fun _ h => by simp [h]) (fun _ h => h) (fun _ h => h) (fun _ h => h) ?_
    intro x hx
    exact cov_conn k (by simp only [upd_same]; exact hx)
  | rotate k id =>
    simp only [enabled, Bool.and_eq_true, Bool.not_true, Bool.false_or, List.contains_eq_mem, decide_eq_true_eq] at hen
    simp only [step]
    refine conserved_of hc rfl ?_
    refine covered_conn_change (s := s) (k := k) rfl (fun _ h => h) (fun _ h => h) (fun _ h => h) (fun _ h => h) ?_
    intro x hx
    by_cases hxi : x = id
    · subst hxi; exact cov_recv hen.2
    · refine cov_conn k ?_
      simp only [upd_same]
      exact ⟨hx.1, hx.2.elim Or.inl (fun h => h.elim (fun h => Or.inr (Or.inl h)) (fun h => Or.inr (Or.inr (mem_erase_ne h hxi))))⟩
  | die k =>
    simp only [step]
    refine conserved_of hc rfl ?_
    refine covered_conn_change (s := s) (k := k) rfl (fun _ h => h) (fun _ h => h) (fun _ h => h) (fun _ h => h) ?_
    intro x hx
    exact cov_conn k (by simp only [upd_same]; exact hx)
  | stop k =>
    simp only [step]
    refine conserved_of hc rfl ?_
    refine covered_conn_change (s := s) (k := k) rfl (fun _ h => h) (fun _ h => h) (fun _ h => h) (fun _ h => h) ?_
    intro x hx
    exact cov_conn k (by simp only [upd_same]; exact hx)
  | notice =>
    cases hcur : s.cur with
    | none => simp only [step, hcur]; exact hc
    | some k =>
      simp only [step, hcur]
      refine conserved_of hc rfl ?_
      refine covered_conn_change (s := s) (k := k) rfl (fun _ h => h) (fun _ h => h) (fun _ h => h) (fun _ h => h) ?_
      intro x hx
      exact cov_conn k (by simp only [upd_same]; exact hx)
  | collect k =>
    simp only [enabled, Bool.and_eq_true, Bool.not_true, Bool.false_or, Bool.not_eq_true', decide_eq_true_eq] at hen
    have hhd := hi.stopped_hd k hen.2
    simp only [step]
    refine conserved_of hc rfl ?_
    refine covered_conn_change (s := s) (k := k) rfl (fun _ h => h) (fun _ h => h) (fun _ h => by simp [h]) (fun _ h => h) ?_
    intro x hx
    rcases hx.2 with h | h | h
    · exact cov_redo (by simp [h])
    · rw [hhd] at h; cases h
    · exact cov_redo (by simp [h])
  | ingest =>
    cases hr : s.redo with
    | nil => simp only [step, hr]; exact hc
    | cons y r =>
      simp only [step, hr]
      refine conserved_of hc rfl ?_
      refine covered_mono (fun _ h => cov_recv h) (fun _ h => cov_cnt h) (fun k _ h => cov_conn k h) ?_ (fun _ h => cov_sp (by simp [h]))
      intro x h
      rw [hr] at h
      rcases List.mem_cons.mp h with rfl | h
      · exact cov_sp (by simp)
      · exact cov_redo h
  | unspoolQueued =>
    cases hcur : s.cur with
    | none => simp only [step, hcur]; exact hc
    | some k =>
      cases hq : s.spoolQ with
      | nil => simp only [step, hcur, hq]; exact hc
      | cons y q =>
        simp only [step, hcur, hq]
        refine conserved_of hc rfl ?_
        refine covered_mono (fun _ h => cov_recv h) (fun _ h => cov_cnt h) ?_ (fun _ h => cov_redo h) ?_
        · intro j x hx
          refine cov_conn j ?_
          by_cases hj : j = k
          · subst hj
            simp only [upd_same]
            exact ⟨hx.1, hx.2.elim (fun h => Or.inl (by simp [h])) Or.inr⟩
          · simp only [upd_other _ _ hj]; exact hx
        · intro x h
          rw [hq] at h
          rcases List.mem_cons.mp h with rfl | h
          · exact cov_conn k (by simp only [upd_same]; exact ⟨cur_open hi hcur, Or.inl (by simp)⟩)
          · exact cov_sp h
  | unspoolDropSlow =>
    cases hq : s.spoolQ with
    | nil => simp only [step, hq]; exact hc
    | cons y q =>
      simp only [step, hq]
      refine conserved_of hc rfl ?_
      refine covered_mono (fun _ h => cov_recv h) (fun _ h => cov_cnt (by simp [h])) (fun k _ h => cov_conn k h) (fun _ h => cov_redo h) ?_
      intro x h
      rw [hq] at h
      rcases List.mem_cons.mp h with rfl | h
      · exact cov_cnt (by simp)
      · exact cov_sp h
  | reconnect =>
    simp only [step]
    exact conserved_of hc rfl (covered_mono (fun _ h => cov_recv h) (fun _ h => cov_cnt h) (fun k _ h => cov_conn k h)
      (fun _ h => cov_redo h) (fun _ h => cov_sp h))

/-- only connection `k` (already opened) changed: what the new record has to satisfy -/
theorem inv_conn_change {s s' : S} {k : Nat} {c' : Conn} (hi : Inv s) (hk : k < s.ngen)
    (hconns : s'.conns = upd s.conns k c') (hcur : s'.cur = s.cur) (hngen : s'.ngen = s.ngen)
    (hcount : s'.counted.length = s'.slowConn + s'.slowSpool)
    (hnot : c'.noticed = (s.conns k).noticed)
    (hcol : c'.collected = true → c'.noticed = true)
    (hst : c'.stopped = true → c'.hd = none)
    (hnd : c'.noticed = true → c'.dead = true) (hsd : c'.stopped = true → c'.dead = true)
    (hwire : c'.dead = false → ∀ id ∈ c'.keep, id ∈ c'.wire ∨ id ∈ s'.recv)
    (hrecv : ∀ id, id ∈ s.recv → id ∈ s'.recv) : Inv s' := by
  have other : ∀ j, j ≠ k → s'.conns j = s.conns j := fun j hj => by rw [hconns, upd_other _ _ hj]
  have same : s'.conns k = c' := by rw [hconns, upd_same]
  refine ⟨?_, ?_, ?_, ?_, ?_, ?_, ?_, ?_, hcount, ?_⟩
  · intro j hj
    rw [hngen] at hj
    rw [other j (by omega)]; exact hi.fresh j hj
  · intro j hj; rw [hcur] at hj; rw [hngen]; exact hi.cur_lt j hj
  · intro j hj
    rw [hcur] at hj
    by_cases hjk : j = k
    · subst hjk; rw [same, hnot]; exact hi.cur_unnoticed j hj
    · rw [other j hjk]; exact hi.cur_unnoticed j hj
  · intro j hj
    by_cases hjk : j = k
    · subst hjk; rw [same] at hj ⊢; exact hcol hj
    · rw [other j hjk] at hj ⊢; exact hi.collected_noticed j hj
  · intro j hj hc
    rw [hngen] at hj; rw [hcur] at hc
    by_cases hjk : j = k
    · subst hjk; rw [same, hnot]; exact hi.old_noticed j hj hc
    · rw [other j hjk]; exact hi.old_noticed j hj hc
  · intro j hj
    by_cases hjk : j = k
    · subst hjk; rw [same] at hj ⊢; exact hnd hj
    · rw [other j hjk] at hj ⊢; exact hi.noticed_dead j hj
  · intro j hj
    by_cases hjk : j = k
    · subst hjk; rw [same] at hj ⊢; exact hsd hj
    · rw [other j hjk] at hj ⊢; exact hi.stopped_dead j hj
  · intro j hj
    by_cases hjk : j = k
    · subst hjk; rw [same] at hj ⊢; exact hst hj
    · rw [other j hjk] at hj ⊢; exact hi.stopped_hd j hj
  · intro j hj x hx
    by_cases hjk : j = k
    · subst hjk; rw [same] at hj hx ⊢; exact hwire hj x hx
    · rw [other j hjk] at hj hx ⊢
      exact (hi.wire j hj x hx).elim Or.inl (fun h => Or.inr (hrecv x h))

/-- no connection record changed -/
theorem inv_same_conns {s s' : S} (hi : Inv s) (hconns : s'.conns = s.conns) (hcur : s'.cur = s.cur) (hngen : s'.ngen = s.ngen)
    (hcount : s'.counted.length = s'.slowConn + s'.slowSpool) (hrecv : s'.recv = s.recv) : Inv s' := by
  refine ⟨?_, ?_, ?_, ?_, ?_, ?_, ?_, ?_, hcount, ?_⟩
  · intro j hj; rw [hconns]; rw [hngen] at hj; exact hi.fresh j hj
  · intro j hj; rw [hcur] at hj; rw [hngen]; exact hi.cur_lt j hj
  · intro j hj; rw [hcur] at hj; rw [hconns]; exact hi.cur_unnoticed j hj
  · intro j hj; rw [hconns] at hj ⊢; exact hi.collected_noticed j hj
  · intro j hj hc; rw [hngen] at hj; rw [hcur] at hc; rw [hconns]; exact hi.old_noticed j hj hc
  · intro j hj; rw [hconns] at hj ⊢; exact hi.noticed_dead j hj
  · intro j hj; rw [hconns] at hj ⊢; exact hi.stopped_dead j hj
  · intro j hj; rw [hconns] at hj ⊢; exact hi.stopped_hd j hj
  · intro j hj x hx; rw [hconns] at hj hx ⊢; rw [hrecv]; exact hi.wire j hj x hx

/-- one enabled step keeps the bookkeeping invariants (whatever H1, H2) -/
theorem step_inv (h1 h2 : Bool) (s : S) (a : Act) (hen : enabled h1 h2 s a = true) (hi : Inv s) : Inv (step s a) := by
  cases a with
  | handoffQueued id =>
    cases hcur : s.cur with
    | none => simp only [step, hcur]; exact hi
    | some k =>
      simp only [step, hcur]
      refine inv_conn_change (s := s) (k := k) hi (hi.cur_lt k hcur) rfl (by simp [hcur]) rfl hi.counters rfl
        (hi.collected_noticed k) (hi.stopped_hd k) (hi.noticed_dead k) (hi.stopped_dead k) (hi.wire k) (fun _ h => h)
  | handoffDropSlow id =>
    exact inv_same_conns hi rfl rfl rfl (by simp [step, hi.counters]; omega) rfl
  | handoffDropSpool id =>
    exact inv_same_conns hi rfl rfl rfl (by simp [step, hi.counters]; omega) rfl
  | handoffSpooled id =>
    exact inv_same_conns hi rfl rfl rfl (by simp [step, hi.counters]) rfl
  | take k =>
    simp only [enabled, Bool.and_eq_true, Bool.not_eq_true', Option.isNone_iff_eq_none, decide_eq_true_eq] at hen
    obtain ⟨⟨⟨hk, hns⟩, _⟩, _⟩ := hen
    cases hq : (s.conns k).inQ with
    | nil => simp only [step, hq]; exact hi
    | cons y q =>
      simp only [step, hq]
      refine inv_conn_change (s := s) (k := k) hi hk rfl rfl rfl hi.counters rfl
        (hi.collected_noticed k) (by intro h; simp only at h; rw [hns] at h; cases h) (hi.noticed_dead k) (hi.stopped_dead k)
        (hi.wire k) (fun _ h => h)
  | keepAdd k =>
    simp only [enabled, Bool.and_eq_true, Bool.not_eq_true', decide_eq_true_eq] at hen
    obtain ⟨⟨hk, _⟩, _⟩ := hen
    cases hh : (s.conns k).hd with
    | none => simp only [step, hh]; exact hi
    | some y =>
      simp only [step, hh]
      refine inv_conn_change (s := s) (k := k) hi hk rfl rfl rfl hi.counters rfl
        (hi.collected_noticed k) (fun _ => rfl) (hi.noticed_dead k) (hi.stopped_dead k) ?_ (fun _ h => h)
      intro hd x hx
      simp only at hd hx ⊢
      rw [hd]
      simp only [Bool.false_eq_true, if_false]
      rcases List.mem_append.mp hx with h | h
      · exact (hi.wire k hd x h).elim (fun h => Or.inl (by simp [h])) Or.inr
      · exact Or.inl (by simp at h; simp [h])
  | deliver k id =>
    simp only [enabled, Bool.and_eq_true, Bool.not_eq_true', decide_eq_true_eq] at hen
    obtain ⟨⟨hk, _⟩, _⟩ := hen
    simp only [step]
    refine inv_conn_change (s := s) (k := k) hi hk rfl rfl rfl hi.counters rfl
      (hi.collected_noticed k) (hi.stopped_hd k) (hi.noticed_dead k) (hi.stopped_dead k) ?_ (fun _ h => by simp [h])
    intro hd x hx
    simp only at hd hx ⊢
    by_cases hxi : x = id
    · exact Or.inr (by simp [hxi])
    · exact (hi.wire k hd x hx).elim (fun h => Or.inl (mem_erase_ne h hxi)) (fun h => Or.inr (by simp [h]))
  | rotate k id =>
    simp only [enabled, Bool.and_eq_true, decide_eq_true_eq] at hen
    obtain ⟨⟨hk, _⟩, _⟩ := hen
    simp only [step]
    refine inv_conn_change (s := s) (k := k) hi hk rfl rfl rfl hi.counters rfl
      (hi.collected_noticed k) (hi.stopped_hd k) (hi.noticed_dead k) (hi.stopped_dead k) ?_ (fun _ h => h)
    intro hd x hx
    exact hi.wire k hd x (List.mem_of_mem_erase hx)
  | die k =>
    simp only [enabled, decide_eq_true_eq] at hen
    simp only [step]
    refine inv_conn_change (s := s) (k := k) hi hen rfl rfl rfl hi.counters rfl
      (hi.collected_noticed k) (hi.stopped_hd k) (fun _ => rfl) (fun _ => rfl) (by intro h; cases h) (fun _ h => h)
  | stop k =>
    simp only [enabled, Bool.and_eq_true, Bool.not_eq_true', Option.isNone_iff_eq_none, decide_eq_true_eq] at hen
    obtain ⟨⟨⟨hk, hdead⟩, _⟩, hhd⟩ := hen
    simp only [step]
    refine inv_conn_change (s := s) (k := k) hi hk rfl rfl rfl hi.counters rfl
      (hi.collected_noticed k) (fun _ => hhd) (hi.noticed_dead k) (fun _ => hdead) (hi.wire k) (fun _ h => h)
  | notice =>
    cases hcur : s.cur with
    | none => simp only [step, hcur]; exact hi
    | some k =>
      simp only [enabled, hcur] at hen
      simp only [step, hcur]
      have hk := hi.cur_lt k hcur
      refine ⟨?_, ?_, ?_, ?_, ?_, ?_, ?_, ?_, hi.counters, ?_⟩
      · intro j hj
        simp only at hj ⊢
        rw [upd_other _ _ (by omega)]; exact hi.fresh j hj
      · intro j hj; cases hj
      · intro j hj; cases hj
      · intro j hj
        simp only at hj ⊢
        by_cases hjk : j = k
        · subst hjk; simp
        · rw [upd_other _ _ hjk] at hj ⊢; exact hi.collected_noticed j hj
      · intro j hj _
        simp only at hj ⊢
        by_cases hjk : j = k
        · subst hjk; simp
        · rw [upd_other _ _ hjk]; exact hi.old_noticed j hj (by rw [hcur]; intro h; cases h; exact hjk rfl)
      · intro j hj
        simp only at hj ⊢
        by_cases hjk : j = k
        · subst hjk; simp only [upd_same]; exact hen
        · rw [upd_other _ _ hjk] at hj ⊢; exact hi.noticed_dead j hj
      · intro j hj
        simp only at hj ⊢
        by_cases hjk : j = k
        · subst hjk; simp only [upd_same] at hj ⊢; exact hi.stopped_dead j hj
        · rw [upd_other _ _ hjk] at hj ⊢; exact hi.stopped_dead j hj
      · intro j hj
        simp only at hj ⊢
        by_cases hjk : j = k
        · subst hjk; simp only [upd_same] at hj ⊢; exact hi.stopped_hd j hj
        · rw [upd_other _ _ hjk] at hj ⊢; exact hi.stopped_hd j hj
      · intro j hj x hx
        simp only at hj hx ⊢
        by_cases hjk : j = k
        · subst hjk; simp only [upd_same] at hj hx ⊢; exact hi.wire j hj x hx
        · rw [upd_other _ _ hjk] at hj hx ⊢; exact hi.wire j hj x hx
  | collect k =>
    simp only [enabled, Bool.and_eq_true, Bool.not_eq_true', decide_eq_true_eq] at hen
    obtain ⟨⟨⟨hk, hn⟩, _⟩, _⟩ := hen
    simp only [step]
    refine inv_conn_change (s := s) (k := k) hi hk rfl rfl rfl hi.counters rfl
      (fun _ => hn) (hi.stopped_hd k) (hi.noticed_dead k) (hi.stopped_dead k) (by intro _ x hx; cases hx) (fun _ h => h)
  | ingest =>
    cases hr : s.redo with
    | nil => simp only [step, hr]; exact hi
    | cons y r => simp only [step, hr]; exact inv_same_conns hi rfl rfl rfl hi.counters rfl
  | unspoolQueued =>
    cases hcur : s.cur with
    | none => simp only [step, hcur]; exact hi
    | some k =>
      cases hq : s.spoolQ with
      | nil => simp only [step, hcur, hq]; exact hi
      | cons y q =>
        simp only [step, hcur, hq]
        refine inv_conn_change (s := s) (k := k) hi (hi.cur_lt k hcur) rfl (by simp [hcur]) rfl hi.counters rfl
          (hi.collected_noticed k) (hi.stopped_hd k) (hi.noticed_dead k) (hi.stopped_dead k) (hi.wire k) (fun _ h => h)
  | unspoolDropSlow =>
    cases hq : s.spoolQ with
    | nil => simp only [step, hq]; exact hi
    | cons y q =>
      simp only [step, hq]
      exact inv_same_conns hi rfl rfl rfl (by simp [hi.counters]; omega) rfl
  | reconnect =>
    simp only [enabled, Option.isNone_iff_eq_none] at hen
    simp only [step]
    refine ⟨?_, ?_, ?_, hi.collected_noticed, ?_, hi.noticed_dead, hi.stopped_dead, hi.stopped_hd, hi.counters, hi.wire⟩
    · intro j hj; simp only at hj ⊢; exact hi.fresh j (by omega)
    · intro j hj; simp only [Option.some.injEq] at hj ⊢; omega
    · intro j hj
      simp only [Option.some.injEq] at hj ⊢
      subst hj
      rw [hi.fresh s.ngen (Nat.le_refl _)]
    · intro j hj hc
      simp only [ne_eq, Option.some.injEq] at hj hc ⊢
      exact hi.old_noticed j (by omega) (by rw [hen]; intro h; cases h)

end Crng.Spool
