import Crng.DQRecover
namespace Crng.DQ

/-- the guarantee for one crash snapshot: reopening it terminates and delivers the records that were pending at the
    last completed sync, except that up to `dsince` of the oldest ones — all already handed to the consumer — may be missing -/
def CrashOK (cfg : Cfg) (e : Entry) : Prop :=
  ∃ k fuel, k ≤ e.g.dsince ∧ drain cfg fuel (openQ cfg e.disk []) = ((e.g.synced.drop k).map (·.msg), true)

/-- what makes a (disk, ghost) pair recoverable -/
inductive RecG (cfg : Cfg) (D : Disk) (g : Ghost) : Prop where
  | all (h : Recov cfg D g.synced) (hod : ∀ r ∈ g.synced, OnDisk D r)
  | skip (h : Recov cfg D g.synced) (hmiss : segGet D (loadMem D).rfn = none) (hlt : (loadMem D).rfn < (loadMem D).wfn)
      (hod : ∀ r ∈ g.synced, (loadMem D).rfn < r.file → OnDisk D r)
      (hcnt : ∀ old new, g.synced = old ++ new → (∀ r ∈ old, r.file = (loadMem D).rfn) → old.length ≤ g.dsince)

theorem RecG.crashOK {cfg : Cfg} {label : String} {D : Disk} {g : Ghost} (h : RecG cfg D g) : CrashOK cfg ⟨label, D, g⟩ := by
  cases h with
  | all h hod =>
    obtain ⟨fuel, hf⟩ := recover_all cfg D g.synced h hod
    exact ⟨0, fuel, Nat.zero_le _, by simpa using hf⟩
  | skip h hmiss hlt hod hcnt =>
    obtain ⟨old, new, fuel, e1, _, e3, hf⟩ := recover_skip cfg D g.synced h hmiss hlt hod
    refine ⟨old.length, fuel, hcnt old new e1 e3, ?_⟩
    show drain cfg fuel (openQ cfg D []) = ((g.synced.drop old.length).map (·.msg), true)
    rw [hf, e1]; simp

/-- `RecG` only depends on the metadata file, the segment files and the ghost lists -/
theorem RecG.congr {cfg : Cfg} {D D' : Disk} {g g' : Ghost} (h : RecG cfg D g) (hm : D'.metaF = D.metaF)
    (hs : ∀ r ∈ g.synced, OnDisk D r → OnDisk D' r) (hmissing : segGet D (loadMem D).rfn = none → segGet D' (loadMem D).rfn = none)
    (hg : g'.synced = g.synced) (hd : g.dsince ≤ g'.dsince) : RecG cfg D' g' := by
  have hl : loadMem D' = loadMem D := by unfold loadMem; rw [hm]
  cases h with
  | all h hod =>
    exact .all ⟨by rw [hl, hg]; exact h.chain, by rw [hg]; exact h.small⟩ (by rw [hg]; exact fun r hr => hs r hr (hod r hr))
  | skip h hmiss hlt hod hcnt =>
    exact .skip ⟨by rw [hl, hg]; exact h.chain, by rw [hg]; exact h.small⟩ (by rw [hl]; exact hmissing hmiss) (by rw [hl]; exact hlt)
      (by rw [hl, hg]; exact fun r hr hf => hs r hr (hod r hr hf))
      (by rw [hl, hg]; exact fun old new e1 e2 => Nat.le_trans (hcnt old new e1 e2) hd)

def LogOK (cfg : Cfg) (s : St) : Prop := ∀ e ∈ s.log, CrashOK cfg e

theorem LogOK.crash {cfg : Cfg} {s : St} (label : String) (h : LogOK cfg s) (hr : RecG cfg s.disk s.g) : LogOK cfg (s.crash label) := by
  intro e he
  simp only [St.crash] at he
  rcases List.mem_cons.mp he with rfl | he
  · exact hr.crashOK
  · exact h e he

end Crng.DQ
