/-! Scratch prototype: the per-aggregator match cache (`matchWithCache`) is transparent (C03). -/
namespace Crng.AC
variable {K V : Type} [DecidableEq K]

abbrev Cache (K V : Type) := List (K × V)
def get (c : Cache K V) (k : K) : Option V := (c.find? (·.1 == k)).map (·.2)

inductive Op (K : Type) where
  | lookup (k : K)                -- matchWithCache(k)
  | expire (keep : K → Bool)      -- the cleaning pass deletes any subset of entries

/-- `matchWithCache` with the pure function `f` = `MatchRegexAndExpand` behind it -/
def step (f : K → V) (c : Cache K V) : Op K → Cache K V × Option V
  | .lookup k => match get c k with
    | some v => (c, some v)
    | none => ((k, f k) :: c, some (f k))
  | .expire keep => (c.filter (fun e => keep e.1), none)

def run (f : K → V) : Cache K V → List (Op K) → List (Option V)
  | _, [] => []
  | c, op :: ops => (step f c op).2 :: run f (step f c op).1 ops

/-- what the answers would be without any cache -/
def spec (f : K → V) : List (Op K) → List (Option V)
  | [] => []
  | .lookup k :: ops => some (f k) :: spec f ops
  | .expire _ :: ops => none :: spec f ops

def Good (f : K → V) (c : Cache K V) : Prop := ∀ e ∈ c, e.2 = f e.1

theorem get_good (f : K → V) (c : Cache K V) (h : Good f c) (k : K) (v : V) (hg : get c k = some v) : v = f k := by
  unfold get at hg
  cases hf : c.find? (·.1 == k) with
  | none => simp [hf] at hg
  | some e =>
    simp [hf] at hg
    have h1 := List.find?_some hf
    have h2 := List.mem_of_find?_eq_some hf
    simp at h1
    rw [← hg, ← h1]; exact h e h2

/-- **C03 (cache).** For every history of lookups and expiries the cached answers are those of the uncached function. -/
theorem cache_transparent (f : K → V) : ∀ (ops : List (Op K)) (c : Cache K V), Good f c → run f c ops = spec f ops := by
  intro ops
  induction ops with
  | nil => intro c _; rfl
  | cons op ops ih =>
    intro c h
    cases op with
    | lookup k =>
      simp only [run, spec, step]
      cases hg : get c k with
      | some v => simp only []; rw [get_good f c h k v hg, ih c h]
      | none =>
        simp only []
        rw [ih _ (by intro e he; rcases List.mem_cons.mp he with rfl | he; rfl; exact h e he)]
    | expire keep =>
      simp only [run, spec, step]
      rw [ih _ (by intro e he; exact h e (List.mem_filter.mp he).1)]

end Crng.AC
