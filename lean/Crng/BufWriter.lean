/-! Scratch prototype of destination/bufwriter.go (C05). -/
namespace Crng.BW
abbrev Bytes := List UInt8

/-- result of one call to the underlying `io.Writer` with `k` bytes offered -/
inductive Outcome where
  | full                 -- wrote everything, no error
  | short (n : Nat)      -- wrote n (< k) bytes, nil error
  | fail (n : Nat)       -- wrote n (≤ k) bytes, then an error
  deriving Repr, DecidableEq

structure W where
  cap : Nat
  buf : Bytes := []          -- b.buf[0:b.n]
  err : Bool := false
  sock : Bytes := []         -- ghost: everything the underlying writer accepted so far
  script : List Outcome := []  -- future behaviour of the underlying writer (exhausted = full)
  deriving Repr

def W.avail (w : W) : Nat := w.cap - w.buf.length

structure UR where
  w : W
  n : Nat
  e : Bool

/-- underlying `wr.Write(p)` -/
def under (w : W) (p : Bytes) : UR :=
  match w.script with
  | [] => ⟨{ w with sock := w.sock ++ p }, p.length, false⟩
  | o :: rest =>
    let w := { w with script := rest }
    match o with
    | .full => ⟨{ w with sock := w.sock ++ p }, p.length, false⟩
    | .short n => ⟨{ w with sock := w.sock ++ p.take (min n p.length) }, min n p.length, false⟩
    | .fail n => ⟨{ w with sock := w.sock ++ p.take (min n p.length) }, min n p.length, true⟩

/-- `flush()`; returns the error flag -/
def flush (w : W) : W × Bool :=
  if w.err then (w, true)
  else if w.buf.isEmpty then (w, false)
  else
    let r := under w w.buf
    if r.e || r.n < w.buf.length then ({ r.w with buf := r.w.buf.drop r.n, err := true }, true)
    else ({ r.w with buf := [] }, false)

structure LR where
  w : W
  p : Bytes
  nn : Nat

/-- the `for len(p) > b.Available() && b.err == nil` loop -/
def writeLoop : Nat → W → Bytes → Nat → LR
  | 0, w, p, nn => ⟨w, p, nn⟩
  | fuel + 1, w, p, nn =>
    if p.length > w.avail && !w.err then
      if w.buf.isEmpty then
        let r := under w p
        writeLoop fuel { r.w with err := r.e } (p.drop r.n) (nn + r.n)
      else
        let n := min w.avail p.length
        writeLoop fuel (flush { w with buf := w.buf ++ p.take n }).1 (p.drop n) (nn + n)
    else ⟨w, p, nn⟩

/-- `Write(p)`: returns (nn, err?) -/
def write (w : W) (p : Bytes) : W × Nat × Bool :=
  let r := writeLoop (2 * p.length + 4) w p 0
  if r.w.err then (r.w, r.nn, true)
  else ({ r.w with buf := r.w.buf ++ r.p }, r.nn + r.p.length, false)

inductive Op | write (p : Bytes) | flush
end Crng.BW
