/-! Where a line can be between hand-off to a spooling destination and its reception by the endpoint
    (destination/destination.go relay(), conn.go HandleData/getRedo, keepsafe.go, spool.go, slowchan.go).

    Lines are numbers; every container is a list. Every connection the relay ever opened has its own record
    (`conns k`, k = generation), because a dead connection keeps living for a while: its HandleData may still run,
    and `collectRedo` runs in its own goroutine concurrently with the next connection.

    The goroutines' atomic steps are the actions; a schedule is any list of actions, each taken only if enabled.
    `h1`: keepSafe forgets a line only after the endpoint received it (the 10 s keep period as a timing assumption).
    `h2`: getRedo collects only after HandleData has stopped (what `c.wg.Wait()` in getRedo establishes). -/
namespace Crng.Spool

structure Conn where
  inQ : List Nat := []        -- conn.In
  hd : Option Nat := none     -- taken from In by HandleData, not yet in keepSafe
  keep : List Nat := []       -- keepSafe (old ++ recent)
  wire : List Nat := []       -- written: io buffer, kernel, network — not yet read by the endpoint
  dead : Bool := false        -- close() has run: isAlive() = false
  stopped : Bool := false     -- HandleData has returned
  noticed : Bool := false     -- the relay has seen !isAlive, set conn = nil and started collectRedo
  collected : Bool := false   -- getRedo has run
  deriving Repr

structure S where
  handed : List Nat := []     -- ghost: every line handed to dest.In
  counted : List Nat := []    -- ghost: lines for which slow_conn or slow_spool was incremented
  slowConn : Nat := 0
  slowSpool : Nat := 0
  recv : List Nat := []       -- read by some incarnation of the endpoint
  redo : List Nat := []       -- bulk lists inside collectRedo, not yet ingested
  spoolQ : List Nat := []     -- InRT / InBulk / queueBuffer / disk queue / slow chan, whichever stage
  conns : Nat → Conn := fun _ => {}
  cur : Option Nat := none    -- relay's `conn`
  ngen : Nat := 0             -- connections opened so far

def upd (f : Nat → Conn) (k : Nat) (c : Conn) : Nat → Conn := fun j => if j = k then c else f j

@[simp] theorem upd_same (f : Nat → Conn) (k : Nat) (c : Conn) : upd f k c k = c := by simp [upd]
theorem upd_other (f : Nat → Conn) {k j : Nat} (c : Conn) (h : j ≠ k) : upd f k c j = f j := by simp [upd, h]

inductive Act where
  | handoffQueued (id : Nat)      -- relay has a conn, conn.In had room
  | handoffDropSlow (id : Nat)    -- relay has a conn, conn.In full: slow_conn++
  | handoffSpooled (id : Nat)     -- no conn: InRT had room
  | handoffDropSpool (id : Nat)   -- no conn: slow_spool++
  | take (k : Nat)                -- HandleData of conn k receives from In
  | keepAdd (k : Nat)             -- keepSafe.Add, then Write
  | deliver (k : Nat) (id : Nat)  -- the endpoint reads a line conn k wrote
  | rotate (k : Nat) (id : Nat)   -- keepSafe of conn k forgets a line
  | die (k : Nat)                 -- conn k is closed (endpoint gone, write error): what was on the wire is lost
  | stop (k : Nat)                -- HandleData of conn k returns
  | notice                        -- relay sees !isAlive: conn = nil, go collectRedo
  | collect (k : Nat)             -- getRedo of conn k: drain In into keepSafe, GetAll
  | ingest                        -- Spool.Ingest hands one line to the spool
  | unspoolQueued                 -- spool.Out -> nonBlockingSend succeeded
  | unspoolDropSlow               -- spool.Out -> conn.In full: slow_conn++
  | reconnect                     -- a new connection arrives on connUpdates
  deriving Repr

def enabled (h1 h2 : Bool) (s : S) : Act → Bool
  | .handoffQueued _ => s.cur.isSome
  | .handoffDropSlow _ => s.cur.isSome
  | .handoffSpooled _ => s.cur.isNone
  | .handoffDropSpool _ => s.cur.isNone
  | .take k => decide (k < s.ngen) && !(s.conns k).stopped && (s.conns k).hd.isNone && !(s.conns k).inQ.isEmpty
  | .keepAdd k => decide (k < s.ngen) && !(s.conns k).stopped && (s.conns k).hd.isSome
  | .deliver k id => decide (k < s.ngen) && !(s.conns k).dead && (s.conns k).wire.contains id
  | .rotate k id => decide (k < s.ngen) && (s.conns k).keep.contains id && (!h1 || s.recv.contains id)
  | .die k => decide (k < s.ngen)
  | .stop k => decide (k < s.ngen) && (s.conns k).dead && !(s.conns k).stopped && (s.conns k).hd.isNone
  | .notice => match s.cur with | some k => (s.conns k).dead | none => false
  | .collect k => decide (k < s.ngen) && (s.conns k).noticed && !(s.conns k).collected && (!h2 || (s.conns k).stopped)
  | .ingest => !s.redo.isEmpty
  | .unspoolQueued => s.cur.isSome && !s.spoolQ.isEmpty
  | .unspoolDropSlow => s.cur.isSome && !s.spoolQ.isEmpty
  | .reconnect => s.cur.isNone

def step (s : S) : Act → S
  | .handoffQueued id => match s.cur with
    | some k => { s with handed := id :: s.handed, conns := upd s.conns k { s.conns k with inQ := (s.conns k).inQ ++ [id] } }
    | none => s
  | .handoffDropSlow id => { s with handed := id :: s.handed, counted := id :: s.counted, slowConn := s.slowConn + 1 }
  | .handoffSpooled id => { s with handed := id :: s.handed, spoolQ := s.spoolQ ++ [id] }
  | .handoffDropSpool id => { s with handed := id :: s.handed, counted := id :: s.counted, slowSpool := s.slowSpool + 1 }
  | .take k => match (s.conns k).inQ with
    | id :: q => { s with conns := upd s.conns k { s.conns k with inQ := q, hd := some id } }
    | [] => s
  | .keepAdd k => match (s.conns k).hd with
    | some id =>
      let c := s.conns k
      let w := if c.dead then c.wire else c.wire ++ [id]
      { s with conns := upd s.conns k { c with hd := none, keep := c.keep ++ [id], wire := w } }
    | none => s
  | .deliver k id => { s with recv := id :: s.recv, conns := upd s.conns k { s.conns k with wire := (s.conns k).wire.erase id } }
  | .rotate k id => { s with conns := upd s.conns k { s.conns k with keep := (s.conns k).keep.erase id } }
  | .die k => { s with conns := upd s.conns k { s.conns k with dead := true, wire := [] } }
  | .stop k => { s with conns := upd s.conns k { s.conns k with stopped := true } }
  | .notice => match s.cur with
    | some k => { s with cur := none, conns := upd s.conns k { s.conns k with noticed := true } }
    | none => s
  | .collect k => { s with redo := s.redo ++ ((s.conns k).keep ++ (s.conns k).inQ),
                           conns := upd s.conns k { s.conns k with keep := [], inQ := [], collected := true } }
  | .ingest => match s.redo with
    | id :: r => { s with redo := r, spoolQ := s.spoolQ ++ [id] }
    | [] => s
  | .unspoolQueued => match s.cur, s.spoolQ with
    | some k, id :: q => { s with spoolQ := q, conns := upd s.conns k { s.conns k with inQ := (s.conns k).inQ ++ [id] } }
    | _, _ => s
  | .unspoolDropSlow => match s.spoolQ with
    | id :: q => { s with spoolQ := q, counted := id :: s.counted, slowConn := s.slowConn + 1 }
    | [] => s
  | .reconnect => { s with cur := some s.ngen, ngen := s.ngen + 1 }

/-- run a schedule: disabled actions are skipped -/
def run (h1 h2 : Bool) : S → List Act → S
  | s, [] => s
  | s, a :: as => if enabled h1 h2 s a then run h1 h2 (step s a) as else run h1 h2 s as

/-- a line sits in a connection from which it will be written or collected -/
def inConn (c : Conn) (id : Nat) : Prop := c.collected = false ∧ (id ∈ c.inQ ∨ c.hd = some id ∨ id ∈ c.keep)

/-- a handed-off line is accounted for -/
def Covered (s : S) (id : Nat) : Prop :=
  id ∈ s.recv ∨ id ∈ s.counted ∨ (∃ k, inConn (s.conns k) id) ∨ id ∈ s.redo ∨ id ∈ s.spoolQ

def Conserved (s : S) : Prop := ∀ id ∈ s.handed, Covered s id

/-- bookkeeping invariants of the model -/
structure Inv (s : S) : Prop where
  fresh : ∀ k, s.ngen ≤ k → s.conns k = {}
  cur_lt : ∀ k, s.cur = some k → k < s.ngen
  cur_unnoticed : ∀ k, s.cur = some k → (s.conns k).noticed = false
  collected_noticed : ∀ k, (s.conns k).collected = true → (s.conns k).noticed = true
  old_noticed : ∀ k, k < s.ngen → s.cur ≠ some k → (s.conns k).noticed = true
  noticed_dead : ∀ k, (s.conns k).noticed = true → (s.conns k).dead = true
  stopped_dead : ∀ k, (s.conns k).stopped = true → (s.conns k).dead = true
  stopped_hd : ∀ k, (s.conns k).stopped = true → (s.conns k).hd = none
  counters : s.counted.length = s.slowConn + s.slowSpool
  /-- what a live connection keeps safe is on the wire or has arrived -/
  wire : ∀ k, (s.conns k).dead = false → ∀ id ∈ (s.conns k).keep, id ∈ (s.conns k).wire ∨ id ∈ s.recv

end Crng.Spool
