import Crng.DQMid
namespace Crng.DQ

def newRec (s : St) (m : Bytes) : Rec := ⟨m, s.mem.wfn, s.mem.wpos⟩

theorem openWrite_shape (s : St) : (openWrite s).g = s.g ∧ (openWrite s).disk.metaF = s.disk.metaF ∧ (openWrite s).mem.wfn = s.mem.wfn ∧
    (openWrite s).mem.wpos = s.mem.wpos := by
  unfold openWrite
  split
  · exact ⟨rfl, rfl, rfl, rfl⟩
  · split <;> simp [St.crash, segSet]

/-- a record that lies before the write position survives the data write -/
theorem writeData_keeps (s : St) (m : Bytes) (r : Rec) (h : OnDisk s.disk r)
    (hb : r.file < s.mem.wfn ∨ (r.file = s.mem.wfn ∧ r.stop ≤ s.mem.wpos)) : OnDisk (writeData s m).disk r := by
  rw [writeData_disk]
  obtain ⟨c, rest, h1, h2⟩ := openWrite_ondisk s r h
  by_cases hf : r.file = s.mem.wfn
  · rw [hf] at h1
    have hstop : r.off + (encode r.msg).length ≤ s.mem.wpos := by
      simp only [encode_length]
      rcases hb with hb | hb
      · omega
      · simp [Rec.stop] at hb; omega
    obtain ⟨rest', hk⟩ := writeAt_keeps c s.mem.wpos r.off (encode m) (encode r.msg) rest h2 hstop (by rw [encode_length]; omega)
    refine ⟨_, rest', by rw [hf]; exact segGet_segSet_same _ _ _, ?_⟩
    simp [h1, hk]
  · exact ⟨c, rest, by rw [segGet_segSet_other _ _ _ _ hf]; exact h1, h2⟩

theorem writeData_g (s : St) (m : Bytes) : (writeData s m).g = { s.g with pend := s.g.pend ++ [newRec s m] } := by
  obtain ⟨g1, _, w1, w2⟩ := openWrite_shape s
  simp [writeData, St.crash, g1, w1, w2, newRec]

theorem writeData_meta (s : St) (m : Bytes) : (writeData s m).disk.metaF = s.disk.metaF := by
  obtain ⟨_, m1, _, _⟩ := openWrite_shape s
  simp [writeData, St.crash, segSet, m1]

theorem loadMem_congr (D D' : Disk) (h : D'.metaF = D.metaF) : loadMem D' = loadMem D := by unfold loadMem; rw [h]

/-- bounds of the synced records relative to the in-memory write position -/
theorem synced_before_write {cfg : Cfg} {s : St} (h : Mid cfg s) :
    ∀ r ∈ s.g.synced, r.file < s.mem.wfn ∨ (r.file = s.mem.wfn ∧ r.stop ≤ s.mem.wpos) := by
  intro r hr
  have hb := (chain_bound cfg _ _ _ h.recov.chain r hr).2
  have hm := h.mle
  unfold Le at hm
  simp at hb hm
  omega

theorem recG_all_of {cfg : Cfg} {s : St} (h : Mid cfg s) (D : Disk) (hm : D.metaF = s.disk.metaF)
    (hod : ∀ r ∈ s.g.synced, OnDisk D r) (g : Ghost) (hg : g.synced = s.g.synced) : RecG cfg D g :=
  .all ⟨by rw [loadMem_congr _ _ hm, hg]; exact h.recov.chain, by rw [hg]; exact h.recov.small⟩ (by rw [hg]; exact hod)

theorem openWrite_log (s : St) : (openWrite s).log = s.log ∨ (openWrite s).log = ⟨"write.open", (openWrite s).disk, s.g⟩ :: s.log := by
  unfold openWrite
  split
  · exact Or.inl rfl
  · exact Or.inr (by simp [St.crash])

theorem writeData_log (s : St) (m : Bytes) : (writeData s m).log = ⟨"write.data", (writeData s m).disk, (writeData s m).g⟩ :: (openWrite s).log := by
  simp [writeData, St.crash]

/-- the crash entries written while the record goes to disk are all recoverable -/
theorem writeData_logok {cfg : Cfg} {s : St} (m : Bytes) (h : Bd cfg s) : LogOK cfg (writeData s m) ∧
    (∀ r ∈ s.g.synced, OnDisk (writeData s m).disk r) := by
  obtain ⟨hsame, hod⟩ := h.mid.same_of_nosync h.nosync
  have hbnd := synced_before_write h.mid
  obtain ⟨g1, m1, _, _⟩ := openWrite_shape s
  have hod2 : ∀ r ∈ s.g.synced, OnDisk (writeData s m).disk r := fun r hr => writeData_keeps s m r (hod r hr) (hbnd r hr)
  have hrg1 : RecG cfg (openWrite s).disk s.g :=
    recG_all_of h.mid _ m1 (fun r hr => openWrite_ondisk s r (hod r hr)) _ rfl
  have hrg2 : RecG cfg (writeData s m).disk (writeData s m).g :=
    recG_all_of h.mid _ (writeData_meta s m) hod2 _ (by rw [writeData_g])
  refine ⟨?_, hod2⟩
  unfold LogOK
  rw [writeData_log]
  refine logOK_cons ?_ hrg2
  rcases openWrite_log s with hl | hl <;> rw [hl]
  · exact h.mid.logok
  · exact logOK_cons h.mid.logok hrg1

end Crng.DQ

namespace Crng.DQ

theorem writeOne_mid {cfg : Cfg} {s : St} (m : Bytes) (hm : m.length < 2147483648) (h : Bd cfg s) :
    Mid cfg (writeOne cfg s m) ∧ (writeOne cfg s m).g.pend = s.g.pend ++ [newRec s m] := by
  have hinvW := writeOne_inv (cfg := cfg) m hm h.mid.inv
  obtain ⟨hlog, hod2⟩ := writeData_logok (cfg := cfg) m h
  obtain ⟨o1, o2, o3, o4, o5, o6, o7, o8⟩ := writeData_mem s m
  obtain ⟨hsame, _⟩ := h.mid.same_of_nosync h.nosync
  have hl := loadMem_congr s.disk (writeData s m).disk (writeData_meta s m)
  have hg := writeData_g s m
  have hdepth : (writeData s m).mem.depth = ((s.g.pend ++ [newRec s m]).length : Int) := by
    rw [o5, h.mid.depth]; simp
  unfold writeOne at hinvW ⊢
  simp only [] at hinvW ⊢
  by_cases hroll : (writeData s m).mem.wpos > cfg.maxBytes
  · simp only [hroll, if_true] at hinvW ⊢
    -- the state just before the rollover sync
    have hinvR : Inv cfg (rollState (writeData s m)) (rollState (writeData s m)).g.pend := by
      show Inv cfg (rollState (writeData s m)) (writeData s m).g.pend
      rw [hg]
      refine hinvW.congr ?_ ?_ ?_ ?_ ?_ ?_ ?_ ?_ <;> simp [finishRoll, sync_eq, rollState, syncDisk]
    have hrgR : RecG cfg (rollState (writeData s m)).disk (rollState (writeData s m)).g :=
      recG_all_of h.mid _ (writeData_meta s m) hod2 _ (by show (writeData s m).g.synced = _; rw [hg])
    have hdR : (rollState (writeData s m)).mem.depth = ((rollState (writeData s m)).g.pend.length : Int) := by
      show (writeData s m).mem.depth = ((writeData s m).g.pend.length : Int)
      rw [hdepth, hg]
    obtain ⟨hmid, hns, _, hp, _, _⟩ := sync_core hinvR hdR hrgR hlog
    refine ⟨hmid.congrMem rfl rfl rfl rfl rfl rfl rfl rfl rfl rfl rfl (Or.inr rfl), ?_⟩
    show (sync (rollState (writeData s m))).g.pend = _
    rw [hp]; show (writeData s m).g.pend = _; rw [hg]
  · simp only [hroll, if_false] at hinvW ⊢
    have hnoroll : ¬ (s.mem.wpos + 4 + m.length > cfg.maxBytes) := by rw [o4] at hroll; exact hroll
    refine ⟨{ inv := by rw [hg]; exact hinvW
              depth := by rw [hdepth, hg]
              recov := ⟨by rw [hl, hg]; exact h.mid.recov.chain, by rw [hg]; exact h.mid.recov.small⟩
              pre := by rw [hg]; exact List.IsPrefix.trans h.mid.pre (List.prefix_append _ _)
              status := .same (by rw [hl, o1]; exact hsame) (by rw [hg]; exact hod2)
              w2 := ?_
              mle := ?_
              logok := hlog }, by rw [hg]⟩
    · rw [hl, hg]
      intro r hr hn
      rcases List.mem_append.mp hr with hr | hr
      · exact h.mid.w2 r hr hn
      · simp at hr; subst hr
        simp [newRec, Rec.next, Rec.stop, hnoroll] at hn
    · rw [hl, o3, o4]
      have := h.mid.mle
      unfold Le at this ⊢
      simp at this ⊢; omega

end Crng.DQ
