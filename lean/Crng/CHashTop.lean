import Crng.CHashProofs
namespace Crng.CHash
open Crng.Ring

/-- on a ring sorted by `Less`, the binary search of `GetDestinationIndex` finds the first entry at or after the position -/
theorem bsearch_eq_findIdx (r : List Key) (hs : r.Pairwise keyOrd.le) (p : Nat) :
    bsearch (geAt r p) r.length 0 r.length = r.findIdx (fun e => decide (p ≤ e.1)) := by
  let f : Nat → Bool := geAt r p
  have hmono : ∀ a b, a ≤ b → f a = true → f b = true := by
    intro a b hab ha
    by_cases hb : b < r.length
    · have hal : a < r.length := by omega
      simp only [f, geAt, List.getElem?_eq_getElem hal, List.getElem?_eq_getElem hb] at ha ⊢
      rcases Nat.lt_or_eq_of_le hab with hlt | heq
      · have := keyOrd.pos_mono _ _ (List.pairwise_iff_getElem.mp hs a b hal hb hlt)
        simp only [keyOrd] at this
        simp at ha ⊢; omega
      · subst heq; exact ha
    · simp only [f, geAt, List.getElem?_eq_none (Nat.le_of_not_lt hb)]
  obtain ⟨_, a2, a3, a4⟩ := bsearch_spec f hmono r.length 0 r.length (Nat.zero_le _) (by omega) (fun a ha => by omega)
  show bsearch f r.length 0 r.length = _
  generalize bsearch f r.length 0 r.length = j at a2 a3 a4
  apply Nat.le_antisymm
  · -- j ≤ findIdx
    apply Nat.le_of_not_lt
    intro hlt
    have hfl : r.findIdx (fun e => decide (p ≤ e.1)) < r.length := by omega
    have h1 := a3 _ hlt
    have h2 := List.findIdx_getElem (w := hfl)
    simp only [f, geAt, List.getElem?_eq_getElem hfl] at h1
    rw [h2] at h1; cases h1
  · -- findIdx ≤ j
    rcases Nat.lt_or_eq_of_le a2 with hjl | hje
    · have h1 := a4 hjl
      simp only [f, geAt, List.getElem?_eq_getElem hjl] at h1
      apply Nat.le_of_not_lt
      intro hlt
      have := List.not_of_lt_findIdx hlt
      rw [h1] at this; cases this
    · rw [hje]; exact List.findIdx_le_length

theorem lookupKey_eq (r : List Key) (hs : r.Pairwise keyOrd.le) (p : Nat) : lookupKey r p = lookup keyOrd r p := by
  unfold lookupKey lookup
  rw [bsearch_eq_findIdx r hs p]
  rfl

theorem mem_entries (pos : Bytes → Nat) (replicas : Nat) (nodes : List Node) (x : Key) :
    x ∈ entries pos replicas nodes ↔ ∃ n ∈ nodes, x ∈ entriesOf pos replicas n := by
  simp [entries, List.mem_flatMap]

theorem mem_ring (pos : Bytes → Nat) (replicas : Nat) (nodes : List Node) (x : Key) :
    x ∈ ring pos replicas nodes ↔ x ∈ entries pos replicas nodes := (sortKeys_spec _).1 x

theorem ring_sorted (pos : Bytes → Nat) (replicas : Nat) (nodes : List Node) : (ring pos replicas nodes).Pairwise keyOrd.le :=
  (sortKeys_spec _).2

theorem isOwner_congr {S T : List Key} (h : ∀ x, x ∈ S ↔ x ∈ T) (k : Nat) (e : Key) (ho : IsOwner keyOrd S k e) : IsOwner keyOrd T k e := by
  refine ⟨(h e).mp ho.1, ?_, ?_⟩
  · intro ⟨x, hx, hk⟩
    obtain ⟨a, b⟩ := ho.2.1 ⟨x, (h x).mpr hx, hk⟩
    exact ⟨a, fun y hy hky => b y ((h y).mpr hy) hky⟩
  · intro hn y hy
    exact ho.2.2 (fun ⟨x, hx, hk⟩ => hn ⟨x, (h x).mp hx, hk⟩) y ((h y).mpr hy)

theorem ring_ne_nil (pos : Bytes → Nat) (replicas : Nat) (nodes : List Node) (hn : nodes ≠ []) (hr : 0 < replicas) :
    ring pos replicas nodes ≠ [] := by
  intro h
  cases nodes with
  | nil => exact hn rfl
  | cons n t =>
    have : (pos (replicaKey n 0), n.host, n.inst) ∈ ring pos replicas (n :: t) := by
      rw [mem_ring, mem_entries]
      exact ⟨n, List.mem_cons_self .., by simp [entriesOf]; exact ⟨0, hr, rfl⟩⟩
    rw [h] at this; cases this

/-- **agrees with Carbon**: for any position function (so independently of MD5), the Go lookup on the sorted ring returns the
entry Carbon's rule designates on the *set* of ring entries: the least entry (by position, host, instance) at or after the
key's position, wrapping to the least entry of the ring -/
theorem lookup_eq_carbon (pos : Bytes → Nat) (replicas : Nat) (nodes : List Node) (hn : nodes ≠ []) (hr : 0 < replicas) (p : Nat) :
    ∃ e, lookupKey (ring pos replicas nodes) p = some e ∧ IsOwner keyOrd (entries pos replicas nodes) p e := by
  rw [lookupKey_eq _ (ring_sorted pos replicas nodes)]
  obtain ⟨e, h1, h2⟩ := lookup_isOwner keyOrd (ring pos replicas nodes) (ring_sorted ..) p (ring_ne_nil pos replicas nodes hn hr)
  exact ⟨e, h1, isOwner_congr (mem_ring pos replicas nodes) p e h2⟩

/-- **listing order does not matter**: two configurations with the same set of (host, instance) nodes send every key to
the same ring entry -/
theorem order_independent (pos : Bytes → Nat) (replicas : Nat) (ns1 ns2 : List Node) (h : ∀ n, n ∈ ns1 ↔ n ∈ ns2)
    (hn : ns1 ≠ []) (hr : 0 < replicas) (p : Nat) :
    lookupKey (ring pos replicas ns1) p = lookupKey (ring pos replicas ns2) p := by
  rw [lookupKey_eq _ (ring_sorted ..), lookupKey_eq _ (ring_sorted ..)]
  apply Crng.Ring.order_independent keyOrd _ _ (ring_sorted ..) (ring_sorted ..) _ (ring_ne_nil pos replicas ns1 hn hr)
  intro x
  rw [mem_ring, mem_ring, mem_entries, mem_entries]
  constructor
  · rintro ⟨n, hn, hx⟩; exact ⟨n, (h n).mp hn, hx⟩
  · rintro ⟨n, hn, hx⟩; exact ⟨n, (h n).mpr hn, hx⟩

theorem entries_append (pos : Bytes → Nat) (replicas : Nat) (ns : List Node) (n : Node) :
    entries pos replicas (ns ++ [n]) = entries pos replicas ns ++ entriesOf pos replicas n := by
  simp [entries]

/-- **adding a destination moves only keys that land on it**: the owner after adding `n` is the old owner or one of `n`'s entries -/
theorem add_minimal (pos : Bytes → Nat) (replicas : Nat) (ns : List Node) (n : Node) (hn : ns ≠ []) (hr : 0 < replicas) (p : Nat)
    (e e' : Key) (h : lookupKey (ring pos replicas ns) p = some e) (h' : lookupKey (ring pos replicas (ns ++ [n])) p = some e') :
    e' = e ∨ (e'.2.1 = n.host ∧ e'.2.2 = n.inst) := by
  obtain ⟨e0, l0, o0⟩ := lookup_eq_carbon pos replicas ns hn hr p
  obtain ⟨e1, l1, o1⟩ := lookup_eq_carbon pos replicas (ns ++ [n]) (by simp) hr p
  rw [h] at l0; cases l0
  rw [h'] at l1; cases l1
  rw [entries_append] at o1
  rcases Crng.Ring.add_minimal keyOrd _ _ p e e' o0 o1 with h | h
  · exact Or.inl h
  · right
    simp only [entriesOf, List.mem_map, List.mem_range] at h
    obtain ⟨i, _, rfl⟩ := h
    exact ⟨rfl, rfl⟩

/-- **removing a destination moves only the keys it owned**: a key whose owner is not an entry of the removed (last-listed,
by `order_independent` any) node keeps its owner -/
theorem remove_minimal (pos : Bytes → Nat) (replicas : Nat) (ns : List Node) (n : Node) (hn : ns ≠ []) (hr : 0 < replicas) (p : Nat)
    (e : Key) (h : lookupKey (ring pos replicas (ns ++ [n])) p = some e) (hnot : e ∈ entries pos replicas ns) :
    lookupKey (ring pos replicas ns) p = some e := by
  obtain ⟨e1, l1, o1⟩ := lookup_eq_carbon pos replicas (ns ++ [n]) (by simp) hr p
  rw [h] at l1; cases l1
  rw [entries_append] at o1
  have o := Crng.Ring.remove_minimal keyOrd _ _ p e o1 hnot
  obtain ⟨e0, l0, o0⟩ := lookup_eq_carbon pos replicas ns hn hr p
  rw [l0, owner_unique keyOrd _ p e0 e o0 o]

/-- **exactly one destination**: with at least one node the lookup designates a configured node -/
theorem one_destination (pos : Bytes → Nat) (replicas : Nat) (nodes : List Node) (hn : nodes ≠ []) (hr : 0 < replicas) (name : Bytes) :
    ∃ i, destIndex pos replicas nodes name = some i ∧ i < nodes.length := by
  obtain ⟨e, l, o⟩ := lookup_eq_carbon pos replicas nodes hn hr (pos name)
  unfold destIndex
  rw [l]
  have hm := o.1
  rw [mem_entries] at hm
  obtain ⟨n, hnm, hx⟩ := hm
  simp only [entriesOf, List.mem_map, List.mem_range] at hx
  obtain ⟨i, _, rfl⟩ := hx
  have : (nodes.findIdx? fun m => m.host == n.host && m.inst == n.inst).isSome := by
    rw [List.findIdx?_isSome]
    exact List.any_eq_true.mpr ⟨n, hnm, by simp⟩
  obtain ⟨j, hj⟩ := Option.isSome_iff_exists.mp this
  exact ⟨j, hj, (List.findIdx?_eq_some_iff_getElem.mp hj).1⟩

end Crng.CHash
