/-! Scratch prototype: rewriter.go `RW.Do` for literal rules, i.e. Go `bytes.Replace(s, old, new, n)` with non-empty `old` (C04). -/
namespace Crng.Rw
abbrev Bytes := List UInt8

def hasPrefix (s p : Bytes) : Bool := s.take p.length == p

/-- replace the first `n` non-overlapping occurrences of `old` (non-empty), scanning left to right; `none` = all (`n < 0`) -/
def replaceN (old new : Bytes) : Nat → Option Nat → Bytes → Bytes
  | 0, _, s => s
  | _, some 0, s => s
  | fuel + 1, n, s =>
    match s with
    | [] => []
    | c :: t =>
      if hasPrefix s old then new ++ replaceN old new fuel (n.map (· - 1)) (s.drop old.length)
      else c :: replaceN old new fuel n t

def contains (s sub : Bytes) : Bool := (List.range (s.length + 1)).any fun i => hasPrefix (s.drop i) sub

/-- `RW.Do` for a literal rule: skip when the not-clause substring occurs; `max = -1` is `none` -/
def rwDo (old new not : Bytes) (max : Option Nat) (s : Bytes) : Bytes :=
  if !not.isEmpty && contains s not then s else replaceN old new (s.length + 1) max s

theorem replaceN_zero (old new s : Bytes) (fuel : Nat) : replaceN old new fuel (some 0) s = s := by
  cases fuel <;> simp [replaceN]

/-- nothing to replace: unchanged -/
theorem replaceN_absent (old new : Bytes) (hold : old ≠ []) : ∀ (fuel : Nat) (n : Option Nat) (s : Bytes),
    (∀ i, hasPrefix (s.drop i) old = false) → replaceN old new fuel n s = s := by
  intro fuel
  induction fuel with
  | zero => intro n s _; simp [replaceN]
  | succ f ih =>
    intro n s h
    cases n with
    | some k =>
      cases k with
      | zero => simp [replaceN]
      | succ k =>
        cases s with
        | nil => simp [replaceN]
        | cons c t =>
          have h0 := h 0
          simp only [List.drop_zero] at h0
          simp only [replaceN, h0, Bool.false_eq_true, if_false]
          rw [ih (some (k + 1)) t (fun i => by have := h (i + 1); simpa using this)]
    | none =>
      cases s with
      | nil => simp [replaceN]
      | cons c t =>
        have h0 := h 0
        simp only [List.drop_zero] at h0
        simp only [replaceN, h0, Bool.false_eq_true, if_false]
        rw [ih none t (fun i => by have := h (i + 1); simpa using this)]

theorem rwDo_not_skips (old new not : Bytes) (max : Option Nat) (s : Bytes) (hn : not ≠ []) (hc : contains s not = true) :
    rwDo old new not max s = s := by
  unfold rwDo
  have : not.isEmpty = false := by cases not <;> simp_all
  simp [this, hc]

end Crng.Rw
