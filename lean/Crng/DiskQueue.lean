/-! Scratch prototype of the nsqd disk queue model (C08/C09), proof-friendly version (Nat positions). -/
namespace Crng.DQ
abbrev Bytes := List UInt8

structure Cfg where
  maxBytes : Nat
  syncEvery : Nat
  deriving Repr

structure Disk where
  segs : List (Nat × Bytes) := []   -- sorted by file number
  metaF : Option Bytes := none
  tmp  : Option Bytes := none
  bad  : List (Nat × Bytes) := []
  deriving Repr

structure Mem where
  rpos : Nat := 0
  wpos : Nat := 0
  rfn : Nat := 0
  wfn : Nat := 0
  depth : Int := 0
  nrpos : Nat := 0
  nrfn : Nat := 0
  needSync : Bool := false
  count : Nat := 0
  readOpen : Bool := false
  writeOpen : Bool := false
  dataRead : Bytes := []
  deriving Repr

/-- a record and where it was written -/
structure Rec where
  msg : Bytes
  file : Nat
  off : Nat
  deriving Repr

/-- proof-only bookkeeping; no definition below ever branches on it -/
structure Ghost where
  pend : List Rec := []    -- records written and not yet handed to the consumer, oldest first
  synced : List Rec := []  -- value of `pend` at the last completed metadata rename
  dsince : Nat := 0        -- number of records handed to the consumer since that rename
  deriving Repr

structure Entry where
  label : String
  disk : Disk
  g : Ghost

abbrev Log := List Entry

structure St where
  mem : Mem
  disk : Disk
  log : Log := []      -- newest first
  g : Ghost := {}

def St.crash (s : St) (label : String) : St := { s with log := ⟨label, s.disk, s.g⟩ :: s.log }

/-! ### filesystem helpers -/
def segGet (d : Disk) (n : Nat) : Option Bytes := (d.segs.find? (·.1 == n)).map (·.2)
def insertSorted (n : Nat) (b : Bytes) : List (Nat × Bytes) → List (Nat × Bytes)
  | [] => [(n, b)]
  | (m, c) :: t => if n < m then (n, b) :: (m, c) :: t else if n == m then (n, b) :: t else (m, c) :: insertSorted n b t
def segSet (d : Disk) (n : Nat) (b : Bytes) : Disk := { d with segs := insertSorted n b d.segs }
def segRemove (d : Disk) (n : Nat) : Disk := { d with segs := d.segs.filter (·.1 != n) }

def writeAt (content : Bytes) (pos : Nat) (data : Bytes) : Bytes :=
  content.take pos ++ List.replicate (pos - content.length) 0 ++ data ++ content.drop (pos + data.length)

def be32 (n : Nat) : Bytes :=
  [UInt8.ofNat (n / 16777216 % 256), UInt8.ofNat (n / 65536 % 256), UInt8.ofNat (n / 256 % 256), UInt8.ofNat (n % 256)]
def encode (m : Bytes) : Bytes := be32 m.length ++ m

/-- read one record at `pos`; the size field is a signed int32. `none` = any read error -/
def decodeAt (content : Bytes) (pos : Nat) : Option (Bytes × Nat) :=
  match content.drop pos with
  | a :: b :: c :: d :: rest =>
    let n := a.toNat * 16777216 + b.toNat * 65536 + c.toNat * 256 + d.toNat
    if n ≥ 2147483648 then none
    else if rest.length < n then none
    else some (rest.take n, pos + 4 + n)
  | _ => none

/-! ### metadata text -/
def dig (k : Nat) : UInt8 := UInt8.ofNat (48 + k)
def digitsAux : Nat → Nat → Bytes → Bytes
  | 0, _, acc => acc
  | fuel + 1, n, acc => if n < 10 then dig n :: acc else digitsAux fuel (n / 10) (dig (n % 10) :: acc)
def natDigits (n : Nat) : Bytes := digitsAux (n + 1) n []
def intText (i : Int) : Bytes := if i < 0 then 45 :: natDigits i.natAbs else natDigits i.toNat
def renderMeta (m : Mem) : Bytes :=
  intText m.depth ++ [10] ++ natDigits m.rfn ++ [44] ++ natDigits m.rpos ++ [10] ++ natDigits m.wfn ++ [44] ++ natDigits m.wpos ++ [10]

def isDigit (b : UInt8) : Bool := 48 ≤ b && b ≤ 57
def scanNat (s : Bytes) : Option (Nat × Bytes) :=
  let ds := s.takeWhile isDigit
  if ds.isEmpty then none else some (ds.foldl (fun a d => a * 10 + (d.toNat - 48)) 0, s.drop ds.length)
/-- `%d`: optional sign, digits -/
def scanInt (s : Bytes) : Option (Int × Bytes) :=
  match s with
  | 45 :: t => (scanNat t).map fun (v, r) => (- (v : Int), r)
  | 43 :: t => (scanNat t).map fun (v, r) => ((v : Int), r)
  | _ => (scanNat s).map fun (v, r) => ((v : Int), r)
def expect (c : UInt8) (s : Bytes) : Option Bytes := match s with | x :: t => if x == c then some t else none | [] => none
/-- Fscanf("%d\n%d,%d\n%d,%d\n"); negative positions do not occur in any state this model reaches and are rejected here -/
def parseMeta (s : Bytes) : Option (Int × Nat × Nat × Nat × Nat) := do
  let (d, s) ← scanInt s
  let s ← expect 10 s
  let (rf, s) ← scanNat s
  let s ← expect 44 s
  let (rp, s) ← scanNat s
  let s ← expect 10 s
  let (wf, s) ← scanNat s
  let s ← expect 44 s
  let (wp, _) ← scanNat s
  pure (d, rf, rp, wf, wp)

/-! ### the queue -/
def persistMeta (s : St) : St :=
  let old := s.disk.tmp.getD []
  let s1 := { s with disk := { s.disk with tmp := some old } }.crash "meta.tmp.create"
  let new := renderMeta s.mem
  let s2 := { s1 with disk := { s1.disk with tmp := some (new ++ old.drop new.length) } }.crash "meta.tmp.write"
  { s2 with disk := { s2.disk with metaF := s2.disk.tmp, tmp := none },
            g := { s2.g with synced := s2.g.pend, dsince := 0 } }.crash "meta.rename"

def sync (s : St) : St :=
  let s1 := if s.mem.writeOpen then s.crash "sync.data" else s
  let s2 := persistMeta s1
  { s2 with mem := { s2.mem with needSync := false } }

def openWrite (s : St) : St :=
  if s.mem.writeOpen then s else
    let d := match segGet s.disk s.mem.wfn with
      | some _ => s.disk
      | none => segSet s.disk s.mem.wfn []
    { s with disk := d, mem := { s.mem with writeOpen := true } }.crash "write.open"

/-- open (create) the write file if needed, write the record, advance the write position -/
def writeData (s : St) (m : Bytes) : St :=
  let s1 := openWrite s
  let content := (segGet s1.disk s1.mem.wfn).getD []
  let s2 := { s1 with disk := segSet s1.disk s1.mem.wfn (writeAt content s1.mem.wpos (encode m)),
                      g := { s1.g with pend := s1.g.pend ++ [({ msg := m, file := s1.mem.wfn, off := s1.mem.wpos } : Rec)] } }.crash "write.data"
  { s2 with mem := { s2.mem with wpos := s2.mem.wpos + 4 + m.length, depth := s2.mem.depth + 1 } }

def rollState (s : St) : St := { s with mem := { s.mem with wfn := s.mem.wfn + 1, wpos := 0 } }
def finishRoll (s : St) : St := { s with mem := { s.mem with writeOpen := false } }

def writeOne (cfg : Cfg) (s : St) (m : Bytes) : St :=
  let s3 := writeData s m
  if s3.mem.wpos > cfg.maxBytes then finishRoll (sync (rollState s3)) else s3

/-- returns none on read error -/
def readOne (cfg : Cfg) (s : St) : Option St :=
  match segGet s.disk s.mem.rfn with
  | none => none
  | some content =>
    match decodeAt content s.mem.rpos with
    | none => none
    | some (msg, np) =>
      if np > cfg.maxBytes then
        some { s with mem := { s.mem with readOpen := false, dataRead := msg, nrpos := 0, nrfn := s.mem.rfn + 1 } }
      else
        some { s with mem := { s.mem with readOpen := true, dataRead := msg, nrpos := np, nrfn := s.mem.rfn } }

def removeRange (d : Disk) (lo : Nat) : Nat → Disk
  | 0 => d
  | n + 1 => removeRange (segRemove d lo) (lo + 1) n

def skipToNextRWFile (s : St) : St :=
  let d := removeRange s.disk s.mem.rfn (s.mem.wfn + 1 - s.mem.rfn)
  let w := s.mem.wfn + 1
  { s with disk := d, mem := { s.mem with readOpen := false, writeOpen := false, wfn := w, wpos := 0, rfn := w, rpos := 0, nrfn := w, nrpos := 0, depth := 0 } }

def hasData (m : Mem) : Bool := m.rfn < m.wfn || m.rpos < m.wpos

def checkTail (s : St) : St :=
  if hasData s.mem then s else
  let s1 := if s.mem.depth != 0 then { s with mem := { s.mem with depth := 0, needSync := true } } else s
  if s1.mem.rfn != s1.mem.wfn || s1.mem.rpos != s1.mem.wpos then
    let s2 := skipToNextRWFile s1
    { s2 with mem := { s2.mem with needSync := true } }
  else s1

def moveForward (s : St) : St :=
  let old := s.mem.rfn
  let s1 := { s with mem := { s.mem with rfn := s.mem.nrfn, rpos := s.mem.nrpos, depth := s.mem.depth - 1 },
                     g := { s.g with pend := s.g.pend.tail, dsince := s.g.dsince + 1 } }
  let s2 := if old != s.mem.nrfn then
      { s1 with mem := { s1.mem with needSync := true }, disk := segRemove s1.disk old }.crash "read.remove"
    else s1
  checkTail s2

def handleReadError (s : St) : St :=
  let s1 := if s.mem.rfn == s.mem.wfn then
      { s with mem := { s.mem with writeOpen := false, wfn := s.mem.wfn + 1, wpos := 0 } } else s
  let d := match segGet s1.disk s1.mem.rfn with
    | some c => { segRemove s1.disk s1.mem.rfn with bad := s1.disk.bad ++ [(s1.mem.rfn, c)] }
    | none => s1.disk
  let s2 := { s1 with disk := d }.crash "read.renamebad"
  let r := s2.mem.rfn + 1
  { s2 with mem := { s2.mem with readOpen := false, rfn := r, rpos := 0, nrfn := r, nrpos := 0, needSync := true } }

/-- count / sync part of an iteration -/
def tickCount (cfg : Cfg) (s : St) : St :=
  let c := s.mem.count + 1
  let s1 := if c == cfg.syncEvery then { s with mem := { s.mem with count := 0, needSync := true } }
            else { s with mem := { s.mem with count := c } }
  if s1.mem.needSync then sync s1 else s1

/-- top of one ioLoop iteration up to (excluding) the select -/
def loopTop (cfg : Cfg) : Nat → St → St
  | 0, s => s
  | fuel + 1, s =>
    let s1 := tickCount cfg s
    if hasData s1.mem && s1.mem.nrpos == s1.mem.rpos then
      match readOne cfg s1 with
      | some s' => s'
      | none => loopTop cfg fuel (handleReadError { s1 with mem := { s1.mem with readOpen := false } })
    else s1

inductive Ev | put (m : Bytes) | get | reopen

def loadMem (disk : Disk) : Mem :=
  match disk.metaF.bind parseMeta with
  | some (d, rf, rp, wf, wp) => { depth := d, rfn := rf, rpos := rp, wfn := wf, wpos := wp, nrfn := rf, nrpos := rp }
  | none => {}

def fuelOf (d : Disk) : Nat := d.segs.length + 1002

def openQ (cfg : Cfg) (disk : Disk) (log : Log) (g : Ghost := {}) : St :=
  loopTop cfg (fuelOf disk) { mem := loadMem disk, disk, log, g }

def closeQ (s : St) : St :=
  sync { s with mem := { s.mem with readOpen := false, writeOpen := false } }

/-- one event; returns the delivered message for `get` -/
def stepEv (cfg : Cfg) (s : St) : Ev → St × Option Bytes
  | .put m => (loopTop cfg (fuelOf s.disk) (writeOne cfg s m), none)
  | .get => if hasData s.mem then (loopTop cfg (fuelOf s.disk) (moveForward s), some s.mem.dataRead) else (s, none)
  | .reopen => let s1 := closeQ s; (openQ cfg s1.disk s1.log s1.g, none)

/-- read everything a (re)opened queue has to offer; `true` when it stopped because nothing is left -/
def drain (cfg : Cfg) : Nat → St → List Bytes × Bool
  | 0, s => ([], !hasData s.mem)
  | fuel + 1, s =>
    if hasData s.mem then
      let r := drain cfg fuel (stepEv cfg s .get).1
      (s.mem.dataRead :: r.1, r.2)
    else ([], true)

end Crng.DQ
