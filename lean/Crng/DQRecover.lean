import Crng.DQFifo
namespace Crng.DQ

/-- draining a consistent state delivers exactly the pending messages, in order, and stops -/
theorem drain_spec {cfg : Cfg} : ∀ (recs : List Rec) (s : St) (fuel : Nat), Inv cfg s recs → Ready cfg s recs →
    recs.length ≤ fuel → drain cfg fuel s = (recs.map (·.msg), true) := by
  intro recs
  induction recs with
  | nil =>
    intro s fuel h _ _
    have : hasData s.mem = false := by
      cases hh : hasData s.mem
      · rfl
      · exact absurd rfl ((hasData_iff cfg s [] h).mp hh)
    cases fuel <;> simp [drain, this]
  | cons r rs ih =>
    intro s fuel h hr hf
    have hd : hasData s.mem = true := (hasData_iff cfg s _ h).mpr (by simp)
    cases fuel with
    | zero => simp at hf
    | succ f =>
      have h1 := (moveForward_inv h hr).1
      have h2 := loopTop_inv (cfg := cfg) (s.disk.segs.length + 1001) h1
      have := ih (loopTop cfg (s.disk.segs.length + 1002) (moveForward s)) f h2.1 h2.2 (by simp at hf; omega)
      simp only [drain, hd, if_true, stepEv, fuelOf, this, (hr r rs rfl).1, List.map_cons]

/-- a chain that starts in file `f` and ends in a later file splits into the records of `f` and a chain from `(f+1, 0)` -/
theorem chain_split_file (cfg : Cfg) : ∀ (rm : List Rec) (f p : Nat) (e : Nat × Nat), Chain cfg (f, p) rm e → f < e.1 →
    ∃ old new, rm = old ++ new ∧ old ≠ [] ∧ (∀ r ∈ old, r.file = f) ∧ Chain cfg (f + 1, 0) new e ∧ (∀ r ∈ new, f < r.file) := by
  intro rm
  induction rm with
  | nil => intro f p e h hlt; simp [Chain] at h; subst h; simp at hlt
  | cons r rs ih =>
    intro f p e h hlt
    obtain ⟨h1, h2⟩ := h
    have hf : r.file = f := by have := congrArg Prod.fst h1; simpa using this
    by_cases hroll : r.stop > cfg.maxBytes
    · have hn : r.next cfg = (f + 1, 0) := by simp [Rec.next, hroll, hf]
      rw [hn] at h2
      refine ⟨[r], rs, rfl, by simp, by intro x hx; simp at hx; subst hx; exact hf, h2, ?_⟩
      intro x hx
      have := (chain_bound cfg rs _ _ h2 x hx).1
      simp at this; omega
    · have hn : r.next cfg = (f, r.stop) := by simp [Rec.next, hroll, hf]
      rw [hn] at h2
      obtain ⟨old, new, e1, _, e3, e4, e5⟩ := ih f r.stop e h2 hlt
      refine ⟨r :: old, new, by rw [e1]; rfl, by simp, ?_, e4, e5⟩
      intro x hx
      rcases List.mem_cons.mp hx with rfl | hx
      · exact hf
      · exact e3 x hx

end Crng.DQ

namespace Crng.DQ

theorem sync_pos (s : St) : (sync s).mem.rfn = s.mem.rfn ∧ (sync s).mem.rpos = s.mem.rpos ∧ (sync s).mem.wfn = s.mem.wfn ∧
    (sync s).mem.wpos = s.mem.wpos ∧ (sync s).mem.nrfn = s.mem.nrfn ∧ (sync s).mem.nrpos = s.mem.nrpos ∧ (sync s).disk.segs = s.disk.segs := by
  unfold sync persistMeta; split <;> simp [St.crash]

theorem tickCount_pos (cfg : Cfg) (s : St) : (tickCount cfg s).mem.rfn = s.mem.rfn ∧ (tickCount cfg s).mem.rpos = s.mem.rpos ∧
    (tickCount cfg s).mem.wfn = s.mem.wfn ∧ (tickCount cfg s).mem.wpos = s.mem.wpos ∧ (tickCount cfg s).mem.nrfn = s.mem.nrfn ∧
    (tickCount cfg s).mem.nrpos = s.mem.nrpos ∧ (tickCount cfg s).disk.segs = s.disk.segs := by
  unfold tickCount
  simp only []
  split <;> split <;> simp [sync_pos]

theorem segGet_of_segs (d d' : Disk) (h : d'.segs = d.segs) (n : Nat) : segGet d' n = segGet d n := by
  simp [segGet, h]

/-- what the metadata of a disk promises, relative to a list of records `rm` -/
structure Recov (cfg : Cfg) (D : Disk) (rm : List Rec) : Prop where
  chain : Chain cfg ((loadMem D).rfn, (loadMem D).rpos) rm ((loadMem D).wfn, (loadMem D).wpos)
  small : ∀ r ∈ rm, r.msg.length < 2147483648

theorem loadMem_ahead (D : Disk) : (loadMem D).nrfn = (loadMem D).rfn ∧ (loadMem D).nrpos = (loadMem D).rpos := by
  unfold loadMem; split <;> simp

/-- every described record is still on disk: reopening delivers all of them -/
theorem recover_all (cfg : Cfg) (D : Disk) (rm : List Rec) (h : Recov cfg D rm) (hod : ∀ r ∈ rm, OnDisk D r) :
    ∃ fuel, drain cfg fuel (openQ cfg D []) = (rm.map (·.msg), true) := by
  have base : Inv cfg { mem := loadMem D, disk := D, log := [], g := {} } rm :=
    { chain := h.chain, ondisk := hod, small := h.small, ahead := Or.inl (loadMem_ahead D) }
  have h2 := loopTop_inv (cfg := cfg) (D.segs.length + 1001) base
  exact ⟨rm.length, drain_spec rm _ _ (by unfold openQ fuelOf; exact h2.1) (by unfold openQ fuelOf; exact h2.2) (Nat.le_refl _)⟩

/-- the first described file is gone (removed after it was consumed): reopening skips it and delivers the rest -/
theorem recover_skip (cfg : Cfg) (D : Disk) (rm : List Rec) (h : Recov cfg D rm)
    (hmiss : segGet D (loadMem D).rfn = none) (hlt : (loadMem D).rfn < (loadMem D).wfn)
    (hod : ∀ r ∈ rm, (loadMem D).rfn < r.file → OnDisk D r) :
    ∃ old new fuel, rm = old ++ new ∧ old ≠ [] ∧ (∀ r ∈ old, r.file = (loadMem D).rfn) ∧
      drain cfg fuel (openQ cfg D []) = (new.map (·.msg), true) := by
  obtain ⟨old, new, e1, e2, e3, e4, e5⟩ := chain_split_file cfg rm _ _ _ h.chain hlt
  refine ⟨old, new, new.length, e1, e2, e3, ?_⟩
  obtain ⟨a1, a2⟩ := loadMem_ahead D
  obtain ⟨t1, t2, t3, t4, t5, t6, t7⟩ := tickCount_pos cfg { mem := loadMem D, disk := D, log := [], g := {} }
  -- first iteration: the read fails, the file is skipped
  have step1 : loopTop cfg (D.segs.length + 1002) { mem := loadMem D, disk := D, log := [], g := {} } =
      loopTop cfg (D.segs.length + 1001) (handleReadError
        { tickCount cfg { mem := loadMem D, disk := D, log := [], g := {} } with
          mem := { (tickCount cfg { mem := loadMem D, disk := D, log := [], g := {} }).mem with readOpen := false } }) := by
    conv => lhs; unfold loopTop
    simp only []
    have hd : hasData (tickCount cfg { mem := loadMem D, disk := D, log := [], g := {} }).mem = true := by
      simp [hasData, t1, t3]; exact Or.inl hlt
    have hp : ((tickCount cfg { mem := loadMem D, disk := D, log := [], g := {} }).mem.nrpos ==
        (tickCount cfg { mem := loadMem D, disk := D, log := [], g := {} }).mem.rpos) = true := by
      simp [t6, t2, a2]
    have hr : readOne cfg (tickCount cfg { mem := loadMem D, disk := D, log := [], g := {} }) = none := by
      unfold readOne
      rw [t1, segGet_of_segs D _ t7, hmiss]
    simp only [hd, hp, Bool.and_self, if_true, hr]
  -- the state after skipping is consistent for `new`
  have hne : ((loadMem D).rfn == (loadMem D).wfn) = false := by simp; omega
  have inv2 : Inv cfg (handleReadError
        { tickCount cfg { mem := loadMem D, disk := D, log := [], g := {} } with
          mem := { (tickCount cfg { mem := loadMem D, disk := D, log := [], g := {} }).mem with readOpen := false } }) new := by
    unfold handleReadError
    simp only [t1, t3, hne, Bool.false_eq_true, if_false, segGet_of_segs D _ t7, hmiss, St.crash]
    exact { chain := by simp only [t3, t4]; exact e4
            ondisk := fun r hr => OnDisk_of_segs D _ t7 r (hod r (by rw [e1]; exact List.mem_append_right _ hr) (e5 r hr))
            small := fun r hr => h.small r (by rw [e1]; exact List.mem_append_right _ hr)
            ahead := Or.inl ⟨rfl, rfl⟩ }
  have h2 := loopTop_inv (cfg := cfg) (D.segs.length + 1000) inv2
  unfold openQ fuelOf
  rw [step1]
  exact drain_spec new _ _ h2.1 h2.2 (Nat.le_refl _)

end Crng.DQ
