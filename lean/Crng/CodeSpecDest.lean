import Crng.CodePrelude
/-! Hand-written closed form of imperatives.go `readDestination` on a token list: the option table (which token introduces
which option, what kind of value token must follow, which field it sets, in which unit), the option loop as structural
recursion over the tokens, the defaults, and the final call of `destination.New`. `Crng.Tie.CodeReadDest` proves the
function regenerated from /repo equal to this for every token list. -/
namespace Crng.CodeSpecDest
open Crng.Code

/-- the option variables of `readDestination` -/
structure DRec where
  connBufSize : Int := 30000
  err : Err := none
  flush : Int := 1000
  ioBufSize : Int := 2000000
  notPrefix : Bytes := []
  notRegex : Bytes := []
  notSub : Bytes := []
  pickle : Bool := false
  prefix_ : Bytes := []
  reconn : Int := 10000
  regex : Bytes := []
  spool : Bool := false
  spoolBufSize : Int := 10000
  spoolMaxBytesPerFile : Int := 200 * 1024 * 1024
  spoolSleep : Int := 500 * 1000
  spoolSyncEvery : Int := 10000
  spoolSyncPeriod : Int := 1000000000
  sub : Bytes := []
  unspoolSleep : Int := 10 * 1000

/-- the loop state of the regenerated function: its assigned variables in alphabetical order -/
abbrev DTuple := Int × Err × Int × Int × Bytes × Bytes × Bytes × Bool × Bytes × Int × Bytes × Scanner × Bool × Int × Int × Int × Int × Int × Bytes × TokV × Int
def DRec.toTuple (d : DRec) (s : Scanner) (t : TokV) : DTuple :=
  (d.connBufSize, d.err, d.flush, d.ioBufSize, d.notPrefix, d.notRegex, d.notSub, d.pickle, d.prefix_, d.reconn, d.regex, s, d.spool,
   d.spoolBufSize, d.spoolMaxBytesPerFile, d.spoolSleep, d.spoolSyncEvery, d.spoolSyncPeriod, d.sub, t, d.unspoolSleep)

inductive OKind | word | num | bool deriving DecidableEq

/-- docs/config.md, carbon destination options: which token introduces an option and what must follow it -/
def optKind : Token → Option OKind
  | .optPrefix | .optNotPrefix | .optSub | .optNotSub | .optRegex | .optNotRegex => some .word
  | .optFlush | .optReconn | .optConnBufSize | .optIoBufSize | .optSpoolBufSize | .optSpoolMaxBytesPerFile | .optSpoolSyncEvery
  | .optSpoolSyncPeriod | .optSpoolSleep | .optUnspoolSleep => some .num
  | .optPickle | .optSpool => some .bool
  | _ => none

def valueTokenOK (k : OKind) (v : Token) : Bool :=
  match k with
  | .word => v == Token.word
  | .num => v == Token.num
  | .bool => v == Token.optTrue || v == Token.optFalse

/-- the field an option sets, with the documented unit (ms for spoolsyncperiod, µs for the two sleeps; flush and reconn are
converted to durations after the loop) -/
def applyOpt (E : Env) (o : Token) (v : Bytes) (d : DRec) : Except Err DRec :=
  let num (f : Int → DRec) : Except Err DRec :=
    match E.strconv_Atoi (E.strings_TrimSpace v) with
    | (n, none) => .ok { (f n) with err := none }
    | (_, some e) => .error (some e)
  let bool (msg : String) (f : Bool → DRec) : Except Err DRec :=
    match E.strconv_ParseBool v with
    | (b, none) => .ok { (f b) with err := none }
    | (_, some _) => .error (some msg)
  match o with
  | .optPrefix => .ok { d with prefix_ := v } | .optNotPrefix => .ok { d with notPrefix := v }
  | .optSub => .ok { d with sub := v } | .optNotSub => .ok { d with notSub := v }
  | .optRegex => .ok { d with regex := v } | .optNotRegex => .ok { d with notRegex := v }
  | .optFlush => num fun n => { d with flush := n } | .optReconn => num fun n => { d with reconn := n }
  | .optPickle => bool "unrecognized pickle value '%s'" fun b => { d with pickle := b }
  | .optSpool => bool "unrecognized spool value '%s'" fun b => { d with spool := b }
  | .optConnBufSize => num fun n => { d with connBufSize := n } | .optIoBufSize => num fun n => { d with ioBufSize := n }
  | .optSpoolBufSize => num fun n => { d with spoolBufSize := n }
  | .optSpoolMaxBytesPerFile => num fun n => { d with spoolMaxBytesPerFile := n }
  | .optSpoolSyncEvery => num fun n => { d with spoolSyncEvery := n }
  | .optSpoolSyncPeriod => num fun n => { d with spoolSyncPeriod := n * time_Millisecond }
  | .optSpoolSleep => num fun n => { d with spoolSleep := n * time_Microsecond }
  | .optUnspoolSleep => num fun n => { d with unspoolSleep := n * time_Microsecond }
  | _ => .ok d

abbrev R := DestP × Err × Scanner

/-- one iteration of the option loop -/
def recStep (E : Env) (d : DRec) (s : Scanner) : Step (DRec × Scanner × TokV) R :=
  let t := s.Next.1
  let s1 := s.Next.2
  if t.Token = Token.EOF ∨ t.Token = Token.sep then .next (d, s1, t)
  else match optKind t.Token with
    | none => .ret (none, some "unrecognized option '%s'", s1)
    | some k =>
      let v := s1.Next.1
      let s2 := s1.Next.2
      if valueTokenOK k v.Token = false then .ret (none, errFmtAddRoute, s2)
      else match applyOpt E t.Token v.Value d with
        | .error e => .ret (none, e, s2)
        | .ok d' => .next (d', s2, v)

def stepMap {σ τ ρ : Type} (f : σ → τ) : Step σ ρ → Step τ ρ
  | .next s => .next (f s)
  | .brk s => .brk (f s)
  | .ret r => .ret r
@[simp] theorem stepMap_next {σ τ ρ : Type} (f : σ → τ) (s : σ) : stepMap (ρ := ρ) f (.next s) = .next (f s) := rfl
@[simp] theorem stepMap_brk {σ τ ρ : Type} (f : σ → τ) (s : σ) : stepMap (ρ := ρ) f (.brk s) = .brk (f s) := rfl
@[simp] theorem stepMap_ret {σ τ ρ : Type} (f : σ → τ) (r : ρ) : stepMap (σ := σ) f (.ret r) = .ret r := rfl
@[simp] theorem stepMap_ite {σ τ ρ : Type} (f : σ → τ) (c : Prop) [Decidable c] (a b : Step σ ρ) :
    stepMap f (if c then a else b) = if c then stepMap f a else stepMap f b := by split <;> rfl

def tupleStep (E : Env) (st : DTuple) : Step DTuple R :=
  match st with
  | (connBufSize, err, flush, ioBufSize, notPrefix, notRegex, notSub, pickle, prefix_, reconn, regex, s, spool, spoolBufSize,
     spoolMaxBytesPerFile, spoolSleep, spoolSyncEvery, spoolSyncPeriod, sub, _t, unspoolSleep) =>
    stepMap (fun (x : DRec × Scanner × TokV) => x.1.toTuple x.2.1 x.2.2)
      (recStep E { connBufSize, err, flush, ioBufSize, notPrefix, notRegex, notSub, pickle, prefix_, reconn, regex, spool, spoolBufSize,
                   spoolMaxBytesPerFile, spoolSleep, spoolSyncEvery, spoolSyncPeriod, sub, unspoolSleep } s)

def tupleCond (st : DTuple) : Bool :=
  match st with
  | (_, _, _, _, _, _, _, _, _, _, _, _, _, _, _, _, _, _, _, t, _) => (t.Token != toki_EOF) && (t.Token != Token.sep)

/-- the option loop as structural recursion over the remaining tokens: options are read in pairs until `EOF` or the route
separator; the first problem ends everything with an error -/
def optLoop (E : Env) : List TokV → DRec → Except (Err × Scanner) (DRec × Scanner)
  | [], d => .ok (d, ⟨[]⟩)
  | t :: rest, d =>
    if t.Token = Token.EOF ∨ t.Token = Token.sep then .ok (d, ⟨rest⟩)
    else match optKind t.Token with
      | none => .error (some "unrecognized option '%s'", ⟨rest⟩)
      | some k =>
        match rest with
        | [] => .error (errFmtAddRoute, ⟨[]⟩)          -- `Next()` answers EOF, which is no value token
        | v :: rest2 =>
          if valueTokenOK k v.Token = false then .error (errFmtAddRoute, ⟨rest2⟩)
          else match applyOpt E t.Token v.Value d with
            | .error e => .error (e, ⟨rest2⟩)
            | .ok d' => optLoop E rest2 d'
termination_by l => l.length
decreasing_by all_goals simp_wf <;> omega

/-- what `readDestination` does after the loop -/
def finish (E : Env) (d : DRec) (addr spoolDir routeKey : Bytes) (allowMatcher : Bool) (s : Scanner) : R :=
  if (!allowMatcher) && (d.prefix_ ++ d.notPrefix ++ d.sub ++ d.notSub ++ d.regex ++ d.notRegex != []) then
    (none, some "matching options (prefix, notPrefix, sub, notSub, regex, notRegex) not allowed for this route type", s)
  else
    match E.matcher_New d.prefix_ d.notPrefix d.sub d.notSub d.regex d.notRegex with
    | (_, some _) => (none, some "Failed to initialize matcher: %s", s)
    | (m, none) =>
      ((E.destination_New routeKey m addr spoolDir d.spool d.pickle (d.flush * time_Millisecond) (d.reconn * time_Millisecond)
          d.connBufSize d.ioBufSize d.spoolBufSize d.spoolMaxBytesPerFile d.spoolSyncEvery d.spoolSyncPeriod d.spoolSleep d.unspoolSleep).1,
       (E.destination_New routeKey m addr spoolDir d.spool d.pickle (d.flush * time_Millisecond) (d.reconn * time_Millisecond)
          d.connBufSize d.ioBufSize d.spoolBufSize d.spoolMaxBytesPerFile d.spoolSyncEvery d.spoolSyncPeriod d.spoolSleep d.unspoolSleep).2, s)

/-- closed form of `readDestination` -/
def readDestinationSpec (E : Env) (toks : List TokV) (table : TableI) (allowMatcher : Bool) (routeKey : Bytes) : R :=
  match toks with
  | [] => (none, some "addr not set for endpoint", ⟨[]⟩)
  | a :: rest =>
    if a.Token != Token.word then (none, some "addr not set for endpoint", ⟨rest⟩)
    else match optLoop E rest {} with
      | .error (e, s) => (none, e, s)
      | .ok (d, s) => finish E d a.Value table.GetSpoolDir routeKey allowMatcher s

end Crng.CodeSpecDest
