import Crng.DQCrashMain
/-! The ghost fields of the disk-queue model in terms of the history: `pend`, `synced`, `dsince` are windows of the list of
    all records ever enqueued, at every crash point of every history. This is what turns `c08_crash_recovery` (stated with
    the ghost fields) into the statement of C08 about the enqueued messages themselves. -/
namespace Crng.DQ

/-- `g` describes a queue into which the records `E` have been written so far: `d` of them were handed to the consumer,
    the last completed metadata rename happened when `a` had been handed over and `b` had been written -/
def GI (g : Ghost) (E : List Rec) : Prop :=
  ∃ d a b, a ≤ d ∧ d ≤ E.length ∧ a ≤ b ∧ b ≤ E.length ∧
    g.pend = E.drop d ∧ g.synced = (E.take b).drop a ∧ g.dsince = d - a

/-- … and so does every crash snapshot logged so far, each for the prefix of `E` written by then -/
def HInv (s : St) (E : List Rec) : Prop :=
  GI s.g E ∧ ∀ e ∈ s.log, ∃ E', E' <+: E ∧ GI e.g E'

/-- the workhorse: a state whose new log entries carry the old or the new ghost -/
theorem hinv_of {s s' : St} {E E' : List Rec} (h : HInv s E) (hE : E <+: E') (hg : GI s'.g E')
    (hl : ∀ e ∈ s'.log, e ∈ s.log ∨ e.g = s.g ∨ e.g = s'.g) : HInv s' E' := by
  refine ⟨hg, ?_⟩
  intro e he
  rcases hl e he with h1 | h1 | h1
  · obtain ⟨E'', hp, hgi⟩ := h.2 e h1
    exact ⟨E'', hp.trans hE, hgi⟩
  · exact ⟨E, hE, by rw [h1]; exact h.1⟩
  · exact ⟨E', List.prefix_refl _, by rw [h1]; exact hg⟩

theorem hinv_congr {s s' : St} {E : List Rec} (h : HInv s E) (hg : s'.g = s.g) (hl : s'.log = s.log) : HInv s' E := by
  unfold HInv at *; rw [hg, hl]; exact h

theorem gi_synced_now {g : Ghost} {E : List Rec} (h : GI g E) : GI { g with synced := g.pend, dsince := 0 } E := by
  obtain ⟨d, a, b, had, hd, hab, hb, hp, hs, hds⟩ := h
  refine ⟨d, d, E.length, Nat.le_refl _, hd, hd, Nat.le_refl _, hp, ?_, by simp⟩
  simp only [List.take_length]; exact hp

theorem hinv_persistMeta {s : St} {E : List Rec} (h : HInv s E) : HInv (persistMeta s) E := by
  refine hinv_of h (List.prefix_refl _) (by simp only [persistMeta, St.crash]; exact gi_synced_now h.1) ?_
  intro e he
  simp only [persistMeta, St.crash, List.mem_cons] at he
  rcases he with rfl | rfl | rfl | he
  · exact Or.inr (Or.inr rfl)
  · exact Or.inr (Or.inl rfl)
  · exact Or.inr (Or.inl rfl)
  · exact Or.inl he

theorem hinv_sync {s : St} {E : List Rec} (h : HInv s E) : HInv (sync s) E := by
  have h1 : HInv (if s.mem.writeOpen then s.crash "sync.data" else s) E := by
    split
    · refine hinv_of h (List.prefix_refl _) h.1 ?_
      intro e he
      simp only [St.crash, List.mem_cons] at he
      rcases he with rfl | he
      · exact Or.inr (Or.inl rfl)
      · exact Or.inl he
    · exact h
  exact hinv_congr (hinv_persistMeta h1) rfl rfl

theorem hinv_openWrite {s : St} {E : List Rec} (h : HInv s E) : HInv (openWrite s) E := by
  unfold openWrite
  split
  · exact h
  · refine hinv_of h (List.prefix_refl _) h.1 ?_
    intro e he
    simp only [St.crash, List.mem_cons] at he
    rcases he with rfl | he
    · exact Or.inr (Or.inl rfl)
    · exact Or.inl he

theorem gi_put {g : Ghost} {E : List Rec} (h : GI g E) (r : Rec) : GI { g with pend := g.pend ++ [r] } (E ++ [r]) := by
  obtain ⟨d, a, b, had, hd, hab, hb, hp, hs, hds⟩ := h
  refine ⟨d, a, b, had, by simp; omega, hab, by simp; omega, ?_, ?_, hds⟩
  · simp only [hp, List.drop_append_of_le_length hd]
  · simp only [hs, List.take_append_of_le_length hb]

theorem hinv_writeData {s : St} {E : List Rec} (h : HInv s E) (m : Bytes) :
    ∃ r : Rec, r.msg = m ∧ HInv (writeData s m) (E ++ [r]) := by
  have h1 := hinv_openWrite h
  refine ⟨{ msg := m, file := (openWrite s).mem.wfn, off := (openWrite s).mem.wpos }, rfl, ?_⟩
  refine hinv_of h1 (List.prefix_append _ _) (by simp only [writeData, St.crash]; exact gi_put h1.1 _) ?_
  intro e he
  simp only [writeData, St.crash, List.mem_cons] at he
  rcases he with rfl | he
  · exact Or.inr (Or.inr rfl)
  · exact Or.inl he

theorem hinv_writeOne {cfg : Cfg} {s : St} {E : List Rec} (h : HInv s E) (m : Bytes) :
    ∃ r : Rec, r.msg = m ∧ HInv (writeOne cfg s m) (E ++ [r]) := by
  obtain ⟨r, hr, h3⟩ := hinv_writeData h m
  refine ⟨r, hr, ?_⟩
  unfold writeOne
  simp only
  split
  · exact hinv_congr (hinv_sync (hinv_congr (s' := rollState (writeData s m)) h3 rfl rfl)) rfl rfl
  · exact h3

theorem gi_get {g : Ghost} {E : List Rec} (h : GI g E) (hne : g.pend ≠ []) :
    GI { g with pend := g.pend.tail, dsince := g.dsince + 1 } E := by
  obtain ⟨d, a, b, had, hd, hab, hb, hp, hs, hds⟩ := h
  have hlt : d < E.length := by
    rcases Nat.lt_or_ge d E.length with h | h
    · exact h
    · exfalso; apply hne; rw [hp]; exact List.drop_eq_nil_of_le h
  refine ⟨d + 1, a, b, by omega, by omega, hab, hb, ?_, hs, by simp only [hds]; omega⟩
  simp only [hp, List.tail_drop]

theorem checkTail_g (s : St) : (checkTail s).g = s.g ∧ (checkTail s).log = s.log := by
  unfold checkTail
  split
  · exact ⟨rfl, rfl⟩
  · simp only
    split <;> split <;> exact ⟨rfl, rfl⟩

theorem hinv_checkTail {s : St} {E : List Rec} (h : HInv s E) : HInv (checkTail s) E :=
  hinv_congr h (checkTail_g s).1 (checkTail_g s).2

theorem hinv_moveForward {s : St} {E : List Rec} (h : HInv s E) (hne : s.g.pend ≠ []) : HInv (moveForward s) E := by
  unfold moveForward
  simp only
  apply hinv_checkTail
  split
  · refine hinv_of h (List.prefix_refl _) (by simp only [St.crash]; exact gi_get h.1 hne) ?_
    intro e he
    simp only [St.crash, List.mem_cons] at he
    rcases he with rfl | he
    · exact Or.inr (Or.inr rfl)
    · exact Or.inl he
  · exact hinv_of h (List.prefix_refl _) (gi_get h.1 hne) (fun e he => Or.inl he)

theorem handleReadError_g (s : St) : (handleReadError s).g = s.g ∧ ∀ e ∈ (handleReadError s).log, e ∈ s.log ∨ e.g = s.g := by
  unfold handleReadError
  simp only [St.crash]
  split
  · refine ⟨rfl, ?_⟩
    intro e he
    simp only [List.mem_cons] at he
    rcases he with rfl | he
    · exact Or.inr rfl
    · exact Or.inl he
  · refine ⟨rfl, ?_⟩
    intro e he
    simp only [List.mem_cons] at he
    rcases he with rfl | he
    · exact Or.inr rfl
    · exact Or.inl he

theorem hinv_handleReadError {s : St} {E : List Rec} (h : HInv s E) : HInv (handleReadError s) E := by
  refine hinv_of h (List.prefix_refl _) (by rw [(handleReadError_g s).1]; exact h.1) ?_
  intro e he
  rcases (handleReadError_g s).2 e he with h1 | h1
  · exact Or.inl h1
  · exact Or.inr (Or.inl h1)

theorem hinv_tickCount {cfg : Cfg} {s : St} {E : List Rec} (h : HInv s E) : HInv (tickCount cfg s) E := by
  unfold tickCount
  simp only
  split
  · split
    · exact hinv_sync (hinv_congr h rfl rfl)
    · exact hinv_congr h rfl rfl
  · split
    · exact hinv_sync (hinv_congr h rfl rfl)
    · exact hinv_congr h rfl rfl

theorem readOne_g {cfg : Cfg} {s s' : St} (h : readOne cfg s = some s') : s'.g = s.g ∧ s'.log = s.log := by
  unfold readOne at h
  split at h
  · cases h
  · split at h
    · cases h
    · split at h <;> (cases h; exact ⟨rfl, rfl⟩)

theorem hinv_loopTop {cfg : Cfg} {E : List Rec} : ∀ (fuel : Nat) {s : St}, HInv s E → HInv (loopTop cfg fuel s) E := by
  intro fuel
  induction fuel with
  | zero => intro s h; exact h
  | succ n ih =>
    intro s h
    have h1 := hinv_tickCount (cfg := cfg) h
    unfold loopTop
    simp only
    split
    · split
      · rename_i s' hr
        obtain ⟨hg, hl⟩ := readOne_g hr
        exact hinv_congr h1 hg hl
      · exact ih (hinv_handleReadError (hinv_congr h1 rfl rfl))
    · exact h1

theorem hinv_openQ {cfg : Cfg} {s : St} {E : List Rec} (h : HInv s E) (disk : Disk) : HInv (openQ cfg disk s.log s.g) E := by
  unfold openQ
  exact hinv_loopTop _ (hinv_congr h rfl rfl)

theorem hinv_closeQ {s : St} {E : List Rec} (h : HInv s E) : HInv (closeQ s) E := by
  unfold closeQ
  exact hinv_sync (hinv_congr h rfl rfl)

/-- the messages of the `put` events of a history, in order -/
def putsOf : List Ev → List Bytes
  | [] => []
  | .put m :: es => m :: putsOf es
  | _ :: es => putsOf es

theorem putsOf_append (es : List Ev) (e : Ev) :
    putsOf (es ++ [e]) = putsOf es ++ (match e with | .put m => [m] | _ => []) := by
  induction es with
  | nil => cases e <;> simp [putsOf]
  | cons x xs ih => cases x <;> simp [putsOf, ih]

/-- one event: the history invariant moves on, the record list grows by exactly the message of a `put` -/
theorem hinv_step {cfg : Cfg} {s : St} {E : List Rec} (e : Ev) (hb : Bd cfg s) (h : HInv s E) :
    ∃ E', HInv (stepEv cfg s e).1 E' ∧ E'.map (·.msg) = E.map (·.msg) ++ (match e with | .put m => [m] | _ => []) := by
  cases e with
  | put m =>
    obtain ⟨r, hr, hw⟩ := hinv_writeOne (cfg := cfg) h m
    refine ⟨E ++ [r], ?_, by simp [hr]⟩
    simp only [stepEv]
    exact hinv_loopTop _ hw
  | get =>
    refine ⟨E, ?_, by simp⟩
    cases hp : s.g.pend with
    | nil =>
      have : hasData s.mem = false := by
        cases hh : hasData s.mem
        · rfl
        · exact absurd rfl ((hasData_iff cfg s [] (by rw [← hp]; exact hb.mid.inv)).mp hh)
      simp only [stepEv, this, Bool.false_eq_true, if_false]; exact h
    | cons r rs =>
      have hd : hasData s.mem = true := (hasData_iff cfg s (r :: rs) (by rw [← hp]; exact hb.mid.inv)).mpr (by simp)
      simp only [stepEv, hd, if_true]
      exact hinv_loopTop _ (hinv_moveForward h (by rw [hp]; simp))
  | reopen =>
    refine ⟨E, ?_, by simp⟩
    simp only [stepEv]
    exact hinv_openQ (hinv_closeQ h) _

theorem hinv_run {cfg : Cfg} : ∀ (es : List Ev) (s : St) (E : List Rec), Bd cfg s → (∀ e ∈ es, smallEv e) → HInv s E →
    ∃ E', HInv (runEvs cfg s es) E' ∧ E'.map (·.msg) = E.map (·.msg) ++ putsOf es := by
  intro es
  induction es with
  | nil => intro s E _ _ h; exact ⟨E, h, by simp [putsOf]⟩
  | cons e es ih =>
    intro s E hb hsm h
    obtain ⟨E1, h1, hm1⟩ := hinv_step (cfg := cfg) e hb h
    obtain ⟨E2, h2, hm2⟩ := ih _ E1 (step_bd e hb (hsm e (List.mem_cons_self ..))) (fun e he => hsm e (List.mem_cons_of_mem _ he)) h1
    refine ⟨E2, h2, ?_⟩
    rw [hm2, hm1]
    cases e <;> simp [putsOf]

theorem hinv_fresh (cfg : Cfg) : HInv (openQ cfg {} []) [] := by
  have base : HInv ({ mem := loadMem {}, disk := {}, log := [], g := {} } : St) [] :=
    ⟨⟨0, 0, 0, by simp, by simp, by simp, by simp, rfl, rfl, rfl⟩, fun e he => by cases he⟩
  exact hinv_loopTop _ base

end Crng.DQ
