import Crng.Ordered
/-! # FNV-1a, 64 bit — the digest `validate.Ordered` keys its map by (`h = fnv.New64a()`, regenerated fact
`Crng.Tie.C19.hasher_is_fnv64a`). Go's `hash/fnv`: offset basis 14695981039346656037, prime 1099511628211, per byte
`h = (h xor b) * prime mod 2^64`. Validated against the real `hash/fnv` on every run (stream `fnv-digest` of C19). -/
namespace Crng.Fnv

def offset64 : Nat := 14695981039346656037
def prime64 : Nat := 1099511628211

def fnv1a64 (b : Crng.Ord.Bytes) : Nat := b.foldl (fun h c => ((h ^^^ c.toNat) * prime64) % 2 ^ 64) offset64

theorem fnv1a64_nil : fnv1a64 [] = offset64 := rfl

theorem foldl_lt (b : Crng.Ord.Bytes) (h : Nat) (hh : h < 2 ^ 64) :
    b.foldl (fun h c => ((h ^^^ c.toNat) * prime64) % 2 ^ 64) h < 2 ^ 64 := by
  induction b generalizing h with
  | nil => exact hh
  | cons c cs ih => exact ih _ (Nat.mod_lt _ (by decide))

/-- the digest fits the `uint64` the map is keyed by -/
theorem fnv1a64_lt (b : Crng.Ord.Bytes) : fnv1a64 b < 2 ^ 64 := foldl_lt b offset64 (by decide)

/-- the digest of a concatenation continues from the digest of the prefix (what `h.Write` twice would do; `Ordered` resets
after every call — regenerated — so each call starts from the offset basis) -/
theorem fnv1a64_append (a b : Crng.Ord.Bytes) :
    fnv1a64 (a ++ b) = b.foldl (fun h c => ((h ^^^ c.toNat) * prime64) % 2 ^ 64) (fnv1a64 a) := by
  simp [fnv1a64, List.foldl_append]

def ascii (s : String) : Crng.Ord.Bytes := s.toList.map (fun c => UInt8.ofNat c.toNat)

/-- the names of the known finding C19-fnv-collision, as byte lists -/
def pair1a : Crng.Ord.Bytes := [56,121,110,48,105,89,67,75,89,72,108,73,106,52,45,66,119,80,113,107]      -- 8yn0iYCKYHlIj4-BwPqk
def pair1b : Crng.Ord.Bytes := [71,82,101,76,85,114,77,52,119,77,113,102,103,57,121,122,86,51,75,81]      -- GReLUrM4wMqfg9yzV3KQ
def pair2a : Crng.Ord.Bytes := [103,77,80,102,108,86,88,116,119,71,68,88,98,73,104,80,55,51,84,88]        -- gMPflVXtwGDXbIhP73TX
def pair2b : Crng.Ord.Bytes := [76,116,72,102,49,112,114,108,85,49,98,67,101,89,90,69,100,113,87,102]      -- LtHf1prlU1bCeYZEdqWf

end Crng.Fnv
