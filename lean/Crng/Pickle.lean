import Crng.DiskQueue
/-! Scratch prototype: the pickle a pickle-mode destination emits (destination/pickle.go via og-rek) and a pickle VM (C16, C13). -/
namespace Crng.Pk
abbrev Bytes := List UInt8
open Crng.DQ (natDigits scanNat)

inductive V where
  | int (i : Nat)          -- non-negative is all we need on the way out
  | float (bits : Nat)     -- the 8 big-endian bytes as a number
  | str (b : Bytes)
  | list (l : List V)
  | tuple (l : List V)
  | mark

def le16 (n : Nat) : Bytes := [UInt8.ofNat (n % 256), UInt8.ofNat (n / 256 % 256)]
def le32 (n : Nat) : Bytes := [UInt8.ofNat (n % 256), UInt8.ofNat (n / 256 % 256), UInt8.ofNat (n / 65536 % 256), UInt8.ofNat (n / 16777216 % 256)]
def be32 (n : Nat) : Bytes := [UInt8.ofNat (n / 16777216 % 256), UInt8.ofNat (n / 65536 % 256), UInt8.ofNat (n / 256 % 256), UInt8.ofNat (n % 256)]
def be64 (n : Nat) : Bytes := (List.range 8).reverse.map fun i => UInt8.ofNat (n / 256 ^ i % 256)

/-- og-rek `encodeInt` for a value coming from a uint32 -/
def encInt (i : Nat) : Bytes :=
  if 0 < i ∧ i < 255 then [75, UInt8.ofNat i]                 -- 'K' BININT1
  else if 0 < i ∧ i < 65535 then 77 :: le16 i                 -- 'M' BININT2
  else if i ≤ 2147483647 then 74 :: le32 i                    -- 'J' BININT
  else 73 :: (natDigits i ++ [10])                            -- 'I' decimal '\n'

/-- og-rek `encodeString` (= encodeBytes) -/
def encStr (s : Bytes) : Bytes :=
  if s.length < 256 then 85 :: UInt8.ofNat s.length :: s      -- 'U' SHORT_BINSTRING
  else 84 :: (le32 s.length ++ s)                              -- 'T' BINSTRING

/-- body written by `Pickle(dp)`: `[(name, (ts, val))]` -/
def pickleBody (name : Bytes) (ts : Nat) (bits : Nat) : Bytes :=
  [93, 40] ++ ([40] ++ encStr name ++ ([40] ++ encInt ts ++ (71 :: be64 bits) ++ [116]) ++ [116]) ++ [101, 46]

/-- the framed message -/
def pickleOut (name : Bytes) (ts : Nat) (bits : Nat) : Bytes :=
  be32 (pickleBody name ts bits).length ++ pickleBody name ts bits

/-! ### a pickle VM for the opcodes above -/
def rdLE : Bytes → Nat
  | [] => 0
  | b :: t => b.toNat + 256 * rdLE t
def rdBE (bs : Bytes) : Nat := bs.foldl (fun a b => a * 256 + b.toNat) 0

/-- pop down to the topmost mark: (items above the mark in push order, rest of the stack) -/
def popMark : List V → List V → Option (List V × List V)
  | [], _ => none
  | .mark :: t, acc => some (acc, t)
  | v :: t, acc => popMark t (v :: acc)

/-- one instruction (opcode given as a number); `none` = malformed / unsupported -/
def stepOp (op : Nat) (rest : Bytes) (stack : List V) : Option (Bytes × List V) :=
  match op with
  | 93 => some (rest, .list [] :: stack)                                      -- EMPTY_LIST
  | 40 => some (rest, .mark :: stack)                                         -- MARK
  | 75 => match rest with                                                     -- BININT1
    | b :: r => some (r, .int b.toNat :: stack) | [] => none
  | 77 => if rest.length < 2 then none else some (rest.drop 2, .int (rdLE (rest.take 2)) :: stack)   -- BININT2
  | 74 => if rest.length < 4 then none else some (rest.drop 4, .int (rdLE (rest.take 4)) :: stack)   -- BININT (non-negative here)
  | 73 => match scanNat rest with                                             -- INT decimal
    | some (n, 10 :: r) => some (r, .int n :: stack) | _ => none
  | 71 => if rest.length < 8 then none else some (rest.drop 8, .float (rdBE (rest.take 8)) :: stack) -- BINFLOAT
  | 85 => match rest with                                                     -- SHORT_BINSTRING
    | n :: r => if r.length < n.toNat then none else some (r.drop n.toNat, .str (r.take n.toNat) :: stack)
    | [] => none
  | 84 => if rest.length < 4 then none else                                   -- BINSTRING
      let n := rdLE (rest.take 4)
      let r := rest.drop 4
      if r.length < n then none else some (r.drop n, .str (r.take n) :: stack)
  | 116 => match popMark stack [] with                                        -- TUPLE
    | some (items, st) => some (rest, .tuple items :: st) | none => none
  | 101 => match popMark stack [] with                                        -- APPENDS
    | some (items, .list l :: st) => some (rest, .list (l ++ items) :: st) | _ => none
  | _ => none

def run : Nat → Bytes → List V → Option V
  | 0, _, _ => none
  | fuel + 1, code, stack =>
    match code with
    | [] => none
    | op :: rest =>
      if op.toNat = 46 then stack.head?                                       -- STOP
      else match stepOp op.toNat rest stack with
        | some (rest', stack') => run fuel rest' stack'
        | none => none

def unpickle (code : Bytes) : Option V := run (code.length + 1) code []

end Crng.Pk
