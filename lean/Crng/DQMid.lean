import Crng.DQCrash
namespace Crng.DQ

theorem chain_next_le (cfg : Cfg) : ∀ (rs : List Rec) (s e : Nat × Nat), Chain cfg s rs e → ∀ r ∈ rs, Le (r.next cfg) e := by
  intro rs
  induction rs with
  | nil => intro s e _ r hr; cases hr
  | cons r0 rs ih =>
    intro s e h r hr
    obtain ⟨_, h2⟩ := h
    rcases List.mem_cons.mp hr with rfl | hr'
    · exact chain_le cfg _ _ _ h2
    · exact ih _ _ h2 r hr'

/-- status of the metadata on disk relative to the in-memory read file -/
inductive Status (cfg : Cfg) (s : St) : Prop where
  | same (h1 : (loadMem s.disk).rfn = s.mem.rfn) (hod : ∀ r ∈ s.g.synced, OnDisk s.disk r)
  | behind (h1 : (loadMem s.disk).rfn + 1 = s.mem.rfn) (hns : s.mem.needSync = true)
      (hmiss : segGet s.disk (loadMem s.disk).rfn = none)
      (hlt : (loadMem s.disk).rfn < (loadMem s.disk).wfn)
      (hod : ∀ r ∈ s.g.synced, (loadMem s.disk).rfn < r.file → OnDisk s.disk r)
      (hcnt : ∀ old new, s.g.synced = old ++ new → (∀ r ∈ old, r.file = (loadMem s.disk).rfn) → old.length ≤ s.g.dsince)

structure Mid (cfg : Cfg) (s : St) : Prop where
  inv : Inv cfg s s.g.pend
  depth : s.mem.depth = s.g.pend.length
  recov : Recov cfg s.disk s.g.synced
  pre : s.g.synced.drop s.g.dsince <+: s.g.pend
  status : Status cfg s
  w2 : ∀ r ∈ s.g.pend, (r.next cfg).1 = r.file + 1 → r.file + 1 ≤ (loadMem s.disk).wfn
  mle : Le ((loadMem s.disk).wfn, (loadMem s.disk).wpos) (s.mem.wfn, s.mem.wpos)
  logok : LogOK cfg s

theorem Mid.recG {cfg : Cfg} {s : St} (h : Mid cfg s) : RecG cfg s.disk s.g := by
  cases h.status with
  | same _ hod => exact .all h.recov hod
  | behind _ _ hmiss hlt hod hcnt => exact .skip h.recov hmiss hlt hod hcnt

/-- the metadata written by a sync describes exactly the in-memory positions -/
theorem loadMem_of_meta (m : Mem) (junk : Bytes) (D : Disk) (hd : 0 ≤ m.depth) (h : D.metaF = some (renderMeta m ++ junk)) :
    loadMem D = { depth := m.depth, rfn := m.rfn, rpos := m.rpos, wfn := m.wfn, wpos := m.wpos, nrfn := m.rfn, nrpos := m.rpos } := by
  unfold loadMem
  rw [h]
  simp only [Option.bind_some, parse_render m junk hd]

theorem logOK_cons {cfg : Cfg} {L : Log} {label : String} {D : Disk} {g : Ghost}
    (h : ∀ e ∈ L, CrashOK cfg e) (hr : RecG cfg D g) : ∀ e ∈ (⟨label, D, g⟩ :: L : Log), CrashOK cfg e := by
  intro e he
  rcases List.mem_cons.mp he with rfl | he
  · exact hr.crashOK
  · exact h e he

def syncDisk (s : St) : Disk :=
  { s.disk with metaF := some (renderMeta s.mem ++ (s.disk.tmp.getD []).drop (renderMeta s.mem).length), tmp := none }
def syncGhost (s : St) : Ghost := { s.g with synced := s.g.pend, dsince := 0 }
def syncLog (s : St) : Log :=
  ⟨"meta.rename", syncDisk s, syncGhost s⟩ ::
  ⟨"meta.tmp.write", { s.disk with tmp := some (renderMeta s.mem ++ (s.disk.tmp.getD []).drop (renderMeta s.mem).length) }, s.g⟩ ::
  ⟨"meta.tmp.create", { s.disk with tmp := some (s.disk.tmp.getD []) }, s.g⟩ ::
  (if s.mem.writeOpen then [⟨"sync.data", s.disk, s.g⟩] else []) ++ s.log

theorem sync_eq (s : St) : sync s =
    { mem := { s.mem with needSync := false }, disk := syncDisk s, log := syncLog s, g := syncGhost s } := by
  by_cases hw : s.mem.writeOpen = true <;> simp [sync, persistMeta, syncDisk, syncGhost, syncLog, hw, St.crash]

/-- a sync from any state that is consistent, has an exact depth and whose current disk is recoverable -/
theorem sync_core {cfg : Cfg} {s : St} (hinv : Inv cfg s s.g.pend) (hdepth : s.mem.depth = s.g.pend.length)
    (hrg : RecG cfg s.disk s.g) (hlogok : LogOK cfg s) :
    Mid cfg (sync s) ∧ (sync s).mem.needSync = false ∧ (loadMem (sync s).disk).rfn = (sync s).mem.rfn ∧ (sync s).g.pend = s.g.pend ∧
    (sync s).g.synced = s.g.pend ∧
    loadMem (sync s).disk = { depth := s.mem.depth, rfn := s.mem.rfn, rpos := s.mem.rpos, wfn := s.mem.wfn, wpos := s.mem.wpos,
                              nrfn := s.mem.rfn, nrpos := s.mem.rpos } := by
  have hdep : 0 ≤ s.mem.depth := by rw [hdepth]; exact Int.natCast_nonneg _
  have hrgT : ∀ t, RecG cfg { s.disk with tmp := t } s.g := fun t =>
    hrg.congr rfl (fun r _ hr => OnDisk_of_segs _ _ rfl r hr) (fun hm => by simpa [segGet] using hm) rfl (Nat.le_refl _)
  have hload := loadMem_of_meta s.mem ((s.disk.tmp.getD []).drop (renderMeta s.mem).length) (syncDisk s) hdep rfl
  have hrgN : RecG cfg (syncDisk s) (syncGhost s) :=
    .all ⟨by rw [hload]; exact hinv.chain, hinv.small⟩ (fun r hr => OnDisk_of_segs _ _ rfl r (hinv.ondisk r hr))
  have hw2 : ∀ r ∈ s.g.pend, (r.next cfg).1 = r.file + 1 → r.file + 1 ≤ s.mem.wfn := by
    intro r hr hn
    have := chain_next_le cfg _ _ _ hinv.chain r hr
    unfold Le at this; simp at this; omega
  have hlog : ∀ e ∈ syncLog s, CrashOK cfg e := by
    unfold syncLog
    refine logOK_cons (logOK_cons (logOK_cons ?_ (hrgT _)) (hrgT _)) hrgN
    split
    · exact logOK_cons hlogok hrg
    · exact hlogok
  rw [sync_eq]
  exact ⟨{ inv := hinv.congr rfl rfl rfl rfl rfl rfl rfl rfl
           depth := hdepth
           recov := ⟨by rw [hload]; exact hinv.chain, hinv.small⟩
           pre := by simp [syncGhost]
           status := .same (by rw [hload]) (fun r hr => OnDisk_of_segs _ _ rfl r (hinv.ondisk r hr))
           w2 := by rw [hload]; exact hw2
           mle := by rw [hload]; exact Le.refl _
           logok := hlog }, rfl, by rw [hload], rfl, rfl, hload⟩

theorem sync_mid {cfg : Cfg} {s : St} (h : Mid cfg s) :
    Mid cfg (sync s) ∧ (sync s).mem.needSync = false ∧ (loadMem (sync s).disk).rfn = (sync s).mem.rfn ∧ (sync s).g.pend = s.g.pend :=
  let h' := sync_core h.inv h.depth h.recG h.logok
  ⟨h'.1, h'.2.1, h'.2.2.1, h'.2.2.2.1⟩

end Crng.DQ

namespace Crng.DQ

/-- `Mid` does not look at `count`, `readOpen`, `writeOpen`; `needSync` may only be raised -/
theorem Mid.congrMem {cfg : Cfg} {s s' : St} (h : Mid cfg s)
    (e1 : s'.mem.rfn = s.mem.rfn) (e2 : s'.mem.rpos = s.mem.rpos) (e3 : s'.mem.wfn = s.mem.wfn) (e4 : s'.mem.wpos = s.mem.wpos)
    (e5 : s'.mem.depth = s.mem.depth) (e6 : s'.mem.nrfn = s.mem.nrfn) (e7 : s'.mem.nrpos = s.mem.nrpos)
    (e8 : s'.mem.dataRead = s.mem.dataRead) (ed : s'.disk = s.disk) (eg : s'.g = s.g) (el : s'.log = s.log)
    (en : s'.mem.needSync = true ∨ s'.mem.needSync = s.mem.needSync) : Mid cfg s' where
  inv := by rw [eg]; exact h.inv.congr e1 e2 e3 e4 e6 e7 e8 (by rw [ed])
  depth := by rw [e5, eg]; exact h.depth
  recov := by rw [ed, eg]; exact h.recov
  pre := by rw [eg]; exact h.pre
  status := by
    cases h.status with
    | same h1 hod => exact .same (by rw [ed, e1]; exact h1) (by rw [ed, eg]; exact hod)
    | behind h1 hns hmiss hlt hod hcnt =>
      exact .behind (by rw [ed, e1]; exact h1) (by rcases en with en | en; exact en; rw [en]; exact hns)
        (by rw [ed]; exact hmiss) (by rw [ed]; exact hlt) (by rw [ed, eg]; exact hod) (by rw [ed, eg]; exact hcnt)
  w2 := by rw [ed, eg]; exact h.w2
  mle := by rw [ed, e3, e4]; exact h.mle
  logok := by unfold LogOK; rw [el]; exact h.logok

theorem Mid.same_of_nosync {cfg : Cfg} {s : St} (h : Mid cfg s) (hn : s.mem.needSync = false) :
    (loadMem s.disk).rfn = s.mem.rfn ∧ ∀ r ∈ s.g.synced, OnDisk s.disk r := by
  cases h.status with
  | same h1 hod => exact ⟨h1, hod⟩
  | behind _ hns _ _ _ _ => rw [hn] at hns; cases hns

theorem tickCount_mid {cfg : Cfg} {s : St} (h : Mid cfg s) :
    Mid cfg (tickCount cfg s) ∧ (tickCount cfg s).mem.needSync = false ∧ (tickCount cfg s).g.pend = s.g.pend := by
  unfold tickCount
  simp only []
  split
  · have h1 : Mid cfg { s with mem := { s.mem with count := 0, needSync := true } } :=
      h.congrMem rfl rfl rfl rfl rfl rfl rfl rfl rfl rfl rfl (Or.inl rfl)
    have := sync_mid h1
    simp only [if_true]
    exact ⟨this.1, this.2.1, this.2.2.2⟩
  · have h1 : Mid cfg { s with mem := { s.mem with count := s.mem.count + 1 } } :=
      h.congrMem rfl rfl rfl rfl rfl rfl rfl rfl rfl rfl rfl (Or.inr rfl)
    split
    · have := sync_mid h1
      exact ⟨this.1, this.2.1, this.2.2.2⟩
    · rename_i hn
      exact ⟨h1, by simpa using hn, rfl⟩

/-- boundary invariant: what holds whenever the io loop waits in its select -/
structure Bd (cfg : Cfg) (s : St) : Prop where
  mid : Mid cfg s
  ready : Ready cfg s s.g.pend
  nosync : s.mem.needSync = false

theorem readOne_shape {cfg : Cfg} {s s' : St} (h : readOne cfg s = some s') :
    s'.disk = s.disk ∧ s'.g = s.g ∧ s'.log = s.log ∧ s'.mem.rfn = s.mem.rfn ∧ s'.mem.rpos = s.mem.rpos ∧ s'.mem.wfn = s.mem.wfn ∧
    s'.mem.wpos = s.mem.wpos ∧ s'.mem.depth = s.mem.depth ∧ s'.mem.needSync = s.mem.needSync := by
  unfold readOne at h
  split at h
  · cases h
  · split at h
    · cases h
    · split at h <;> (cases h; simp)

theorem loopTop_bd {cfg : Cfg} {s : St} (fuel : Nat) (h : Mid cfg s) :
    Bd cfg (loopTop cfg (fuel + 1) s) ∧ (loopTop cfg (fuel + 1) s).g.pend = s.g.pend := by
  obtain ⟨h1, hn1, hp1⟩ := tickCount_mid (cfg := cfg) h
  have hinv := h1.inv
  unfold loopTop
  generalize tickCount cfg s = s1 at h1 hn1 hp1 hinv
  simp only []
  rw [hp1] at hinv
  cases hpend : s.g.pend with
  | nil =>
    rw [hpend] at hinv
    have : hasData s1.mem = false := by
      cases hh : hasData s1.mem
      · rfl
      · exact absurd rfl ((hasData_iff cfg s1 [] hinv).mp hh)
    simp only [this, Bool.false_and, Bool.false_eq_true, if_false]
    have hrdy : Ready cfg s1 s1.g.pend := by
      rw [hp1, hpend]; intro r rs he; cases he
    exact ⟨⟨h1, hrdy, hn1⟩, by rw [hp1]; try rw [hpend]⟩
  | cons r rs =>
    rw [hpend] at hinv
    have hd : hasData s1.mem = true := (hasData_iff cfg s1 _ hinv).mpr (by simp)
    by_cases hp : s1.mem.nrpos = s1.mem.rpos
    · obtain ⟨s', hs', hi, hr⟩ := readOne_inv hinv
      obtain ⟨q1, q2, q3, q4, q5, q6, q7, q8, q9⟩ := readOne_shape hs'
      simp only [hd, hp, beq_self_eq_true, Bool.and_self, if_true, hs']
      have hpend' : s'.g.pend = r :: rs := by rw [q2, hp1, hpend]
      refine ⟨⟨?_, by rw [hpend']; exact hr, by rw [q9]; exact hn1⟩, hpend'⟩
      exact { inv := by rw [hpend']; exact hi
              depth := by rw [q8, q2]; exact h1.depth
              recov := by rw [q1, q2]; exact h1.recov
              pre := by rw [q2]; exact h1.pre
              status := by
                obtain ⟨a, b⟩ := h1.same_of_nosync hn1
                exact .same (by rw [q1, q4]; exact a) (by rw [q1, q2]; exact b)
              w2 := by rw [q1, q2]; exact h1.w2
              mle := by rw [q1, q6, q7]; exact h1.mle
              logok := by unfold LogOK; rw [q3]; exact h1.logok }
    · have : (s1.mem.nrpos == s1.mem.rpos) = false := by simpa using hp
      simp only [hd, this, Bool.and_false, Bool.false_eq_true, if_false]
      refine ⟨⟨h1, ?_, hn1⟩, by rw [hp1]; try rw [hpend]⟩
      rw [hp1]; try rw [hpend]
      rcases hinv.ahead with ⟨_, h2⟩ | ⟨r', rs', he, hdat, hn⟩
      · exact absurd h2 hp
      · intro r'' rs'' he'
        cases he; cases he'
        exact ⟨hdat, hn⟩

end Crng.DQ
