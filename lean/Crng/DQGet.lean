import Crng.DQPut
namespace Crng.DQ

theorem segGet_segRemove_same (d : Disk) (n : Nat) : segGet (segRemove d n) n = none := by
  simp only [segGet, segRemove]
  induction d.segs with
  | nil => simp
  | cons h t ih =>
    by_cases h1 : h.1 = n
    · simp [List.filter_cons, h1, ih]
    · have : (h.1 == n) = false := by simpa using h1
      simp [List.filter_cons, h1, List.find?_cons, this, ih]

theorem drop_succ_prefix_tail {α : Type} (l : List α) (d : Nat) (x : α) (xs : List α) (h : l.drop d <+: x :: xs) :
    l.drop (d + 1) <+: xs := by
  have : l.drop (d + 1) = (l.drop d).tail := by simp [List.tail_drop]
  rw [this]
  cases hl : l.drop d with
  | nil => simp
  | cons y ys =>
    rw [hl] at h
    obtain ⟨t, ht⟩ := h
    simp at ht
    exact ⟨t, ht.2⟩

end Crng.DQ

namespace Crng.DQ

theorem moveForward_mid {cfg : Cfg} {s : St} {r : Rec} {rs : List Rec} (h : Bd cfg s) (hp : s.g.pend = r :: rs) :
    Mid cfg (moveForward s) ∧ (moveForward s).g.pend = rs := by
  have hinv : Inv cfg s (r :: rs) := by rw [← hp]; exact h.mid.inv
  have hready : Ready cfg s (r :: rs) := by rw [← hp]; exact h.ready
  obtain ⟨hdat, hnext⟩ := hready r rs rfl
  obtain ⟨hsame, hod⟩ := h.mid.same_of_nosync h.nosync
  have hdep : s.mem.depth = ((r :: rs).length : Int) := by rw [← hp]; exact h.mid.depth
  have hdep1 : s.mem.depth - 1 = (rs.length : Int) := by simp at hdep; omega
  have hmf := (moveForward_inv hinv hready).2 hdep
  have hinv2 := mfState_inv hinv hready
  have hpos := hinv.chain.1
  have hf : r.file = s.mem.rfn := by have := congrArg Prod.fst hpos; simpa using this
  have hnf : s.mem.nrfn = (r.next cfg).1 := by have := congrArg Prod.fst hnext; simpa using this
  have hpre : s.g.synced.drop (s.g.dsince + 1) <+: rs := drop_succ_prefix_tail _ _ r rs (by rw [← hp]; exact h.mid.pre)
  have hw2 : ∀ r' ∈ rs, (r'.next cfg).1 = r'.file + 1 → r'.file + 1 ≤ (loadMem s.disk).wfn :=
    fun r' hr' => h.mid.w2 r' (by rw [hp]; exact List.mem_cons_of_mem _ hr')
  have hlow := chain_bound cfg rs _ _ hinv.chain.2
  rw [hmf.2]
  unfold mfState at hinv2 ⊢
  by_cases hne : (s.mem.rfn != s.mem.nrfn) = true
  · simp only [hne, if_true] at hinv2 ⊢
    have hne' : s.mem.rfn ≠ s.mem.nrfn := by simpa using hne
    have hroll : (r.next cfg).1 = r.file + 1 := by
      unfold Rec.next at hnf ⊢
      split
      · rfl
      · rename_i hno; simp [hno] at hnf; omega
    have hnew : s.mem.nrfn = s.mem.rfn + 1 := by rw [hnf, hroll, hf]
    have hltW : (loadMem s.disk).rfn < (loadMem s.disk).wfn := by
      have := h.mid.w2 r (by rw [hp]; exact List.mem_cons_self ..) hroll
      rw [hsame]; omega
    have e_disk : (mfRemoved s).disk = segRemove s.disk s.mem.rfn := rfl
    have e_g : (mfRemoved s).g = { s.g with pend := s.g.pend.tail, dsince := s.g.dsince + 1 } := rfl
    have e_log : (mfRemoved s).log = ⟨"read.remove", (mfRemoved s).disk, (mfRemoved s).g⟩ :: s.log := rfl
    have e_rfn : (mfRemoved s).mem.rfn = s.mem.nrfn := rfl
    have hlm : loadMem (mfRemoved s).disk = loadMem s.disk := loadMem_congr _ _ rfl
    have hcnt : ∀ old new, (mfRemoved s).g.synced = old ++ new → (∀ x ∈ old, x.file = (loadMem (mfRemoved s).disk).rfn) →
        old.length ≤ (mfRemoved s).g.dsince := by
      rw [hlm]
      show ∀ old new, s.g.synced = old ++ new → (∀ x ∈ old, x.file = (loadMem s.disk).rfn) → old.length ≤ s.g.dsince + 1
      intro old new e1 e2
      by_cases hlen : old.length ≤ s.g.dsince + 1
      · exact hlen
      · exfalso
        have hlt : s.g.dsince + 1 < old.length := by omega
        have hmem : old[s.g.dsince + 1] ∈ old := List.getElem_mem hlt
        have hin : old[s.g.dsince + 1] ∈ s.g.synced.drop (s.g.dsince + 1) := by
          rw [e1, List.drop_append_of_le_length (by omega)]
          exact List.mem_append_left _ (by
            rw [List.mem_iff_getElem]
            exact ⟨0, by simp; omega, by simp⟩)
        have hin2 : old[s.g.dsince + 1] ∈ rs := hpre.subset hin
        have h1 := (hlow _ hin2).1
        have h2 := e2 _ hmem
        rw [hsame] at h2
        have h3 : (r.next cfg).1 = s.mem.rfn + 1 := by rw [hroll, hf]
        omega
    have hstat : Status cfg (mfRemoved s) :=
      .behind (by rw [hlm, hsame, e_rfn]; exact hnew.symm) rfl (by rw [hlm, hsame, e_disk]; exact segGet_segRemove_same _ _)
        (by rw [hlm]; exact hltW)
        (by
          rw [hlm]
          intro x hx hfx
          obtain ⟨c, rest, h1, h2⟩ := hod x hx
          have : x.file ≠ s.mem.rfn := by rw [hsame] at hfx; omega
          exact ⟨c, rest, by rw [e_disk, segGet_segRemove_other _ _ _ this]; exact h1, h2⟩)
        hcnt
    have hrec : Recov cfg (mfRemoved s).disk (mfRemoved s).g.synced := ⟨by rw [hlm]; exact h.mid.recov.chain, h.mid.recov.small⟩
    have hrg : RecG cfg (mfRemoved s).disk (mfRemoved s).g := by
      cases hstat with
      | same h1 _ => rw [hlm, hsame, e_rfn] at h1; omega
      | behind _ _ hmiss hlt hod' hcnt' => exact .skip hrec hmiss hlt hod' hcnt'
    have e_pend : (mfRemoved s).g.pend = rs := by rw [e_g]; simp [hp]
    exact ⟨{ inv := by rw [e_pend]; exact hinv2
             depth := by rw [e_pend]; exact hdep1
             recov := hrec
             pre := by rw [e_pend]; exact hpre
             status := hstat
             w2 := by rw [hlm, e_pend]; exact hw2
             mle := by rw [hlm]; exact h.mid.mle
             logok := by unfold LogOK; rw [e_log]; exact logOK_cons h.mid.logok hrg }, e_pend⟩
  · have hne' : (s.mem.rfn != s.mem.nrfn) = false := by simpa using hne
    simp only [hne', Bool.false_eq_true, if_false] at hinv2 ⊢
    have heq : s.mem.nrfn = s.mem.rfn := by have := hne'; simp at this; exact this.symm
    have e_pend : (mfKept s).g.pend = rs := by simp [mfKept, hp]
    exact ⟨{ inv := by rw [e_pend]; exact hinv2
             depth := by rw [e_pend]; exact hdep1
             recov := h.mid.recov
             pre := by rw [e_pend]; exact hpre
             status := .same (by show (loadMem s.disk).rfn = s.mem.nrfn; rw [hsame]; exact heq.symm) hod
             w2 := by rw [e_pend]; exact hw2
             mle := h.mid.mle
             logok := h.mid.logok }, e_pend⟩

end Crng.DQ
