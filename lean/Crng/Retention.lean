/-! first retention of a storage-schemas `retentions` value: persister.ParseRetentionDefs (old `secondsPerPoint:points`
format, else go-whisper's `10s:14d` format) -/
namespace Crng.Ret
abbrev Bytes := List UInt8

def isDigit (c : UInt8) : Bool := 48 ≤ c && c ≤ 57
def isSpace (c : UInt8) : Bool := c == 32 || c == 9 || c == 10 || c == 11 || c == 12 || c == 13
def trim (b : Bytes) : Bytes := ((b.dropWhile isSpace).reverse.dropWhile isSpace).reverse

def splitOn (sep : UInt8) (b : Bytes) : List Bytes :=
  let rec go : Bytes → Bytes → List Bytes
    | [], cur => [cur.reverse]
    | c :: t, cur => if c == sep then cur.reverse :: go t [] else go t (c :: cur)
  go b []

/-- `strconv.ParseInt(s, 10, bits)`: optional sign, decimal digits, in range -/
def parseInt (s : Bytes) (bits : Nat) : Option Int :=
  let (neg, ds) := match s with
    | 45 :: t => (true, t)
    | 43 :: t => (false, t)
    | _ => (false, s)
  if ds.isEmpty || !ds.all isDigit then none else
  let n : Nat := ds.foldl (fun a c => a * 10 + (c.toNat - 48)) 0
  let v : Int := if neg then -(n : Int) else n
  if v < -(2 ^ (bits - 1) : Int) || v ≥ (2 ^ (bits - 1) : Int) then none else some v

def unitMultiplier (u : Bytes) : Option Int :=
  match u with
  | 115 :: _ => some 1 | 109 :: _ => some 60 | 104 :: _ => some 3600 | 100 :: _ => some 86400
  | 119 :: _ => some 604800 | 121 :: _ => some 31536000 | _ => none

/-- go-whisper `parseRetentionPart` -/
def retentionPart (s : Bytes) : Option Int :=
  match parseInt s 32 with
  | some v => some v
  | none =>
    let ds := s.takeWhile isDigit
    let us := s.dropWhile isDigit
    if ds.isEmpty || us.isEmpty || !us.all (fun c => c == 115 || c == 109 || c == 104 || c == 100 || c == 119 || c == 121) then none else
    match parseInt ds 32, unitMultiplier us with
    | some v, some m => some (m * v)
    | _, _ => none   -- digits beyond int32: Go panics here ("Regex … is borked"); treated as an error

/-- seconds per point of each retention of the definition, or none if the definition is rejected -/
def secondsPerPoint (defs : Bytes) : Option (List Int) :=
  (splitOn 44 defs).mapM fun d =>
    let d := trim d
    match splitOn 58 d with
    | [a, b] =>
      match parseInt a 64, parseInt b 64 with
      | some x, some _ => some x
      | _, _ =>
        match retentionPart a, retentionPart b with
        | some x, some _ => some x
        | _, _ => none
    | _ => none

end Crng.Ret
