/-! Scratch prototype: Go slice headers over shared backing arrays; snapshot isolation of copy-on-write updates (C18). -/
namespace Crng.GoSlice

/-- slice header with offset 0 (all table slices are `x`, `x[:i]`, `x[:i:i]` or results of append on those) -/
structure Hdr where
  arr : Nat
  len : Nat
  cap : Nat
  deriving Repr, DecidableEq

/-- heap: array id ↦ cells (length = cap of that array) -/
abbrev Heap (α : Type) := List (List α)

def cells (h : Heap α) (a : Nat) : List α := h.getD a []
def view (h : Heap α) (s : Hdr) : List α := (cells h s.arr).take s.len

/-- the update idioms found in table.go / route.go -/
inductive Op (α : Type) where
  | appendElem (x : α)        -- conf.xs = append(conf.xs, x)
  | deleteInPlace (i : Nat)   -- conf.xs = append(conf.xs[:i], conf.xs[i+1:]...)
  | deleteFull (i : Nat)      -- conf.xs = append(conf.xs[:i:i], conf.xs[i+1:]...)
  | fresh (xs : List α)       -- conf.xs = make(...) / a newly built slice
  deriving Repr

def safe : Op α → Bool
  | .deleteInPlace _ => false
  | _ => true

variable {α : Type} [Inhabited α]

/-- Go's `append(s, x)`: in place when len < cap, else a fresh array with `slack` spare cells -/
def goAppend (slack : Nat) (h : Heap α) (s : Hdr) (x : α) : Heap α × Hdr :=
  if s.len < s.cap then
    (h.set s.arr ((cells h s.arr).set s.len x), { s with len := s.len + 1 })
  else
    (h ++ [view h s ++ [x] ++ List.replicate slack default], { arr := h.length, len := s.len + 1, cap := s.len + 1 + slack })

def step (slack : Nat) (st : Heap α × Hdr) : Op α → Heap α × Hdr
  | .appendElem x => goAppend slack st.1 st.2 x
  | .deleteInPlace i =>
      let v := view st.1 st.2
      let c := cells st.1 st.2.arr
      (st.1.set st.2.arr ((v.take i ++ v.drop (i+1)) ++ c.drop (st.2.len - 1)), { st.2 with len := st.2.len - 1 })
  | .deleteFull i =>
      let v := view st.1 st.2
      if st.2.len ≤ i + 1 then
        -- nothing to append: the result is `s[:i:i]` itself, on the same array, with cap = len
        (st.1, { st.2 with len := min i st.2.len, cap := min i st.2.len })
      else
        let v' := v.take i ++ v.drop (i+1)
        (st.1 ++ [v' ++ List.replicate slack default], { arr := st.1.length, len := v'.length, cap := v'.length + slack })
  | .fresh xs => (st.1 ++ [xs], { arr := st.1.length, len := xs.length, cap := xs.length })

/-- all headers point into the heap; an in-place append can never hit a cell some published header sees -/
structure Inv (h : Heap α) (cur : Hdr) (pubs : List Hdr) : Prop where
  curIn : cur.arr < h.length
  pubIn : ∀ p ∈ pubs, p.arr < h.length
  room : cur.len < cur.cap → ∀ p ∈ pubs, p.arr = cur.arr → p.len ≤ cur.len

theorem cells_append_lt (h : Heap α) (x : List α) (a : Nat) (ha : a < h.length) : cells (h ++ [x]) a = cells h a := by
  simp [cells, List.getD, List.getElem?_append_left ha]
theorem view_append_heap (h : Heap α) (x : List α) (p : Hdr) (hp : p.arr < h.length) : view (h ++ [x]) p = view h p := by
  simp [view, cells_append_lt h x p.arr hp]
theorem cells_set_ne (h : Heap α) (a b : Nat) (c : List α) (hne : b ≠ a) : cells (h.set a c) b = cells h b := by
  simp [cells, List.getD, List.getElem?_set_ne (Ne.symm hne)]
theorem cells_set_eq (h : Heap α) (a : Nat) (c : List α) (ha : a < h.length) : cells (h.set a c) a = c := by
  simp [cells, List.getD, List.getElem?_set_self ha]

/-- one safe step: every header published so far (and the current one) keeps its view; the invariant is re-established -/
theorem step_safe (slack : Nat) (h : Heap α) (cur : Hdr) (pubs : List Hdr) (inv : Inv h cur pubs) (op : Op α) (hs : safe op = true) :
    (∀ p ∈ cur :: pubs, view (step slack (h, cur) op).1 p = view h p) ∧
    Inv (step slack (h, cur) op).1 (step slack (h, cur) op).2 (cur :: pubs) := by
  have hparr : ∀ p ∈ cur :: pubs, p.arr < h.length := by
    intro p hp
    rcases List.mem_cons.mp hp with rfl | hm
    · exact inv.curIn
    · exact inv.pubIn p hm
  cases op with
  | deleteInPlace i => simp [safe] at hs
  | fresh xs =>
    simp only [step]
    refine ⟨fun p hp => view_append_heap _ _ _ (hparr p hp), ⟨by simp, ?_, ?_⟩⟩
    · intro p hp; have := hparr p hp; simp; omega
    · intro _ p hp hpa; have := hparr p hp; simp at hpa; omega
  | deleteFull i =>
    simp only [step]
    split
    · refine ⟨fun _ _ => rfl, ⟨inv.curIn, hparr, ?_⟩⟩
      intro hlt; simp at hlt
    · refine ⟨fun p hp => view_append_heap _ _ _ (hparr p hp), ⟨by simp, ?_, ?_⟩⟩
      · intro p hp; have := hparr p hp; simp; omega
      · intro _ p hp hpa; have := hparr p hp; simp at hpa; omega
  | appendElem x =>
    simp only [step, goAppend]
    split
    · rename_i hroom
      refine ⟨?_, ⟨by simpa using inv.curIn, ?_, ?_⟩⟩
      · intro p hp
        by_cases hpa : p.arr = cur.arr
        · have hl : p.len ≤ cur.len := by
            rcases List.mem_cons.mp hp with rfl | hm
            · exact Nat.le_refl _
            · exact inv.room hroom p hm hpa
          simp only [view, hpa, cells_set_eq h cur.arr _ inv.curIn]
          rw [List.take_set_of_le hl]
        · simp [view, cells_set_ne h cur.arr p.arr _ hpa]
      · intro p hp; simpa using hparr p hp
      · intro _ p hp hpa
        have hl : p.len ≤ cur.len := by
          rcases List.mem_cons.mp hp with rfl | hm
          · exact Nat.le_refl _
          · exact inv.room hroom p hm hpa
        simp; omega
    · refine ⟨fun p hp => view_append_heap _ _ _ (hparr p hp), ⟨by simp, ?_, ?_⟩⟩
      · intro p hp; have := hparr p hp; simp; omega
      · intro _ p hp hpa; have := hparr p hp; simp at hpa; omega

/-- run a history of updates, publishing each intermediate header -/
def run (slack : Nat) : Heap α × Hdr → List Hdr → List (Op α) → Heap α × Hdr × List Hdr
  | st, pubs, [] => (st.1, st.2, pubs)
  | st, pubs, op :: ops => run slack (step slack st op) (st.2 :: pubs) ops

/-- **C18 core.** If every update idiom in the history is safe, then whatever header a dispatcher loaded at any earlier
    point still shows exactly the elements it showed when it was loaded, after any number of later updates. -/
theorem isolation (slack : Nat) : ∀ (ops : List (Op α)) (h : Heap α) (cur : Hdr) (pubs : List Hdr),
    Inv h cur pubs → (∀ op ∈ ops, safe op = true) →
    ∀ p ∈ cur :: pubs, view (run slack (h, cur) pubs ops).1 p = view h p := by
  intro ops
  induction ops with
  | nil => intro h cur pubs _ _ p _; rfl
  | cons op ops ih =>
    intro h cur pubs inv hs p hp
    obtain ⟨hv, hinv⟩ := step_safe slack h cur pubs inv op (hs op (List.mem_cons_self ..))
    simp only [run]
    have := ih (step slack (h, cur) op).1 (step slack (h, cur) op).2 (cur :: pubs) hinv
      (fun o ho => hs o (List.mem_cons_of_mem _ ho)) p (List.mem_cons_of_mem _ hp)
    rw [this, hv p hp]

end Crng.GoSlice

/-- the unsafe idiom really breaks it: `[1,2,3]`, delete index 0 in place — the old header now shows `[2,3,3]` -/
example : Crng.GoSlice.view (Crng.GoSlice.step (α := Nat) 0 ([[1, 2, 3]], ⟨0, 3, 3⟩) (.deleteInPlace 0)).1 ⟨0, 3, 3⟩ = [2, 3, 3] := by decide
/-- … and with the full-slice idiom it still shows `[1,2,3]` -/
example : Crng.GoSlice.view (Crng.GoSlice.step (α := Nat) 0 ([[1, 2, 3]], ⟨0, 3, 3⟩) (.deleteFull 0)).1 ⟨0, 3, 3⟩ = [1, 2, 3] := by decide
