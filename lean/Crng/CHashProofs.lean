import Crng.CHash
namespace Crng.CHash
open Crng.Ring

theorem keyLe_iff (a b : Key) : keyLe a b = true ↔
    a.1 < b.1 ∨ (a.1 = b.1 ∧ ((a.2.1 ≤ b.2.1 ∧ a.2.1 ≠ b.2.1) ∨ (a.2.1 = b.2.1 ∧ a.2.2 ≤ b.2.2))) := by
  simp [keyLe]

/-- `hashRing.Less` (made reflexive) is a total order on (position, host, instance), monotone in the position -/
def keyOrd : Crng.Ring.Ord Key where
  le a b := keyLe a b = true
  pos a := a.1
  refl a := by rw [keyLe_iff]; exact Or.inr ⟨rfl, Or.inr ⟨rfl, List.le_refl _⟩⟩
  trans a b c h1 h2 := by
    rw [keyLe_iff] at *
    rcases h1 with h1 | ⟨e1, h1⟩
    · rcases h2 with h2 | ⟨e2, _⟩
      · exact Or.inl (by omega)
      · exact Or.inl (by omega)
    · rcases h2 with h2 | ⟨e2, h2⟩
      · exact Or.inl (by omega)
      · refine Or.inr ⟨by omega, ?_⟩
        rcases h1 with ⟨l1, n1⟩ | ⟨q1, l1⟩
        · rcases h2 with ⟨l2, n2⟩ | ⟨q2, l2⟩
          · refine Or.inl ⟨List.le_trans l1 l2, ?_⟩
            intro hc
            rw [← hc] at l2
            exact n1 (List.le_antisymm l1 l2)
          · exact Or.inl ⟨by rw [← q2]; exact l1, by rw [← q2]; exact n1⟩
        · rcases h2 with ⟨l2, n2⟩ | ⟨q2, l2⟩
          · exact Or.inl ⟨by rw [q1]; exact l2, by rw [q1]; exact n2⟩
          · exact Or.inr ⟨by rw [q1, q2], List.le_trans l1 l2⟩
  antisymm a b h1 h2 := by
    rw [keyLe_iff] at *
    obtain ⟨a1, a2, a3⟩ := a
    obtain ⟨b1, b2, b3⟩ := b
    simp only at h1 h2
    rcases h1 with h1 | ⟨e1, h1⟩
    · rcases h2 with h2 | ⟨e2, _⟩ <;> omega
    · rcases h2 with h2 | ⟨_, h2⟩
      · omega
      · subst e1
        rcases h1 with ⟨l1, n1⟩ | ⟨q1, l1⟩
        · rcases h2 with ⟨l2, _⟩ | ⟨q2, _⟩
          · exact absurd (List.le_antisymm l1 l2) n1
          · exact absurd q2.symm n1
        · subst q1
          rcases h2 with ⟨_, n2⟩ | ⟨_, l2⟩
          · exact absurd rfl n2
          · rw [List.le_antisymm l1 l2]
  total a b := by
    simp only [keyLe_iff]
    rcases Nat.lt_trichotomy a.1 b.1 with h | h | h
    · exact Or.inl (Or.inl h)
    · by_cases hq : a.2.1 = b.2.1
      · rcases List.le_total a.2.2 b.2.2 with hl | hl
        · exact Or.inl (Or.inr ⟨h, Or.inr ⟨hq, hl⟩⟩)
        · exact Or.inr (Or.inr ⟨h.symm, Or.inr ⟨hq.symm, hl⟩⟩)
      · rcases List.le_total a.2.1 b.2.1 with hl | hl
        · exact Or.inl (Or.inr ⟨h, Or.inl ⟨hl, hq⟩⟩)
        · exact Or.inr (Or.inr ⟨h.symm, Or.inl ⟨hl, fun e => hq e.symm⟩⟩)
    · exact Or.inr (Or.inl h)
  pos_mono a b h := by
    rw [keyLe_iff] at h
    rcases h with h | ⟨e, _⟩ <;> omega

/-! ### the sort -/
theorem mem_insertKey (x y : Key) (l : List Key) : y ∈ insertKey x l ↔ y = x ∨ y ∈ l := by
  induction l with
  | nil => simp [insertKey]
  | cons a t ih =>
    simp only [insertKey]
    split
    · simp only [List.mem_cons, ih]
      constructor
      · rintro (h | h | h) <;> simp [h]
      · rintro (h | h | h) <;> simp [h]
    · simp [List.mem_cons]

theorem insertKey_sorted (x : Key) (l : List Key) (h : l.Pairwise keyOrd.le) : (insertKey x l).Pairwise keyOrd.le := by
  induction l with
  | nil => simp [insertKey]
  | cons a t ih =>
    obtain ⟨h1, h2⟩ := List.pairwise_cons.mp h
    simp only [insertKey]
    split
    · rename_i hle
      refine List.pairwise_cons.mpr ⟨?_, ih h2⟩
      intro y hy
      rcases (mem_insertKey x y t).mp hy with rfl | hy
      · exact hle
      · exact h1 y hy
    · rename_i hnle
      have hxa : keyOrd.le x a := by
        rcases keyOrd.total x a with h | h
        · exact h
        · exact absurd h hnle
      refine List.pairwise_cons.mpr ⟨?_, h⟩
      intro y hy
      rcases List.mem_cons.mp hy with rfl | hy
      · exact hxa
      · exact keyOrd.trans _ _ _ hxa (h1 y hy)

theorem sortKeys_spec (l : List Key) : (∀ y, y ∈ sortKeys l ↔ y ∈ l) ∧ (sortKeys l).Pairwise keyOrd.le := by
  unfold sortKeys
  have key : ∀ (l acc : List Key), acc.Pairwise keyOrd.le →
      (∀ y, y ∈ l.foldl (fun acc x => insertKey x acc) acc ↔ y ∈ l ∨ y ∈ acc) ∧
      (l.foldl (fun acc x => insertKey x acc) acc).Pairwise keyOrd.le := by
    intro l
    induction l with
    | nil => intro acc h; simp [h]
    | cons a t ih =>
      intro acc h
      obtain ⟨m, s⟩ := ih (insertKey a acc) (insertKey_sorted a acc h)
      refine ⟨?_, s⟩
      intro y
      simp only [List.foldl_cons, m, mem_insertKey, List.mem_cons]
      constructor
      · rintro (h | h | h) <;> simp [h]
      · rintro ((h | h) | h) <;> simp [h]
  obtain ⟨m, s⟩ := key l [] List.Pairwise.nil
  exact ⟨fun y => by simpa using m y, s⟩

end Crng.CHash
