/-! Executable regular-expression engine for the *driver* (core-only): a backtracking matcher with Perl/RE2
leftmost-first semantics for the syntax subset the correspondence generators use
(literals, escapes, `.`, classes with ranges/negation, `\d \w \s`, groups `(..)` / `(?:..)`, alternation,
greedy `* + ?`, counted `{n}`/`{n,m}`/`{n,}`, `^`, `$`).  It replaces Go's `regexp` on the model side; its agreement
with Go's engine is validated by a correspondence stream of its own (`rx`), never assumed.
Theorems never mention it: in `Crng/Table.lean` a compiled regex is an arbitrary decision function. -/
namespace Crng.Rx
abbrev Bytes := List UInt8

inductive Re where
  | empty
  | chr (c : UInt8)
  | any                                   -- `.` : any byte except newline
  | cls (neg : Bool) (rs : List (UInt8 × UInt8))
  | bol | eol
  | cat (a b : Re)
  | alt (a b : Re)
  | star (a : Re)
  | plus (a : Re)
  | opt (a : Re)
  | grp (idx : Nat) (a : Re)
  | fail                                  -- unsupported syntax: never matches (the generators never produce it)
  deriving Repr, Inhabited

/-! ### parser (recursive descent over bytes) -/
structure PS where
  rest : Bytes
  ngroups : Nat := 0
  ok : Bool := true

def isDigit (c : UInt8) : Bool := 48 ≤ c && c ≤ 57
def isWord (c : UInt8) : Bool := isDigit c || (65 ≤ c && c ≤ 90) || (97 ≤ c && c ≤ 122) || c == 95

def escClass (c : UInt8) : Option Re :=
  if c == 100 then some (.cls false [(48, 57)])                                   -- \d
  else if c == 68 then some (.cls true [(48, 57)])                                -- \D
  else if c == 119 then some (.cls false [(48, 57), (65, 90), (97, 122), (95, 95)]) -- \w
  else if c == 87 then some (.cls true [(48, 57), (65, 90), (97, 122), (95, 95)])   -- \W
  else if c == 115 then some (.cls false [(9, 10), (12, 13), (32, 32)])           -- \s
  else if c == 83 then some (.cls true [(9, 10), (12, 13), (32, 32)])             -- \S
  else none

/-- the items of a bracket class up to the closing `]` -/
partial def parseClassItems (s : Bytes) (acc : List (UInt8 × UInt8)) (first : Bool) : Option (List (UInt8 × UInt8) × Bytes) :=
  match s with
  | [] => none
  | 93 :: t => if first then parseClassItems t ((93, 93) :: acc) false else some (acc.reverse, t)
  | 92 :: c :: t =>
    match escClass c with
    | some (.cls false rs) => parseClassItems t (rs.reverse ++ acc) false
    | some _ => none
    | none =>
      match t with
      | 45 :: 93 :: _ => parseClassItems t ((c, c) :: acc) false
      | 45 :: 92 :: d :: t' => parseClassItems t' ((c, d) :: acc) false
      | 45 :: d :: t' => parseClassItems t' ((c, d) :: acc) false
      | _ => parseClassItems t ((c, c) :: acc) false
  | c :: 45 :: 93 :: t => parseClassItems (45 :: 93 :: t) ((c, c) :: acc) false
  | c :: 45 :: 92 :: d :: t => parseClassItems t ((c, d) :: acc) false
  | c :: 45 :: d :: t => parseClassItems t ((c, d) :: acc) false
  | c :: t => parseClassItems t ((c, c) :: acc) false

def natOfDigits (ds : Bytes) : Nat := ds.foldl (fun a c => a * 10 + (c.toNat - 48)) 0

def repeatRe (a : Re) : Nat → Re
  | 0 => .empty
  | 1 => a
  | n + 1 => .cat a (repeatRe a n)

/-- `a{n,m}` as nested optionals: a^n (a (a (..)?)?)? -/
def optChain (a : Re) : Nat → Re
  | 0 => .empty
  | n + 1 => .opt (.cat a (optChain a n))

mutual
  partial def parseAlt (st : PS) : Re × PS :=
    let (a, st) := parseCat st
    match st.rest with
    | 124 :: t =>
      let (b, st') := parseAlt { st with rest := t }
      (.alt a b, st')
    | _ => (a, st)

  partial def parseCat (st : PS) : Re × PS :=
    match st.rest with
    | [] => (.empty, st)
    | 124 :: _ => (.empty, st)
    | 41 :: _ => (.empty, st)
    | _ =>
      let (a, st) := parseRep st
      let (b, st) := parseCat st
      match b with
      | .empty => (a, st)
      | _ => (.cat a b, st)

  partial def parseRep (st : PS) : Re × PS :=
    let (a, st) := parseAtom st
    parseSuffix a st

  partial def parseSuffix (a : Re) (st : PS) : Re × PS :=
    match st.rest with
    | 42 :: 63 :: t => (.fail, { st with rest := t, ok := false })   -- lazy: unsupported
    | 43 :: 63 :: t => (.fail, { st with rest := t, ok := false })
    | 63 :: 63 :: t => (.fail, { st with rest := t, ok := false })
    | 42 :: t => parseSuffix (.star a) { st with rest := t }
    | 43 :: t => parseSuffix (.plus a) { st with rest := t }
    | 63 :: t => parseSuffix (.opt a) { st with rest := t }
    | 123 :: t =>
      let ds := t.takeWhile isDigit
      let t1 := t.dropWhile isDigit
      if ds.isEmpty then (a, st) else
      match t1 with
      | 125 :: t2 => parseSuffix (repeatRe a (natOfDigits ds)) { st with rest := t2 }
      | 44 :: 125 :: t2 => parseSuffix (.cat (repeatRe a (natOfDigits ds)) (.star a)) { st with rest := t2 }
      | 44 :: t2 =>
        let es := t2.takeWhile isDigit
        match t2.dropWhile isDigit with
        | 125 :: t3 =>
          if es.isEmpty then (a, st) else
          let n := natOfDigits ds
          let m := natOfDigits es
          parseSuffix (.cat (repeatRe a n) (optChain a (m - n))) { st with rest := t3 }
        | _ => (a, st)
      | _ => (a, st)
    | _ => (a, st)

  partial def parseAtom (st : PS) : Re × PS :=
    match st.rest with
    | [] => (.empty, st)
    | 40 :: 63 :: 58 :: t =>                               -- (?:
      let (a, st') := parseAlt { st with rest := t }
      match st'.rest with
      | 41 :: t' => (a, { st' with rest := t' })
      | _ => (.fail, { st' with ok := false })
    | 40 :: 63 :: _ => (.fail, { st with rest := [], ok := false })   -- flags / named groups: unsupported
    | 40 :: t =>
      let idx := st.ngroups + 1
      let (a, st') := parseAlt { st with rest := t, ngroups := idx }
      match st'.rest with
      | 41 :: t' => (.grp idx a, { st' with rest := t' })
      | _ => (.fail, { st' with ok := false })
    | 91 :: 94 :: t =>
      match parseClassItems t [] true with
      | some (rs, t') => (.cls true rs, { st with rest := t' })
      | none => (.fail, { st with rest := [], ok := false })
    | 91 :: t =>
      match parseClassItems t [] true with
      | some (rs, t') => (.cls false rs, { st with rest := t' })
      | none => (.fail, { st with rest := [], ok := false })
    | 46 :: t => (.any, { st with rest := t })
    | 94 :: t => (.bol, { st with rest := t })
    | 36 :: t => (.eol, { st with rest := t })
    | 92 :: c :: t =>
      match escClass c with
      | some r => (r, { st with rest := t })
      | none =>
        if isWord c && c != 95 then (.fail, { st with rest := t, ok := false })   -- \b \A \z …: unsupported
        else (.chr c, { st with rest := t })
    | c :: t => (.chr c, { st with rest := t })
end

structure Compiled where
  re : Re
  ngroups : Nat
  ok : Bool
  deriving Inhabited

def compile (src : Bytes) : Compiled :=
  let (r, st) := parseAlt { rest := src }
  { re := r, ngroups := st.ngroups, ok := st.ok && st.rest.isEmpty }

/-! ### matcher -/
abbrev Caps := List (Nat × Nat × Nat)   -- (group, start, end), latest first

def inCls (c : UInt8) (rs : List (UInt8 × UInt8)) : Bool := rs.any fun (a, b) => a ≤ c && c ≤ b

/-- match `r` against `inp` (as an array) from `pos`; `k` is the continuation -/
partial def m (inp : Array UInt8) : Re → Nat → Caps → (Nat → Caps → Option (Nat × Caps)) → Option (Nat × Caps)
  | .empty, pos, caps, k => k pos caps
  | .fail, _, _, _ => none
  | .chr c, pos, caps, k => if h : pos < inp.size then (if inp[pos] == c then k (pos + 1) caps else none) else none
  | .any, pos, caps, k => if h : pos < inp.size then (if inp[pos] != 10 then k (pos + 1) caps else none) else none
  | .cls neg rs, pos, caps, k =>
    if h : pos < inp.size then (if inCls inp[pos] rs != neg then k (pos + 1) caps else none) else none
  | .bol, pos, caps, k => if pos == 0 then k pos caps else none
  | .eol, pos, caps, k => if pos == inp.size then k pos caps else none
  | .cat a b, pos, caps, k => m inp a pos caps fun p c => m inp b p c k
  | .alt a b, pos, caps, k => match m inp a pos caps k with | some r => some r | none => m inp b pos caps k
  | .opt a, pos, caps, k => match m inp a pos caps k with | some r => some r | none => k pos caps
  | .star a, pos, caps, k =>
    match m inp a pos caps (fun p c => if p == pos then none else m inp (.star a) p c k) with
    | some r => some r
    | none => k pos caps
  | .plus a, pos, caps, k => m inp a pos caps fun p c => m inp (.star a) p c k
  | .grp i a, pos, caps, k => m inp a pos caps fun p c => k p ((i, pos, p) :: c)

/-- leftmost-first search from `start`: (match start, match end, captures) -/
partial def searchFrom (c : Compiled) (inp : Array UInt8) (start : Nat) : Option (Nat × Nat × Caps) :=
  if start > inp.size then none else
  match m inp c.re start [] (fun p cs => some (p, cs)) with
  | some (e, cs) => some (start, e, cs)
  | none => searchFrom c inp (start + 1)

def isMatch (c : Compiled) (s : Bytes) : Bool := c.ok && (searchFrom c s.toArray 0).isSome

def capOf (cs : Caps) (i : Nat) : Option (Nat × Nat) := (cs.find? (·.1 == i)).map (·.2)

/-- Go `Regexp.Expand` template semantics: `$1`, `${1}`, `$name` (longest run of word characters), `$$` -/
partial def expand (tmpl : Bytes) (s : Bytes) (ms me : Nat) (cs : Caps) : Bytes :=
  match tmpl with
  | [] => []
  | 36 :: 36 :: t => 36 :: expand t s ms me cs
  | 36 :: 123 :: t =>
    let name := t.takeWhile (· != 125)
    match t.dropWhile (· != 125) with
    | 125 :: t' =>
      if !name.isEmpty && name.all isWord then groupText name s ms me cs ++ expand t' s ms me cs
      else 36 :: expand (123 :: t) s ms me cs
    | _ => 36 :: expand (123 :: t) s ms me cs
  | 36 :: t =>
    let name := t.takeWhile isWord
    if name.isEmpty then 36 :: expand t s ms me cs
    else groupText name s ms me cs ++ expand (t.dropWhile isWord) s ms me cs
  | c :: t => c :: expand t s ms me cs
where
  groupText (name : Bytes) (s : Bytes) (ms me : Nat) (cs : Caps) : Bytes :=
    if name.all isDigit then
      let i := natOfDigits name
      if i == 0 then (s.drop ms).take (me - ms)
      else match capOf cs i with
        | some (a, b) => (s.drop a).take (b - a)
        | none => []
    else []

/-- `MatchRegexAndExpand`: first match, expanded template -/
def matchExpand (c : Compiled) (s tmpl : Bytes) : Option Bytes :=
  if !c.ok then none else
  match searchFrom c s.toArray 0 with
  | some (ms, me, cs) => some (expand tmpl s ms me cs)
  | none => none

/-- Go `ReplaceAll(src, repl)` with template expansion, transcribed from `regexp.replaceAll`: successive matches from
    `searchPos`; the replacement is not inserted for an empty match immediately after another match; always advance -/
partial def replaceAllFrom (c : Compiled) (s : Bytes) (inp : Array UInt8) (tmpl : Bytes) (searchPos lastEnd : Nat) : Bytes :=
  if searchPos > inp.size then s.drop lastEnd else
  match searchFrom c inp searchPos with
  | none => s.drop lastEnd
  | some (a0, a1, cs) =>
    let pre := (s.drop lastEnd).take (a0 - lastEnd)
    let rep := if a1 > lastEnd || a0 == 0 then expand tmpl s a0 a1 cs else []
    let next := if searchPos + 1 > a1 then searchPos + 1 else a1
    pre ++ rep ++ replaceAllFrom c s inp tmpl next a1

def replaceAll (c : Compiled) (s tmpl : Bytes) : Bytes :=
  if !c.ok then s else replaceAllFrom c s s.toArray tmpl 0 0

end Crng.Rx
