/-! Scratch prototype: go-metrics20 `ValidatePacket` + Go `bytes.Fields` + `strconv.ParseFloat` acceptance (C02). -/
namespace Crng.Val
abbrev Bytes := List UInt8

/-! ### bytes.Fields (ASCII fast path and the unicode.IsSpace path) -/
def asciiSpace (b : UInt8) : Bool := b == 9 || b == 10 || b == 11 || b == 12 || b == 13 || b == 32

def isSpaceRune (r : Nat) : Bool :=
  r == 9 || r == 10 || r == 11 || r == 12 || r == 13 || r == 32 || r == 0x85 || r == 0xA0 || r == 0x1680 ||
  (0x2000 ≤ r && r ≤ 0x200A) || r == 0x2028 || r == 0x2029 || r == 0x202F || r == 0x205F || r == 0x3000

/-- Go's utf8.DecodeRune: (rune, width); invalid encodings give (0xFFFD, 1) -/
def decodeRune (s : Bytes) : Nat × Nat :=
  match s with
  | [] => (0xFFFD, 0)
  | b0 :: t =>
    let c0 := b0.toNat
    if c0 < 0x80 then (c0, 1)
    else if c0 < 0xC2 then (0xFFFD, 1)
    else if c0 < 0xE0 then
      match t with
      | b1 :: _ => if 0x80 ≤ b1.toNat && b1.toNat ≤ 0xBF then ((c0 % 32) * 64 + b1.toNat % 64, 2) else (0xFFFD, 1)
      | _ => (0xFFFD, 1)
    else if c0 < 0xF0 then
      match t with
      | b1 :: b2 :: _ =>
        let lo := if c0 == 0xE0 then 0xA0 else 0x80
        let hi := if c0 == 0xED then 0x9F else 0xBF
        if lo ≤ b1.toNat && b1.toNat ≤ hi && 0x80 ≤ b2.toNat && b2.toNat ≤ 0xBF then
          ((c0 % 16) * 4096 + (b1.toNat % 64) * 64 + b2.toNat % 64, 3) else (0xFFFD, 1)
      | _ => (0xFFFD, 1)
    else if c0 < 0xF5 then
      match t with
      | b1 :: b2 :: b3 :: _ =>
        let lo := if c0 == 0xF0 then 0x90 else 0x80
        let hi := if c0 == 0xF4 then 0x8F else 0xBF
        if lo ≤ b1.toNat && b1.toNat ≤ hi && 0x80 ≤ b2.toNat && b2.toNat ≤ 0xBF && 0x80 ≤ b3.toNat && b3.toNat ≤ 0xBF then
          ((c0 % 8) * 262144 + (b1.toNat % 64) * 4096 + (b2.toNat % 64) * 64 + b3.toNat % 64, 4) else (0xFFFD, 1)
      | _ => (0xFFFD, 1)
    else (0xFFFD, 1)

/-- split into maximal runs of non-space, rune by rune -/
def fieldsU : Nat → Bytes → Bytes → List Bytes → List Bytes
  | 0, _, cur, acc => (if cur.isEmpty then acc else cur.reverse :: acc).reverse
  | fuel + 1, s, cur, acc =>
    match s with
    | [] => (if cur.isEmpty then acc else cur.reverse :: acc).reverse
    | _ =>
      let (r, w) := decodeRune s
      if isSpaceRune r then fieldsU fuel (s.drop w) [] (if cur.isEmpty then acc else cur.reverse :: acc)
      else fieldsU fuel (s.drop w) ((s.take w).reverse ++ cur) acc

def fields (s : Bytes) : List Bytes := fieldsU (s.length + 1) s [] []

/-! ### strconv.ParseFloat(s, 64) succeeds? (readFloat / special / underscoreOK + overflow) -/
def lower (b : UInt8) : UInt8 := if 65 ≤ b && b ≤ 90 then b + 32 else b
def isDig (b : UInt8) : Bool := 48 ≤ b && b ≤ 57
def isHexLetter (b : UInt8) : Bool := let l := lower b; 97 ≤ l && l ≤ 102

def commonPrefixLenIC (s : Bytes) (p : Bytes) : Nat :=
  match s, p with
  | a :: s', b :: p' => if lower a == b then 1 + commonPrefixLenIC s' p' else 0
  | _, _ => 0

/-- `special`: accepted length of an inf/infinity/nan spelling at the start of `s` (0 = none) -/
def specialLen (s : Bytes) : Nat :=
  let infinity : Bytes := "infinity".toUTF8.toList
  let nan : Bytes := "nan".toUTF8.toList
  match s with
  | [] => 0
  | c :: t =>
    if c == 43 || c == 45 then
      let n := commonPrefixLenIC t infinity
      let n := if 3 < n && n < 8 then 3 else n
      if n == 3 || n == 8 then 1 + n else 0
    else if lower c == 105 then
      let n := commonPrefixLenIC s infinity
      let n := if 3 < n && n < 8 then 3 else n
      if n == 3 || n == 8 then n else 0
    else if lower c == 110 then
      if commonPrefixLenIC s nan == 3 then 3 else 0
    else 0

/-- strconv.underscoreOK -/
def underscoreOK (s : Bytes) : Bool :=
  let s := match s with | c :: t => if c == 43 || c == 45 then t else s | [] => s
  let (hex, s, saw0) := match s with
    | z :: x :: t => if z == 48 && (lower x == 98 || lower x == 111 || lower x == 120) then (lower x == 120, t, '0') else (false, s, '^')
    | _ => (false, s, '^')
  let rec go : Bytes → Char → Bool
    | [], saw => saw != '_'
    | c :: t, saw =>
      if isDig c || (hex && isHexLetter c) then go t '0'
      else if c == 95 then (if saw != '0' then false else go t '_')
      else if saw == '_' then false
      else go t '!'
  go s saw0

structure RF where
  mant : Nat      -- all mantissa digits (arbitrary precision)
  exp10 : Int     -- decimal: value = mant * 10^exp10 ; hex: value = mant * 2^exp10
  hex : Bool
  neg : Bool
  consumed : Nat

/-- `readFloat` with exact mantissa; none = syntax error -/
def readFloat (s0 : Bytes) : Option RF := Id.run do
  let mut s := s0
  let mut neg := false
  match s with
  | c :: t => if c == 43 then s := t else if c == 45 then do s := t; neg := true
  | [] => return none
  let mut hex := false
  match s with
  | z :: x :: t => if z == 48 && lower x == 120 && !t.isEmpty then do hex := true; s := t
  | _ => pure ()
  let mut sawdot := false
  let mut sawdigits := false
  let mut mant : Nat := 0
  let mut fracDigits : Nat := 0   -- number of digits after the dot
  let mut underscores := false
  let mut fuel := s.length + 1
  while fuel > 0 do
    fuel := fuel - 1
    match s with
    | [] => fuel := 0
    | c :: t =>
      if c == 95 then do underscores := true; s := t
      else if c == 46 then
        if sawdot then fuel := 0 else do sawdot := true; s := t
      else if isDig c then do
        sawdigits := true; mant := mant * (if hex then 16 else 10) + (c.toNat - 48)
        if sawdot then fracDigits := fracDigits + 1
        s := t
      else if hex && isHexLetter c then do
        sawdigits := true; mant := mant * 16 + ((lower c).toNat - 97 + 10)
        if sawdot then fracDigits := fracDigits + 1
        s := t
      else fuel := 0
  if !sawdigits then return none
  let mut e : Int := 0
  let expChar : UInt8 := if hex then 112 else 101
  match s with
  | c :: t =>
    if lower c == expChar then do
      s := t
      if s.isEmpty then return none
      let mut esign : Int := 1
      match s with
      | d :: t2 => if d == 43 then s := t2 else if d == 45 then do s := t2; esign := -1
      | [] => pure ()
      match s with
      | d :: _ => if !isDig d then return none
      | [] => return none
      let mut ev : Nat := 0
      let mut fuel2 := s.length + 1
      while fuel2 > 0 do
        fuel2 := fuel2 - 1
        match s with
        | d :: t2 =>
          if d == 95 then do underscores := true; s := t2
          else if isDig d then do
            if ev < 10000 then ev := ev * 10 + (d.toNat - 48)
            s := t2
          else fuel2 := 0
        | [] => fuel2 := 0
      e := esign * ev
    else if hex then return none
  | [] => if hex then return none
  let consumed := s0.length - s.length
  if underscores && !underscoreOK (s0.take consumed) then return none
  let exp : Int := if hex then e - 4 * fracDigits else e - fracDigits
  return some { mant, exp10 := exp, hex, neg, consumed }

/-- does the exact value round to ±Inf in binary64 (round half to even)? threshold 2^1024 - 2^970 -/
def overflows (r : RF) : Bool :=
  if r.mant == 0 then false else
  let thr : Nat := 2^1024 - 2^970
  if r.hex then
    if r.exp10 ≥ 0 then r.mant * 2^r.exp10.toNat ≥ thr else r.mant ≥ thr * 2^(-r.exp10).toNat
  else
    if r.exp10 ≥ 0 then r.mant * 10^r.exp10.toNat ≥ thr else r.mant ≥ thr * 10^(-r.exp10).toNat

def parseFloatOK (s : Bytes) : Bool :=
  match readFloat s with
  | some r => if r.consumed == s.length then !overflows r else (let n := specialLen s; n != 0 && n == s.length)
  | none => let n := specialLen s; n != 0 && n == s.length

/-! ### key validation -/
inductive LegacyLevel | strict | medium | none deriving Repr, DecidableEq
inductive M20Level | medium | none deriving Repr, DecidableEq
inductive Version | legacy | m20 | m20ne deriving Repr, DecidableEq

def getVersion : Bytes → Version
  | [] => .legacy
  | c :: t =>
    if c == 61 then .m20
    else if c == 95 then
      match t with
      | a :: b :: d :: _ => if a == 105 && b == 115 && d == 95 then .m20ne else getVersion t
      | _ => getVersion t
    else if c == 46 then .legacy
    else getVersion t

def contains (s sub : Bytes) : Bool :=
  if sub.isEmpty then true else
  (List.range (s.length + 1)).any fun i => (s.drop i).take sub.length == sub
def hasPrefix (s p : Bytes) : Bool := s.take p.length == p
def countNonOverlap (s sub : Bytes) : Nat := (s.filter (· == 46)).length   -- only used with "."

def str (x : String) : Bytes := x.toUTF8.toList

/-- ValidateTagAppendixB; `tags` starts at the first ';' -/
def tagAppendixOK : Nat → Bytes → Bool
  | 0, _ => false
  | fuel + 1, tags =>
    if tags.length < 4 then false else
    match tags with
    | semi :: k0 :: _ =>
      if semi != 59 then false
      else if k0 == 61 then false
      else
        let rest := tags.drop 1
        let key := rest.takeWhile (fun c => c != 61 && c != 59 && c != 33)
        match rest.drop key.length with
        | [] => false
        | c :: afterEq =>
          if c != 61 then false   -- hit ';' or '!'
          else
            match afterEq with
            | [] => false
            | v0 :: _ =>
              if v0 == 59 then false else
              let val := afterEq.takeWhile (fun c => c != 59 && c != 61)
              match afterEq.drop val.length with
              | [] => true
              | d :: _ => if d == 61 then false else tagAppendixOK fuel (afterEq.drop val.length)
    | _ => false

inductive Err | fields | emptyKey | tagAppendix | emptyNode | illegalChar | nullByte | nonAscii | mixEq | noUnit | noMType | notEnoughTags | valNotNumber | tsNotTs
  deriving Repr, DecidableEq

def sensible (c : UInt8) : Bool := (97 ≤ c && c ≤ 122) || (65 ≤ c && c ≤ 90) || (48 ≤ c && c ≤ 57) || c == 95 || c == 45 || c == 46

def notNullAscii (s : Bytes) : Option Err :=
  match s.find? (fun c => c == 0 || c ≥ 128) with
  | some c => if c == 0 then some .nullByte else some .nonAscii
  | none => none

def validateLegacy (id : Bytes) (lvl : LegacyLevel) : Option Err :=
  if lvl == .none then none else
  let semi := id.takeWhile (· != 59)
  let hasSemi := semi.length < id.length
  if hasSemi && semi.isEmpty then some .emptyKey else
  let appErr := if hasSemi then !tagAppendixOK (id.length + 1) (id.drop semi.length) else false
  if appErr then some .tagAppendix else
  let key := semi
  let strictErr : Option Err :=
    if lvl == .strict then
      if contains key (str "..") then some .emptyNode
      else if key.any (fun c => !sensible c) then some .illegalChar else none
    else none
  match strictErr with
  | some e => some e
  | none => notNullAscii id

def dots (s : Bytes) : Nat := (s.filter (· == 46)).length

def validateM20 (id : Bytes) (lvl : M20Level) : Option Err :=
  if lvl == .none then none else
  if contains id (str "_is_") then some .mixEq
  else if !hasPrefix id (str "unit=") && !contains id (str ".unit=") then some .noUnit
  else if !hasPrefix id (str "mtype=") && !contains id (str ".mtype=") then some .noMType
  else if dots id < 2 then some .notEnoughTags else none

def validateM20NE (id : Bytes) (lvl : M20Level) : Option Err :=
  if lvl == .none then none else
  if contains id (str "=") then some .mixEq
  else if !hasPrefix id (str "unit_is_") && !contains id (str ".unit_is_") then some .noUnit
  else if !hasPrefix id (str "mtype_is_") && !contains id (str ".mtype_is_") then some .noMType
  else if dots id < 2 then some .notEnoughTags else none

/-- ValidatePacket: (key, error?) -/
def validatePacket (buf : Bytes) (ll : LegacyLevel) (ml : M20Level) : Bytes × Option Err :=
  match fields buf with
  | [name, val, ts] =>
    let version := getVersion name
    let key := match name with | c :: t => if c == 46 then t else name | [] => name
    let kerr := match version with
      | .legacy => validateLegacy key ll
      | .m20 => validateM20 key ml
      | .m20ne => validateM20NE key ml
    match kerr with
    | some e => (key, some e)
    | none =>
      if !parseFloatOK val then (key, some .valNotNumber)
      else if !parseFloatOK ts then (key, some .tsNotTs)
      else (key, none)
  | _ => ([], some .fields)

end Crng.Val
