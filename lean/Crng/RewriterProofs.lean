import Crng.Rewriter
namespace Crng.Rw

theorem hasPrefix_append (old post : Bytes) : hasPrefix (old ++ post) old = true := by
  simp [hasPrefix]

theorem replaceN_cons_miss (old new : Bytes) (fuel : Nat) (n : Option Nat) (hn : n ≠ some 0) (c : UInt8) (t : Bytes)
    (h : hasPrefix (c :: t) old = false) : replaceN old new (fuel + 1) n (c :: t) = c :: replaceN old new fuel n t := by
  cases n with
  | none => simp [replaceN, h]
  | some k =>
    cases k with
    | zero => exact absurd rfl hn
    | succ k => simp [replaceN, h]

/-- **left-to-right, non-overlapping**: if the first occurrence of `old` in the name is after `pre` (no occurrence starts
inside `pre`), a rule that may still replace (`n ≠ 0`) rewrites exactly that occurrence and continues after it with one
replacement less — the scan never looks back into the replaced text -/
theorem replaceN_first (old new : Bytes) (hold : old ≠ []) (post : Bytes) (f : Nat) (n : Option Nat) (hn : n ≠ some 0) :
    ∀ (pre : Bytes), (∀ i, i < pre.length → hasPrefix ((pre ++ old ++ post).drop i) old = false) →
      replaceN old new (pre.length + f + 1) n (pre ++ old ++ post) = pre ++ new ++ replaceN old new f (n.map (· - 1)) post := by
  intro pre
  induction pre with
  | nil =>
    intro _
    cases hs : old ++ post with
    | nil => simp at hs; exact absurd hs.1 hold
    | cons c t =>
      have hp : hasPrefix (c :: t) old = true := by rw [← hs]; exact hasPrefix_append old post
      have hd : (c :: t).drop old.length = post := by rw [← hs]; simp
      cases n with
      | none => simp [replaceN, hs, hp, hd]
      | some k =>
        cases k with
        | zero => exact absurd rfl hn
        | succ k => simp [replaceN, hs, hp, hd]
  | cons c p ih =>
    intro hno
    have h0 : hasPrefix (c :: (p ++ old ++ post)) old = false := by
      have := hno 0 (by simp)
      simpa using this
    have ih' := ih (fun i hi => by have := hno (i + 1) (by simp; omega); simpa using this)
    have e : (c :: p).length + f + 1 = (p.length + f + 1) + 1 := by simp; omega
    rw [e, List.cons_append, List.cons_append, replaceN_cons_miss old new _ n hn c _ h0, ih']
    simp

end Crng.Rw
