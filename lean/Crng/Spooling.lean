/-! Scratch prototype: where a line can be between hand-off and reception (destination.go, conn.go, keepsafe.go, spool.go) and
    the conservation argument behind C06/C07. Lines are numbers; containers are lists. -/
namespace Crng.Sp

structure S where
  handed : List Nat := []     -- ghost: everything handed to dest.In so far
  connUp : Bool := false      -- relay holds a connection it believes alive
  spool : Bool := true
  inQ : List Nat := []        -- conn.In
  hd : Option Nat := none     -- taken by HandleData, not yet in keepSafe
  keep : List Nat := []       -- keepSafe (old ++ recent)
  wire : List Nat := []       -- written: bufio buffer + kernel + network, not yet read by the endpoint
  recv : List Nat := []       -- read by some incarnation of the endpoint
  redo : List Nat := []       -- bulk list inside collectRedo, not yet ingested
  spoolQ : List Nat := []     -- InRT / InBulk / queueBuffer / disk queue / slow-chan, in any stage
  counted : List Nat := []    -- ghost: lines for which a drop counter was incremented
  collected : Bool := false   -- getRedo has run for the current (dead) connection
  deriving Repr

inductive Act where
  | handoffQueued (id : Nat)      -- conn up, room in conn.In
  | handoffDropSlow (id : Nat)    -- conn up, conn.In full: slow_conn++
  | handoffSpooled (id : Nat)     -- conn down, spooling: InRT had room
  | handoffDropSpool (id : Nat)   -- conn down, spooling: slow_spool++
  | handoffNoSpool (id : Nat)     -- conn down, no spool: conn_down_no_spool++
  | take                          -- HandleData receives from conn.In
  | keepAdd                       -- keepSafe.Add then Write
  | deliver (id : Nat)            -- endpoint reads a line that was on the wire
  | rotate (id : Nat)             -- keepSafe forgets an old line
  | die                           -- endpoint / connection dies: everything on the wire is gone
  | notice                        -- relay sees !isAlive: conn = nil
  | redoDrain                     -- getRedo: conn.In -> keepSafe
  | redoGetAll                    -- getRedo: keepSafe.GetAll -> bulk list
  | ingest                        -- Spool.Ingest one line
  | unspoolQueued                 -- spool.Out -> conn.In
  | unspoolDropSlow               -- spool.Out -> slow_conn++
  | reconnect                     -- a new connection comes online
  deriving Repr

/-- which actions are enabled; `h1` = keepSafe only forgets delivered lines, `h2` = getRedo waits for HandleData -/
def enabled (h1 h2 : Bool) (s : S) : Act → Bool
  | .handoffQueued _ => s.connUp
  | .handoffDropSlow _ => s.connUp
  | .handoffSpooled _ => !s.connUp && s.spool
  | .handoffDropSpool _ => !s.connUp && s.spool
  | .handoffNoSpool _ => !s.connUp && !s.spool
  | .take => s.hd.isNone && !s.inQ.isEmpty && !s.collected
  | .keepAdd => s.hd.isSome && (!h2 || !s.collected)
  | .deliver id => s.wire.contains id
  | .rotate id => s.keep.contains id && (!h1 || s.recv.contains id)
  | .die => true
  | .notice => s.connUp
  | .redoDrain => !s.connUp && s.spool && !s.collected && !s.inQ.isEmpty
  | .redoGetAll => !s.connUp && s.spool && !s.collected && s.inQ.isEmpty && (!h2 || s.hd.isNone)
  | .ingest => !s.redo.isEmpty
  | .unspoolQueued => s.connUp && !s.spoolQ.isEmpty
  | .unspoolDropSlow => s.connUp && !s.spoolQ.isEmpty
  | .reconnect => !s.connUp && s.collected && s.hd.isNone

def step (s : S) : Act → S
  | .handoffQueued id => { s with handed := id :: s.handed, inQ := s.inQ ++ [id] }
  | .handoffDropSlow id => { s with handed := id :: s.handed, counted := id :: s.counted }
  | .handoffSpooled id => { s with handed := id :: s.handed, spoolQ := s.spoolQ ++ [id] }
  | .handoffDropSpool id => { s with handed := id :: s.handed, counted := id :: s.counted }
  | .handoffNoSpool id => { s with handed := id :: s.handed, counted := id :: s.counted }
  | .take => match s.inQ with | id :: q => { s with inQ := q, hd := some id } | [] => s
  | .keepAdd => match s.hd with | some id => { s with hd := none, keep := s.keep ++ [id], wire := s.wire ++ [id] } | none => s
  | .deliver id => { s with wire := s.wire.erase id, recv := id :: s.recv }
  | .rotate id => { s with keep := s.keep.erase id }
  | .die => { s with wire := [] }
  | .notice => { s with connUp := false, collected := false }
  | .redoDrain => { s with keep := s.keep ++ s.inQ, inQ := [] }
  | .redoGetAll => { s with redo := s.redo ++ s.keep, keep := [], collected := true }
  | .ingest => match s.redo with | id :: r => { s with redo := r, spoolQ := s.spoolQ ++ [id] } | [] => s
  | .unspoolQueued => match s.spoolQ with | id :: q => { s with spoolQ := q, inQ := s.inQ ++ [id] } | [] => s
  | .unspoolDropSlow => match s.spoolQ with | id :: q => { s with spoolQ := q, counted := id :: s.counted } | [] => s
  | .reconnect => { s with connUp := true, collected := false, keep := [] }

/-- a line is accounted for -/
def Covered (s : S) (id : Nat) : Prop :=
  id ∈ s.recv ∨ id ∈ s.counted ∨ id ∈ s.inQ ∨ s.hd = some id ∨ id ∈ s.keep ∨ id ∈ s.redo ∨ id ∈ s.spoolQ

def Conserved (s : S) : Prop := ∀ id ∈ s.handed, Covered s id

/-- a dead connection's keepSafe is empty once it has been collected -/
def KeepClean (s : S) : Prop := s.collected = true → s.keep = []

end Crng.Sp

namespace Crng.Sp

theorem mem_erase_ne {l : List Nat} {a b : Nat} (h : a ∈ l) (hne : a ≠ b) : a ∈ l.erase b :=
  (List.mem_erase_of_ne hne).mpr h

theorem step_conserved (s : S) (a : Act) (hen : enabled true true s a = true) (hc : Conserved s) (hk : KeepClean s) :
    Conserved (step s a) ∧ KeepClean (step s a) := by
  have cov : ∀ {s' : S}, (∀ id, Covered s id → Covered s' id) → s'.handed = s.handed → Conserved s' := by
    intro s' hcov hh id hid; rw [hh] at hid; exact hcov id (hc id hid)
  cases a with
  | handoffQueued id =>
    refine ⟨?_, hk⟩
    intro x hx
    simp only [step, List.mem_cons] at hx
    rcases hx with rfl | hx
    · exact Or.inr (Or.inr (Or.inl (by simp [step])))
    · rcases hc x hx with h | h | h | h | h | h | h
      · exact Or.inl h
      · exact Or.inr (Or.inl h)
      · exact Or.inr (Or.inr (Or.inl (by simp [step, h])))
      · exact Or.inr (Or.inr (Or.inr (Or.inl h)))
      · exact Or.inr (Or.inr (Or.inr (Or.inr (Or.inl h))))
      · exact Or.inr (Or.inr (Or.inr (Or.inr (Or.inr (Or.inl h)))))
      · exact Or.inr (Or.inr (Or.inr (Or.inr (Or.inr (Or.inr h)))))
  | handoffDropSlow id | handoffDropSpool id | handoffNoSpool id =>
    refine ⟨?_, hk⟩
    intro x hx
    simp only [step, List.mem_cons] at hx
    rcases hx with rfl | hx
    · exact Or.inr (Or.inl (by simp [step]))
    · rcases hc x hx with h | h | h | h | h | h | h
      · exact Or.inl h
      · exact Or.inr (Or.inl (by simp [step, h]))
      · exact Or.inr (Or.inr (Or.inl h))
      · exact Or.inr (Or.inr (Or.inr (Or.inl h)))
      · exact Or.inr (Or.inr (Or.inr (Or.inr (Or.inl h))))
      · exact Or.inr (Or.inr (Or.inr (Or.inr (Or.inr (Or.inl h)))))
      · exact Or.inr (Or.inr (Or.inr (Or.inr (Or.inr (Or.inr h)))))
  | handoffSpooled id =>
    refine ⟨?_, hk⟩
    intro x hx
    simp only [step, List.mem_cons] at hx
    rcases hx with rfl | hx
    · exact Or.inr (Or.inr (Or.inr (Or.inr (Or.inr (Or.inr (by simp [step]))))))
    · rcases hc x hx with h | h | h | h | h | h | h
      · exact Or.inl h
      · exact Or.inr (Or.inl h)
      · exact Or.inr (Or.inr (Or.inl h))
      · exact Or.inr (Or.inr (Or.inr (Or.inl h)))
      · exact Or.inr (Or.inr (Or.inr (Or.inr (Or.inl h))))
      · exact Or.inr (Or.inr (Or.inr (Or.inr (Or.inr (Or.inl h)))))
      · exact Or.inr (Or.inr (Or.inr (Or.inr (Or.inr (Or.inr (by simp [step, h]))))))
  | take =>
    simp only [enabled, Bool.and_eq_true, Option.isNone_iff_eq_none, Bool.not_eq_true'] at hen
    obtain ⟨⟨hhd, _⟩, _⟩ := hen
    cases hq : s.inQ with
    | nil => simp only [step, hq]; exact ⟨hc, hk⟩
    | cons y q =>
      simp only [step, hq]
      refine ⟨cov ?_ rfl, hk⟩
      intro x h
      rcases h with h | h | h | h | h | h | h
      · exact Or.inl h
      · exact Or.inr (Or.inl h)
      · rw [hq] at h
        rcases List.mem_cons.mp h with rfl | h
        · exact Or.inr (Or.inr (Or.inr (Or.inl rfl)))
        · exact Or.inr (Or.inr (Or.inl h))
      · rw [hhd] at h; cases h
      · exact Or.inr (Or.inr (Or.inr (Or.inr (Or.inl h))))
      · exact Or.inr (Or.inr (Or.inr (Or.inr (Or.inr (Or.inl h)))))
      · exact Or.inr (Or.inr (Or.inr (Or.inr (Or.inr (Or.inr h)))))
  | keepAdd =>
    simp only [enabled, Bool.and_eq_true, Bool.not_true, Bool.false_or, Bool.not_eq_true'] at hen
    cases hh : s.hd with
    | none => simp only [step, hh]; exact ⟨hc, hk⟩
    | some y =>
      simp only [step, hh]
      refine ⟨cov ?_ rfl, ?_⟩
      · intro x h
        rcases h with h | h | h | h | h | h | h
        · exact Or.inl h
        · exact Or.inr (Or.inl h)
        · exact Or.inr (Or.inr (Or.inl h))
        · rw [hh] at h; cases h
          exact Or.inr (Or.inr (Or.inr (Or.inr (Or.inl (by simp)))))
        · exact Or.inr (Or.inr (Or.inr (Or.inr (Or.inl (by simp [h])))))
        · exact Or.inr (Or.inr (Or.inr (Or.inr (Or.inr (Or.inl h)))))
        · exact Or.inr (Or.inr (Or.inr (Or.inr (Or.inr (Or.inr h)))))
      · intro hcol; simp only at hcol; rw [hen.2] at hcol; cases hcol
  | deliver id =>
    refine ⟨cov ?_ rfl, hk⟩
    intro x h
    rcases h with h | h | h | h | h | h | h
    · exact Or.inl (by simp [step, h])
    · exact Or.inr (Or.inl h)
    · exact Or.inr (Or.inr (Or.inl h))
    · exact Or.inr (Or.inr (Or.inr (Or.inl h)))
    · exact Or.inr (Or.inr (Or.inr (Or.inr (Or.inl h))))
    · exact Or.inr (Or.inr (Or.inr (Or.inr (Or.inr (Or.inl h)))))
    · exact Or.inr (Or.inr (Or.inr (Or.inr (Or.inr (Or.inr h)))))
  | rotate id =>
    simp only [enabled, Bool.and_eq_true, Bool.not_true, Bool.false_or, List.contains_eq_mem, decide_eq_true_eq] at hen
    refine ⟨cov ?_ rfl, ?_⟩
    · intro x h
      rcases h with h | h | h | h | h | h | h
      · exact Or.inl h
      · exact Or.inr (Or.inl h)
      · exact Or.inr (Or.inr (Or.inl h))
      · exact Or.inr (Or.inr (Or.inr (Or.inl h)))
      · by_cases hx : x = id
        · subst hx; exact Or.inl hen.2
        · exact Or.inr (Or.inr (Or.inr (Or.inr (Or.inl (mem_erase_ne h hx)))))
      · exact Or.inr (Or.inr (Or.inr (Or.inr (Or.inr (Or.inl h)))))
      · exact Or.inr (Or.inr (Or.inr (Or.inr (Or.inr (Or.inr h)))))
    · intro hcol; simp only [step] at hcol ⊢; rw [hk hcol]; rfl
  | die => exact ⟨cov (fun x h => h) rfl, hk⟩
  | notice => exact ⟨cov (fun x h => h) rfl, by intro h; cases h⟩
  | redoDrain =>
    simp only [enabled, Bool.and_eq_true, Bool.not_eq_true'] at hen
    refine ⟨cov ?_ rfl, ?_⟩
    · intro x h
      rcases h with h | h | h | h | h | h | h
      · exact Or.inl h
      · exact Or.inr (Or.inl h)
      · exact Or.inr (Or.inr (Or.inr (Or.inr (Or.inl (by simp [step, h])))))
      · exact Or.inr (Or.inr (Or.inr (Or.inl h)))
      · exact Or.inr (Or.inr (Or.inr (Or.inr (Or.inl (by simp [step, h])))))
      · exact Or.inr (Or.inr (Or.inr (Or.inr (Or.inr (Or.inl h)))))
      · exact Or.inr (Or.inr (Or.inr (Or.inr (Or.inr (Or.inr h)))))
    · intro hcol; simp only [step] at hcol; rw [hen.1.2] at hcol; cases hcol
  | redoGetAll =>
    refine ⟨cov ?_ rfl, by intro _; rfl⟩
    intro x h
    rcases h with h | h | h | h | h | h | h
    · exact Or.inl h
    · exact Or.inr (Or.inl h)
    · exact Or.inr (Or.inr (Or.inl h))
    · exact Or.inr (Or.inr (Or.inr (Or.inl h)))
    · exact Or.inr (Or.inr (Or.inr (Or.inr (Or.inr (Or.inl (by simp [step, h]))))))
    · exact Or.inr (Or.inr (Or.inr (Or.inr (Or.inr (Or.inl (by simp [step, h]))))))
    · exact Or.inr (Or.inr (Or.inr (Or.inr (Or.inr (Or.inr h)))))
  | ingest =>
    cases hr : s.redo with
    | nil => simp only [step, hr]; exact ⟨hc, hk⟩
    | cons y r =>
      simp only [step, hr]
      refine ⟨cov ?_ rfl, hk⟩
      intro x h
      rcases h with h | h | h | h | h | h | h
      · exact Or.inl h
      · exact Or.inr (Or.inl h)
      · exact Or.inr (Or.inr (Or.inl h))
      · exact Or.inr (Or.inr (Or.inr (Or.inl h)))
      · exact Or.inr (Or.inr (Or.inr (Or.inr (Or.inl h))))
      · rw [hr] at h
        rcases List.mem_cons.mp h with rfl | h
        · exact Or.inr (Or.inr (Or.inr (Or.inr (Or.inr (Or.inr (by simp))))))
        · exact Or.inr (Or.inr (Or.inr (Or.inr (Or.inr (Or.inl h)))))
      · exact Or.inr (Or.inr (Or.inr (Or.inr (Or.inr (Or.inr (by simp [h]))))))
  | unspoolQueued =>
    cases hq : s.spoolQ with
    | nil => simp only [step, hq]; exact ⟨hc, hk⟩
    | cons y q =>
      simp only [step, hq]
      refine ⟨cov ?_ rfl, hk⟩
      intro x h
      rcases h with h | h | h | h | h | h | h
      · exact Or.inl h
      · exact Or.inr (Or.inl h)
      · exact Or.inr (Or.inr (Or.inl (by simp [h])))
      · exact Or.inr (Or.inr (Or.inr (Or.inl h)))
      · exact Or.inr (Or.inr (Or.inr (Or.inr (Or.inl h))))
      · exact Or.inr (Or.inr (Or.inr (Or.inr (Or.inr (Or.inl h)))))
      · rw [hq] at h
        rcases List.mem_cons.mp h with rfl | h
        · exact Or.inr (Or.inr (Or.inl (by simp)))
        · exact Or.inr (Or.inr (Or.inr (Or.inr (Or.inr (Or.inr h)))))
  | unspoolDropSlow =>
    cases hq : s.spoolQ with
    | nil => simp only [step, hq]; exact ⟨hc, hk⟩
    | cons y q =>
      simp only [step, hq]
      refine ⟨cov ?_ rfl, hk⟩
      intro x h
      rcases h with h | h | h | h | h | h | h
      · exact Or.inl h
      · exact Or.inr (Or.inl (by simp [h]))
      · exact Or.inr (Or.inr (Or.inl h))
      · exact Or.inr (Or.inr (Or.inr (Or.inl h)))
      · exact Or.inr (Or.inr (Or.inr (Or.inr (Or.inl h))))
      · exact Or.inr (Or.inr (Or.inr (Or.inr (Or.inr (Or.inl h)))))
      · rw [hq] at h
        rcases List.mem_cons.mp h with rfl | h
        · exact Or.inr (Or.inl (by simp))
        · exact Or.inr (Or.inr (Or.inr (Or.inr (Or.inr (Or.inr h)))))
  | reconnect =>
    simp only [enabled, Bool.and_eq_true, Bool.not_eq_true'] at hen
    have hke : s.keep = [] := hk hen.1.2
    refine ⟨cov ?_ rfl, by intro h; cases h⟩
    intro x h
    rcases h with h | h | h | h | h | h | h
    · exact Or.inl h
    · exact Or.inr (Or.inl h)
    · exact Or.inr (Or.inr (Or.inl h))
    · exact Or.inr (Or.inr (Or.inr (Or.inl h)))
    · rw [hke] at h; cases h
    · exact Or.inr (Or.inr (Or.inr (Or.inr (Or.inr (Or.inl h)))))
    · exact Or.inr (Or.inr (Or.inr (Or.inr (Or.inr (Or.inr h)))))

/-- run only enabled actions -/
def runActs (h1 h2 : Bool) : S → List Act → S
  | s, [] => s
  | s, a :: as => if enabled h1 h2 s a then runActs h1 h2 (step s a) as else runActs h1 h2 s as

/-- **C07 core.** Under H1 (keepSafe forgets only delivered lines) and H2 (getRedo runs after HandleData stopped), for every
    schedule of the actions above — any outages, any recoveries, any traffic — every handed-off line is received, counted as
    dropped, or still held somewhere from which it will be replayed. -/
theorem conservation (acts : List Act) (s : S) (hc : Conserved s) (hk : KeepClean s) : Conserved (runActs true true s acts) := by
  induction acts generalizing s with
  | nil => exact hc
  | cons a as ih =>
    simp only [runActs]
    split
    · rename_i hen
      obtain ⟨c, k⟩ := step_conserved s a hen hc hk
      exact ih _ c k
    · exact ih s hc hk

/-- H2 is needed: HandleData takes line 7, the connection dies, getRedo collects, HandleData adds 7 to a keepSafe nobody will
    read again, the wire is lost, a new connection starts — line 7 is handed off but nowhere. -/
example : let s := runActs true false { connUp := true } [.handoffQueued 7, .take, .notice, .redoGetAll, .keepAdd, .die, .reconnect]
    7 ∈ s.handed ∧ ¬ (7 ∈ s.recv ∨ 7 ∈ s.counted ∨ 7 ∈ s.inQ ∨ s.hd = some 7 ∨ 7 ∈ s.keep ∨ 7 ∈ s.redo ∨ 7 ∈ s.spoolQ) := by decide

#print axioms conservation
end Crng.Sp
