import Crng.Tokens
import Crng.Rewriter
import Crng.Rx
/-! Admin / init commands (imperatives.go `Apply` and its readers) and the structured TOML sections (cfg/table.go `Init*`)
as functions into table entries (C20). Tokenisation is toki's ordered first-match scan (`Crng/Tokens.lean`). -/
namespace Crng.Cfg
open Crng.Tk

structure M6 where
  pre : Bytes := []
  npre : Bytes := []
  sub : Bytes := []
  nsub : Bytes := []
  re : Bytes := []
  nre : Bytes := []
  deriving Repr, DecidableEq

inductive Entry where
  | black (m : M6)
  | rewriter (old new not : Bytes) (max : Int)
  | agg (fn : Bytes) (m : M6) (fmt : Bytes) (cache : Bool) (interval wait : Nat) (dropRaw : Bool)
  | route (type : String) (key : Bytes) (m : M6) (dests : List Dest)
  deriving Repr

/-- `regexp.Compile` succeeds (for the syntax subset of `Crng/Rx.lean`; an empty option is not compiled) -/
def regexOK (r : Bytes) : Bool := r.isEmpty || (Crng.Rx.compile r).ok
/-- `matcher.New` -/
def matcherOK (m : M6) : Bool := regexOK m.re && regexOK m.nre

def trimSp (b : Bytes) : Bytes := ((b.dropWhile isSpace).reverse.dropWhile isSpace).reverse

/-- `strconv.Atoi(strings.TrimSpace(v))` -/
def atoi (v : Bytes) : Option Int :=
  let t := trimSp v
  let (neg, ds) := match t with
    | 45 :: r => (true, r)
    | 43 :: r => (false, r)
    | _ => (false, t)
  if ds.isEmpty || !ds.all isDig then none else
  let n : Nat := ds.foldl (fun a d => a * 10 + (d.toNat - 48)) 0
  if n ≥ 9223372036854775808 then none else some (if neg then -(n : Int) else n)

/-- one `option value` pair of a route / aggregation filter: the option token names the field, the value must be a word -/
def mStep (opt : String) (v : Tok) (m : M6) : Option M6 :=
  if v.name != "word" then none else
  match opt with
  | "optPrefix" => some { m with pre := v.value }
  | "optNotPrefix" => some { m with npre := v.value }
  | "optSub" => some { m with sub := v.value }
  | "optNotSub" => some { m with nsub := v.value }
  | "optRegex" => some { m with re := v.value }
  | "optNotRegex" => some { m with nre := v.value }
  | _ => none

/-- `readRouteOpts`: options up to the separator (consumed) or the end -/
def routeOpts (defs : List TokDef) : Nat → Bytes → M6 → Option (M6 × Bytes)
  | 0, _, _ => none
  | fuel + 1, input, m =>
    let (t, rest) := next defs input
    if t.name == "EOF" || t.name == "sep" then some (m, rest)
    else
      let (v, rest2) := next defs rest
      match mStep t.name v m with
      | some m' => routeOpts defs fuel rest2 m'
      | none => none

/-- `destination.New`'s parameter checks -/
def destOK (d : Dest) : Bool :=
  d.flush > 0 && d.reconn > 0 && d.ioBufSize > 0 && (!d.spool || d.spoolSyncPeriodMs > 0)

def destMatcherOK (d : Dest) : Bool := regexOK d.regex && regexOK d.notRegex

/-- `readDestinations` -/
def destinations (defs : List TokDef) (allowMatcher : Bool) : Nat → Bytes → List Dest → Option (List Dest)
  | 0, _, _ => none
  | fuel + 1, input, acc =>
    -- skip separators
    let rec skipSep : Nat → Bytes → Bytes
      | 0, i => i
      | f + 1, i => let (t, r) := next defs i; if t.name == "sep" then skipSep f r else i
    let input := skipSep (input.length + 1) input
    if (peek defs input).name == "EOF" then some acc.reverse else
    match readDestination defs allowMatcher input with
    | some (d, rest) => if destMatcherOK d && destOK d then destinations defs allowMatcher fuel rest (d :: acc) else none
    | none => none

def fnTokens : List String := ["sumFn", "avgFn", "minFn", "maxFn", "lastFn", "deltaFn", "countFn", "deriveFn", "stdevFn"]

/-- options of `addAgg` before the format, then the rest -/
def aggMatchOpts (defs : List TokDef) : Nat → Tok → Bytes → M6 → Option (M6 × Tok × Bytes)
  | 0, _, _, _ => none
  | fuel + 1, t, rest, m =>
    if t.name == "EOF" || t.name == "word" then some (m, t, rest) else
    let (v, rest2) := next defs rest
    match mStep t.name v m with
    | some m' => let (t', rest3) := next defs rest2; aggMatchOpts defs fuel t' rest3 m'
    | none => none

def aggTail (defs : List TokDef) : Nat → Bytes → Bool → Bool → Option (Bool × Bool)
  | 0, _, _, _ => none
  | fuel + 1, input, cache, dropRaw =>
    let (t, rest) := next defs input
    let boolArg (k : Bool → Option (Bool × Bool)) : Option (Bool × Bool) :=
      let (v, _) := next defs rest
      if v.name == "optTrue" then k true else if v.name == "optFalse" then k false else none
    match t.name with
    | "EOF" => some (cache, dropRaw)
    | "optCache" => boolArg fun b => aggTail defs fuel (next defs rest).2 b dropRaw
    | "optDropRaw" => boolArg fun b => aggTail defs fuel (next defs rest).2 cache b
    | _ => none

def aggFnOK (fn : Bytes) : Bool :=
  [str "avg", str "count", str "delta", str "derive", str "last", str "max", str "min", str "stdev", str "sum", str "percentiles"].contains fn

/-- `aggregator.New` -/
def aggOK (fn : Bytes) (m : M6) (interval : Nat) : Bool := aggFnOK fn && interval > 0 && !m.re.isEmpty && matcherOK m

/-- `imperatives.Apply` for the entry-adding commands; `none` = the command is rejected -/
def applyCmd (defs : List TokDef) (cmd : Bytes) : Option Entry :=
  let input := Crng.Rw.replaceN (str "  ") (str " ## ") (cmd.length + 1) none cmd
  let fuel := input.length + 4
  let (t, rest) := next defs input
  match t.name with
  | "addBlack" =>
    let (a, r1) := next defs rest
    if a.name != "word" then none else
    let (b, _) := next defs r1
    if b.name != "word" then none else
    let m : Option M6 :=
      if a.value == str "prefix" then some { pre := b.value }
      else if a.value == str "notPrefix" then some { npre := b.value }
      else if a.value == str "sub" then some { sub := b.value }
      else if a.value == str "notSub" then some { nsub := b.value }
      else if a.value == str "regex" then some { re := b.value }
      else if a.value == str "notRegex" then some { nre := b.value }
      else none
    m.bind fun m => if matcherOK m then some (.black m) else none
  | "addRewriter" =>
    let (o, r1) := next defs rest
    if o.name != "word" then none else
    let (n, r2) := next defs r1
    if n.name != "word" then none else
    let (mx, _) := next defs r2
    if mx.name != "num" && mx.name != "word" then none else
    match atoi mx.value with
    | none => none
    | some max =>
      -- rewriter.New: non-empty old (a word always is), max >= -1, /regex/ needs max = -1 and must compile
      let isRe := o.value.length > 1 && o.value.head? == some 47 && o.value.getLast? == some 47
      if max < -1 then none
      else if isRe && (!(Crng.Rx.compile ((o.value.drop 1).dropLast)).ok || max != -1) then none
      else some (.rewriter o.value n.value [] max)
  | "addAgg" =>
    let (f, r1) := next defs rest
    if !fnTokens.contains f.name then none else
    let fn := f.value.dropLast
    let (t1, r2) := next defs r1
    -- old syntax: a bare regex first
    let (m0, t2, r3) := if t1.name == "word" then (({ re := t1.value } : M6), (next defs r2).1, (next defs r2).2) else (({} : M6), t1, r2)
    match aggMatchOpts defs fuel t2 r3 m0 with
    | none => none
    | some (m, tf, r4) =>
      if m.re.isEmpty then none
      else if tf.name != "word" then none
      else
        let (ti, r5) := next defs r4
        if ti.name != "num" then none else
        let (tw, r6) := next defs r5
        if tw.name != "num" then none else
        match toNat? ti.value, toNat? tw.value, aggTail defs fuel r6 true false with
        | some interval, some wait, some (cache, dropRaw) =>
          if aggOK fn m interval then some (.agg fn m tf.value cache interval wait dropRaw) else none
        | _, _, _ => none
  | "addRouteSendAllMatch" | "addRouteSendFirstMatch" | "addRouteConsistentHashing" =>
    let (k, r1) := next defs rest
    if k.name != "word" then none else
    match routeOpts defs fuel r1 {} with
    | none => none
    | some (m, r2) =>
      if !matcherOK m then none else
      let hashing := t.name == "addRouteConsistentHashing"
      match destinations defs (!hashing) fuel r2 [] with
      | none => none
      | some ds =>
        if hashing then (if ds.length < 2 then none else some (.route "consistentHashing" k.value m ds))
        else if ds.isEmpty then none
        else some (.route (if t.name == "addRouteSendAllMatch" then "sendAllMatch" else "sendFirstMatch") k.value m ds)
  | _ => none

/-! ### the structured TOML sections, after decoding -/
structure TRoute where
  type : String
  key : Bytes
  pre : Bytes
  npre : Bytes
  sub : Bytes
  substr : Bytes
  nsub : Bytes
  re : Bytes
  nre : Bytes
  dests : List Bytes

inductive TEntry where
  | black (entry : Bytes)                      -- one string of the `blacklist` array
  | agg (fn pre npre sub substr nsub re nre fmt : Bytes) (cache : Bool) (interval wait : Int) (dropRaw : Bool)
  | rewriter (old new not : Bytes) (max : Int)
  | route (r : TRoute)

/-- `strings.SplitN(entry, " ", 2)` -/
def splitFirstSpace (b : Bytes) : Option (Bytes × Bytes) :=
  let a := b.takeWhile (· != 32)
  if a.length < b.length then some (a, b.drop (a.length + 1)) else none

def rewriterOK (old : Bytes) (not : Bytes) (max : Int) : Bool :=
  let isRe (x : Bytes) := x.length > 1 && x.head? == some 47 && x.getLast? == some 47
  !old.isEmpty && max ≥ -1 &&
  (!isRe old || ((Crng.Rx.compile ((old.drop 1).dropLast)).ok && max == -1)) &&
  (!isRe not || (Crng.Rx.compile ((not.drop 1).dropLast)).ok)

/-- `ParseDestinations`: each destination string on its own scanner -/
def parseDests (defs : List TokDef) (allowMatcher : Bool) : List Bytes → Option (List Dest)
  | [] => some []
  | s :: t =>
    match readDestination defs allowMatcher s with
    | some (d, _) => if destMatcherOK d && destOK d then (parseDests defs allowMatcher t).map (d :: ·) else none
    | none => none

/-- for backwards compatibility both `sub` and `substr` are read; `sub` gets preference if both are defined -/
def tomlSub (sub substr : Bytes) : Bytes := if !sub.isEmpty then sub else substr

/-- `InitBlacklist` / `InitAggregation` / `InitRewrite` / `InitRoutes` for one decoded entry -/
def fromToml (defs : List TokDef) : TEntry → Option Entry
  | .black e =>
    match splitFirstSpace e with
    | none => none
    | some (method, pat) =>
      let m : Option M6 :=
        if method == str "prefix" then some { pre := pat }
        else if method == str "notPrefix" then some { npre := pat }
        else if method == str "sub" then some { sub := pat }
        else if method == str "notSub" then some { nsub := pat }
        else if method == str "regex" then some { re := pat }
        else if method == str "notRegex" then some { nre := pat }
        else none
      m.bind fun m => if matcherOK m then some (.black m) else none
  | .agg fn pre npre sub substr nsub re nre fmt cache interval wait dropRaw =>
    -- "sub" gets preference over "substr"
    let m : M6 := { pre, npre, sub := tomlSub sub substr, nsub, re, nre }
    -- uint(interval): a negative number wraps to a huge interval; only 0 is rejected
    if !matcherOK m then none
    else if aggOK fn m (if interval < 0 then 1 else interval.toNat) then
      some (.agg fn m fmt cache (if interval < 0 then (interval + 18446744073709551616).toNat else interval.toNat)
        (if wait < 0 then (wait + 18446744073709551616).toNat else wait.toNat) dropRaw)
    else none
  | .rewriter old new not max => if rewriterOK old not max then some (.rewriter old new not max) else none
  | .route r =>
    let m : M6 := { pre := r.pre, npre := r.npre, sub := tomlSub r.sub r.substr, nsub := r.nsub, re := r.re, nre := r.nre }
    if !matcherOK m then none else
    if r.type == "sendAllMatch" || r.type == "sendFirstMatch" then
      match parseDests defs true r.dests with
      | some ds => if ds.isEmpty then none else some (.route r.type r.key m ds)
      | none => none
    else if r.type == "consistentHashing" then
      match parseDests defs false r.dests with
      | some ds => if ds.length < 2 then none else some (.route r.type r.key m ds)
      | none => none
    else none

end Crng.Cfg
