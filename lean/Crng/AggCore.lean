/-! Scratch prototype: bucket bookkeeping of aggregator.go (`AddOrCreate`, `Flush`), generic in the processor state (C10). -/
namespace Crng.AggCore

variable {P R : Type}

abbrev Aggs (P : Type) := List (Nat × List (String × P))

structure St (P : Type) where
  aggs : Aggs P := []        -- Go: map[uint]*aggregation
  tsList : List Nat := []    -- Go: ordered list of quantized timestamps
  tooOld : Nat := 0

def lookupB (aggs : Aggs P) (b : Nat) : Option (List (String × P)) := (aggs.find? (·.1 == b)).map (·.2)
def setB (aggs : Aggs P) (b : Nat) (ks : List (String × P)) : Aggs P :=
  if aggs.any (·.1 == b) then aggs.map (fun e => if e.1 == b then (b, ks) else e) else aggs ++ [(b, ks)]

def insertNat (x : Nat) : List Nat → List Nat
  | [] => [x]
  | y :: t => if y ≤ x then y :: insertNat x t else x :: y :: t
/-- `sort.Sort(TsSlice(tsList))` -/
def sortNat (l : List Nat) : List Nat := l.foldl (fun acc x => insertNat x acc) []

/-- `AddOrCreate`; `isOpen` is the test `quantized > now - wait`, `mk` the processor constructor applied to the point,
    `upd` its `Add` -/
def addOrCreate (isOpen : Bool) (mk : P) (upd : P → P) (s : St P) (key : String) (q : Nat) : St P :=
  match lookupB s.aggs q with
  | some ks =>
    match ks.find? (·.1 == key) with
    | some (_, p) => { s with aggs := setB s.aggs q (ks.map fun e => if e.1 == key then (key, upd p) else e) }
    | none =>
      if isOpen then { s with aggs := setB s.aggs q (ks ++ [(key, mk)]) }
      else { s with tooOld := s.tooOld + 1 }
  | none =>
    let tl := s.tsList ++ [q]
    let tl := match s.tsList.getLast? with
      | some l => if l > q then sortNat tl else tl
      | none => tl
    if isOpen then { s with tsList := tl, aggs := s.aggs ++ [(q, [(key, mk)])] }
    else { s with tsList := tl, aggs := s.aggs ++ [(q, [])], tooOld := s.tooOld + 1 }

/-- one emission: bucket start, key, flushed result -/
structure Em (R : Type) where
  ts : Nat
  key : String
  res : R

def emitBucket (fl : P → Option R) (ts : Nat) (ks : List (String × P)) : List (Em R) :=
  ks.filterMap fun (key, p) => (fl p).map fun r => ⟨ts, key, r⟩

/-- `Flush(cutoff)` -/
def flush (fl : P → Option R) (s : St P) (cutoff : Nat) : St P × List (Em R) :=
  let due := s.tsList.takeWhile (· ≤ cutoff)
  let out := due.flatMap fun ts => emitBucket fl ts ((lookupB s.aggs ts).getD [])
  ({ s with aggs := s.aggs.filter (fun e => !due.contains e.1), tsList := s.tsList.drop due.length }, out)

end Crng.AggCore
