import Crng.DiskQueue
namespace Crng.DQ

/-! ### segment map -/
theorem find_insertSorted_same (n : Nat) (b : Bytes) (l : List (Nat × Bytes)) :
    ((insertSorted n b l).find? (·.1 == n)).map (·.2) = some b := by
  induction l with
  | nil => simp [insertSorted]
  | cons h t ih =>
    obtain ⟨m, c⟩ := h
    unfold insertSorted
    by_cases h1 : n < m
    · simp [h1]
    · by_cases h2 : n = m
      · subst h2; simp
      · have : (m == n) = false := by simp; omega
        simp [h1, h2, List.find?_cons, this, ih]

theorem find_insertSorted_other (n k : Nat) (b : Bytes) (l : List (Nat × Bytes)) (hk : k ≠ n) :
    (insertSorted n b l).find? (·.1 == k) = l.find? (·.1 == k) := by
  induction l with
  | nil => simp [insertSorted]; omega
  | cons h t ih =>
    obtain ⟨m, c⟩ := h
    unfold insertSorted
    have hnk : (n == k) = false := by simp; omega
    by_cases h1 : n < m
    · simp [h1, List.find?_cons, hnk]
    · by_cases h2 : n = m
      · subst h2; simp [List.find?_cons, hnk]
      · simp [h1, h2, List.find?_cons, ih]

theorem segGet_segSet_same (d : Disk) (n : Nat) (b : Bytes) : segGet (segSet d n b) n = some b := by
  simp [segGet, segSet, find_insertSorted_same]

theorem segGet_segSet_other (d : Disk) (n k : Nat) (b : Bytes) (hk : k ≠ n) : segGet (segSet d n b) k = segGet d k := by
  simp [segGet, segSet, find_insertSorted_other n k b d.segs hk]

theorem segGet_segRemove_other (d : Disk) (n k : Nat) (hk : k ≠ n) : segGet (segRemove d n) k = segGet d k := by
  simp only [segGet, segRemove]
  congr 1
  induction d.segs with
  | nil => simp
  | cons h t ih =>
    by_cases h1 : h.1 = n
    · have : (h.1 == k) = false := by simp; omega
      simp [List.filter_cons, h1, List.find?_cons, ih]
      subst h1; simp [this]
    · simp [List.filter_cons, h1, List.find?_cons, ih]

end Crng.DQ

namespace Crng.DQ

/-! ### record encoding -/
theorem be32_length (n : Nat) : (be32 n).length = 4 := rfl
theorem encode_length (m : Bytes) : (encode m).length = 4 + m.length := by simp [encode, be32_length]

theorem decodeAt_of_drop (c : Bytes) (o : Nat) (m rest : Bytes) (hm : m.length < 2147483648)
    (h : c.drop o = encode m ++ rest) : decodeAt c o = some (m, o + 4 + m.length) := by
  unfold decodeAt
  rw [h]
  simp only [encode, be32, List.cons_append, List.nil_append]
  have e1 : (UInt8.ofNat (m.length / 16777216 % 256)).toNat = m.length / 16777216 % 256 := by
    simp [UInt8.toNat_ofNat]
  have e2 : (UInt8.ofNat (m.length / 65536 % 256)).toNat = m.length / 65536 % 256 := by
    simp [UInt8.toNat_ofNat]
  have e3 : (UInt8.ofNat (m.length / 256 % 256)).toNat = m.length / 256 % 256 := by
    simp [UInt8.toNat_ofNat]
  have e4 : (UInt8.ofNat (m.length % 256)).toNat = m.length % 256 := by
    simp [UInt8.toNat_ofNat]
  have hn : (UInt8.ofNat (m.length / 16777216 % 256)).toNat * 16777216 + (UInt8.ofNat (m.length / 65536 % 256)).toNat * 65536
      + (UInt8.ofNat (m.length / 256 % 256)).toNat * 256 + (UInt8.ofNat (m.length % 256)).toNat = m.length := by
    rw [e1, e2, e3, e4]; omega
  simp only [hn]
  have h1 : ¬ (m.length ≥ 2147483648) := by omega
  have h2 : ¬ ((m ++ rest).length < m.length) := by simp
  simp [h1, h2]

end Crng.DQ

namespace Crng.DQ

theorem writeAt_prefix_length (c : Bytes) (pos : Nat) :
    (c.take pos ++ List.replicate (pos - c.length) (0 : UInt8)).length = pos := by
  simp [List.length_take]; omega

theorem writeAt_drop_pos (c : Bytes) (pos : Nat) (data : Bytes) :
    (writeAt c pos data).drop pos = data ++ c.drop (pos + data.length) := by
  unfold writeAt
  rw [List.append_assoc, List.drop_append_of_le_length (by rw [writeAt_prefix_length]; exact Nat.le_refl _)]
  rw [List.drop_of_length_le (by rw [writeAt_prefix_length]; exact Nat.le_refl _)]
  simp

/-- a record that ends at or before `pos` is not disturbed by a write at `pos` -/
theorem writeAt_keeps (c : Bytes) (pos o : Nat) (data x rest : Bytes)
    (h : c.drop o = x ++ rest) (hle : o + x.length ≤ pos) (hx0 : 0 < x.length) :
    ∃ rest', (writeAt c pos data).drop o = x ++ rest' := by
  have hlen : o + x.length ≤ c.length := by
    have := congrArg List.length h
    simp at this; omega
  have hx : x = (c.drop o).take x.length := by rw [h]; simp
  unfold writeAt
  refine ⟨((c.take pos).drop (o + x.length)) ++ List.replicate (pos - c.length) 0 ++ data ++ c.drop (pos + data.length), ?_⟩
  have hto : o ≤ (c.take pos).length := by simp [List.length_take]; omega
  rw [List.append_assoc, List.append_assoc, List.drop_append_of_le_length hto]
  have : (c.take pos).drop o = x ++ (c.take pos).drop (o + x.length) := by
    have h1 : (c.take pos).drop o = (c.drop o).take (pos - o) := by
      rw [List.drop_take]
    rw [h1, h]
    have h2 : (c.take pos).drop (o + x.length) = (c.drop (o + x.length)).take (pos - (o + x.length)) := by
      rw [List.drop_take]
    have h3 : c.drop (o + x.length) = rest := by
      rw [← List.drop_drop, h]; simp
    rw [h2, h3, List.take_append]
    have : x.length ≤ pos - o := by omega
    simp [List.take_of_length_le this]
    congr 1; omega
  rw [this]; simp [List.append_assoc]

end Crng.DQ
