namespace Crng
abbrev Bytes := List UInt8

inductive Re where
  | empty | litA (b : UInt8) | wide | beginText | zeroWidth
  | cat (a b : Re) | alt (a b : Re) | star (a : Re) | opt (a : Re) | cap (a : Re)
  deriving Repr, DecidableEq

/-- `M r s i j` : `r` matches `s[i,j)` (over-approximation of RE2). -/
inductive M : Re → Bytes → Nat → Nat → Prop where
  | empty : M .empty s i i
  | litA : s[i]? = some b → M (.litA b) s i (i+1)
  | wide : i < j → j ≤ i + 4 → j ≤ s.length → M .wide s i j
  | beginText : M .beginText s 0 0
  | zeroWidth : M .zeroWidth s i i
  | cat : M a s i k → M b s k j → M (.cat a b) s i j
  | altL : M a s i j → M (.alt a b) s i j
  | altR : M b s i j → M (.alt a b) s i j
  | starNil : M (.star a) s i i
  | starCons : M a s i k → M (.star a) s k j → M (.star a) s i j
  | optNone : M (.opt a) s i i
  | optSome : M a s i j → M (.opt a) s i j
  | cap : M a s i j → M (.cap a) s i j

def Search (r : Re) (s : Bytes) : Prop := ∃ i j, M r s i j

/-- literal run that every match of `r` must start with -/
def leadingLits : Re → Bytes
  | .litA b => [b]
  | .cat (.litA b) r => b :: leadingLits r
  | .cat (.cap a) _ => leadingLits a
  | .cap a => leadingLits a
  | _ => []

def soundPrefix : Re → Bytes
  | .cat .beginText r => leadingLits r
  | _ => []
end Crng

namespace Crng
theorem getElem?_drop_head (s : Bytes) (i : Nat) (b : UInt8) (h : s[i]? = some b) :
    s.drop i = b :: s.drop (i+1) := by
  have hi : i < s.length := by
    rcases Nat.lt_or_ge i s.length with h' | h'
    · exact h'
    · simp [List.getElem?_eq_none h'] at h
  rw [List.drop_eq_getElem_cons hi]
  simp [List.getElem?_eq_getElem hi] at h
  simp [h]

theorem leadingLits_sound : ∀ (r : Re) (s : Bytes) (i j : Nat), M r s i j → leadingLits r <+: s.drop i := by
  intro r
  induction r with
  | litA b =>
    intro s i j h
    cases h with
    | litA hb => simp [leadingLits, getElem?_drop_head s i b hb]
  | cat a b iha ihb =>
    intro s i j h
    cases h with
    | cat ha hb =>
      cases a with
      | litA c =>
        cases ha with
        | litA hc =>
          simp only [leadingLits]
          rw [getElem?_drop_head s i c hc]
          exact List.prefix_cons_inj c |>.mpr (ihb s _ j hb)
      | cap a' =>
        simp only [leadingLits]
        cases ha with
        | cap ha' =>
          have := iha s i _ (M.cap ha')
          simpa [leadingLits] using this
      | _ => simp [leadingLits]
  | cap a ih =>
    intro s i j h
    cases h with
    | cap ha => simpa [leadingLits] using ih s i j ha
  | _ => intro s i j _; simp [leadingLits]

theorem soundPrefix_sound (r : Re) (s : Bytes) (h : Search r s) : soundPrefix r <+: s := by
  obtain ⟨i, j, hm⟩ := h
  cases r with
  | cat a b =>
    cases a with
    | beginText =>
      cases hm with
      | cat ha hb =>
        cases ha
        simpa [soundPrefix] using leadingLits_sound b s 0 j hb
    | _ => simp [soundPrefix]
  | _ => simp [soundPrefix]

#print axioms soundPrefix_sound
end Crng
