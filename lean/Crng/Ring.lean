/-! Scratch prototype: consistent-hash ring lookup (C15), abstract in the entry order. -/
namespace Crng.Ring

/-- what we need of the order on ring entries `(position, host, instance)` -/
structure Ord (K : Type) where
  le : K → K → Prop
  pos : K → Nat
  refl : ∀ a, le a a
  trans : ∀ a b c, le a b → le b c → le a c
  antisymm : ∀ a b, le a b → le b a → a = b
  total : ∀ a b, le a b ∨ le b a
  pos_mono : ∀ a b, le a b → pos a ≤ pos b

variable {K : Type} (o : Ord K)

/-- Go: `sort.Search(len(ring), func(i) { ring[i].Position >= position }) % len(ring)` on the sorted ring -/
def lookup (ring : List K) (k : Nat) : Option K :=
  if ring.isEmpty then none else ring[(ring.findIdx (fun e => decide (k ≤ o.pos e))) % ring.length]?

/-- Carbon's rule, stated on the *set* of entries: the least entry at or after the key position, else the least entry -/
def IsOwner (S : List K) (k : Nat) (e : K) : Prop :=
  e ∈ S ∧ ((∃ x ∈ S, k ≤ o.pos x) → k ≤ o.pos e ∧ ∀ x ∈ S, k ≤ o.pos x → o.le e x) ∧
  ((¬ ∃ x ∈ S, k ≤ o.pos x) → ∀ x ∈ S, o.le e x)

theorem owner_unique (S : List K) (k : Nat) (a b : K) (ha : IsOwner o S k a) (hb : IsOwner o S k b) : a = b := by
  by_cases h : ∃ x ∈ S, k ≤ o.pos x
  · obtain ⟨pa, la⟩ := ha.2.1 h
    obtain ⟨pb, lb⟩ := hb.2.1 h
    exact o.antisymm a b (la b hb.1 pb) (lb a ha.1 pa)
  · exact o.antisymm a b (ha.2.2 h b hb.1) (hb.2.2 h a ha.1)

/-- the Go lookup on any sorted arrangement finds the owner -/
theorem lookup_isOwner (ring : List K) (hs : ring.Pairwise o.le) (k : Nat) (hne : ring ≠ []) :
    ∃ e, lookup o ring k = some e ∧ IsOwner o ring k e := by
  have hlen : 0 < ring.length := List.length_pos_iff.mpr hne
  have hemp : ring.isEmpty = false := by cases ring with | nil => exact absurd rfl hne | cons _ _ => rfl
  unfold lookup
  simp only [hemp, Bool.false_eq_true, if_false]
  by_cases hex : ∃ x ∈ ring, k ≤ o.pos x
  · -- the first entry at or after k
    have hlt : ring.findIdx (fun e => decide (k ≤ o.pos e)) < ring.length := by
      rw [List.findIdx_lt_length]
      obtain ⟨x, hx, hk⟩ := hex
      exact ⟨x, hx, by simpa using hk⟩
    rw [Nat.mod_eq_of_lt hlt, List.getElem?_eq_getElem hlt]
    refine ⟨_, rfl, List.getElem_mem hlt, ?_, fun h => absurd hex h⟩
    intro _
    have hp := List.findIdx_getElem (w := hlt)
    refine ⟨by simpa using hp, ?_⟩
    intro x hx hkx
    obtain ⟨j, hj, rfl⟩ := List.mem_iff_getElem.mp hx
    have hle : ring.findIdx (fun e => decide (k ≤ o.pos e)) ≤ j := by
      by_cases hjl : j < ring.findIdx (fun e => decide (k ≤ o.pos e))
      · have := List.not_of_lt_findIdx hjl
        simp at this; omega
      · omega
    rcases Nat.lt_or_eq_of_le hle with h1 | h1
    · exact List.pairwise_iff_getElem.mp hs _ _ hlt hj h1
    · simp only [h1]; exact o.refl _
  · have hall : ∀ x ∈ ring, ¬ (k ≤ o.pos x) := fun x hx hk => hex ⟨x, hx, hk⟩
    have hidx : ring.findIdx (fun e => decide (k ≤ o.pos e)) = ring.length := by
      rw [List.findIdx_eq_length]
      intro x hx; simpa using hall x hx
    rw [hidx, Nat.mod_self, List.getElem?_eq_getElem hlen]
    refine ⟨_, rfl, List.getElem_mem hlen, fun h => absurd h hex, ?_⟩
    intro _ x hx
    obtain ⟨j, hj, rfl⟩ := List.mem_iff_getElem.mp hx
    rcases Nat.eq_zero_or_pos j with h0 | h0
    · simp only [h0]; exact o.refl _
    · exact List.pairwise_iff_getElem.mp hs _ _ hlen hj h0

/-- listing order does not matter: two sorted rings with the same entries agree on every key -/
theorem order_independent (r1 r2 : List K) (h1 : r1.Pairwise o.le) (h2 : r2.Pairwise o.le)
    (hperm : ∀ x, x ∈ r1 ↔ x ∈ r2) (hne : r1 ≠ []) (k : Nat) : lookup o r1 k = lookup o r2 k := by
  have hne2 : r2 ≠ [] := by
    intro h; subst h
    cases r1 with
    | nil => exact hne rfl
    | cons a t => have := (hperm a).mp (List.mem_cons_self ..); cases this
  obtain ⟨e1, l1, o1⟩ := lookup_isOwner o r1 h1 k hne
  obtain ⟨e2, l2, o2⟩ := lookup_isOwner o r2 h2 k hne2
  have o2' : IsOwner o r1 k e2 := by
    refine ⟨(hperm e2).mpr o2.1, ?_, ?_⟩
    · intro ⟨x, hx, hk⟩
      obtain ⟨a, b⟩ := o2.2.1 ⟨x, (hperm x).mp hx, hk⟩
      exact ⟨a, fun y hy hky => b y ((hperm y).mp hy) hky⟩
    · intro hn y hy
      exact o2.2.2 (fun ⟨x, hx, hk⟩ => hn ⟨x, (hperm x).mpr hx, hk⟩) y ((hperm y).mp hy)
  rw [l1, l2, owner_unique o r1 k e1 e2 o1 o2']

/-- adding entries moves a key only onto one of the new entries -/
theorem add_minimal (S T : List K) (k : Nat) (e e' : K) (h : IsOwner o S k e) (h' : IsOwner o (S ++ T) k e') :
    e' = e ∨ e' ∈ T := by
  rcases List.mem_append.mp h'.1 with hS | hT
  · left
    refine owner_unique o S k e' e ⟨hS, ?_, ?_⟩ h
    · intro ⟨x, hx, hk⟩
      obtain ⟨a, b⟩ := h'.2.1 ⟨x, List.mem_append_left _ hx, hk⟩
      exact ⟨a, fun y hy hky => b y (List.mem_append_left _ hy) hky⟩
    · intro hn y hy
      by_cases hex : ∃ x ∈ S ++ T, k ≤ o.pos x
      · -- e' is at or after k although nothing in S is: impossible
        exact absurd ⟨e', hS, (h'.2.1 hex).1⟩ hn
      · exact h'.2.2 hex y (List.mem_append_left _ hy)
  · exact Or.inr hT

/-- removing entries that do not own the key leaves its owner unchanged -/
theorem remove_minimal (S T : List K) (k : Nat) (e : K) (h : IsOwner o (S ++ T) k e) (hS : e ∈ S) : IsOwner o S k e := by
  refine ⟨hS, ?_, ?_⟩
  · intro ⟨x, hx, hk⟩
    obtain ⟨a, b⟩ := h.2.1 ⟨x, List.mem_append_left _ hx, hk⟩
    exact ⟨a, fun y hy hky => b y (List.mem_append_left _ hy) hky⟩
  · intro hn y hy
    by_cases hex : ∃ x ∈ S ++ T, k ≤ o.pos x
    · exact absurd ⟨e, hS, (h.2.1 hex).1⟩ hn
    · exact h.2.2 hex y (List.mem_append_left _ hy)

end Crng.Ring

namespace Crng.Ring

/-- Go's `sort.Search(n, f)` -/
def bsearch (f : Nat → Bool) : Nat → Nat → Nat → Nat
  | 0, i, _ => i
  | fuel + 1, i, j =>
    if i < j then
      let h := (i + j) / 2
      if !f h then bsearch f fuel (h + 1) j else bsearch f fuel i h
    else i

/-- on a predicate that never goes back to false, binary search returns the first true index in `[i, j)`, or `j` -/
theorem bsearch_spec (f : Nat → Bool) (hmono : ∀ a b, a ≤ b → f a = true → f b = true) :
    ∀ (fuel i j : Nat), i ≤ j → j - i ≤ fuel → (∀ a, a < i → f a = false) →
      i ≤ bsearch f fuel i j ∧ bsearch f fuel i j ≤ j ∧ (∀ a, a < bsearch f fuel i j → f a = false) ∧
      (bsearch f fuel i j < j → f (bsearch f fuel i j) = true) := by
  intro fuel
  induction fuel with
  | zero =>
    intro i j hij hf hlo
    have : i = j := by omega
    subst this
    simp only [bsearch]
    exact ⟨Nat.le_refl _, Nat.le_refl _, hlo, by intro h; first | exact absurd h (Nat.lt_irrefl _) | exact h.elim | omega⟩
  | succ fuel ih =>
    intro i j hij hf hlo
    simp only [bsearch]
    by_cases hlt : i < j
    · simp only [hlt, if_true]
      by_cases hfh : f ((i + j) / 2) = true
      · simp only [hfh, Bool.not_true, Bool.false_eq_true, if_false]
        obtain ⟨a1, a2, a3, a4⟩ := ih i ((i + j) / 2) (by omega) (by omega) hlo
        refine ⟨a1, by omega, a3, ?_⟩
        intro _
        by_cases hr : bsearch f fuel i ((i + j) / 2) < (i + j) / 2
        · exact a4 hr
        · have : bsearch f fuel i ((i + j) / 2) = (i + j) / 2 := by omega
          rw [this]; exact hfh
      · have hfh' : f ((i + j) / 2) = false := by simpa using hfh
        simp only [hfh', Bool.not_false, if_true]
        have hlo' : ∀ a, a < (i + j) / 2 + 1 → f a = false := by
          intro a ha
          by_cases hfa : f a = true
          · have := hmono a ((i + j) / 2) (by omega) hfa
            rw [hfh'] at this; cases this
          · simpa using hfa
        obtain ⟨a1, a2, a3, a4⟩ := ih ((i + j) / 2 + 1) j (by omega) (by omega) hlo'
        exact ⟨by omega, a2, a3, a4⟩
    · simp only [hlt, if_false]
      have : i = j := by omega
      subst this
      exact ⟨Nat.le_refl _, Nat.le_refl _, hlo, by intro h; first | exact absurd h (Nat.lt_irrefl _) | exact h.elim | omega⟩

end Crng.Ring
