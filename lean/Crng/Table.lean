/-! Scratch prototype: the dispatch pipeline of table.go / route.go / matcher.go (C01, C03, C04, C11, C19). -/
namespace Crng.Tb
abbrev Bytes := List UInt8

def hasPrefix (s p : Bytes) : Bool := s.take p.length == p
def contains (s sub : Bytes) : Bool := (List.range (s.length + 1)).any fun i => (s.drop i).take sub.length == sub

/-- a compiled regular expression is whatever decides matches; `pre` is the prefix the code derived from its source -/
structure Rx where
  accepts : Bytes → Bool
  pre : Bytes

structure Matcher where
  prefix_ : Bytes := []
  notPrefix : Bytes := []
  sub : Bytes := []
  notSub : Bytes := []
  regex : Option Rx := none
  notRegex : Option Rx := none

/-- matcher.go `Match`, statement by statement -/
def Matcher.match (m : Matcher) (s : Bytes) : Bool :=
  if m.prefix_.length > 0 && !hasPrefix s m.prefix_ then false
  else if m.notPrefix.length > 0 && hasPrefix s m.notPrefix then false
  else if m.sub.length > 0 && !contains s m.sub then false
  else if m.notSub.length > 0 && contains s m.notSub then false
  else if (match m.regex with
           | some r => (r.pre.length > 0 && !hasPrefix s r.pre) || !r.accepts s
           | none => false) then false
  else if (match m.notRegex with
           | some r => (r.pre.length == 0 || hasPrefix s r.pre) && r.accepts s
           | none => false) then false
  else true

/-- the documented meaning: conjunction of the six conditions, empty option = no constraint -/
def Matcher.spec (m : Matcher) (s : Bytes) : Bool :=
  (m.prefix_.isEmpty || hasPrefix s m.prefix_) && (m.notPrefix.isEmpty || !hasPrefix s m.notPrefix) &&
  (m.sub.isEmpty || contains s m.sub) && (m.notSub.isEmpty || !contains s m.notSub) &&
  (match m.regex with | some r => r.accepts s | none => true) &&
  (match m.notRegex with | some r => !r.accepts s | none => true)

/-- the derived prefix of a regex is sound: every string it matches starts with it -/
def Rx.PrefixOK (r : Rx) : Prop := ∀ s, r.accepts s = true → hasPrefix s r.pre = true
def Matcher.PrefixOK (m : Matcher) : Prop :=
  (∀ r, m.regex = some r → r.PrefixOK) ∧ (∀ r, m.notRegex = some r → r.PrefixOK)

theorem hasPrefix_nil (s : Bytes) : hasPrefix s [] = true := by simp [hasPrefix]

theorem len_pos_eq (l : Bytes) : decide (l.length > 0) = !l.isEmpty := by cases l <;> simp
theorem len_zero_eq (l : Bytes) : (l.length == 0) = l.isEmpty := by cases l <;> simp

theorem ite_false' (c x : Bool) : (if c = true then false else x) = (!c && x) := by cases c <;> rfl

/-- **C03 core.** With sound derived prefixes the shortcut never changes the decision. -/
theorem match_eq_spec (m : Matcher) (h : m.PrefixOK) (s : Bytes) : m.match s = m.spec s := by
  unfold Matcher.match Matcher.spec
  simp only [len_pos_eq, len_zero_eq, ite_false']
  have c1 : ∀ a b : Bool, (!(!a && !b)) = (a || b) := by intro a b; cases a <;> cases b <;> rfl
  have c2 : ∀ a b : Bool, (!(!a && b)) = (a || !b) := by intro a b; cases a <;> cases b <;> rfl
  have c5 : (!(match m.regex with
              | some r => (!r.pre.isEmpty && !hasPrefix s r.pre) || !r.accepts s
              | none => false)) = (match m.regex with | some r => r.accepts s | none => true) := by
    cases hre : m.regex with
    | none => rfl
    | some r =>
      have := h.1 r hre s
      simp only []
      cases ha : r.accepts s
      · simp
      · simp [this ha]
  have c6 : (!(match m.notRegex with
              | some r => (r.pre.isEmpty || hasPrefix s r.pre) && r.accepts s
              | none => false)) = (match m.notRegex with | some r => !r.accepts s | none => true) := by
    cases hre : m.notRegex with
    | none => rfl
    | some r =>
      have := h.2 r hre s
      simp only []
      cases ha : r.accepts s
      · simp
      · simp [this ha]
  rw [c1, c2, c1, c2, c5, c6]
  simp [Bool.and_assoc]

end Crng.Tb

namespace Crng.Tb

/-! ### routes and destinations (route.go) -/
inductive RouteKind | sendAll | sendFirst | other deriving DecidableEq, Repr

structure Route where
  matcher : Matcher
  kind : RouteKind
  dests : List Matcher        -- destination filters, in configured order

/-- `for _, dest := range dests { if dest.Match(x) { dest.In <- buf } }` -/
def sendAllLoop (x : Bytes) : List Matcher → Nat → List Nat
  | [], _ => []
  | d :: ds, i => if d.match x then i :: sendAllLoop x ds (i + 1) else sendAllLoop x ds (i + 1)

/-- same loop with `break` after the first hit -/
def sendFirstLoop (x : Bytes) : List Matcher → Nat → List Nat
  | [], _ => []
  | d :: ds, i => if d.match x then [i] else sendFirstLoop x ds (i + 1)

/-- which destinations of a route receive the line; `x` is what the code passes to the destination filter -/
def Route.dispatch (r : Route) (x : Bytes) : List Nat :=
  match r.kind with
  | .sendAll => sendAllLoop x r.dests 0
  | .sendFirst => sendFirstLoop x r.dests 0
  | .other => []

/-- indices (from `i`) of the elements satisfying `p` -/
def idxFilter {α : Type} (p : α → Bool) : List α → Nat → List Nat
  | [], _ => []
  | a :: t, i => if p a then i :: idxFilter p t (i + 1) else idxFilter p t (i + 1)

theorem sendAll_exact (x : Bytes) (ds : List Matcher) (i : Nat) : sendAllLoop x ds i = idxFilter (·.match x) ds i := by
  induction ds generalizing i with
  | nil => rfl
  | cons d ds ih => simp only [sendAllLoop, idxFilter, ih]

theorem sendFirst_exact (x : Bytes) (ds : List Matcher) (i : Nat) : sendFirstLoop x ds i = (idxFilter (·.match x) ds i).take 1 := by
  induction ds generalizing i with
  | nil => rfl
  | cons d ds ih =>
    simp only [sendFirstLoop, idxFilter]
    split
    · simp
    · exact ih (i + 1)

/-! ### aggregators as seen from the table (aggregator.go AddMaybe) -/
structure Agg where
  matcher : Matcher
  dropRaw : Bool

def Matcher.preMatch (m : Matcher) (s : Bytes) : Bool :=
  if m.prefix_.length > 0 && !hasPrefix s m.prefix_ then false
  else if m.notPrefix.length > 0 && hasPrefix s m.notPrefix then false
  else if m.sub.length > 0 && !contains s m.sub then false
  else if m.notSub.length > 0 && contains s m.notSub then false
  else if (match m.regex with | some r => r.pre.length > 0 && !hasPrefix s r.pre | none => false) then false
  else true

/-- `MatchRegexAndExpand` succeeded? (`useNot` = the repaired version that also consults notRegex) -/
def Matcher.regexStage (m : Matcher) (useNot : Bool) (s : Bytes) : Bool :=
  (match m.regex with | some r => r.accepts s | none => true) &&
  (if useNot then (match m.notRegex with | some r => !r.accepts s | none => true) else true)

/-- the aggregator loop of `Table.Dispatch`: who gets the fields, and was the raw metric consumed -/
def aggLoop (useNot : Bool) (name : Bytes) : List Agg → Nat → List Nat × Bool
  | [], _ => ([], false)
  | a :: as, i =>
    if !a.matcher.preMatch name then aggLoop useNot name as (i + 1)
    else if a.dropRaw && !a.matcher.regexStage useNot name then aggLoop useNot name as (i + 1)
    else if a.dropRaw then ([i], true)
    else let r := aggLoop useNot name as (i + 1); (i :: r.1, r.2)

/-! ### the table -/
structure Cfg where
  /-- `ValidatePacket`: the three fields of a valid line -/
  validate : Bytes → Option (Bytes × Bytes × Bytes)
  blacklist : List Matcher
  rewriters : List (Bytes → Bytes)
  aggs : List Agg
  routes : List Route
  useNot : Bool := true
  /-- what the route hands to the destination filters, computed from (name, final line) -/
  destArg : Bytes → Bytes → Bytes := fun name _ => name

structure Result where
  invalid : Bool := false
  blacklisted : Bool := false
  aggIn : List Nat := []
  consumed : Bool := false
  hits : List (Nat × List Nat) := []      -- (route index, destination indices)
  unroutable : Bool := false
  final : Bytes := []
  deriving Repr

def join3 (a b c : Bytes) : Bytes := a ++ [32] ++ b ++ [32] ++ c

/-- the route loop with its `routed` flag -/
def routeLoop (name final : Bytes) (destArg : Bytes → Bytes → Bytes) : List Route → Nat → List (Nat × List Nat)
  | [], _ => []
  | r :: rs, i =>
    if r.matcher.match name then (i, r.dispatch (destArg name final)) :: routeLoop name final destArg rs (i + 1)
    else routeLoop name final destArg rs (i + 1)

def dispatch (c : Cfg) (line : Bytes) : Result :=
  match c.validate line with
  | none => { invalid := true }
  | some (name, val, ts) =>
    if c.blacklist.any (·.match name) then { blacklisted := true }
    else
      let name' := c.rewriters.foldl (fun n f => f n) name
      let (aggIn, consumed) := aggLoop c.useNot name' c.aggs 0
      if consumed then { aggIn, consumed := true }
      else
        let final := join3 name' val ts
        let hits := routeLoop name' final c.destArg c.routes 0
        { aggIn, hits, unroutable := hits.isEmpty, final }

/-- aggregate output goes to the routes only -/
def dispatchAggregate (c : Cfg) (nameOf : Bytes → Bytes) (buf : Bytes) : Result :=
  let hits := routeLoop (nameOf buf) buf c.destArg c.routes 0
  { hits, unroutable := hits.isEmpty, final := buf }

/-! ### C01 -/
theorem routeLoop_exact (name final : Bytes) (da : Bytes → Bytes → Bytes) (rs : List Route) (i : Nat) :
    (routeLoop name final da rs i).map (·.1) = idxFilter (·.matcher.match name) rs i := by
  induction rs generalizing i with
  | nil => rfl
  | cons r rs ih =>
    simp only [routeLoop, idxFilter]
    split <;> simp [ih]

/-- every valid, not blacklisted, not consumed line goes to exactly the routes whose filter accepts the rewritten name,
    each once, in table order; it is unroutable exactly when there is none -/
theorem routes_exact (c : Cfg) (line name val ts : Bytes) (hv : c.validate line = some (name, val, ts))
    (hb : c.blacklist.any (·.match name) = false)
    (hc : (aggLoop c.useNot (c.rewriters.foldl (fun n f => f n) name) c.aggs 0).2 = false) :
    ((dispatch c line).hits.map (·.1) = idxFilter (·.matcher.match (c.rewriters.foldl (fun n f => f n) name)) c.routes 0) ∧
    ((dispatch c line).unroutable = (idxFilter (·.matcher.match (c.rewriters.foldl (fun n f => f n) name)) c.routes 0).isEmpty) ∧
    (dispatch c line).final = join3 (c.rewriters.foldl (fun n f => f n) name) val ts ∧
    (dispatch c line).invalid = false ∧ (dispatch c line).blacklisted = false := by
  unfold dispatch
  simp only [hv, hb, Bool.false_eq_true, if_false]
  generalize hal : aggLoop c.useNot (c.rewriters.foldl (fun n f => f n) name) c.aggs 0 = al at hc
  obtain ⟨a1, a2⟩ := al
  simp only at hc
  subst hc
  simp only [Bool.false_eq_true, if_false]
  have := routeLoop_exact (c.rewriters.foldl (fun n f => f n) name) (join3 (c.rewriters.foldl (fun n f => f n) name) val ts) c.destArg c.routes 0
  refine ⟨this, ?_, by simp, by simp, by simp⟩
  rw [← this]; simp

/-- a blacklisted line is counted as such and goes nowhere -/
theorem blacklisted_nowhere (c : Cfg) (line name val ts : Bytes) (hv : c.validate line = some (name, val, ts))
    (hb : c.blacklist.any (·.match name) = true) :
    (dispatch c line).blacklisted = true ∧ (dispatch c line).hits = [] ∧ (dispatch c line).aggIn = [] ∧
    (dispatch c line).unroutable = false := by
  unfold dispatch; simp [hv, hb]

/-- an invalid line is counted as such and goes nowhere (C02 gate) -/
theorem invalid_nowhere (c : Cfg) (line : Bytes) (hv : c.validate line = none) :
    (dispatch c line).invalid = true ∧ (dispatch c line).hits = [] ∧ (dispatch c line).aggIn = [] ∧
    (dispatch c line).unroutable = false ∧ (dispatch c line).blacklisted = false := by
  unfold dispatch; simp [hv]

/-! ### C11 -/
/-- the raw metric is withheld exactly when some drop-raw aggregation's complete stage-wise filter accepts it -/
theorem aggLoop_consumed_iff (useNot : Bool) (name : Bytes) (as : List Agg) (i : Nat) :
    (aggLoop useNot name as i).2 = as.any (fun a => a.dropRaw && a.matcher.preMatch name && a.matcher.regexStage useNot name) := by
  induction as generalizing i with
  | nil => rfl
  | cons a as ih =>
    simp only [aggLoop, List.any_cons]
    cases hp : a.matcher.preMatch name <;> cases hd : a.dropRaw <;> cases hr : a.matcher.regexStage useNot name <;> simp [ih]

/-- aggregate output never reaches an aggregator, the validator, the blacklist or a rewriter: by construction the result
    has no aggregator input and no rejection flags, whatever the rule set -/
theorem aggregate_only_routes (c : Cfg) (nameOf : Bytes → Bytes) (buf : Bytes) :
    (dispatchAggregate c nameOf buf).aggIn = [] ∧ (dispatchAggregate c nameOf buf).invalid = false ∧
    (dispatchAggregate c nameOf buf).blacklisted = false ∧ (dispatchAggregate c nameOf buf).consumed = false ∧
    (dispatchAggregate c nameOf buf).final = buf := ⟨rfl, rfl, rfl, rfl, rfl⟩

/-- one received line reaches each aggregator at most once (no amplification) -/
theorem aggLoop_bounded (useNot : Bool) (name : Bytes) (as : List Agg) (i : Nat) :
    (aggLoop useNot name as i).1.length ≤ as.length ∧ (aggLoop useNot name as i).1.Pairwise (· < ·) ∧
    ∀ j ∈ (aggLoop useNot name as i).1, i ≤ j := by
  induction as generalizing i with
  | nil => simp [aggLoop]
  | cons a as ih =>
    obtain ⟨h1, h2, h3⟩ := ih (i + 1)
    simp only [aggLoop]
    split
    · exact ⟨by simp; omega, h2, fun j hj => by have := h3 j hj; omega⟩
    · split
      · exact ⟨by simp; omega, h2, fun j hj => by have := h3 j hj; omega⟩
      · split
        · simp
        · refine ⟨by simp; omega, ?_, ?_⟩
          · simp only [List.pairwise_cons]; exact ⟨fun j hj => by have := h3 j hj; omega, h2⟩
          · intro j hj; simp at hj; rcases hj with rfl | hj
            · exact Nat.le_refl _
            · have := h3 j hj; omega

end Crng.Tb
