def hello := "world"
