/-! Scratch prototype: one grafanaNet worker (`run` / `retryFlush`) and the route's shutdown protocol (C17). -/
namespace Crng.GN

inductive Outcome | ok | fail deriving Repr, DecidableEq

structure Wk where
  queue : List (Nat × Bool) := []   -- the shard's buffered channel: (metric id, does it parse?)
  batch : List Nat := []           -- parsed metrics waiting for the next flush
  acked : List (List Nat) := []    -- batches acknowledged with 2xx, oldest first
  outcomes : List Outcome := []    -- what the server will answer to the next requests (exhausted = ok)
  errs : Nat := 0                  -- numErrFlush
  deriving Repr

/-- `retryFlush`: post the same batch until it is acknowledged; never drops or reorders it -/
def retryFlush : Nat → Wk → Wk
  | 0, w => w
  | fuel + 1, w =>
    if w.batch.isEmpty then w else
    match w.outcomes with
    | [] => { w with acked := w.acked ++ [w.batch], batch := [] }
    | .ok :: os => { w with acked := w.acked ++ [w.batch], batch := [], outcomes := os }
    | .fail :: os => retryFlush fuel { w with outcomes := os, errs := w.errs + 1 }

def flushNow (w : Wk) : Wk := retryFlush (w.outcomes.length + 1) w

inductive Ev | recv | timer | shutdown (drain : Bool) deriving Repr

/-- `add`: take one metric from the queue, parse, append, flush when the batch is full -/
def addOne (maxNum : Nat) (w : Wk) : Wk :=
  match w.queue with
  | [] => w
  | (id, okParse) :: q =>
    let w := { w with queue := q }
    if !okParse then w else
    let w := { w with batch := w.batch ++ [id] }
    if w.batch.length == maxNum then flushNow w else w

def drainAll (maxNum : Nat) : Nat → Wk → Wk
  | 0, w => w
  | fuel + 1, w => if w.queue.isEmpty then w else drainAll maxNum fuel (addOne maxNum w)

def step (maxNum : Nat) (w : Wk) : Ev → Wk
  | .recv => addOne maxNum w
  | .timer => flushNow w
  | .shutdown drain => flushNow (if drain then drainAll maxNum (w.queue.length + 1) w else w)

/-- ids that parse, in queue order -/
def good (q : List (Nat × Bool)) : List Nat := (q.filter (·.2)).map (·.1)

/-- everything the worker is responsible for, in arrival order -/
def Wk.all (w : Wk) : List Nat := w.acked.flatten ++ w.batch ++ good w.queue

theorem retryFlush_all : ∀ (fuel : Nat) (w : Wk), (retryFlush fuel w).all = w.all ∧ (retryFlush fuel w).queue = w.queue := by
  intro fuel
  induction fuel with
  | zero => intro w; exact ⟨rfl, rfl⟩
  | succ f ih =>
    intro w
    unfold retryFlush
    split
    · exact ⟨rfl, rfl⟩
    · split
      · simp [Wk.all]
      · simp [Wk.all]
      · rename_i os _
        have := ih { w with outcomes := os, errs := w.errs + 1 }
        exact ⟨by rw [this.1]; rfl, by rw [this.2]⟩

/-- with finitely many failures ahead, the retry loop ends with the batch acknowledged -/
theorem retryFlush_acks : ∀ (fuel : Nat) (w : Wk), w.outcomes.length < fuel → (retryFlush fuel w).batch = [] := by
  intro fuel
  induction fuel with
  | zero => intro w h; omega
  | succ f ih =>
    intro w h
    unfold retryFlush
    split
    · rename_i he; simpa using he
    · split
      · rfl
      · rfl
      · rename_i os heq
        apply ih
        simp only
        rw [heq] at h; simp at h; omega

theorem addOne_all (maxNum : Nat) (w : Wk) : (addOne maxNum w).all = w.all := by
  unfold addOne
  cases hq : w.queue with
  | nil => simp [hq]
  | cons e q =>
    obtain ⟨id, okp⟩ := e
    simp only []
    cases okp with
    | false => simp [Wk.all, good, hq]
    | true =>
      simp only [Bool.not_true, Bool.false_eq_true, if_false]
      split
      · rw [flushNow, (retryFlush_all _ _).1]; simp [Wk.all, good, hq]
      · simp [Wk.all, good, hq]

theorem drainAll_all (maxNum : Nat) : ∀ (fuel : Nat) (w : Wk), (drainAll maxNum fuel w).all = w.all := by
  intro fuel
  induction fuel with
  | zero => intro w; rfl
  | succ f ih => intro w; unfold drainAll; split; rfl; rw [ih, addOne_all]

/-- **C17 core (worker).** Over any history of receives, timer flushes and server answers, the acknowledged batches followed by
    the current batch and the still-queued metrics are exactly the accepted metrics in arrival order: a failed batch is
    retried unchanged, never skipped, never reordered. -/
theorem step_all (maxNum : Nat) (w : Wk) (e : Ev) : (step maxNum w e).all = w.all := by
  cases e with
  | recv => exact addOne_all maxNum w
  | timer => exact (retryFlush_all _ w).1
  | shutdown drain =>
    simp only [step, flushNow]
    rw [(retryFlush_all _ _).1]
    split
    · exact drainAll_all maxNum _ w
    · rfl

/-! ### the route's shutdown protocol: `N` workers, one signal channel, one WaitGroup -/
structure Proto where
  broadcast : Bool     -- `close(shutdown)` (every worker sees it) vs one send (one worker sees it)
  doneOnExit : Bool    -- does a worker that leaves `run` call `wg.Done()`
  drain : Bool         -- does the shutdown branch empty the shard queue before the last flush

/-- how many workers get the signal, how many `Done` calls happen, does `wg.Wait()` return -/
def signalled (p : Proto) (n : Nat) : Nat := if p.broadcast then n else min n 1
def dones (p : Proto) (n : Nat) : Nat := if p.doneOnExit then signalled p n else 0
def shutdownReturns (p : Proto) (n : Nat) : Bool := dones p n == n

theorem shutdown_ok (p : Proto) (n : Nat) (hb : p.broadcast = true) (hd : p.doneOnExit = true) : shutdownReturns p n = true := by
  simp [shutdownReturns, dones, signalled, hb, hd]

/-- the protocol found in the unchanged tree (one send, `Done` unreachable) never returns, for any number of workers ≥ 1 -/
theorem shutdown_hangs (n : Nat) (hn : 0 < n) : shutdownReturns ⟨false, false, false⟩ n = false := by
  simp [shutdownReturns, dones]; omega

end Crng.GN
