import Drv.Util
import Crng.Table
import Crng.Regex
import Crng.Rx
import Crng.Validate
import Crng.Rewriter
import Crng.Ordered
import Crng.Aggregator
/-! driver for the table pipeline model (`Crng/Table.lean`): builds a `Tb.Cfg` from the case description and runs
`Tb.dispatch` / `Tb.dispatchAggregate` per line. Regexes run on the Lean engine (`Crng/Rx.lean`); the derived prefix of a
regex is the model's `soundPrefix` of its (abstracted) AST. -/
namespace Drv.Table
open Drv

/-- factors of a concatenation, nested concatenations spliced in and empty factors dropped (`cat` is associative and
`empty` is its unit, so this does not change the language) -/
def catFactors : Crng.Rx.Re → List Crng.Rx.Re
  | .cat a b => catFactors a ++ catFactors b
  | .empty => []
  | r => [r]

instance : Inhabited Crng.Re := ⟨.empty⟩

def rightNest : List Crng.Re → Crng.Re
  | [] => .empty
  | [x] => x
  | x :: xs => .cat x (rightNest xs)

/-- abstraction of the executable AST into the over-approximating AST of `Crng/Regex.lean`; concatenations are
re-associated to the right, which is the shape `leadingLits` walks -/
partial def absRe (r : Crng.Rx.Re) : Crng.Re :=
  match r with
  | .empty => .empty
  | .chr c => if c < 128 then .litA c else .wide
  | .any => .wide
  | .cls _ _ => .wide
  | .bol => .beginText
  | .eol => .zeroWidth
  | .cat a b =>
    rightNest ((catFactors (.cat a b)).map absRe)
  | .alt a b => .alt (absRe a) (absRe b)
  | .star a => .star (absRe a)
  | .plus a => .cat (absRe a) (.star (absRe a))
  | .opt a => .opt (absRe a)
  | .grp _ a => .cap (absRe a)
  | .fail => .wide

def mkRx (src : Bytes) : Option Crng.Tb.Rx :=
  if src.isEmpty then none else
  let c := Crng.Rx.compile src
  some { accepts := fun s => Crng.Rx.isMatch c s, pre := Crng.soundPrefix (absRe c.re) }

def mkMatcher (f : List String) : Crng.Tb.Matcher :=
  match f.map arg with
  | [pre, npre, sub, nsub, re, nre] => { prefix_ := pre, notPrefix := npre, sub := sub, notSub := nsub, regex := mkRx re, notRegex := mkRx nre }
  | _ => {}

structure AggSpec where
  fn : String
  re : Crng.Rx.Compiled
  nre : Option Crng.Rx.Compiled
  fmt : Bytes
  interval : Nat
  wait : Nat

structure RouteSpec where
  kind : String
  r : Crng.Tb.Route

structure St where
  legacy : Crng.Val.LegacyLevel := .medium
  m20 : Crng.Val.M20Level := .medium
  order : Bool := false
  bl : List Crng.Tb.Matcher := []
  rws : List (Bytes → Bytes) := []
  aggs : List Crng.Tb.Agg := []
  aggSpecs : List AggSpec := []
  routes : List RouteSpec := []
  ord : Crng.Ord.M := []
  bad : List (Bytes × Bytes × String) := []      -- key ↦ (line, kind), unsorted
  pending : List (Nat × Bytes) := []             -- aggregator emissions not yet pumped (parked aggregators)

def isRegexLit (b : Bytes) : Option Bytes :=
  if b.length > 1 && b.head? == some 47 && b.getLast? == some 47 then some ((b.drop 1).take (b.length - 2)) else none

/-- `rewriter.RW.Do` -/
def mkRewriter (old new not : Bytes) (max : Option Nat) : Bytes → Bytes :=
  let re := (isRegexLit old).map Crng.Rx.compile
  let notRe := (isRegexLit not).map Crng.Rx.compile
  fun s =>
    let skip := match notRe with
      | some c => Crng.Rx.isMatch c s
      | none => !not.isEmpty && Crng.Rw.contains s not
    if skip then s else
    match re with
    | some c => Crng.Rx.replaceAll c s new
    | none => Crng.Rw.replaceN old new (s.length + 1) max s

def errKind : Crng.Val.Err → String
  | .fields => "fields" | .emptyKey => "emptykey" | .tagAppendix => "tagappendix"
  | .emptyNode => "emptynode" | .illegalChar => "illegalchar" | .nullByte => "null" | .nonAscii => "nonascii"
  | .mixEq => "mixeq" | .noUnit => "nounit" | .noMType => "nomtype" | .notEnoughTags => "fewtags"
  | .valNotNumber => "val" | .tsNotTs => "ts"

/-- injective encoding of a key as a number (the model assumes the FNV hash does not collide on the history) -/
def keyHash (b : Bytes) : Nat := b.foldl (fun a c => a * 257 + c.toNat + 1) 0

def addBad (bad : List (Bytes × Bytes × String)) (k line : Bytes) (kind : String) : List (Bytes × Bytes × String) :=
  (k, line, kind) :: bad.filter (·.1 != k)

def bytesLt : Bytes → Bytes → Bool
  | [], [] => false
  | [], _ => true
  | _, [] => false
  | a :: s, b :: t => if a < b then true else if a > b then false else bytesLt s t

def insertBad (x : Bytes × Bytes × String) : List (Bytes × Bytes × String) → List (Bytes × Bytes × String)
  | [] => [x]
  | y :: t => if bytesLt x.1 y.1 then x :: y :: t else y :: insertBad x t

def toCfg (s : St) : Crng.Tb.Cfg :=
  { validate := fun line =>
      match (Crng.Val.validatePacket line s.legacy s.m20).2, Crng.Val.fields line with
      | none, [n, v, t] => some (n, v, t)
      | _, _ => none
    blacklist := s.bl, rewriters := s.rws, aggs := s.aggs, routes := s.routes.map (·.r), useNot := true }

def showHits (s : St) (tag : String) (hits : List (Nat × List Nat)) (final : Bytes) : List String :=
  hits.filterMap fun (i, ds) =>
    match s.routes[i]? with
    | some rs =>
      if rs.kind == "cap" then some s!"{tag} {i} [{hex final}]"
      else if ds.isEmpty then none else some s!"{tag} {i} :{",".intercalate (ds.map toString)}"
    | none => none

/-- what aggregator `i` emits for one accepted point, flushed on its own -/
def aggEmit (a : AggSpec) (name : Bytes) (bits ts : Nat) : List Bytes :=
  let nreHit := match a.nre with | some c => Crng.Rx.isMatch c name | none => false
  if nreHit then [] else
  match Crng.Rx.matchExpand a.re name a.fmt with
  | none => []
  | some outKey =>
    let v := Float.ofBits (UInt64.ofNat bits)
    -- the harness's injected clock stands at 100000: a bucket at or below now - wait is closed (too old), as in AddOrCreate
    if !(decide (ts - ts % a.interval > Crng.Agg.u64 (Crng.Agg.u64 100000 - a.wait))) then [] else
    match Crng.Agg.PS.new a.fn v ts with
    | none => []
    | some p =>
      match p.flush with
      | none => []
      | some rs =>
        -- names are byte strings (possibly not UTF-8): render with a one-character placeholder key and put the bytes back
        let em : Crng.Agg.Em := { ts := ts - ts % a.interval, key := "K", res := rs }
        (Crng.Agg.Em.render em).map fun l => outKey ++ l.toUTF8.toList.drop 1

def strBytes (s : String) : Bytes := s.toUTF8.toList

def insertStr (x : Bytes) : List Bytes → List Bytes
  | [] => [x]
  | y :: t => if bytesLt x y then x :: y :: t else y :: insertStr x t

/-- route the (already sorted per aggregator) emissions through `dispatchAggregate`, as the relay does with aggregator output -/
def routeEmissions (s : St) (ems : List (Nat × Bytes)) : List String :=
  let c := toCfg s
  ems.flatMap fun (i, lb) =>
    let ra := Crng.Tb.dispatchAggregate c (fun b => b.takeWhile (· != 32)) lb
    s!"a {i} {hex lb} unr={if ra.unroutable then 1 else 0}" :: showHits s "ad" ra.hits lb

def sortedEmissions (s : St) (ems : List (Nat × Bytes)) : List (Nat × Bytes) :=
  (List.range s.aggSpecs.length).flatMap fun i =>
    ((ems.filter (·.1 == i)).foldl (fun acc e => insertStr e.2 acc) []).map fun l => (i, l)

def handleIn (s : St) (line : Bytes) (bits ts : Nat) (defer : Bool := false) : St × List String :=
  let (key, verr) := Crng.Val.validatePacket line s.legacy s.m20
  match verr with
  | some e => ({ s with bad := addBad s.bad key line (errKind e) }, ["res in=1 inv=1 ooo=0 bl=0 unr=0"])
  | none =>
    let (ord', okOrd) := if s.order then Crng.Ord.ordered keyHash s.ord key ts else (s.ord, true)
    if !okOrd then ({ s with bad := addBad s.bad key line "notnewer" }, ["res in=1 inv=0 ooo=1 bl=0 unr=0"])
    else
      let s := { s with ord := ord' }
      let c := toCfg s
      let r := Crng.Tb.dispatch c line
      if r.invalid then (s, ["res in=1 inv=1 ooo=0 bl=0 unr=0 MODEL-DISAGREES-WITH-ITSELF"])
      else if r.blacklisted then (s, ["res in=1 inv=0 ooo=0 bl=1 unr=0"])
      else
        let name' := match Crng.Val.fields line with
          | n :: _ => s.rws.foldl (fun n f => f n) n
          | [] => []
        let res := s!"res in=1 inv=0 ooo=0 bl=0 unr={if r.unroutable && !r.consumed then 1 else 0}"
        let direct := showHits s "d" r.hits r.final
        -- aggregator emissions, in aggregator order, each routed through dispatchAggregate
        let ems := (r.aggIn.flatMap fun i =>
          match s.aggSpecs[i]? with
          | some a => (aggEmit a name' bits ts).map fun l => (i, l)
          | none => [])
        if defer then ({ s with pending := s.pending ++ ems }, res :: direct)
        else (s, res :: direct ++ routeEmissions s (sortedEmissions s ems))

def handleAggIn (s : St) (line : Bytes) : List String :=
  let c := toCfg s
  let ra := Crng.Tb.dispatchAggregate c (fun b => b.takeWhile (· != 32)) line
  s!"res in=0 inv=0 ooo=0 bl=0 unr={if ra.unroutable then 1 else 0}" :: showHits s "d" ra.hits line

partial def loop (h : IO.FS.Stream) (s : St) : IO Unit := do
  let line ← h.getLine
  if line.isEmpty then pure () else
  if isCase line then IO.print line; loop h s else
    match words line with
    | ["lvl", l, m, o] =>
      let ll := match l with | "strict" => Crng.Val.LegacyLevel.strict | "medium" => .medium | _ => .none
      let ml := match m with | "medium" => Crng.Val.M20Level.medium | _ => .none
      loop h { legacy := ll, m20 := ml, order := o == "1" }
    | "bl" :: f => loop h { s with bl := s.bl ++ [mkMatcher f] }
    | ["rw", old, new, not, mx] =>
      let max : Option Nat := if mx.startsWith "-" then none else some mx.toNat!
      loop h { s with rws := s.rws ++ [mkRewriter (arg old) (arg new) (arg not) max] }
    | ["agg", fn, re, fmt, iv, w, dr, _cache, pre, npre, sub, nsub, nre] =>
      let m := mkMatcher [pre, npre, sub, nsub, re, nre]
      let spec : AggSpec := { fn, re := Crng.Rx.compile (arg re), nre := if (arg nre).isEmpty then none else some (Crng.Rx.compile (arg nre)),
                              fmt := arg fmt, interval := iv.toNat!, wait := w.toNat! }
      loop h { s with aggs := s.aggs ++ [{ matcher := m, dropRaw := dr == "1" }], aggSpecs := s.aggSpecs ++ [spec] }
    | "route" :: kind :: f =>
      let k : Crng.Tb.RouteKind := if kind == "all" then .sendAll else if kind == "first" then .sendFirst else .other
      loop h { s with routes := s.routes ++ [{ kind, r := { matcher := mkMatcher f, kind := k, dests := [] } }] }
    | "dest" :: f =>
      match s.routes.reverse with
      | last :: rest => loop h { s with routes := (({ last with r := { last.r with dests := last.r.dests ++ [mkMatcher f] } }) :: rest).reverse }
      | [] => loop h s
    | ["build"] => IO.println "built"; loop h s
    | [op, l, bits, ts] =>
      if op == "in" || op == "inm" || op == "inx" || op == "inmx" then
        let (s', out) := handleIn s (arg l) bits.toNat! ts.toNat! (op == "inx" || op == "inmx")
        for o in out do IO.println o
        loop h s'
      else loop h s
    | ["aggin", l] =>
      for o in handleAggIn s (arg l) do IO.println o
      loop h s
    -- changes applied to the running table (history streams)
    | ["addrw", old, new, not, mx] =>
      let max : Option Nat := if mx.startsWith "-" then none else some mx.toNat!
      IO.println "op ok"
      loop h { s with rws := s.rws ++ [mkRewriter (arg old) (arg new) (arg not) max] }
    | ["delrw", i] =>
      if i.toNat! < s.rws.length then IO.println "op ok"; loop h { s with rws := s.rws.eraseIdx i.toNat! }
      else IO.println "op err"; loop h s
    | ["delbl", i] =>
      if i.toNat! < s.bl.length then IO.println "op ok"; loop h { s with bl := s.bl.eraseIdx i.toNat! }
      else IO.println "op err"; loop h s
    | "addbl" :: f => IO.println "op ok"; loop h { s with bl := s.bl ++ [mkMatcher f] }
    | "modroute" :: ri :: f =>
      match s.routes[ri.toNat!]? with
      | some r =>
        if r.kind == "cap" then IO.println "op skip"; loop h s
        else IO.println "op ok"; loop h { s with routes := s.routes.set ri.toNat! { r with r := { r.r with matcher := mkMatcher f } } }
      | none => IO.println "op skip"; loop h s
    | "moddest" :: ri :: di :: f =>
      match s.routes[ri.toNat!]? with
      | some r =>
        if r.kind == "cap" then IO.println "op skip"; loop h s
        else if di.toNat! < r.r.dests.length then
          IO.println "op ok"; loop h { s with routes := s.routes.set ri.toNat! { r with r := { r.r with dests := r.r.dests.set di.toNat! (mkMatcher f) } } }
        else IO.println "op err"; loop h s
      | none => IO.println "op skip"; loop h s
    | ["park"] => loop h s
    | ["unpark"] => loop h s
    | ["pump"] =>
      for o in routeEmissions s (sortedEmissions s s.pending) do IO.println o
      loop h { s with pending := [] }
    | ["bad"] =>
      let sorted := s.bad.foldl (fun acc x => insertBad x acc) []
      for (k, l, kind) in sorted do IO.println s!"bad {hexOrDash k} {hexOrDash l} {kind}"
      IO.println "badend"
      loop h s
    | _ => IO.println "bad-op"; loop h s
def run (_ : List String) : IO Unit := do loop (← IO.getStdin) {}
end Drv.Table

namespace Drv.Table
open Drv
/-- matcher differential: model `Matcher.match` / `preMatch` with the model-derived (sound) prefixes, and the spec -/
def matchLine : List String → String
  | ["m", pre, npre, sub, nsub, re, nre, name] =>
    let m := mkMatcher [pre, npre, sub, nsub, re, nre]
    let n := arg name
    let b2i (b : Bool) : Nat := if b then 1 else 0
    let p1 := match m.regex with | some r => r.pre | none => []
    let p2 := match m.notRegex with | some r => r.pre | none => []
    s!"{b2i (m.match n)} {b2i (m.preMatch n)} {hexOrDash p1} {hexOrDash p2} spec={b2i (m.spec n)}"
  | _ => "bad-op"
end Drv.Table

namespace Drv.Table
open Drv
/-! the regex tree Go's parser produced (dumped by the harness), as the over-approximating AST of `Crng/Regex.lean` -/
def catList : Crng.Re → List Crng.Re
  | .cat a b => catList a ++ catList b
  | .empty => []
  | x => [x]

def rightAlt : List Crng.Re → Crng.Re
  | [] => .empty
  | [x] => x
  | x :: xs => .alt x (rightAlt xs)

mutual
  partial def parseTree (s : List Char) : Crng.Re × List Char :=
    match s with
    | 'e' :: t => (.empty, t)
    | 'n' :: t => (.wide, t)
    | 'w' :: t => (.wide, t)
    | 'b' :: t => (.beginText, t)
    | 'z' :: t => (.zeroWidth, t)
    | 'l' :: t =>
      let ds := t.takeWhile Char.isDigit
      let n := ds.foldl (fun a c => a * 10 + (c.toNat - 48)) 0
      (if n < 128 then .litA (UInt8.ofNat n) else .wide, t.dropWhile Char.isDigit)
    | 'g' :: '(' :: t => let (xs, r) := parseArgs t []; (.cap (rightNest xs), r)
    | 's' :: '(' :: t => let (xs, r) := parseArgs t []; (.star (rightNest xs), r)
    | 'p' :: '(' :: t => let (xs, r) := parseArgs t []; (.cat (rightNest xs) (.star (rightNest xs)), r)
    | 'q' :: '(' :: t => let (xs, r) := parseArgs t []; (.opt (rightNest xs), r)
    | 'c' :: '(' :: t => let (xs, r) := parseArgs t []; (rightNest (xs.flatMap catList), r)
    | 'a' :: '(' :: t => let (xs, r) := parseArgs t []; (rightAlt xs, r)
    | _ => (.wide, [])
  partial def parseArgs (s : List Char) (acc : List Crng.Re) : List Crng.Re × List Char :=
    match s with
    | ')' :: t => (acc.reverse, t)
    | ',' :: t => parseArgs t acc
    | [] => (acc.reverse, [])
    | _ => let (x, r) := parseTree s; parseArgs r (x :: acc)
end

/-- the abstract AST as an executable regex: `wide` = one to four arbitrary bytes -/
def concRe : Crng.Re → Crng.Rx.Re
  | .empty => .empty
  | .litA b => .chr b
  | .wide => let anyB : Crng.Rx.Re := .cls true []; .cat anyB (.opt (.cat anyB (.opt (.cat anyB (.opt anyB)))))
  | .beginText => .bol
  | .zeroWidth => .empty
  | .cat a b => .cat (concRe a) (concRe b)
  | .alt a b => .alt (concRe a) (concRe b)
  | .star a => .star (concRe a)
  | .opt a => .opt (concRe a)
  | .cap a => concRe a

/-- `a <tree> <name>...` -> sound prefix of the tree, and for each name whether the over-approximating relation has a match -/
def absPrefixLine : List String → String
  | "a" :: tree :: names =>
    let (ast, _) := parseTree tree.toList
    let c : Crng.Rx.Compiled := { re := concRe ast, ngroups := 0, ok := true }
    let bits := names.map fun n => if Crng.Rx.isMatch c (arg n) then "1" else "0"
    s!"{hexOrDash (Crng.soundPrefix ast)} {"".intercalate bits}"
  | _ => "bad-op"
end Drv.Table
