import Drv.Util
import Crng.BufWriter
import Crng.Pickle
/-! model of a healthy destination connection (C05): `Conn.Write` = `Write(line)`, `Write("\n")` (or `Write(pickle dp)`)
    through the buffered writer of size iobuf, final flush; prints what the endpoint must have received -/
namespace Drv.Conn
open Drv Crng.BW
structure S where
  pickle : Bool := false
  w : W := { cap := 1 }
  sent : Nat := 0
  bad : Nat := 0
def splitSpAux : Bytes → Bytes → List Bytes
  | [], cur => if cur.isEmpty then [] else [cur.reverse]
  | c :: t, cur => if c == 32 then (if cur.isEmpty then splitSpAux t [] else cur.reverse :: splitSpAux t []) else splitSpAux t (c :: cur)
def splitSp (b : Bytes) : List Bytes := splitSpAux b []
def natOf (b : Bytes) : Option Nat :=
  if b.isEmpty || !b.all (fun c => 48 ≤ c && c ≤ 57) then none else some (b.foldl (fun a c => a * 10 + (c.toNat - 48)) 0)
def connWrite (s : S) (line : Bytes) (bits : Nat) : S :=
  if s.pickle then
    match splitSp line with
    | [name, _, ts] =>
      match natOf ts with
      | some t => if t < 4294967296 then { s with w := (write s.w (Crng.Pk.pickleOut name t bits)).1 } else { s with bad := s.bad + 1 }
      | none => { s with bad := s.bad + 1 }
    | _ => { s with bad := s.bad + 1 }
  else
    let w1 := (write s.w line).1
    { s with w := (write w1 [10]).1 }
partial def loop (h : IO.FS.Stream) (s : S) : IO Unit := do
  let line ← h.getLine
  if line.isEmpty then pure () else
  if isCase line then IO.print line; loop h s else
    match words line with
    | "cfg" :: p :: iobuf :: _ => loop h { pickle := p == "1", w := { cap := iobuf.toNat! } }
    | ["l", b] => loop h { connWrite s (unhex b) 0 with sent := s.sent + 1 }
    | ["l", b, bits] => loop h { connWrite s (unhex b) bits.toNat! with sent := s.sent + 1 }
    | ["end"] =>
      let w := (flush s.w).1
      IO.println s!"recv 0 {hexOrDash w.sock}"
      IO.println s!"sent {s.sent}"
      IO.println s!"drops slow_conn=0 conn_down_no_spool=0 slow_spool=0 bad_pickle={s.bad}"
      loop h s
    | _ => loop h s
def run (_ : List String) : IO Unit := do loop (← IO.getStdin) {}
end Drv.Conn
