import Drv.Util
import Crng.Aggregator
namespace Drv.Agg
open Drv Crng.Agg
partial def loop (h : IO.FS.Stream) (cfg : Cfg) (s : St) : IO Unit := do
  let line ← h.getLine
  if line.isEmpty then pure () else
  if isCase line then IO.print line; loop h cfg s else
    match words line with
    | ["cfg", fn, i, w] => loop h { fn, interval := i.toNat!, wait := w.toNat! } {}
    | ["p", key, ts, bits, now] =>
      let (s', _) := step cfg s (.point key ts.toNat! (Float.ofBits (UInt64.ofNat bits.toNat!)) now.toInt!)
      IO.println "p"; loop h cfg s'
    | ["t", now] =>
      let (s', ems) := step cfg s (.tick now.toInt!)
      let out := ems.flatMap Em.render
      IO.println s!"t {out.length}"
      for l in out do IO.println l
      loop h cfg s'
    | ["end"] => IO.println s!"tooold {s.tooOld}"; loop h cfg s
    | _ => IO.println "bad-op"; loop h cfg s
def run (_ : List String) : IO Unit := do loop (← IO.getStdin) { fn := "sum", interval := 1, wait := 0 } {}
end Drv.Agg
