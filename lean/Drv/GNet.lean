import Drv.Util
import Crng.GNet
import Crng.Schemas
import Crng.Validate
import Crng.Retention
/-! driver for one grafanaNet worker (C17) in the deterministic configuration: concurrency 1, no flush timer within the case,
blocking dispatch. Metrics are numbered in dispatch order; the model's worker (`Crng.GN.step`) is run on the events. -/
namespace Drv.GNet
open Drv Crng.GN

structure St where
  maxNum : Nat := 1
  w : Wk := {}
  names : List String := []      -- rendered "name|time|interval" by metric id
  nextId : Nat := 0
  shut : Bool := false

def parseUint32 (s : Bytes) : Option Nat :=
  if s.isEmpty || !s.all (fun c => 48 ≤ c && c ≤ 57) then none else
  let n := s.foldl (fun a c => a * 10 + (c.toNat - 48)) 0
  if n < 4294967296 then some n else none

/-- `Dispatch` keeps a line only if it has a space after trimming; `parseMetric` then decides whether it joins a batch -/
def classify (line : Bytes) : Option (Option String) :=
  let t := Crng.Ret.trim line
  if !t.contains 32 then none else
  some <|
    match Crng.Val.fields t with
    | [n, v, ts] =>
      if !Crng.Val.parseFloatOK v then none else
      match parseUint32 ts with
      | none => none
      | some time =>
        match Crng.Sch.buildMetric [{ accepts := fun _ => true, prio := 0, idx := 0, interval := 10 }] 1 n 0 time with
        | some md => some s!"{String.fromUTF8! (ByteArray.mk md.name.toArray)}|{md.time}|{md.interval}"
        | none => none
    | _ => none

partial def loop (h : IO.FS.Stream) (s : St) : IO Unit := do
  let line ← h.getLine
  if line.isEmpty then pure () else
  if isCase line then IO.print line; loop h s else
    match words line with
    | "cfg" :: _ :: _ :: maxnum :: _ => loop h { maxNum := maxnum.toNat! }
    | ["script", sc] =>
      let os := (sc.splitOn ",").map fun o => if o == "ok" then Outcome.ok else Outcome.fail
      loop h { s with w := { s.w with outcomes := os } }
    | ["m", l] =>
      match classify (arg l) with
      | none => loop h s
      | some r =>
        let okParse := r.isSome
        let w1 := { s.w with queue := s.w.queue ++ [(s.nextId, okParse)] }
        -- the worker takes it from the shard queue at once (nothing else is pending in this configuration)
        let w2 := step s.maxNum w1 .recv
        loop h { s with w := w2, names := s.names ++ [r.getD ""], nextId := s.nextId + 1 }
    | ["shutdown"] =>
      IO.println "shutdown ok"
      loop h { s with w := step s.maxNum s.w (.shutdown true), shut := true }
    | ["end"] =>
      for b in s.w.acked do
        IO.println s!"post {",".intercalate (b.map fun i => s.names.getD i "?")}"
      IO.println s!"requests {s.w.acked.length + s.w.errs}"
      IO.println s!"errs {s.w.errs}"
      IO.println "drops 0"
      loop h s
    | _ => loop h s
def run (_ : List String) : IO Unit := do loop (← IO.getStdin) {}
end Drv.GNet
