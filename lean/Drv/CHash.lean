import Drv.Util
import Crng.CHash
namespace Drv.CHash
open Drv Crng.CHash
/-- `destIndex` with the ring computed once per configuration (the definition recomputes it per key) -/
def destIndexOn (r : List Key) (nodes : List Node) (name : Bytes) : Option Nat :=
  match lookupKey r (Crng.MD5.ringPos name) with
  | some k => nodes.findIdx? (fun n => n.host == k.2.1 && n.inst == k.2.2)
  | none => none

partial def loop (h : IO.FS.Stream) (nodes : List Node) (r : List Key := ring Crng.MD5.ringPos 100 nodes) : IO Unit := do
  let line ← h.getLine
  if line.isEmpty then pure () else
  if isCase line then IO.print line; loop h nodes r else
    match words line with
    | ["new", addrs] => loop h ((addrs.splitOn ",").map fun a => nodeOfAddr a.toUTF8.toList)
    | ["add", a] => loop h (nodes ++ [nodeOfAddr a.toUTF8.toList])
    | ["del", i] =>
      let i := i.toNat!
      -- removing the last destination of a hashing route is refused; an index beyond the end is an error
      if nodes.length < 2 || i ≥ nodes.length then IO.println "del err"; loop h nodes r
      else IO.println "del ok"; loop h (nodes.eraseIdx i)
    | ["repoint", i, a] =>
      -- modDest addr=: the destination keeps its place in the list, its (host, instance) changes, the ring is rebuilt
      let i := i.toNat!
      if i ≥ nodes.length then IO.println "repoint err"; loop h nodes r
      else IO.println "repoint ok"; loop h (nodes.set i (nodeOfAddr a.toUTF8.toList))
    | ["k", name] =>
      match destIndexOn r nodes (arg name) with
      | some i => IO.println s!"k {i}"
      | none => IO.println "k "
      loop h nodes r
    | _ => IO.println "bad-op"; loop h nodes r
def run (_ : List String) : IO Unit := do loop (← IO.getStdin) []
end Drv.CHash
