import Drv.Util
import Crng.Config
import Crng.Interp
/-! driver for C20: `cmd <hex>...` and `toml <texthex> <decoded entries...>` -> canonical table description -/
namespace Drv.Cfg
open Drv Crng.Cfg Crng.Tk

def mstr (m : M6) : String :=
  s!"pre={hexOrDash m.pre} npre={hexOrDash m.npre} sub={hexOrDash m.sub} nsub={hexOrDash m.nsub} re={hexOrDash m.re} nre={hexOrDash m.nre}"

/-- host:port and instance as `addrInstanceSplit` separates them -/
def splitAddr (a : Bytes) : Bytes × Bytes :=
  let colon := (a.filter (· == 58)).length
  if colon == 2 then
    let rev := a.reverse
    let inst := (rev.takeWhile (· != 58)).reverse
    (a.take (a.length - inst.length - 1), inst)
  else (a, [])

def destLine (d : Dest) : String :=
  let (addr, inst) := splitAddr d.addr
  let m : M6 := { pre := d.prefix_, npre := d.notPrefix, sub := d.sub, nsub := d.notSub, re := d.regex, nre := d.notRegex }
  s!"dest addr={hexOrDash addr} inst={hexOrDash inst} {mstr m} spool={d.spool} pickle={d.pickle} flush={d.flush} reconn={d.reconn} connbuf={d.connBufSize} iobuf={d.ioBufSize} spoolbuf={d.spoolBufSize} maxbytes={d.spoolMaxBytesPerFile} syncevery={d.spoolSyncEvery} syncperiod={d.spoolSyncPeriodMs} spoolsleep={d.spoolSleepUs} unspoolsleep={d.unspoolSleepUs}"

def str8 (b : Bytes) : String := String.fromUTF8! (ByteArray.mk b.toArray)

def describe (es : List Entry) : List String :=
  let bl := es.filterMap fun e => match e with | .black m => some s!"bl {mstr m}" | _ => none
  let rw := es.filterMap fun e => match e with
    | .rewriter o n nt mx => some s!"rw old={hexOrDash o} new={hexOrDash n} not={hexOrDash nt} max={mx}" | _ => none
  let ag := es.filterMap fun e => match e with
    | .agg fn m fmt c i w d => some s!"agg fun={str8 fn} {mstr m} fmt={hexOrDash fmt} cache={c} interval={i} wait={w} dropraw={d}" | _ => none
  let rt := es.flatMap fun e => match e with
    | .route ty k m ds => s!"route type={ty} key={str8 k} {mstr m} ndest={ds.length}" :: ds.map destLine | _ => []
  bl ++ rw ++ ag ++ rt ++ ["end"]

def f (x : String) : Bytes := arg x
def pInt (x : String) : Int := x.toInt!

def parseT (tok : String) : Option TEntry :=
  match tok.splitOn ":" with
  | ["B", e] => some (.black (f e))
  | ["A", fn, pre, npre, sub, substr, nsub, re, nre, fmt, cache, iv, w, dr] =>
    some (.agg (f fn) (f pre) (f npre) (f sub) (f substr) (f nsub) (f re) (f nre) (f fmt) (cache == "1") (pInt iv) (pInt w) (dr == "1"))
  | ["W", o, n, nt, mx] => some (.rewriter (f o) (f n) (f nt) (pInt mx))
  | ["R", ty, key, pre, npre, sub, substr, nsub, re, nre, dests] =>
    some (.route { type := ty, key := f key, pre := f pre, npre := f npre, sub := f sub, substr := f substr, nsub := f nsub, re := f re, nre := f nre,
                   dests := if dests == "" then [] else (dests.splitOn ";").map f })
  | _ => none

def handle : List String → List String
  | "cmd" :: cmds =>
    match cmds.mapM fun c => applyCmd tokenTable (arg c) with
    | some es => describe es
    | none => ["err"]
  | "toml" :: _ :: toks =>
    match toks.mapM parseT with
    | none => ["bad-op"]
    | some ts =>
      match ts.mapM (fromToml tokenTable) with
      | some es => describe es
      | none => ["err"]
  | ["interp", t] =>
    let env (n : Bytes) : Bytes :=
      if n == Crng.Interp.str "HOST" then Crng.Interp.str "<HOST>" else if n == Crng.Interp.str "GRAFANA_NET_ADDR" then Crng.Interp.str "<ADDR>"
      else if n == Crng.Interp.str "GRAFANA_NET_API_KEY" then Crng.Interp.str "<KEY>" else Crng.Interp.str "<UID>"
    [hexOrDash (Crng.Interp.expand env (arg t))]
  | _ => ["bad-op"]

partial def loop (h : IO.FS.Stream) : IO Unit := do
  let line ← h.getLine
  if line.isEmpty then pure () else
  if isCase line then IO.print line; loop h else
    for o in handle (words line) do IO.println o
    loop h
def run (_ : List String) : IO Unit := do loop (← IO.getStdin)
end Drv.Cfg
