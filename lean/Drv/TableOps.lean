import Drv.Util
import Crng.GoSlice
/-! driver for the copy-on-write table lists (C18): each list is a Go slice over the modelled heap, every mutator runs the
idiom the extractor found in the source (`idioms` line), snapshots are held headers -/
namespace Drv.TableOps
open Drv Crng.GoSlice

structure L where
  heap : Heap String := [[]]
  cur : Hdr := ⟨0, 0, 0⟩
  snaps : List Hdr := []

instance : Inhabited String := ⟨""⟩

/-- Go's growslice for small slices: double, or the needed length if that is more -/
def growCap (oldCap newLen : Nat) : Nat := if newLen > 2 * oldCap then newLen else if oldCap == 0 then newLen else 2 * oldCap

def applyAdd (idiom : String) (l : L) (x : String) : L :=
  match idiom with
  | "appendElem" =>
    let slack := growCap l.cur.cap (l.cur.len + 1) - (l.cur.len + 1)
    let (h, c) := step slack (l.heap, l.cur) (.appendElem x)
    { l with heap := h, cur := c }
  | _ =>
    let (h, c) := step 0 (l.heap, l.cur) (.fresh (view l.heap l.cur ++ [x]))
    { l with heap := h, cur := c }

def applyDel (idiom : String) (l : L) (i : Nat) : L :=
  match idiom with
  | "deleteInPlace" => let (h, c) := step 0 (l.heap, l.cur) (.deleteInPlace i); { l with heap := h, cur := c }
  | "deleteFull" =>
    let slack := growCap i (l.cur.len - 1) - (l.cur.len - 1)
    let (h, c) := step slack (l.heap, l.cur) (.deleteFull i); { l with heap := h, cur := c }
  | _ => let (h, c) := step 0 (l.heap, l.cur) (.fresh ((view l.heap l.cur).eraseIdx i)); { l with heap := h, cur := c }

structure St where
  idioms : List String := []     -- addbl delbl addrw delrw addroute delroute adddest deldest
  bl : L := {}
  rw : L := {}
  routes : L := {}
  dests : L := {}
  nsnaps : Nat := 0

def idiomOf (s : St) (k : Nat) : String := s.idioms.getD k "appendElem"
def showL (l : L) (h : Hdr) : String := ",".intercalate (view l.heap h)
def showAt (s : St) (tag : String) (k : Option Nat) : String :=
  let pick (l : L) : Hdr := match k with | none => l.cur | some i => l.snaps.getD i l.cur
  s!"{tag} bl=[{showL s.bl (pick s.bl)}] rw=[{showL s.rw (pick s.rw)}] routes=[{showL s.routes (pick s.routes)}] dests=[{showL s.dests (pick s.dests)}]"

def delIdx (idiom : String) (l : L) (i : Nat) : L × Bool :=
  if i ≥ l.cur.len then (l, false) else (applyDel idiom l i, true)

partial def loop (h : IO.FS.Stream) (s : St) : IO Unit := do
  let line ← h.getLine
  if line.isEmpty then pure () else
  if isCase line then IO.print line; loop h s else
    let ok (op : String) (b : Bool) : IO Unit := IO.println s!"{op} {if b then "ok" else "err"}"
    match words line with
    | "idioms" :: ids => loop h { s with idioms := ids }
    | ["new"] => loop h { idioms := s.idioms }
    | ["addbl", x] => ok "addbl" true; loop h { s with bl := applyAdd (idiomOf s 0) s.bl x }
    | ["delbl", i] => let (l, b) := delIdx (idiomOf s 1) s.bl i.toNat!; ok "delbl" b; loop h { s with bl := l }
    | ["addrw", x] => ok "addrw" true; loop h { s with rw := applyAdd (idiomOf s 2) s.rw x }
    | ["delrw", i] => let (l, b) := delIdx (idiomOf s 3) s.rw i.toNat!; ok "delrw" b; loop h { s with rw := l }
    | ["addroute", x] => ok "addroute" true; loop h { s with routes := applyAdd (idiomOf s 4) s.routes x }
    | ["delroute", x] =>
      ok "delroute" true
      match (view s.routes.heap s.routes.cur).findIdx? (· == x) with
      | some i => loop h { s with routes := applyDel (idiomOf s 5) s.routes i }
      | none => loop h s
    | ["adddest", x] => ok "adddest" true; loop h { s with dests := applyAdd (idiomOf s 6) s.dests x }
    | ["deldest", i] => let (l, b) := delIdx (idiomOf s 7) s.dests i.toNat!; ok "deldest" b; loop h { s with dests := l }
    | ["snap"] =>
      let sn (l : L) : L := { l with snaps := l.snaps ++ [l.cur] }
      loop h { s with bl := sn s.bl, rw := sn s.rw, routes := sn s.routes, dests := sn s.dests, nsnaps := s.nsnaps + 1 }
    | ["views"] =>
      IO.println (showAt s "cur" none)
      for i in List.range s.nsnaps do IO.println (showAt s s!"snap{i}" (some i))
      loop h s
    | _ => IO.println "bad-op"; loop h s
def run (_ : List String) : IO Unit := do loop (← IO.getStdin) {}
end Drv.TableOps
