import Drv.Util
import Crng.Schemas
import Crng.Retention
import Crng.Rx
import Crng.Validate
import Crng.Pickle
/-! driver for C16: storage-schemas + parseMetric, and ParseDataPoint + Pickle -/
namespace Drv.PM
open Drv Crng.Sch

structure RawRule where
  pat : Bytes
  prio : Option Bytes
  rets : Bytes

structure St where
  raw : List RawRule := []
  rules : Option (List Rule) := none

/-- `ReadWhisperSchemas` + `getSchemas` on already split sections -/
def compileRules (raw : List RawRule) : Option (List Rule) := do
  let mut out : List Rule := []
  let mut i := 0
  let mut dflt := false
  for r in raw do
    if r.pat.isEmpty then none
    let c := Crng.Rx.compile r.pat
    if !c.ok then none
    let secs ← Crng.Ret.secondsPerPoint r.rets
    if secs.isEmpty then none
    if secs.any (· == 0) then none
    let p ← match r.prio with
      | none => some (0 : Int)
      | some b => Crng.Ret.parseInt b 64
    let first := secs.head!
    out := out ++ [{ accepts := fun s => Crng.Rx.isMatch c s, prio := p, idx := i, interval := first.toNat }]
    if r.pat == [46, 42] then dflt := true
    i := i + 1
  if !dflt then none
  some out

/-- `strconv.ParseUint(s, 10, 32)` -/
def parseUint32 (s : Bytes) : Option Nat :=
  if s.isEmpty || !s.all Crng.Ret.isDigit then none else
  let n := s.foldl (fun a c => a * 10 + (c.toNat - 48)) 0
  if n < 4294967296 then some n else none

def showMD (m : MD) : String :=
  s!"ok name={hexOrDash m.name} tags={",".intercalate (m.tags.map hex)} interval={m.interval} time={m.time} bits={m.bits} org={m.org}"

partial def loop (h : IO.FS.Stream) (s : St) : IO Unit := do
  let line ← h.getLine
  if line.isEmpty then pure () else
  if isCase line then IO.print line; loop h s else
    match words line with
    | ["schema"] => loop h {}
    | ["rule", pat, prio, rets] => loop h { s with raw := s.raw ++ [{ pat := arg pat, prio := if prio == "-" then none else some (arg prio), rets := arg rets }] }
    | ["endschema"] =>
      let r := compileRules s.raw
      IO.println (if r.isSome then "schema ok" else "schema err")
      loop h { s with rules := r }
    | ["pm", l, bits, org] =>
      match s.rules with
      | none => IO.println "err"; loop h s
      | some rules =>
        let out := match Crng.Val.fields (arg l) with
          | [n, v, t] =>
            if !Crng.Val.parseFloatOK v then "err" else
            match parseUint32 t with
            | none => "err"
            | some ts =>
              match buildMetric rules org.toNat! n bits.toNat! ts with
              | some m => showMD m
              | none => "err"
          | _ => "err"
        IO.println out
        loop h s
    | ["dp", l, bits] =>
      -- ParseDataPoint + Pickle
      let out := match Crng.Val.fields (arg l) with
        | [n, v, t] =>
          if !Crng.Val.parseFloatOK v then "err" else
          match parseUint32 t with
          | none => "err"
          | some ts => hex (Crng.Pk.pickleOut n ts bits.toNat!)
        | _ => "err"
      IO.println out
      loop h s
    | _ => IO.println "bad-op"; loop h s
def run (_ : List String) : IO Unit := do loop (← IO.getStdin) {}
end Drv.PM
