import Drv.Util
import Crng.Framing
import Crng.ReadLine
import Crng.PickleIn
/-! driver for input framing (C12): `plain <stream> <cuts> <end>`, `udp <datagram>`, `amqp <body>...` -/
namespace Drv.Frame
open Drv

/-- the chunks the reader delivers: `cuts` are the prescribed read sizes (0 = empty read, negative = the read deadline expires:
nothing after it is delivered to this handler call), then the rest in one read -/
def chunksOf (data : Bytes) : List Int → List Bytes × Bool
  | [] => (if data.isEmpty then [] else [data], false)
  | c :: cs =>
    if data.isEmpty then ([], false)
    else if c < 0 then ([], true)
    else
      let n := c.toNat
      let r := chunksOf (data.drop n) cs
      (data.take n :: r.1, r.2)

def parseCuts (s : String) : List Int := if s == "-" then [] else (s.splitOn ",").map String.toInt!

def emitOut (toks : List Bytes) (err : Bool) : List String :=
  toks.map (fun t => s!"tok {hexOrDash t}") ++ ["invalid 0", if err then "ret err" else "ret ok"]

/-! og-rek's dump of a decoded frame, as written by the harness: s<hex> i<dec> b<dec> f<bits> T(..) L(..) o -/
mutual
  partial def parseV (s : List Char) : Crng.PkIn.V × List Char :=
    match s with
    | 's' :: t =>
      let h := t.takeWhile (fun c => c != ',' && c != ')')
      (.str (arg (String.ofList h)), t.dropWhile (fun c => c != ',' && c != ')'))
    | 'i' :: t =>
      let h := t.takeWhile (fun c => c != ',' && c != ')')
      (.int (String.ofList h).toInt!, t.dropWhile (fun c => c != ',' && c != ')'))
    | 'b' :: t =>
      let h := t.takeWhile (fun c => c != ',' && c != ')')
      (.big (String.ofList h).toInt!, t.dropWhile (fun c => c != ',' && c != ')'))
    | 'f' :: t =>
      let h := t.takeWhile (fun c => c != ',' && c != ')')
      (.float (String.ofList h).toNat!, t.dropWhile (fun c => c != ',' && c != ')'))
    | 'T' :: '(' :: t => let (xs, r) := parseVs t []; (.tuple xs, r)
    | 'L' :: '(' :: t => let (xs, r) := parseVs t []; (.list xs, r)
    | 'o' :: t => (.other, t)
    | _ => (.other, [])
  partial def parseVs (s : List Char) (acc : List Crng.PkIn.V) : List Crng.PkIn.V × List Char :=
    match s with
    | ')' :: t => (acc.reverse, t)
    | ',' :: t => parseVs t acc
    | [] => (acc.reverse, [])
    | _ => let (x, r) := parseV s; parseVs r (x :: acc)
end

def parseDec (d : String) : Crng.PkIn.Dec :=
  if d == "eof" then .unexpectedEOF else if d == "err" then .err else .ok (parseV d.toList).1

def handle : List String → List String
  | ["plain", d, cuts, e] =>
    let (chunks, timedOut) := chunksOf (arg d) (parseCuts cuts)
    let o := Crng.Fr.run 65536 {} chunks []
    emitOut o.tokens (o.err || timedOut || e == "timeout" || e == "reset")
  | ["udp", d] =>
    let o := Crng.Fr.run 65536 {} [arg d] []
    emitOut o.tokens o.err
  | "pickle" :: d :: cuts :: e :: decs =>
    let (chunks, timedOut) := chunksOf (arg d) (parseCuts cuts)
    let table : List (Bytes × Crng.PkIn.Dec) := decs.filterMap fun kv =>
      match kv.splitOn "=" with
      | [k, v] => some (arg k, parseDec v)
      | _ => none
    let decode (b : Bytes) : Crng.PkIn.Dec := match table.find? (·.1 == b) with | some (_, r) => r | none => .err
    let o := Crng.PkIn.run decode (!timedOut && (e == "eof" || e == "dataeof")) chunks.flatten
    o.tokens.map (fun t => s!"tok {hexOrDash t}") ++ [s!"invalid {o.invalid}", if o.err then "ret err" else "ret ok"]
  | "amqp" :: bodies => emitOut (bodies.flatMap fun b => Crng.RL.amqpTokens 4096 (arg b)) false
  | _ => ["bad-op"]

partial def loop (h : IO.FS.Stream) : IO Unit := do
  let line ← h.getLine
  if line.isEmpty then pure () else
  if isCase line then IO.print line; loop h else
    for o in handle (words line) do IO.println o
    loop h
def run (_ : List String) : IO Unit := do loop (← IO.getStdin)
end Drv.Frame
