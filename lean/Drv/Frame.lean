import Drv.Util
import Crng.Framing
import Crng.ReadLine
/-! driver for input framing (C12): `plain <stream> <cuts> <end>`, `udp <datagram>`, `amqp <body>...` -/
namespace Drv.Frame
open Drv

/-- the chunks the reader delivers: `cuts` are the prescribed read sizes (0 = empty read, negative = the read deadline expires:
nothing after it is delivered to this handler call), then the rest in one read -/
def chunksOf (data : Bytes) : List Int → List Bytes × Bool
  | [] => (if data.isEmpty then [] else [data], false)
  | c :: cs =>
    if data.isEmpty then ([], false)
    else if c < 0 then ([], true)
    else
      let n := c.toNat
      let r := chunksOf (data.drop n) cs
      (data.take n :: r.1, r.2)

def parseCuts (s : String) : List Int := if s == "-" then [] else (s.splitOn ",").map String.toInt!

def emitOut (toks : List Bytes) (err : Bool) : List String :=
  toks.map (fun t => s!"tok {hexOrDash t}") ++ ["invalid 0", if err then "ret err" else "ret ok"]

def handle : List String → List String
  | ["plain", d, cuts, e] =>
    let (chunks, timedOut) := chunksOf (arg d) (parseCuts cuts)
    let o := Crng.Fr.run 65536 {} chunks []
    emitOut o.tokens (o.err || timedOut || e == "timeout" || e == "reset")
  | ["udp", d] =>
    let o := Crng.Fr.run 65536 {} [arg d] []
    emitOut o.tokens o.err
  | "amqp" :: bodies => emitOut (bodies.flatMap fun b => Crng.RL.amqpTokens 4096 (arg b)) false
  | _ => ["bad-op"]

partial def loop (h : IO.FS.Stream) : IO Unit := do
  let line ← h.getLine
  if line.isEmpty then pure () else
  if isCase line then IO.print line; loop h else
    for o in handle (words line) do IO.println o
    loop h
def run (_ : List String) : IO Unit := do loop (← IO.getStdin)
end Drv.Frame
