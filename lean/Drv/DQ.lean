import Drv.Util
import Crng.DiskQueue
/-! driver for the disk-queue model: `cfg M S | put hex | get | reopen | end` per case -/
namespace Drv.DQ
open Drv Crng.DQ
def pad6 (i : Nat) : String := let s := toString i; String.ofList (List.replicate (6 - s.length) '0') ++ s
def showDisk (d : Disk) : String :=
  let segs := d.segs.map fun (n, b) => s!"{pad6 n}={hex b}"
  let bad := d.bad.map fun (n, b) => s!"{pad6 n}.bad={hex b}"
  let metaL := match d.metaF with | some m => [s!"meta={hex m}"] | none => []
  let tmp := match d.tmp with | some m => [s!"tmp={hex m}"] | none => []
  " ".intercalate (segs ++ bad ++ metaL ++ tmp)
def flushLog (cfg : Cfg) (s : St) (quiet : Bool := false) : IO St := do
  if quiet then return { s with log := [] }
  for e in s.log.reverse do
    IO.println s!"crash {e.label} | {showDisk e.disk}"
    let r := (drain cfg 100000 (openQ cfg e.disk [])).1
    IO.println s!"rec {r.length} {",".intercalate (r.map hex)}"
  pure { s with log := [] }
partial def loop (h : IO.FS.Stream) (nc : Bool) (cfg : Cfg) (s : St) : IO Unit := do
  let line ← h.getLine
  if line.isEmpty then pure () else
  if isCase line then IO.print line; loop h nc cfg s else
    match words line with
    | ["cfg", m, se] =>
      let cfg : Cfg := { maxBytes := m.toNat!, syncEvery := se.toNat! }
      let s ← flushLog cfg (openQ cfg {} []) nc
      loop h nc cfg s
    | ["put", m] => let (s', _) := stepEv cfg s (.put (unhex m)); let s' ← flushLog cfg s' nc; IO.println s!"put depth={s'.mem.depth}"; loop h nc cfg s'
    | ["put"] => let (s', _) := stepEv cfg s (.put []); let s' ← flushLog cfg s' nc; IO.println s!"put depth={s'.mem.depth}"; loop h nc cfg s'
    | ["get"] => let (s', o) := stepEv cfg s .get; let s' ← flushLog cfg s' nc; IO.println s!"get {(o.map hex).getD "none"} depth={s'.mem.depth}"; loop h nc cfg s'
    | ["reopen"] => let (s', _) := stepEv cfg s .reopen; let s' ← flushLog cfg s' nc; IO.println s!"reopen depth={s'.mem.depth}"; loop h nc cfg s'
    | ["end"] => let _ ← flushLog cfg (closeQ s) nc; IO.println "close"; loop h nc cfg s
    | _ => IO.println "bad-op"; loop h nc cfg s
def run (args : List String) : IO Unit := do
  let cfg : Cfg := { maxBytes := 100, syncEvery := 1 }
  loop (← IO.getStdin) (args == ["nocrash"]) cfg (openQ cfg {} [])
end Drv.DQ
