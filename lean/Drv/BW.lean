import Drv.Util
import Crng.BufWriter
namespace Drv.BW
open Drv Crng.BW
def parseOutcome (s : String) : Outcome :=
  match s.splitOn ":" with
  | ["short", n] => .short n.toNat!
  | ["fail", n] => .fail n.toNat!
  | _ => .full
partial def loop (h : IO.FS.Stream) (w : W) : IO Unit := do
  let line ← h.getLine
  if line.isEmpty then pure () else
  if isCase line then IO.print line; loop h w else
    match words line with
    | ["new", c] => loop h { cap := c.toNat! }
    | ["script", s] => loop h { w with script := (s.splitOn ",").map parseOutcome }
    | ["w", p] => let (w', nn, e) := write w (unhex p); IO.println s!"w {nn} {e} {w'.buf.length}"; loop h w'
    | ["w"] => let (w', nn, e) := write w []; IO.println s!"w {nn} {e} {w'.buf.length}"; loop h w'
    | ["f"] => let (w', e) := flush w; IO.println s!"f {e} {w'.buf.length}"; loop h w'
    | ["end"] => IO.println s!"sock {hex w.sock}"; loop h w
    | _ => IO.println "bad-op"; loop h w
def run (_ : List String) : IO Unit := do loop (← IO.getStdin) { cap := 1 }
end Drv.BW
