import Crng.Basic
/-! Shared helpers of the line-protocol driver (core-only). -/
namespace Drv
abbrev Bytes := List UInt8
def hexVal (c : Char) : Nat :=
  if c.isDigit then c.toNat - 48 else if 'a' ≤ c ∧ c ≤ 'f' then c.toNat - 87 else if 'A' ≤ c ∧ c ≤ 'F' then c.toNat - 55 else 0
def unhex (s : String) : Bytes :=
  let rec go : List Char → Bytes
    | a :: b :: t => (UInt8.ofNat (hexVal a * 16 + hexVal b)) :: go t
    | _ => []
  go s.toList
def hexDigit (n : Nat) : Char := if n < 10 then Char.ofNat (48 + n) else Char.ofNat (87 + n)
def hex (b : Bytes) : String := String.ofList (b.flatMap fun x => [hexDigit (x.toNat / 16), hexDigit (x.toNat % 16)])
/-- "-" stands for the empty byte string in the protocol (a bare empty field would vanish when splitting) -/
def arg (s : String) : Bytes := if s == "-" then [] else unhex s
def hexOrDash (b : Bytes) : String := if b.isEmpty then "-" else hex b
def words (line : String) : List String := (line.trimAscii.toString.splitOn " ").filter (· ≠ "")
def isCase (line : String) : Bool := line.startsWith "#case"
end Drv
