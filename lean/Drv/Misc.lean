import Drv.Util
import Crng.FloatFmt
import Crng.MD5
import Crng.Pickle
import Crng.Rewriter
import Crng.Tokens
import Crng.Validate
import Crng.Rx
import Crng.Fnv
/-! stateless one-line-in / one-line-out drivers -/
namespace Drv.Misc
open Drv
partial def lines (h : IO.FS.Stream) (f : List String → String) : IO Unit := do
  let line ← h.getLine
  if line.isEmpty then pure () else
  if isCase line then IO.print line; lines h f else
    IO.println (f (words line)); lines h f

def fmt : List String → String
  | [b] => Crng.FloatFmt.fmt6Bits (UInt64.ofNat b.toNat!)
  | _ => "bad-op"
/-- C19: the FNV-1a 64 digest, and `validate.Ordered` run with that digest on a fresh map -/
def fnvPairs : List String → List (Crng.Ord.Bytes × Nat)
  | n :: t :: r => (arg n, t.toNat!) :: fnvPairs r
  | _ => []
def fnv : List String → String
  | ["d", b] => toString (Crng.Fnv.fnv1a64 (arg b))
  | "o" :: r => String.join ((Crng.Ord.run Crng.Fnv.fnv1a64 [] (fnvPairs r)).map fun b => if b then "1" else "0")
  | _ => "bad-op"
def md5 : List String → String
  | [b] => hex (Crng.MD5.sum (arg b))
  | _ => "bad-op"
open Crng.Pk in
def showV : V → String
  | .list [.tuple [.str n, .tuple [.int t, .float b]]] => s!"{hex n} {t} {b}"
  | _ => "other"
open Crng.Pk in
def pk : List String → String
  | [n, t, b] =>
    let body := pickleBody (arg n) t.toNat! b.toNat!
    let r := match unpickle body with | some v => showV v | none => "fail"
    s!"{hex (pickleOut (arg n) t.toNat! b.toNat!)} | {r}"
  | _ => "bad-op"
def rw : List String → String
  | [o, n, nt, mx, s] =>
    let max : Option Nat := if mx.startsWith "-" then none else some mx.toNat!
    hex (Crng.Rw.rwDo (arg o) (arg n) (arg nt) max (arg s))
  | _ => "bad-op"
open Crng.Tk in
def tk : List String → String
  | [am, b] =>
    match readDestination tokenTable (am == "1") (arg b) with
    | some (d, _) => s!"ok addr={hex d.addr} pre={hex d.prefix_} npre={hex d.notPrefix} sub={hex d.sub} nsub={hex d.notSub} re={hex d.regex} nre={hex d.notRegex} spool={d.spool} pickle={d.pickle} flush={d.flush} reconn={d.reconn} connbuf={d.connBufSize} iobuf={d.ioBufSize} spoolbuf={d.spoolBufSize} maxbytes={d.spoolMaxBytesPerFile} syncevery={d.spoolSyncEvery} syncperiod={d.spoolSyncPeriodMs} spoolsleep={d.spoolSleepUs} unspoolsleep={d.unspoolSleepUs}"
    | none => "err"
  | _ => "bad-op"
open Crng.Val in
def errName : Option Err → String
  | none => "ok" | some .fields => "fields" | some .emptyKey => "emptykey" | some .tagAppendix => "tagappendix"
  | some .emptyNode => "emptynode" | some .illegalChar => "illegalchar" | some .nullByte => "null" | some .nonAscii => "nonascii"
  | some .mixEq => "mixeq" | some .noUnit => "nounit" | some .noMType => "nomtype" | some .notEnoughTags => "fewtags"
  | some .valNotNumber => "val" | some .tsNotTs => "ts"
open Crng.Val in
def val : List String → String
  | [ll, ml, b] =>
    let l := match ll with | "strict" => LegacyLevel.strict | "medium" => .medium | _ => .none
    let m := match ml with | "medium" => M20Level.medium | _ => .none
    let (k, e) := validatePacket (arg b) l m
    s!"{hexOrDash k} {errName e}"
  | _ => "bad-op"
open Crng.Rx in
def rx : List String → String
  | ["m", re, s] => let c := compile (arg re); if !c.ok then "unsupported" else if isMatch c (arg s) then "1" else "0"
  | ["x", re, t, s] => let c := compile (arg re); if !c.ok then "unsupported" else
      match matchExpand c (arg s) (arg t) with | some o => hexOrDash o | none => "nomatch"
  | ["r", re, t, s] => let c := compile (arg re); if !c.ok then "unsupported" else hexOrDash (replaceAll c (arg s) (arg t))
  | _ => "bad-op"
end Drv.Misc

