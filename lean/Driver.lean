import Drv.DQ
import Drv.BW
import Drv.Agg
import Drv.Misc
import Drv.Conn
import Drv.Table
import Drv.TableOps
import Drv.CHash
import Drv.PM
import Drv.Frame
import Drv.Cfg
import Drv.GNet
/-! Line-protocol driver: `driver <model>` reads operations on stdin, prints the model's answers. Core-only. -/
def main (args : List String) : IO UInt32 := do
  let h ← IO.getStdin
  match args with
  | "dq" :: r => Drv.DQ.run r; pure 0
  | "bw" :: r => Drv.BW.run r; pure 0
  | "agg" :: r => Drv.Agg.run r; pure 0
  | "gnet" :: r => Drv.GNet.run r; pure 0
  | "interp" :: r => Drv.Cfg.run r; pure 0
  | "cfg" :: r => Drv.Cfg.run r; pure 0
  | "frame" :: r => Drv.Frame.run r; pure 0
  | "pm" :: r => Drv.PM.run r; pure 0
  | "chash" :: r => Drv.CHash.run r; pure 0
  | "tableops" :: r => Drv.TableOps.run r; pure 0
  | "table" :: r => Drv.Table.run r; pure 0
  | "dest" :: r => Drv.Conn.run r; pure 0
  | ["fmt"] => Drv.Misc.lines h Drv.Misc.fmt; pure 0
  | ["fnv"] => Drv.Misc.lines h Drv.Misc.fnv; pure 0
  | ["md5"] => Drv.Misc.lines h Drv.Misc.md5; pure 0
  | ["pk"] => Drv.Misc.lines h Drv.Misc.pk; pure 0
  | ["rw"] => Drv.Misc.lines h Drv.Misc.rw; pure 0
  | ["tk"] => Drv.Misc.lines h Drv.Misc.tk; pure 0
  | ["absprefix"] => Drv.Misc.lines h Drv.Table.absPrefixLine; pure 0
  | ["match"] => Drv.Misc.lines h Drv.Table.matchLine; pure 0
  | ["rx"] => Drv.Misc.lines h Drv.Misc.rx; pure 0
  | ["val"] => Drv.Misc.lines h Drv.Misc.val; pure 0
  | _ => IO.eprintln "usage: driver <model>"; pure 2
