"""regex generators for the syntax subset the Lean engine (Crng/Rx.lean) supports; biased to the shapes that matter
for the prefix shortcut: ^lit, ^lit?, ^a|b, \\., classes, groups, $"""
from . import gen

LITS = ["a", "b", "ab", "abc", "foo", "bar", "x", "cpu", "web", "prod", "stats", "count", "1", "_t", "-"]


def atom(rnd, depth):
    r = rnd.random()
    if r < 0.45:
        return rnd.choice(LITS)
    if r < 0.55:
        return "\\."
    if r < 0.62:
        return "."
    if r < 0.72:
        return rnd.choice(["[a-z]", "[0-9]", "[a-z0-9_]", "[^.]", "\\d", "\\w", "[ab]", "[^a-c]"])
    if r < 0.9 and depth < 2:
        inner = alt(rnd, depth + 1)
        return ("(%s)" if rnd.random() < 0.7 else "(?:%s)") % inner
    return rnd.choice(LITS)


def rep(rnd, depth):
    a = atom(rnd, depth)
    r = rnd.random()
    if r < 0.72:
        return a
    if len(a) > 1 and not (a.startswith("(") or a.startswith("[") or a.startswith("\\")):
        # quantifier binds to the last char of a literal run: keep that (it is the interesting case: ^ab?c)
        pass
    return a + rnd.choice(["?", "*", "+", "{0}", "{2}", "{1,2}", "{0,1}"])


def cat(rnd, depth):
    return "".join(rep(rnd, depth) for _ in range(rnd.choice([1, 1, 2, 2, 3, 4])))


def alt(rnd, depth=0):
    n = 1 if rnd.random() < 0.75 else rnd.randint(2, 3)
    return "|".join(cat(rnd, depth) for _ in range(n))


def regex(rnd):
    body = alt(rnd)
    r = rnd.random()
    if r < 0.6:
        body = "^" + body
    if rnd.random() < 0.2:
        body = body + "$"
    return body


def names_for(rnd, rx, n=6):
    """names biased to almost-match: pieces of the regex's literals, glued"""
    import re as pyre
    lits = [x for x in pyre.split(r"[^a-zA-Z0-9_\-]+", rx.replace("\\.", ".")) if x]
    out = []
    for _ in range(n):
        parts = []
        for _ in range(rnd.randint(1, 4)):
            r = rnd.random()
            if lits and r < 0.6:
                p = rnd.choice(lits)
                if rnd.random() < 0.3 and len(p) > 1:
                    k = rnd.randrange(len(p))
                    p = p[:k] + p[k + 1:]
                parts.append(p)
            else:
                parts.append(rnd.choice(gen.NODES))
        sep = rnd.choice([".", "", "."])
        out.append(sep.join(parts))
    return out
