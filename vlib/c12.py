"""C12 — input framing is independent of how the network chops the stream"""
from . import tablegen as tg, gen

LEVEL_TEXT = ("Lean theorem Crng.Props.C12.chunk_invariance: for every stream and every segmentation into reads (empty reads, data together "
              "with EOF or an error included) the incremental scanner model of bufio.Scanner/ScanLines (64 KiB token limit) yields exactly the "
              "newline-delimited lines of the concatenation, in order, each once; limit behaviour stated explicitly; AMQP: ReadLine model with a "
              "4096-byte buffer (amqp_whole_lines). Regenerated obligations: Plain.Handle uses a default bufio.Scanner and dispatches "
              "scanner.Bytes() per Scan; UDP wraps each datagram in its own reader; AMQP uses NewReaderSize(_, 4096)+ReadLine; TimeoutConn.Read "
              "delegates once. Correspondence: the real handlers behind a chunking reader (every cut position for short streams, random cuts, "
              "one-byte reads, empty reads, data+EOF, a read deadline expiring mid-line) vs the model; python monitor splits the stream itself.")


def stream(rnd, maxlines=6, longp=0.0, limit=65536):
    parts = []
    for _ in range(rnd.randint(0, maxlines)):
        r = rnd.random()
        if r < longp:
            n = rnd.choice([limit - 2, limit - 1, limit, limit + 1, 2 * limit + 5])
            line = b"x" * n
        elif r < 0.1 + longp:
            line = b""
        else:
            l, _, _ = tg.metric_line(rnd, invalid_p=0.1, ws_p=0.1)
            line = l.replace(b"\n", b" ").replace(b"\r", b" ")
        parts.append(line + rnd.choice([b"\n", b"\n", b"\n", b"\r\n"]))
    s = b"".join(parts)
    if rnd.random() < 0.4:
        l, _, _ = tg.metric_line(rnd, invalid_p=0.0, ws_p=0.0)
        s += l.replace(b"\n", b" ") + rnd.choice([b"", b"", b"\r"])
    return s


def cuts_for(rnd, n):
    k = rnd.random()
    if k < 0.2:
        return "-"
    if k < 0.4:
        return ",".join("1" for _ in range(min(n, 400))) or "-"
    cs = []
    left = n
    while left > 0 and len(cs) < 60:
        c = rnd.choice([0, 1, 1, 2, 3, 5, 8, 13, 100, 4096, 4097, 65536, rnd.randint(1, max(1, left))])
        cs.append(c)
        left -= c
    return ",".join(str(c) for c in cs) or "-"


def expected_lines(data, final_cr_kept=False):
    if not data:
        return []
    parts = data.split(b"\n")
    out = []
    for i, p in enumerate(parts):
        last = i == len(parts) - 1
        if last:
            if p == b"":
                break
            out.append(p if final_cr_kept else (p[:-1] if p.endswith(b"\r") else p))
        else:
            out.append(p[:-1] if p.endswith(b"\r") else p)
    return out


def delivered_prefix(data, cuts):
    """bytes delivered before a read deadline expires (negative cut), and whether that happened"""
    if cuts == "-":
        return data, False
    pos = 0
    for c in cuts.split(","):
        c = int(c)
        if pos >= len(data):
            break
        if c < 0:
            return data[:pos], True
        pos += c
    return data, False


def monitor(lines, out):
    oi = 0
    for l in lines:
        f = l.split()
        toks = []
        while not out[oi].startswith("invalid"):
            h = out[oi].split()[1]
            toks.append(b"" if h == "-" else bytes.fromhex(h))
            oi += 1
        ret = out[oi + 1]
        oi += 2
        if f[0] == "amqp":
            want = []
            alt = []
            for b in f[1:]:
                body = b"" if b == "-" else bytes.fromhex(b)
                if any(len(x) >= 4096 for x in body.split(b"\n")):
                    want = None
                    break
                want += expected_lines(body, True)
                alt += expected_lines(body, False)
            if want is not None and toks != want and toks != alt:
                return "AMQP bodies %r were processed as %r, expected the lines %r" % ([bytes.fromhex(b)[:60] for b in f[1:] if b != "-"], [t[:60] for t in toks], [w[:60] for w in want])
            continue
        data = b"" if f[1] == "-" else bytes.fromhex(f[1])
        cuts = f[2] if f[0] == "plain" else "-"
        data, timed = delivered_prefix(data, cuts)
        segs = data.split(b"\n")
        if any(len(s) >= 65536 for s in segs):
            # everything before the first over-long line must still come out, in order; nothing after it
            want = []
            for s in data.split(b"\n"):
                if len(s) >= 65536:
                    break
                want.append(s[:-1] if s.endswith(b"\r") else s)
            if toks != want:
                return "stream with an over-long line: processed %d lines, expected the %d lines before it" % (len(toks), len(want))
            if ret != "ret err":
                return "an over-long line did not end the connection with an error"
            continue
        want = expected_lines(data)
        if toks != want:
            return "stream %r cut as %s was processed as %r, expected the lines %r" % (data[:80], cuts[:60], [t[:40] for t in toks][:8], [w[:40] for w in want][:8])
    return None


def cases(rnd, n, per):
    out = []
    for i in range(n):
        ops = []
        for _ in range(per):
            k = rnd.random()
            if k < 0.55:
                s = stream(rnd, longp=0.02)
                cuts = cuts_for(rnd, len(s))
                if rnd.random() < 0.15 and cuts != "-":
                    cs = cuts.split(",")
                    cs.insert(rnd.randrange(len(cs) + 1), "-1")
                    cuts = ",".join(cs)
                ops.append("plain %s %s %s" % (tg.hx(s), cuts, rnd.choice(["eof", "eof", "dataeof", "timeout", "reset"])))
            elif k < 0.75:
                ops.append("udp %s" % tg.hx(stream(rnd, longp=0.02)[:65535]))
            else:
                ops.append("amqp " + " ".join(tg.hx(stream(rnd, maxlines=4, longp=0.08, limit=4096)) for _ in range(rnd.randint(1, 3))))
        out.append(("f%d" % i, ops))
    return out


def exhaustive_cases():
    """every cut position (one cut and two cuts) of a few short streams"""
    out = []
    for si, s in enumerate([b"a 1 2\nb 3 4\r\nc 5 6", b"\n\nx 1 1\n", b"ab\r\n\r\ncd\r", b"m 1 2\r"]):
        ops = []
        n = len(s)
        for i in range(n + 1):
            ops.append("plain %s %d,%d eof" % (tg.hx(s), i, n))
            for j in range(i, n + 1):
                ops.append("plain %s %d,%d,%d dataeof" % (tg.hx(s), i, j - i, n))
            ops.append("plain %s %d,-1 eof" % (tg.hx(s), i))
        out.append(("x%d" % si, ops))
    return out


def listener_cases(rnd, n):
    out = []
    for i in range(n):
        ops = []
        for _ in range(6):
            if rnd.random() < 0.6:
                grams = []
                for _ in range(rnd.randint(3, 6)):
                    body = b"".join(tg.metric_line(rnd, invalid_p=0.0, ws_p=0.0)[0] + b"\n" for _ in range(rnd.choice([1, 2, 5, 80, 200])))
                    grams.append(body[:60000])
                if rnd.random() < 0.5:
                    # a datagram that is one long line (a name with many tags), with and without the final newline
                    for ln in rnd.sample([4090, 4097, 5000, 9000, 30000, 60000], 2):
                        one = b"long." + b"x" * ln + b";tag=v 1 1500000000"
                        grams.insert(rnd.randint(0, len(grams)), one + (b"\n" if rnd.random() < 0.5 else b""))
                ops.append("udpreal %d %s" % (rnd.choice([0, 50, 300]), " ".join(tg.hx(g) for g in grams)))
            else:
                s = b"".join(tg.metric_line(rnd, invalid_p=0.0, ws_p=0.0)[0] + b"\n" for _ in range(rnd.randint(2, 30)))
                segs = []
                pos = 0
                while pos < len(s):
                    k = rnd.choice([1, 3, 7, 20, 100])
                    segs.append(s[pos:pos + k])
                    pos += k
                ops.append("tcpreal %d %s" % (rnd.choice([0, 20]), " ".join(tg.hx(g) for g in segs[:120]) if len(segs) <= 120 else tg.hx(s)))
        # two connections on one listener, lines of each cut at arbitrary places, segments interleaved
        for _ in range(2):
            streams = []
            for tag in (b"A.", b"B."):
                sl = b"".join(tag + tg.metric_line(rnd, invalid_p=0.0, ws_p=0.0)[0] + b"\n" for _ in range(rnd.randint(3, 12)))
                segs, pos = [], 0
                while pos < len(sl):
                    k = rnd.choice([1, 3, 7, 20, 60])
                    segs.append(sl[pos:pos + k])
                    pos += k
                streams.append(segs)
            inter = []
            for k in range(max(len(streams[0]), len(streams[1]))):
                for st in streams:
                    inter.append(tg.hx(st[k]) if k < len(st) else "-")
            ops.append("tcp2real 0 " + " ".join(inter))
        out.append(("l%d" % i, ops))
    return out


def listener_monitor(lines, out):
    oi = 0
    for l in lines:
        f = l.split()
        toks = []
        while oi < len(out) and out[oi] != "end":
            if out[oi].startswith("tok"):
                h = out[oi].split()[1]
                toks.append(b"" if h == "-" else bytes.fromhex(h))
            else:
                return out[oi]
            oi += 1
        oi += 1
        if f[0] == "tcp2real":
            segs = [b"" if h == "-" else bytes.fromhex(h) for h in f[2:]]
            for k, tag in ((0, b"A."), (1, b"B.")):
                want = expected_lines(b"".join(segs[k::2]))
                got = [t for t in toks if t.startswith(tag)]
                if got != want:
                    j = next((i for i, (a, b) in enumerate(zip(got, want)) if a != b), min(len(got), len(want)))
                    return "two connections on one listener: connection %s had %d lines processed, expected %d; first difference at its line %d: got %r, expected %r" % (
                        tag.decode(), len(got), len(want), j, got[j][:60] if j < len(got) else None, want[j][:60] if j < len(want) else None)
            stray = [t for t in toks if not t.startswith((b"A.", b"B."))]
            if stray:
                return "two connections on one listener: processed a line that neither connection sent: %r" % stray[0][:80]
            continue
        if f[0] == "udpreal":
            want = []
            for h in f[2:]:
                want += expected_lines(bytes.fromhex(h))
        else:
            want = expected_lines(b"".join(bytes.fromhex(h) for h in f[2:]))
        if toks != want:
            k = next((i for i, (a, b) in enumerate(zip(toks, want)) if a != b), min(len(toks), len(want)))
            return "%s: processed %d lines, expected %d; first difference at line %d: got %r, expected %r" % (
                f[0], len(toks), len(want), k, toks[k][:60] if k < len(toks) else None, want[k][:60] if k < len(want) else None)
    return None


def run(ctx):
    ctx.assumptions += ["bufio.Scanner / bufio.Reader.ReadLine are modelled (validated here against the real ones)", "a read error ends the connection: what was delivered before it is the stream"]
    ctx.prepare()
    ctx.lean(["Crng.Props.C12"], ["Crng.Props.C12.chunk_invariance", "Crng.Props.C12.limit_exact", "Crng.Props.C12.amqp_whole_lines"],
             ties=["Crng.Tie.C12"])
    ctx.stream("framing-exhaustive", "frame", exhaustive_cases(), monitor=monitor, spec_exact=True, removable=lambda l: True, timeout=ctx.scale(60, 300))
    ctx.stream("framing", "frame", cases(ctx.rng("c12"), ctx.scale(60, 1200), 25), monitor=monitor, spec_exact=True, removable=lambda l: True,
               classify=lambda l, o: "toks=%d" % sum(1 for x in o if x.startswith("tok")), timeout=ctx.scale(90, 900))
    # the real listener: UDP datagrams / TCP segments arriving while earlier ones are still being handled (monitor only)
    ctx.stream("listener", "listener", listener_cases(ctx.rng("c12l"), ctx.scale(6, 60)), model=False, monitor=listener_monitor, shrink=False,
               timeout=ctx.scale(120, 900), nontrivial=lambda l, o: len(o))
