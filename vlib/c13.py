"""C13 — pickle input is equivalent to the plain-text input for the same datapoints"""
import pickle
import struct
from . import common, tablegen as tg, gen

LEVEL_TEXT = ("Lean theorems Crng.Props.C13.item_independence, convert_spec, malformed_ends_connection over a model of input/pickle.go "
              "(frame loop on the delivered stream, conversion of og-rek's decoded values); og-rek's decoder is external: its result per frame "
              "body is dumped by the harness and handed to the model. Correspondence: CPython pickles (protocols 0-4) and hand-assembled "
              "Python-2 style pickles of datapoint lists, 1-5 frames, random segmentation, malformed frames; three-way: real handler, model, "
              "and the plain-text lines computed from the datapoints by python.")


def py2_proto0(points):
    """what CPython 2 emits with protocol 0 for [(str name, (ts, val)), ...] (str names as STRING, ints as INT/LONG, floats as FLOAT)"""
    out = b"(lp0\n"
    memo = 1
    for name, (ts, val) in points:
        def num(x):
            if isinstance(x, float):
                return b"F" + repr(x).encode() + b"\n"
            if isinstance(x, str):
                return b"S'" + x.encode() + b"'\n"
            if -2**31 <= x < 2**31:
                return b"I%d\n" % x
            return b"L%dL\n" % x
        out += b"(S'" + name.encode() + b"'\np%d\n(" % memo + num(ts) + num(val) + b"tp%d\ntp%d\na" % (memo + 1, memo + 2)
        memo += 3
    return out + b"."


def py2_proto2(points):
    """CPython 2 protocol 2: SHORT_BINSTRING/BINSTRING names, BININT*/LONG1 ints, BINFLOAT"""
    out = b"\x80\x02]q\x00("
    memo = 1
    for name, (ts, val) in points:
        def num(x):
            if isinstance(x, float):
                return b"G" + struct.pack(">d", x)
            if isinstance(x, str):
                b = x.encode()
                return b"U" + bytes([len(b)]) + b
            if 0 <= x < 256:
                return b"K" + bytes([x])
            if 0 <= x < 65536:
                return b"M" + struct.pack("<H", x)
            if -2**31 <= x < 2**31:
                return b"J" + struct.pack("<i", x)
            nb = (x.bit_length() + 8) // 8
            return b"\x8a" + bytes([nb]) + x.to_bytes(nb, "little", signed=True)
        nb = name.encode()
        ns = (b"U" + bytes([len(nb)]) + nb) if len(nb) < 256 else (b"T" + struct.pack("<i", len(nb)) + nb)
        out += ns + b"q" + bytes([memo % 256]) + num(ts) + num(val) + b"\x86q" + bytes([(memo + 1) % 256]) + b"\x86q" + bytes([(memo + 2) % 256])
        memo += 3
    return out + b"e."


def scalar(rnd, for_ts):
    k = rnd.random()
    if k < 0.45:
        return rnd.choice([0, 1, 15, 255, 256, 65535, 65536, 1500000000, 2**31 - 1, 2**31, 2**32 - 1, 3000000000, 2**40])
    if k < 0.7:
        return rnd.choice([1.5, 0.1, 1500000000.0, 1500000000.5, 2.5, 1e-7, 123456.789, -3.25, 1e15])
    if k < 0.9:
        return rnd.choice(["1", "1500000000", "1.5", "15", "abc"])
    return rnd.choice([None, True, (1, 2), [], b"raw"])


def fmt(x, for_ts):
    """the plain-text token for a scalar, or None if it cannot be represented"""
    if isinstance(x, bool) or x is None or isinstance(x, (tuple, list, bytes)):
        return None
    if isinstance(x, str):
        return x
    if isinstance(x, int):
        return "%d" % x
    if isinstance(x, float):
        return ("%.0f" % x) if for_ts else ("%f" % x)
    return None


def datapoints(rnd):
    pts = []
    for _ in range(rnd.randint(0, 8)):
        name = gen.name(rnd) + rnd.choice(["", ";a=b", ".x" * rnd.choice([0, 1, 120])])
        k = rnd.random()
        item_name = name
        if k < 0.04:
            item_name = name.encode()        # bytes name
        elif k < 0.07:
            item_name = 42
        ts, val = scalar(rnd, True), scalar(rnd, False)
        shape = rnd.random()
        if shape < 0.75:
            pts.append((item_name, (ts, val)))
        elif shape < 0.9:
            pts.append([item_name, [ts, val]])
        elif shape < 0.94:
            pts.append((item_name, (ts, val, 3)))
        elif shape < 0.97:
            pts.append((item_name, ts))
        else:
            pts.append("notanitem")
    return pts


def expected(points):
    """lines the equivalent plain-text input would carry, and the number of structurally invalid items"""
    lines, inv = [], 0
    for it in points:
        ok = isinstance(it, (tuple, list)) and len(it) == 2 and isinstance(it[0], str) and isinstance(it[1], (tuple, list)) and len(it[1]) == 2
        if not ok:
            inv += 1
            continue
        t, v = fmt(it[1][0], True), fmt(it[1][1], False)
        if t is None or v is None:
            inv += 1
            continue
        lines.append(("%s %s %s" % (it[0], v, t)).encode())
    return lines, inv


def has_bytes(points):
    """a bytes object anywhere in the pickled batch (the BINBYTES opcodes are emitted wherever it sits)"""
    if isinstance(points, bytes):
        return True
    if isinstance(points, (tuple, list)):
        return any(has_bytes(x) for x in points)
    return False


def frame(body):
    return struct.pack(">I", len(body)) + body


def build(ctx, rnd, n):
    """returns cases and, per op line, the python-side expectation"""
    raw = []
    for i in range(n):
        frames = []
        for _ in range(rnd.randint(1, 5)):
            pts = datapoints(rnd)
            k = rnd.random()
            simple = all(isinstance(it, tuple) and len(it) == 2 and isinstance(it[0], str) and isinstance(it[1], tuple) and len(it[1]) == 2
                         and all(isinstance(x, (int, float, str)) and not isinstance(x, bool) for x in it[1]) for it in pts)
            if k < 0.12 and simple:
                body, proto = py2_proto0(pts), "py2p0"
            elif k < 0.24 and simple and all(len(it[0]) < 2**31 for it in pts):
                body, proto = py2_proto2(pts), "py2p2"
            else:
                p = rnd.randint(0, 4)
                body, proto = pickle.dumps(pts, protocol=p), "py3p%d" % p
            frames.append((pts, body, proto))
        mal = rnd.random()
        stream = b"".join(frame(b) for _, b, _ in frames)
        kind = "ok"
        if mal < 0.06:
            stream = stream[:-rnd.randint(1, 6)]
            kind = "truncated"
        elif mal < 0.10:
            stream += struct.pack(">I", 600 * 1024 * 1024) + b"]"
            kind = "toolong"
        elif mal < 0.14:
            stream += struct.pack(">I", 5) + b"hello"
            kind = "badprefix"
        elif mal < 0.18:
            stream += struct.pack(">I", 3) + b"]q\x00"
            kind = "shortpickle"
        raw.append((frames, stream, kind))
    # og-rek's view of every intended frame body (plus the garbage bodies)
    bodies = sorted({b for frames, _, _ in raw for _, b, _ in frames} | {b"]q\x00"})
    rc, so, se = common.run_side(common.HARNESS, ["ogrek"], "".join(tg.hx(b) + "\n" for b in bodies), 300)
    dumps = dict(zip(bodies, so.split("\n")))
    cases, expect = [], {}
    for i, (frames, stream, kind) in enumerate(raw):
        cuts = "-"
        if rnd.random() < 0.7:
            cs, left = [], len(stream)
            while left > 0 and len(cs) < 50:
                c = rnd.choice([0, 1, 1, 2, 3, 4, 5, 8, 100, 4095, 4096, 4097, rnd.randint(1, max(1, left))])
                cs.append(c)
                left -= c
            cuts = ",".join(str(c) for c in cs) or "-"
        end = rnd.choice(["eof", "eof", "dataeof", "timeout"])
        decs = " ".join("%s=%s" % (tg.hx(b), dumps.get(b, "err")) for b in sorted({b for _, b, _ in frames} | {b"]q\x00"}) if b)
        line = "pickle %s %s %s %s" % (tg.hx(stream), cuts, end, decs)
        cid = "p%d" % i
        cases.append((cid, [line]))
        expect[cid] = (frames, kind, end)
    return cases, expect


def make_monitor(expect, known):
    def monitor_case(cid, lines, out):
        frames, kind, end = expect[cid]
        toks = [b"" if o.split()[1] == "-" else bytes.fromhex(o.split()[1]) for o in out if o.startswith("tok")]
        inv = int([o for o in out if o.startswith("invalid")][0].split()[1])
        ret = [o for o in out if o.startswith("ret")][0]
        want, winv = [], 0
        for pts, body, proto in (frames[:-1] if kind == "truncated" else frames):  # a frame cut short cannot be processed
            if has_bytes(pts) and proto in ("py3p3", "py3p4"):
                known.append("bytes-in-protocol>=3")
                return None          # known finding: og-rek has no BINBYTES opcodes; the frame and the connection are lost
            l, n = expected(pts)
            want += l
            winv += n
        if toks != want:
            k = next((i for i, (a, b) in enumerate(zip(toks, want)) if a != b), min(len(toks), len(want)))
            return "pickled datapoints were processed as %d lines, the equivalent plain text has %d; first difference at %d: got %r, plain text %r" % (
                len(toks), len(want), k, toks[k][:80] if k < len(toks) else None, want[k][:80] if k < len(want) else None)
        if inv != winv:
            return "%d items counted invalid, %d structurally invalid items were sent" % (inv, winv)
        if kind == "ok" and end in ("eof", "dataeof") and ret != "ret ok":
            return "a well-formed stream ended with an error"
        if kind in ("truncated", "toolong", "badprefix") and ret != "ret err":
            return "a malformed frame (%s) did not end the connection with an error" % kind
        return None
    return monitor_case


def run(ctx):
    ctx.assumptions += ["og-rek's decoder and CPython's pickler are external: their agreement on the generated pickles is observed, not proved",
                        "Python-2 style pickles (STRING/BINSTRING/SHORT_BINSTRING names, LONG) are hand-assembled after pickletools' description (no python2 here)",
                        "segmentation independence of the binary framing rests on bufio.Reader (the model reads the delivered stream as a whole); validated by random and one-byte segmentations"]
    ctx.prepare()
    ctx.lean(["Crng.Props.C13"], ["Crng.Props.C13.item_independence", "Crng.Props.C13.convert_spec", "Crng.Props.C13.malformed_ends_connection",
                                  "Crng.Props.C13.invalid_item_skipped"],
             ties=["Crng.Tie.C13", common.CODE_PICKLE])
    cases, expect = build(ctx, ctx.rng("c13"), ctx.scale(300, 6000))
    known = []
    mon = make_monitor(expect, known)
    real, model = ctx.stream("pickle-input", "frame", cases, spec_exact=True, shrink=False, timeout=ctx.scale(120, 1200),
                             classify=lambda l, o: "toks=%s" % ("0" if not any(x.startswith("tok") for x in o) else "1+"))
    nfail = 0
    for cid, lines in cases:
        r = real.get(cid)
        if r is None:
            continue
        try:
            err = mon(cid, lines, r)
        except Exception as e:
            err = "monitor could not interpret the output: %s" % e
        if err:
            nfail += 1
            if nfail <= 3:
                ctx.problem("property-monitor", "pickle-vs-plain", lines, err, True)
    ctx.oblige("property monitor pickle-vs-plain: lines = those of the equivalent plain text, invalid items counted once, malformed frames end the connection", "monitor", nfail == 0,
               "%d cases" % nfail)
    if known:
        ctx.known_hit += [k for k in ctx.known if k["id"] == "C13-binbytes" and k not in ctx.known_hit]
        ctx.notes.append("frames with python3 bytes objects under protocol >= 3: %d (known finding C13-binbytes)" % len(known))
