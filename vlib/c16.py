"""C16 — re-encoding a line for pickle, grafana.net or Kafka preserves the datapoint"""
import pickle
import struct
from . import tablegen as tg, gen

LEVEL_TEXT = ("Lean theorems Crng.Props.C16.unpickle_pickle (all names < 4 GiB, all 32-bit timestamps, all float64 patterns), length_prefix, "
              "rule_selection (first rule by priority desc then file order whose pattern matches the presented name), presented_untagged/tagged, "
              "record_fields. Regenerated obligations: Pickle/ParseDataPoint/parseMetric skeletons, priority key and Less of the schemas. "
              "Correspondence: destination.ParseDataPoint+Pickle bytes vs the model, decoded by CPython's unpickler as a third opinion; real "
              "getSchemas+parseMetric (verif accessors) vs the model on generated storage-schemas files (anchored/unanchored patterns, priorities, "
              "old and new retention syntax) x tagged/untagged lines.")

PATTERNS = [".*", "^a\\.", "^a\\.b\\.c$", "\\.count$", "^stats\\.", "^foo", "cpu", "^[a-z]+\\.[a-z]+$", ";env=prod$", "^web\\.hits;dc=", "^x\\.y$", ";a=1;b=2$", "^$",
            "^a\\.b\\.c;", "b=2", "^(foo|bar)\\."]
RETS = ["1s:1d", "10s:14d", "60:1440", "10:2160,60:10080", "1m:30d,15m:1y", "5m:1w", "1h:1y", "2:100", "15s:7d,1m:21d,15m:5y", "10s:6h", "1d:5y", "90s:1h"]
BADRETS = ["", "10", "a:b", "10s", "1x:1d", "1s:1d:3", "0:100"]


def schema(rnd):
    n = rnd.randint(1, 6)
    rows = []
    for i in range(n):
        pat = rnd.choice(PATTERNS)
        prio = rnd.choice(["-", "-", "0", "1", "5", "-1", "100", "5"])
        ret = rnd.choice(RETS) if rnd.random() < 0.95 else rnd.choice(BADRETS)
        rows.append((pat, prio, ret))
    if rnd.random() < 0.93:
        rows.insert(rnd.randint(0, len(rows)), (".*", rnd.choice(["-", "-", "0", "-5", "3"]), rnd.choice(RETS)))
    out = ["schema"]
    for pat, prio, ret in rows:
        out.append("rule %s %s %s" % (tg.hx(pat), "-" if prio == "-" else tg.hx(prio), tg.hx(ret)))
    out.append("endschema")
    return out


NAMES = ["a.b.c", "a.b", "x.y", "foo.bar", "stats.cpu.count", "web.hits", "a.b.c.d", "cpu", ".a.b.c", "a..b", "a.b.", "bar.x", "load"]
TAGS = ["a=1", "b=2", "env=prod", "dc=us", "host=h1", "z=9", "a=", "=b", "ab", "k=~v", "k!=v", "a=1=2", "x=y;", "name=foo"]


def mline(rnd):
    n = rnd.choice(NAMES)
    k = rnd.random()
    if k < 0.5:
        tags = []
    else:
        tags = [rnd.choice(TAGS[:6]) if rnd.random() < 0.85 else rnd.choice(TAGS) for _ in range(rnd.randint(1, 4))]
    name = ";".join([n] + tags)
    if rnd.random() < 0.03:
        name += ";"
    v = rnd.choice(tg.VALS[:14])
    r = rnd.random()
    if r < 0.8:
        ts = str(rnd.choice([0, 1, 15, 1500000000, 2147483647, 2147483648, 4294967295]))
    else:
        ts = rnd.choice(["4294967296", "-1", "1.5", "1e3", "15.0", "abc", "+5", "1_0", "99999999999", "5000000000", "8589934591", "8589934592", "9999999999",
                         "4772185884", "9544371768", "18446744073709551616", "00000000001", str(rnd.randint(2**32, 2**35)), str(rnd.randint(2**32, 10**12))])
    parts = [name, v, ts]
    if rnd.random() < 0.05:
        parts = parts[:2]
    line = rnd.choice(["", " "]) + rnd.choice([" ", "  ", "\t"]).join(parts) + rnd.choice(["", " ", "\n"])
    return line, tg.fbits(v)


def pm_cases(rnd, n):
    out = []
    for i in range(n):
        ops = schema(rnd)
        for _ in range(40):
            line, bits = mline(rnd)
            ops.append("pm %s %d %d" % (tg.hx(line), bits, rnd.choice([1, 1, 1, 42, 0])))
        out.append(("s%d" % i, ops))
    return out


def dp_cases(rnd, n):
    lines = []
    for _ in range(n):
        if rnd.random() < 0.25:
            nm = "n" * rnd.choice([1, 200, 228, 229, 255, 256, 257, 300, 1000])
            line, bits = "%s 1.5 %d" % (nm, rnd.choice([1500000000, 2**31, 2**32 - 1])), tg.fbits("1.5")
        else:
            line, bits = mline(rnd)
        lines.append("dp %s %d" % (tg.hx(line), bits))
    return [("d%d" % i, lines[i:i + 200]) for i in range(0, len(lines), 200)]


def dp_monitor(lines, out):
    """third opinion: CPython's unpickler on the real bytes gives [(name, (ts, value))] with the tokens of the line"""
    for l, o in zip(lines, out):
        f = l.split()
        toks = bytes.fromhex(f[1]).decode("latin-1").split()
        if o == "err":
            continue
        raw = bytes.fromhex(o)
        n = struct.unpack(">I", raw[:4])[0]
        if n != len(raw) - 4:
            return "length prefix %d but %d bytes of pickle follow" % (n, len(raw) - 4)
        try:
            obj = pickle.loads(raw[4:], encoding="latin-1")
        except Exception as e:
            return "python cannot unpickle what the destination emitted for %r: %s" % (toks, e)
        want_bits = int(f[2])
        try:
            (name, (ts, val)), = obj
        except Exception:
            return "unpickled object %r is not [(name, (ts, value))]" % (obj,)
        vb = struct.unpack(">Q", struct.pack(">d", val))[0] if isinstance(val, float) else None
        nanok = vb is not None and (vb & 0x7FF0000000000000) == 0x7FF0000000000000 and (want_bits & 0x7FF0000000000000) == 0x7FF0000000000000 and (vb & 0xFFFFFFFFFFFFF) and (want_bits & 0xFFFFFFFFFFFFF)
        if name != toks[0] or ts != int(toks[2]) or not (vb == want_bits or nanok):
            return "python decodes %r from the pickle of line %r" % (obj, toks)
    return None


def run(ctx):
    ctx.assumptions += ["og-rek's encoder is modelled byte for byte (validated here); CPython's unpickler = the 12-opcode VM of Crng/Pickle.lean on these byte sequences (cross-checked by the monitor)",
                        "storage-schemas patterns run on Go regexp vs Crng/Rx.lean; ini parsing of the file is external (sections are written one key per line)",
                        "ASCII names and tags (UTF-8 validity checks of MetricData.Validate are not modelled)"]
    ctx.prepare()
    ctx.lean(["Crng.Props.C16"], ["Crng.Props.C16.unpickle_pickle", "Crng.Props.C16.length_prefix", "Crng.Props.C16.rule_selection",
                                  "Crng.Props.C16.presented_untagged", "Crng.Props.C16.presented_tagged", "Crng.Props.C16.record_fields"],
             ties=["Crng.Tie.C16"])
    ctx.stream("datapoint-pickle", "pm", dp_cases(ctx.rng("dp"), ctx.scale(3000, 60000)), monitor=dp_monitor, spec_exact=True, shrink=False,
               classify=lambda l, o: "err=%d/%d" % (sum(1 for x in o if x == "err"), len(o)))
    ctx.stream("schemas-parseMetric", "pm", pm_cases(ctx.rng("pm"), ctx.scale(250, 5000)), spec_exact=True,
               removable=lambda l: l.startswith("pm "),
               classify=lambda l, o: (o[0] if o else "none") + " ok=%d" % sum(1 for x in o if x.startswith("ok ")))
