"""generators and model-free monitors for the disk queue (C08, C09)"""


def gen_history(rnd, maxlen, sizes, empty_get=0.0, reopen_p=0.07):
    ops = []
    depth = 0
    for _ in range(rnd.randint(1, maxlen)):
        r = rnd.random()
        if r < 0.5:
            ln = rnd.choice(sizes)
            ops.append(("put " + bytes(rnd.getrandbits(8) for _ in range(ln)).hex()).rstrip())
            depth += 1
        elif r < 0.9:
            if depth > 0:
                ops.append("get")
                depth -= 1
            elif rnd.random() < empty_get:
                ops.append("get")
        elif r < 0.9 + reopen_p:
            ops.append("reopen")
    return ops


def gen_cases(rnd, n, maxlen, tag, empty_get=0.0, maxbs=(0, 1, 5, 8, 16, 40, 100), ses=(1, 2, 3, 7, 100),
              sizes=(0, 1, 2, 3, 4, 5, 8, 12, 20), reopen_p=0.07):
    cases = []
    for i in range(n):
        maxb = rnd.choice(maxbs)
        se = rnd.choice(ses)
        ops = gen_history(rnd, maxlen, sizes, empty_get, reopen_p)
        cases.append(("%s%d" % (tag, i), ["cfg %d %d" % (maxb, se)] + ops + ["end"]))
    return cases


def fifo_monitor(lines, out):
    """C09 on the real output alone: gets return the enqueued messages in order, each once; depth exact"""
    q = []
    res = [l for l in out if not (l.startswith("crash ") or l.startswith("rec "))]
    ops = [l for l in lines if not l.startswith("cfg")]
    if len(res) != len(ops):
        return "expected %d result lines, got %d" % (len(ops), len(res))
    for op, r in zip(ops, res):
        f = r.split()
        if op.startswith("put"):
            q.append(op[4:].strip())
            if r != "put depth=%d" % len(q):
                return "after %r: %r but %d messages are pending" % (op, r, len(q))
        elif op == "get":
            if q:
                want = q.pop(0)
                if r != "get %s depth=%d" % (want, len(q)):
                    return "get delivered %r, FIFO head is %r with %d left" % (r, want, len(q))
            elif r != "get none depth=0":
                return "get on an empty queue gave %r" % r
        elif op == "reopen":
            if r != "reopen depth=%d" % len(q):
                return "after close+reopen: %r but %d messages are pending" % (r, len(q))
        elif op == "end":
            if r != "close":
                return "end: %r" % r
    return None


def crash_monitor(lines, out, stats=None):
    """C08 on the real output alone. For every crash snapshot: the recovered list is a contiguous run
    E[a:b] of the enqueued messages with r_sync <= a <= delivered and b >= w_sync (and recovery neither
    hangs nor panics)."""
    E = []
    delivered = written = r_sync = w_sync = 0
    groups = []
    g = []
    for ln in out:
        if ln.startswith("crash ") or ln.startswith("rec "):
            g.append(ln)
        else:
            groups.append((g, ln))
            g = []
    ops = ["open"] + [l for l in lines if not l.startswith("cfg")]
    # the crash lines of the initial open precede the first op's group: merge rule: groups[i] belongs to ops[i+1]
    # (open prints its crash lines without a result line, so they are part of the first group)
    ops = ops[1:]
    if len(groups) != len(ops):
        return "expected %d result lines, got %d" % (len(ops), len(groups))
    for (g, res), op in zip(groups, ops):
        isput = op.startswith("put")
        isget = op == "get"
        if isput:
            msg = op[4:].strip()
        if isget and not res.startswith("get none"):
            delivered += 1  # handed to the consumer before any fs op of this iteration
        if len(g) % 2:
            return "crash/rec lines not paired"
        wrote = False
        for k in range(0, len(g), 2):
            cl, rec = g[k], g[k + 1]
            label = cl.split()[1]
            if stats is not None:
                stats[label] = stats.get(label, 0) + 1
            if isput and label == "write.data":
                E.append(msg)
                written += 1
                wrote = True
            if label == "meta.rename":
                r_sync = delivered
                w_sync = written
            if rec == "rec hang":
                return "recovery hangs after a crash at %s during %r" % (label, op)
            parts = rec.split(" ", 2)
            cnt = int(parts[1])
            got = parts[2].split(",") if cnt > 0 and len(parts) > 2 else []
            if got == ["PANIC"]:
                return "recovery panics after a crash at %s during %r" % (label, op)
            ok = False
            for a in range(r_sync, delivered + 1):
                b = a + len(got)
                if b >= w_sync and b <= len(E) and E[a:b] == got:
                    ok = True
                    break
            if not ok:
                return ("crash at %s during %r: recovered %r is not a run E[a:b] with %d<=a<=%d, b>=%d of enqueued %r"
                        % (label, op, got, r_sync, delivered, w_sync, E))
        if isput and not wrote:
            return "put produced no segment write"
    return None
