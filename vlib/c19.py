"""C19 — order validation accepts a point only if it is newer than all accepted before"""
from . import tablegen as tg, gen
from .c01 import classify, nontrivial
from . import common

LEVEL_TEXT = ("Lean theorems Crng.Props.C19.accepted_strictly_increasing, accept_iff_newer, newer_positive_accepted, not_newer_rejected (every "
              "sequential history, hash injective on its names) + collision_counterexample; all interleavings reduce to sequential histories because "
              "the whole of validate.Ordered is one critical section (regenerated obligation Crng.Tie.C19.ordered_ok), and the gate sits between "
              "validation and blacklist on the validated key (gate_ok). Correspondence: tables with order validation on, per-name sequences "
              "(increasing, equal, decreasing, names differing by a leading dot); concurrent goroutines against the real function with a "
              "max-register monitor.")


def cases(rnd, n):
    out = []
    for i in range(n):
        t = tg.table(rnd, nbl=(0, 1), nrw=(0, 1), nagg=(0, 1), nroutes=(1, 2), order=True, levels=("none", "none"))
        names = [gen.name(rnd, 2) for _ in range(3)]
        names += ["." + names[0]]
        last = {}
        ls = []
        for _ in range(40):
            nm = rnd.choice(names)
            key = nm.lstrip(".") if nm.startswith(".") else nm
            base = last.get(key, 1500000000)
            ts = max(1, base + rnd.choice([-5, -1, 0, 0, 1, 1, 2, 10]))
            last[key] = max(base, ts)
            ls.append("in %s %d %d" % (tg.hx("%s 1 %d" % (nm, ts)), gen.fbits("1"), ts))
        out.append(("o%d" % i, t + ls + ["bad"]))
    return out


def monitor(lines, out):
    """model-free: per name (leading dot ignored) a point is forwarded/counted-in iff strictly newer than every point accepted before"""
    ins = [l for l in lines if l.startswith("in ")]
    res = [o for o in out if o.startswith("res ")]
    if len(ins) != len(res):
        return None
    newest = {}
    for l, r in zip(ins, res):
        f = bytes.fromhex(l.split()[1]).split()
        name, ts = f[0].lstrip(b".") if f[0].startswith(b".") else f[0], int(f[2])
        if f[0].startswith(b"."):
            name = f[0][1:]
        kv = dict(x.split("=") for x in r.split()[1:])
        rejected = kv["ooo"] == "1"
        should_reject = ts <= newest.get(name, 0)
        if kv["inv"] == "1":
            continue
        if rejected != should_reject:
            return "point %r (newest accepted for %r so far: %d) was %s" % (b" ".join(f), name, newest.get(name, 0), "rejected" if rejected else "accepted")
        if not rejected:
            newest[name] = ts
    return None


def conc_monitor(lines, out):
    for o in out:
        f = o.split()
        per = f[2].split(";") if len(f) > 2 else []
        allts = []
        for g in per:
            ts = [int(x) for x in g.split(",") if x]
            if any(b <= a for a, b in zip(ts, ts[1:])):
                return "one goroutine saw non-increasing accepted timestamps for name %s: %r" % (f[1], ts[:20])
            allts += ts
        if len(allts) != len(set(allts)):
            dup = sorted(t for t in set(allts) if allts.count(t) > 1)[:5]
            return "timestamps %r were accepted more than once for name %s by concurrent dispatchers" % (dup, f[1])
    return None


def run(ctx):
    ctx.assumptions += ["FNV-64a is injective on the names of the history (collision_counterexample shows the hypothesis is needed)",
                        "schedules = interleavings of the critical sections (the mutex scope is a regenerated fact); data races below that level are searched by the concurrent run only"]
    ctx.prepare()
    ctx.lean(["Crng.Props.C19"], ["Crng.Props.C19.accepted_strictly_increasing", "Crng.Props.C19.accept_iff_newer", "Crng.Props.C19.newer_positive_accepted",
                                  "Crng.Props.C19.not_newer_rejected", "Crng.Props.C19.collision_counterexample",
                                  "Crng.Props.C19.collision_breaks_newer_positive", "Crng.Props.C19.fnv_collision_1", "Crng.Props.C19.fnv_collision_2",
                                  "Crng.Props.C19.fnv_history_violates"],
             ties=["Crng.Tie.C19", common.CODE_TABLE, common.CODE_ORDERED])
    # two names with the same FNV-1a 64 digest share one entry of validate.Ordered's map (the hypothesis `hinj` of the theorems is
    # there because of this; `collision_counterexample` shows it is needed): a concrete pair, run against the real table
    col = []
    for a, b in ((b"8yn0iYCKYHlIj4-BwPqk", b"GReLUrM4wMqfg9yzV3KQ"), (b"gMPflVXtwGDXbIhP73TX", b"LtHf1prlU1bCeYZEdqWf")):
        col.append(("fnv%d" % len(col), ["lvl none none 1", "route cap - - - - - -", "build",
                                           "in %s %d %d" % (tg.hx(a + b" 1 1500000100"), gen.fbits("1"), 1500000100),
                                           "in %s %d %d" % (tg.hx(b + b" 1 1500000050"), gen.fbits("1"), 1500000050), "bad"]))

    known = []

    def col_monitor(lines, out):
        """the known finding: the second name of a colliding pair is rejected as out-of-order although nothing was accepted for it
        before (it is compared with the first name's timestamp). Anything else the monitor sees is reported as usual."""
        r = monitor(lines, out)
        if r is None:
            return "fnv64a-collision: the colliding pair no longer interferes (remove the known finding C19-fnv-collision)"
        ins = [bytes.fromhex(l.split()[1]).split()[0] for l in lines if l.startswith("in ")]
        if r.startswith("point ") and r.endswith("was rejected") and repr(ins[1])[1:] in r and "so far: 0" in r:
            known.append(ins[1])
            return None
        return "fnv64a-collision: " + r
    ctx.stream("ordered-hash-collision", "table", col, model=False, monitor=col_monitor, shrink=False)
    if known:
        ctx.known_hit += [k for k in ctx.known if k["id"] == "C19-fnv-collision" and k not in ctx.known_hit]
        ctx.notes.append("names with equal FNV-1a 64 digests share an entry of the order validator: %d pairs run (known finding C19-fnv-collision)" % len(known))
    # the digest itself, and the real validate.Ordered against the model run WITH that digest (exact, collisions included)
    rnd = ctx.rng("fnv")
    PAIRS = ((b"8yn0iYCKYHlIj4-BwPqk", b"GReLUrM4wMqfg9yzV3KQ"), (b"gMPflVXtwGDXbIhP73TX", b"LtHf1prlU1bCeYZEdqWf"))
    fl = []
    for i in range(ctx.scale(400, 8000)):
        n = rnd.choice([0, 1, 2, 3, 8, 20, 64, 300])
        fl.append("d " + tg.hx(bytes(rnd.randrange(256) for _ in range(n)) if rnd.random() < 0.5 else gen.name(rnd, 3).encode()))
    for a, b in PAIRS:
        fl += ["d " + tg.hx(a), "d " + tg.hx(b)]
    for i in range(ctx.scale(300, 6000)):
        names = [gen.name(rnd, 2).encode() for _ in range(3)] + list(rnd.choice(PAIRS))
        pts = []
        for _ in range(rnd.randint(2, 12)):
            pts += [tg.hx(rnd.choice(names)), str(rnd.choice([0, 1, 5, 5, 6, 7, 100, 2**32 - 1]))]
        fl.append("o " + " ".join(pts))
    ctx.stream("fnv-digest", "fnv", [("fnv%d" % i, fl[i:i + 200]) for i in range(0, len(fl), 200)], spec_exact=True, shrink=False,
               classify=lambda l, o: "ordered" if l and l[0].startswith("o ") else "digest")
    ctx.stream("table-order", "table", cases(ctx.rng("c19"), ctx.scale(150, 3000)), classify=classify, spec_exact=True, monitor=monitor,
               nontrivial=lambda l, o: tuple(x for x in o if "ooo=1" in x) and tuple(o) or None,
               removable=lambda l: l.startswith(("in ", "inm ", "aggin ")))
    rnd = ctx.rng("conc")
    cs = [("c%d" % i, ["run %d %d %d %d %d" % (rnd.choice([2, 4, 8, 16]), ctx.scale(20000, 200000), rnd.choice([1, 2, 5]), rnd.choice([50, 1000, 100000]), rnd.randint(1, 10**6))])
          for i in range(ctx.scale(12, 120))]
    # long histories: one busy series and a few quiet ones, timestamps spread over years, a single caller (then the per-caller
    # order is the acceptance order): whatever the validator remembers must not fade with the number of calls or with time
    cs += [("q%d" % i, ["run 1 %d %d %d %d 1" % (ctx.scale(150000, 1500000), rnd.choice([3, 6]), rnd.choice([10**8, 4 * 10**9]), rnd.randint(1, 10**6))])
           for i in range(ctx.scale(3, 20))]
    ctx.stream("ordered-concurrent", "ordconc", cs, model=False, monitor=conc_monitor, shrink=False,
               nontrivial=lambda l, o: l[0])
