"""C10 — aggregations emit exactly one correct point per bucket, once, in order"""
import struct

LEVEL_TEXT = ("Lean theorems Crng.Props.C10.emit_once / emit_ascending / late_is_counted over the bucket bookkeeping of "
              "AddOrCreate/Flush (generic in the processor), proved for every history under a non-decreasing clock and carried to the "
              "executable aggregator model by step_eq/emitted_eq. Tie: the executable model (ten processors on IEEE doubles, Lean %f) is "
              "differential-tested against aggregator.NewMocked with injected clock and ticks; model-free monitor: no (key,bucket) twice, "
              "ascending, count conservation.")

FNS = ["avg", "count", "delta", "derive", "last", "max", "min", "stdev", "percentiles", "sum"]


def bits(x):
    return struct.unpack(">Q", struct.pack(">d", x))[0]


def gen_cases(rnd, n):
    cases = []
    for i in range(n):
        fn = rnd.choice(FNS)
        interval = rnd.choice([1, 5, 10, 60])
        wait = rnd.choice([0, 5, 20, 120])
        now = 10000 + rnd.randint(0, 100)
        ops = ["cfg %s %d %d" % (fn, interval, wait)]
        if rnd.random() < 0.3:
            # sparse histories: one or two points per series and bucket, series taking turns, buckets closing in between
            # (processors that need two points to say anything; state carried from one bucket to the next would show)
            fn = rnd.choice(["derive", "derive", "delta", "stdev", "last", "percentiles", fn])
            ops = ["cfg %s %d %d" % (fn, interval, wait)]
            keys = ["a", "a.b", "zz", "q"]
            k = 0
            for _ in range(rnd.randint(4, 40)):
                key = keys[k % len(keys)]
                k += rnd.choice([1, 1, 2])
                for _ in range(rnd.choice([1, 1, 1, 2])):
                    v = rnd.choice([0.0, 1.0, 2.0, 5.0, -3.5, 10.0, round(rnd.uniform(0, 10), 2)])
                    ops.append("p %s %d %d %d" % (key, now - rnd.choice([0, 0, 1]), bits(v), now))
                    now += rnd.choice([0, 1])
                if rnd.random() < 0.6:
                    now += wait + interval + rnd.choice([1, 2, interval])
                    ops.append("t %d" % now)
            now += 1000
            ops.append("t %d" % now)
            ops.append("end")
            cases.append(("a%d" % i, ops))
            continue
        for _ in range(rnd.randint(1, 60)):
            now += rnd.choice([0, 0, 1, 1, 2, 5, 15, 40])
            if rnd.random() < 0.75:
                key = rnd.choice(["a", "a.b", "zz"])
                r = rnd.random()
                if r < 0.4:
                    ts = now - rnd.randint(0, 5)
                elif r < 0.7:
                    ts = max(0, now - wait + rnd.choice([-interval, -1, 0, 1, interval]))
                else:
                    ts = max(0, now - rnd.randint(0, wait + 2 * interval + 5))
                v = rnd.choice([0.0, 1.0, 2.0, -3.5, 0.1, 1e6, rnd.uniform(-100, 100), round(rnd.uniform(0, 10), 2)])
                ops.append("p %s %d %d %d" % (key, ts, bits(v), now))
            else:
                ops.append("t %d" % now)
        now += 1000
        ops.append("t %d" % now)
        ops.append("end")
        cases.append(("a%d" % i, ops))
    return cases


def canon(lines):
    """keep the order of timestamps as emitted, sort the lines inside one timestamp (Go map iteration order)"""
    lines = [l for l in lines if not l.startswith("held-mutated")]
    res = []
    i = 0
    while i < len(lines):
        l = lines[i]
        if l.startswith("t "):
            k = int(l.split()[1])
            grp = lines[i + 1:i + 1 + k]
            order = []
            for g in grp:
                ts = g.rsplit(" ", 1)[1]
                if ts not in order:
                    order.append(ts)
            res.append(l)
            for ts in order:
                res += sorted(g for g in grp if g.rsplit(" ", 1)[1] == ts)
            i += 1 + k
        else:
            res.append(l)
            i += 1
    return res


def monitor(lines, out):
    for l in out:
        if l.startswith("held-mutated"):
            _, was, now = l.split()
            return "an emitted line changed after it was sent: %r read %r at the end of the case (the bucket's output is not stable)" % (bytes.fromhex(was), bytes.fromhex(now))
    out = [l for l in out if not l.startswith("held-mutated")]
    cfg = lines[0].split()
    fn, interval, wait = cfg[1], int(cfg[2]), int(cfg[3])
    seen = set()
    last_ts = -1
    emitted_count = 0
    i = 0
    tooold = None
    while i < len(out):
        l = out[i]
        if l.startswith("t "):
            k = int(l.split()[1])
            for g in out[i + 1:i + 1 + k]:
                key, val, ts = g.rsplit(" ", 2)
                ts = int(ts)
                if (key, ts) in seen:
                    return "bucket (%s, %d) emitted twice" % (key, ts)
                seen.add((key, ts))
                if ts < last_ts:
                    return "bucket %d emitted after bucket %d (not ascending)" % (ts, last_ts)
                last_ts = max(last_ts, ts)
                if ts % interval:
                    return "emitted timestamp %d is not a bucket start" % ts
                if fn == "count":
                    emitted_count += int(float(val))
            i += 1 + k
        else:
            if l.startswith("tooold"):
                tooold = int(l.split()[1])
            i += 1
    npoints = sum(1 for l in lines if l.startswith("p "))
    if fn == "count" and tooold is not None and emitted_count + tooold != npoints:
        return "count conservation: %d counted in emitted buckets + %d too old != %d points" % (emitted_count, tooold, npoints)
    return None


def run(ctx):
    ctx.assumptions += ["clock non-decreasing and now >= wait (ClockOK)", "float arithmetic is Go's (IEEE binary64); NaN inputs are not generated",
                        "regex matching/expansion of the output name is Go's regexp (identity template in the correspondence runs)"]
    ctx.prepare()
    ctx.lean(["Crng.Props.C10"], ["Crng.Props.C10.emit_once", "Crng.Props.C10.emit_ascending", "Crng.Props.C10.late_is_counted",
                                  "Crng.Props.C10.step_eq", "Crng.Props.C10.emitted_eq"])
    cases = gen_cases(ctx.rng("agg"), ctx.scale(500, 8000))
    # spec-exact: which (name, bucket) lines are emitted at which tick, in which order, with which six-decimal value, is what the
    # property fixes; the executable model computes the ten functions on IEEE doubles with Go's %f
    ctx.stream("aggregator", "agg", cases, canon=canon, monitor=monitor, spec_exact=True, removable=lambda l: l.startswith(("p ", "t ")),
               classify=lambda l, o: l[0].split()[1],
               nontrivial=lambda l, o: tuple(o) if any(x.startswith("t ") and x != "t 0" for x in o) else None)
